/-
  C01 — helper lemmas: the split state machine `ranges` (Model) equals the recursive POSIX
  splitter `specSplit` (Spec) on every class list.  (Proof shape of DESIGN.md appendix C.)
-/
import YashModel.Expansion.Model
import YashModel.Expansion.Spec
namespace YashModel.Expansion

theorem dropWs_len (i : Nat) (cs : List Cls) : (dropWs i cs).2.length ≤ cs.length := by
  induction cs generalizing i with
  | nil => simp [dropWs]
  | cons c cs ih => cases c <;> simp [dropWs]; exact Nat.le_succ_of_le (ih _)

theorem takeNon_len (i : Nat) (cs : List Cls) : (takeNon i cs).2.length ≤ cs.length := by
  induction cs generalizing i with
  | nil => simp [takeNon]
  | cons c cs ih => cases c <;> simp [takeNon]; exact Nat.le_succ_of_le (ih _)

/-- dropWs result never starts with ws -/
theorem dropWs_head (i : Nat) (cs : List Cls) : ∀ r, (dropWs i cs).2 ≠ .ws :: r := by
  induction cs generalizing i with
  | nil => simp [dropWs]
  | cons c cs ih => cases c <;> simp [dropWs]; exact ih _

theorem takeNon_head (i : Nat) (cs : List Cls) : ∀ r, (takeNon i cs).2 ≠ .non :: r := by
  induction cs generalizing i with
  | nil => simp [takeNon]
  | cons c cs ih => cases c <;> simp [takeNon]; exact ih _

/-- L1: non-mid states skip whitespace -/
theorem ranges_skipWs_afterWs (i : Nat) (cs : List Cls) :
    ranges .afterWs i cs = ranges .afterWs (dropWs i cs).1 (dropWs i cs).2 := by
  induction cs generalizing i with
  | nil => simp [dropWs]
  | cons c cs ih => cases c <;> simp [dropWs, ranges]; exact ih _

theorem ranges_skipWs_afterNws (i : Nat) (cs : List Cls) :
    ranges .afterNws i cs = ranges .afterNws (dropWs i cs).1 (dropWs i cs).2 := by
  induction cs generalizing i with
  | nil => simp [dropWs]
  | cons c cs ih => cases c <;> simp [dropWs, ranges]; exact ih _

/-- continuation after a field ended at j with remaining `rest` (rest doesn't start with non) -/
def cont (j : Nat) : List Cls → List (Nat × Nat)
  | [] => []
  | .ws :: r => ranges .afterWs (j+1) r
  | .nws :: r => ranges .afterNws (j+1) r
  | .non :: r => ranges (.mid j) (j+1) r  -- unreachable in use

/-- L2: midfield consumes non-IFS chars then emits the field -/
theorem ranges_mid (s i : Nat) (cs : List Cls) :
    ranges (.mid s) i cs = (s, (takeNon i cs).1) :: cont (takeNon i cs).1 (takeNon i cs).2 := by
  induction cs generalizing i with
  | nil => simp [ranges, takeNon, cont]
  | cons c cs ih => cases c <;> simp [ranges, takeNon, cont]; exact ih _

theorem takeNon_start (i : Nat) (cs : List Cls) : i ≤ (takeNon i cs).1 := by
  induction cs generalizing i with
  | nil => simp [takeNon]
  | cons c cs ih => cases c <;> simp [takeNon]; exact Nat.le_of_succ_le (ih _)


theorem specGo_nil (fuel i : Nat) : specGo fuel i [] = [] := by
  cases fuel <;> simp [specGo]

/-- what the spec does after a field ending at `j` with remaining `rest` -/
def specCont (fuel j : Nat) (rest : List Cls) : List (Nat × Nat) :=
  let kr := dropWs j rest
  match kr.2 with
  | .nws :: rest2 =>
    let lr := dropWs (kr.1+1) rest2
    specGo fuel lr.1 lr.2
  | rest1 => specGo fuel kr.1 rest1

def SplitIH (fuel : Nat) : Prop := ∀ (i : Nat) (cs : List Cls), cs.length < fuel →
    (∀ r, cs ≠ .ws :: r) →
    ranges .afterNws i cs = specGo fuel i cs ∧
    ((∀ r, cs ≠ .nws :: r) → ranges .afterWs i cs = specGo fuel i cs)

theorem cont_spec (fuel : Nat) (ih : SplitIH fuel) (j : Nat) (rest : List Cls)
    (hlen : rest.length < fuel + 1) (hnon : ∀ r, rest ≠ .non :: r) :
    cont j rest = specCont fuel j rest := by
  cases rest with
  | nil => simp [cont, specCont, dropWs, specGo_nil]
  | cons c r =>
    cases c with
    | non => exact absurd rfl (hnon r)
    | nws =>
      simp only [cont, specCont, dropWs]
      rw [ranges_skipWs_afterNws]
      have hl := dropWs_len (j+1) r
      exact (ih _ _ (by simp at hlen; omega) (dropWs_head _ _)).1
    | ws =>
      simp only [cont, specCont, dropWs]
      rw [ranges_skipWs_afterWs]
      have hl := dropWs_len (j+1) r
      have hh := dropWs_head (j+1) r
      generalize dropWs (j+1) r = kr at *
      obtain ⟨k, kr2⟩ := kr
      simp only at *
      cases kr2 with
      | nil => simp [ranges, specGo_nil]
      | cons d kr3 =>
        cases d with
        | ws => exact absurd rfl (hh kr3)
        | nws =>
          simp only [ranges]
          rw [ranges_skipWs_afterNws]
          have hl2 := dropWs_len (k+1) kr3
          exact (ih _ _ (by simp at hlen hl; omega) (dropWs_head _ _)).1
        | non =>
          simp only
          exact (ih _ _ (by simp at hlen hl ⊢; omega) (by intro r h; cases h)).2 (by intro r h; cases h)

theorem split_main (fuel : Nat) : SplitIH fuel := by
  induction fuel with
  | zero => intro i cs h; omega
  | succ fuel ih =>
    intro i cs hlen hws
    cases cs with
    | nil => simp [ranges, specGo]
    | cons c cs =>
      cases c with
      | ws => exact absurd rfl (hws cs)
      | nws =>
        refine ⟨?_, fun h => absurd rfl (h cs)⟩
        simp only [ranges, specGo, takeNon, dropWs]
        rw [ranges_skipWs_afterNws]
        have hl := dropWs_len (i+1) cs
        congr 1
        exact (ih _ _ (by simp at hlen; omega) (dropWs_head _ _)).1
      | non =>
        have key : ranges (.mid i) (i+1) cs = specGo (fuel+1) i (.non :: cs) := by
          rw [ranges_mid]
          have hl := takeNon_len (i+1) cs
          have hn := takeNon_head (i+1) cs
          have := cont_spec fuel ih (takeNon (i+1) cs).1 (takeNon (i+1) cs).2
            (by simp at hlen; omega) hn
          rw [this]
          simp only [specGo, takeNon, specCont]
          split <;> simp_all
        exact ⟨by simp only [ranges]; exact key, fun _ => by simp only [ranges]; exact key⟩

theorem ranges_eq_specSplit_cls (cs : List Cls) : ranges .afterNws 0 cs = specSplit cs := by
  unfold specSplit
  rw [ranges_skipWs_afterNws]
  have hl := dropWs_len 0 cs
  exact (split_main _ _ _ (by omega) (dropWs_head _ _)).1


end YashModel.Expansion
