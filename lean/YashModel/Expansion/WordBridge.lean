/-
  C01 ↔ C04: the two transcriptions of word.rs / text.rs agree.  C04's `Fnmatch.PWord.expand` (Word.lean) gives the
  attributed characters of an environment-free pattern word (a parameter is given by its scalar value); this area's
  `expandWord` is the full expansion.  `corrW env pw w` decides that the C04 word `pw` describes the C01 word `w` in the
  environment `env` (same units; `param v` ↔ `$p`/`${p}` of a parameter whose value is the scalar `v`; `alt pw'` ↔
  `${p+w'}` / `${p:+w'}` of a parameter whose value makes the switch take its word); `expandWord_eq_PWord` proves that then
  the C01 expansion is exactly ONE field: C04's characters.
-/
import YashModel.Fnmatch.Word
import YashModel.Expansion.QuoteLemmas
namespace YashModel.Expansion
open Fnmatch (PTextUnit PText PWordUnit PWord PAttrChar POrigin)

def convOrigin : POrigin → Origin
  | .literal => .literal
  | .hardExpansion => .hardExpansion
  | .softExpansion => .softExpansion

/-- C04's four-field attributed character as this area's `AttrChar` -/
def convChar (c : PAttrChar) : AttrChar :=
  { value := c.value, origin := convOrigin c.origin, isQuoted := c.isQuoted, isQuoting := c.isQuoting }

/-- the switch takes its word: `${p+w}` on a set parameter, `${p:+w}` on a set and non-empty one -/
def altTaken (cond : SwCond) (v : List Char) : Bool := cond == .unset || !v.isEmpty

mutual
  def corrTU (env : Env) : PTextUnit → TextUnit → Bool
    | .lit c, .lit d => c == d
    | .bs c, .bs d => c == d
    | .param v, .param p .none => decide (resolve env p = some (.scalar v))
    | .alt pw, .param p (.switch cond .alter w) =>
      (match resolve env p with
        | some (.scalar v) => altTaken cond v
        | _ => false) && corrW env pw w
    | _, _ => false
  def corrT (env : Env) : PText → Text → Bool
    | .nil, .nil => true
    | .cons pu pt, .cons u t => corrTU env pu u && corrT env pt t
    | _, _ => false
  def corrWU (env : Env) : PWordUnit → WordUnit → Bool
    | .unq pu, .unq u => corrTU env pu u
    | .sq s, .sq s' => s == s'
    | .dq pt, .dq t => corrT env pt t
    | _, _ => false
  def corrW (env : Env) : PWord → Word → Bool
    | .nil, .nil => true
    | .cons pu pw, .cons u w => corrWU env pu u && corrW env pw w
    | _, _ => false
end

theorem conv_attribute (cs : List PAttrChar) :
    soften [cs.map convChar] = [(cs.map Fnmatch.pAttribute).map convChar] := by
  simp only [soften, List.map_cons, List.map_nil, List.map_map, List.cons.injEq, and_true]
  apply List.map_congr_left
  intro c _
  cases c with
  | mk v o q g => cases o <;> simp [convChar, convOrigin, Fnmatch.pAttribute]

theorem conv_quoteField (cs : List PAttrChar) :
    quoteField (cs.map convChar) =
      ([Fnmatch.pQuoteChar '"'] ++ cs.map Fnmatch.pSetQuoted ++ [Fnmatch.pQuoteChar '"']).map convChar := by
  simp [quoteField, quoteChar, Fnmatch.pQuoteChar, Fnmatch.pSetQuoted, convChar, convOrigin, Function.comp_def]

theorem paramFields_scalar (env : Env) (ws : Bool) (p : Param) (v : List Char) :
    paramFields env ws p (some (.scalar v)) = [toField v] := by
  unfold paramFields
  split <;> simp [valueFields, joinBySep, List.intercalate]

mutual
  theorem tu_bridge : ∀ (pu : PTextUnit) (u : TextUnit) (env : Env) (ws : Bool), corrTU env pu u = true →
      posixTextUnit env ws u = (env, .ok [pu.expand.map convChar])
    | .lit c, .lit d, env, ws, h => by
      simp only [corrTU, beq_iff_eq] at h; subst h
      simp [posixTextUnit, PTextUnit.expand, convChar, convOrigin]
    | .bs c, .bs d, env, ws, h => by
      simp only [corrTU, beq_iff_eq] at h; subst h
      simp [posixTextUnit, PTextUnit.expand, convChar, convOrigin, quoteChar, quotedLit, Fnmatch.pQuoteChar,
        Fnmatch.pQuotedLit]
    | .param v, .param p .none, env, ws, h => by
      simp only [corrTU, decide_eq_true_eq] at h
      simp [posixTextUnit, posixParam, h, paramFields_scalar, PTextUnit.expand, toField, softChar, convChar, convOrigin,
        Function.comp_def]
    | .alt pw, .param p (.switch cond .alter w), env, ws, h => by
      simp only [corrTU, Bool.and_eq_true] at h
      obtain ⟨hv, hw⟩ := h
      have ih := w_bridge pw w env ws hw
      cases hr : resolve env p with
      | none => simp [hr] at hv
      | some val =>
        cases val with
        | array vs => simp [hr] at hv
        | scalar v =>
          simp only [hr] at hv
          have htab : posixTable .alter cond (PState.of (some (.scalar v))) = .substituteWord := by
            unfold altTaken at hv
            cases cond <;> cases hve : v.isEmpty <;>
              simp_all [posixTable, PState.of, PState.ofVacancy, Vacancy.of]
          simp only [posixTextUnit, posixParam, hr, htab, ih, PTextUnit.expand]
          rw [conv_attribute]
    | .lit _, .bs _, _, _, h | .lit _, .param _ _, _, _, h | .lit _, .arith _, _, _, h | .lit _, .cmd _ _, _, _, h
    | .bs _, .lit _, _, _, h | .bs _, .param _ _, _, _, h | .bs _, .arith _, _, _, h | .bs _, .cmd _ _, _, _, h
    | .param _, .lit _, _, _, h | .param _, .bs _, _, _, h | .param _, .arith _, _, _, h | .param _, .cmd _ _, _, _, h
    | .alt _, .lit _, _, _, h | .alt _, .bs _, _, _, h | .alt _, .arith _, _, _, h | .alt _, .cmd _ _, _, _, h => by
      simp [corrTU] at h
    | .param _, .param _ .length, _, _, h | .param _, .param _ (.switch ..), _, _, h
    | .param _, .param _ (.trim ..), _, _, h => by simp [corrTU] at h
    | .alt _, .param _ .none, _, _, h | .alt _, .param _ .length, _, _, h | .alt _, .param _ (.trim ..), _, _, h
    | .alt _, .param _ (.switch _ .default _), _, _, h | .alt _, .param _ (.switch _ .assign _), _, _, h
    | .alt _, .param _ (.switch _ .error _), _, _, h => by simp [corrTU] at h

  theorem tgo_bridge : ∀ (pt : PText) (t : Text) (env : Env) (ws : Bool) (a : List AttrChar), corrT env pt t = true →
      posixTextGo env ws [a] t = (env, .ok [a ++ pt.expand.map convChar])
    | .nil, .nil, env, ws, a, _ => by simp [posixTextGo, PText.expand]
    | .cons pu pt, .cons u t, env, ws, a, h => by
      simp only [corrT, Bool.and_eq_true] at h
      simp only [posixTextGo, tu_bridge pu u env ws h.1, joinFields_one_one, tgo_bridge pt t env ws _ h.2,
        PText.expand, List.map_append, List.append_assoc]
    | .nil, .cons _ _, _, _, _, h | .cons _ _, .nil, _, _, _, h => by simp [corrT] at h

  theorem wu_bridge : ∀ (pu : PWordUnit) (u : WordUnit) (env : Env) (ws : Bool), corrWU env pu u = true →
      posixWordUnit env ws u = (env, .ok [pu.expand.map convChar])
    | .unq pu, .unq u, env, ws, h => by
      simp only [corrWU] at h
      simp only [posixWordUnit, tu_bridge pu u env ws h, PWordUnit.expand]
    | .sq s, .sq s', env, ws, h => by
      simp only [corrWU, beq_iff_eq] at h; subst h
      simp [posixWordUnit, PWordUnit.expand, quoteChar, quotedLit, Fnmatch.pQuoteChar, Fnmatch.pQuotedLit, convChar,
        convOrigin, Function.comp_def]
    | .dq pt, .dq t, env, ws, h => by
      simp only [corrWU] at h
      cases pt with
      | nil =>
        cases t with
        | nil => simp [posixWordUnit, Text.isNil, PWordUnit.expand, PText.expand, quoteField, quoteChar,
            Fnmatch.pQuoteChar, convChar, convOrigin]
        | cons u t' => simp [corrT] at h
      | cons pu pt' =>
        cases t with
        | nil => simp [corrT] at h
        | cons u t' =>
          simp only [corrT, Bool.and_eq_true] at h
          simp only [posixWordUnit, Text.isNil, Bool.false_eq_true, if_false, posixTextGo, tu_bridge pu u env false h.1,
            joinFields_nil_left, tgo_bridge pt' t' env false _ h.2, List.map_cons, List.map_nil, PWordUnit.expand,
            PText.expand]
          rw [← List.map_append, conv_quoteField]
    | .unq _, .sq _, _, _, h | .unq _, .dsq _, _, _, h | .unq _, .dq _, _, _, h | .unq _, .tilde _ _, _, _, h
    | .sq _, .unq _, _, _, h | .sq _, .dsq _, _, _, h | .sq _, .dq _, _, _, h | .sq _, .tilde _ _, _, _, h
    | .dq _, .unq _, _, _, h | .dq _, .dsq _, _, _, h | .dq _, .sq _, _, _, h | .dq _, .tilde _ _, _, _, h => by
      simp [corrWU] at h

  theorem wgo_bridge : ∀ (pw : PWord) (w : Word) (env : Env) (ws : Bool) (a : List AttrChar), corrW env pw w = true →
      posixWordGo env ws [a] w = (env, .ok [a ++ pw.expand.map convChar])
    | .nil, .nil, env, ws, a, _ => by simp [posixWordGo, PWord.expand]
    | .cons pu pw, .cons u w, env, ws, a, h => by
      simp only [corrW, Bool.and_eq_true] at h
      simp only [posixWordGo, wu_bridge pu u env ws h.1, joinFields_one_one, wgo_bridge pw w env ws _ h.2,
        PWord.expand, List.map_append, List.append_assoc]
    | .nil, .cons _ _, _, _, _, h | .cons _ _, .nil, _, _, _, h => by simp [corrW] at h

  theorem w_bridge : ∀ (pw : PWord) (w : Word) (env : Env) (ws : Bool), corrW env pw w = true →
      posixWord env ws w = (env, .ok [pw.expand.map convChar])
    | .nil, .nil, env, ws, _ => by simp [posixWord, PWord.expand]
    | .cons pu pw, .cons u w, env, ws, h => by
      simp only [corrW, Bool.and_eq_true] at h
      simp only [posixWord, wu_bridge pu u env ws h.1, wgo_bridge pw w env ws _ h.2, PWord.expand, List.map_append]
    | .nil, .cons _ _, _, _, h | .cons _ _, .nil, _, _, h => by simp [corrW] at h
end

end YashModel.Expansion
