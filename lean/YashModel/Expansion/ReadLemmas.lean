/-
  C01 — helper lemmas for `read`: `assigning::assign` (Model `readAssign`) against `specRead`.
-/
import YashModel.Expansion.Lemmas
namespace YashModel.Expansion

variable {α : Type}

/-- remove the trailing elements satisfying `p` -/
def rstrip (p : α → Bool) (l : List α) : List α := (l.reverse.dropWhile p).reverse

theorem take_of_append_eq (l A B : List α) (h : l = A ++ B) :
    l.take (l.length - B.length) = A := by
  subst h; simp

theorem rstrip_eq_take (p : α → Bool) (l : List α) :
    rstrip p l = l.take (l.length - (l.reverse.takeWhile p).length) := by
  have h : l = (l.reverse.dropWhile p).reverse ++ (l.reverse.takeWhile p).reverse := by
    have h0 := List.takeWhile_append_dropWhile (p := p) (l := l.reverse)
    have h1 : l.reverse.reverse = (l.reverse.takeWhile p ++ l.reverse.dropWhile p).reverse := by
      rw [h0]
    rw [List.reverse_reverse, List.reverse_append] at h1
    exact h1
  have := take_of_append_eq l _ _ h
  simpa [rstrip] using this.symm

theorem rstrip_cons (p : α → Bool) (x : α) (l : List α) :
    rstrip p (x :: l) = if (rstrip p l).isEmpty && p x then [] else x :: rstrip p l := by
  unfold rstrip
  rw [List.reverse_cons, List.dropWhile_append]
  by_cases h1 : (List.dropWhile p l.reverse).isEmpty
  · have h1' : List.dropWhile p l.reverse = [] := by simpa using h1
    by_cases h2 : p x <;> simp [h1', h2, List.dropWhile]
  · have h1' : List.dropWhile p l.reverse ≠ [] := by simpa using h1
    simp [h1']

theorem rstrip_drop (p : α → Bool) (l : List α) :
    ∀ s, rstrip p (l.drop s) = (rstrip p l).drop s := by
  induction l with
  | nil => intro s; simp [rstrip]
  | cons x l ih =>
    intro s
    cases s with
    | zero => simp
    | succ s =>
      simp only [List.drop_succ_cons]
      rw [ih s, rstrip_cons]
      by_cases h : ((rstrip p l).isEmpty && p x) = true
      · have he : rstrip p l = [] := by
          have := (Bool.and_eq_true _ _).mp h
          simpa using this.1
        have hp : p x = true := ((Bool.and_eq_true _ _).mp h).2
        simp [he, hp]
      · simp [h]

theorem restTrimmed_eq_slice (ifs : Ifs) (text : List AttrChar) (s : Nat) :
    restTrimmed ifs text s = slice text (s, trimmedEnd ifs text) := by
  have h1 : restTrimmed ifs text s = rstrip (fun c => ifs.classifyAttr c == .ws) (text.drop s) := rfl
  rw [h1, rstrip_drop, rstrip_eq_take]
  simp only [slice, trimmedEnd]
  rw [List.drop_take]

theorem assignFirst_eq (text : List AttrChar) :
    ∀ (n : Nat) (rs : List (Nat × Nat)),
      assignFirst text n rs =
        ((List.range n).map (fun k =>
            match rs[k]? with
            | some r => removeQuotesAndStrip (slice text r)
            | none => []),
         rs.drop n) := by
  intro n
  induction n with
  | zero => intro rs; simp [assignFirst]
  | succ n ih =>
    intro rs
    cases rs with
    | nil =>
      simp only [assignFirst, ih []]
      simp [List.range_succ_eq_map]
    | cons r rs =>
      simp only [assignFirst, ih rs]
      simp [List.range_succ_eq_map, Function.comp_def]

theorem readAssign_eq_specRead (ifs : Ifs) (text : List AttrChar) (n : Nat) :
    readAssign ifs text n = specRead ifs text n := by
  unfold readAssign specRead
  have hr : rangesOf ifs.classifyAttr text = specSplit (text.map ifs.classifyAttr) := by
    simp [rangesOf, ranges_eq_specSplit_cls]
  simp only [hr, assignFirst_eq]
  generalize specSplit (text.map ifs.classifyAttr) = rs
  congr 2
  have hhead : (rs.drop n).head? = rs[n]? := by simp [List.head?_drop]
  cases hd : rs.drop n with
  | nil =>
    rw [hd] at hhead
    simp only [List.head?_nil] at hhead
    rw [← hhead]
    simp [lastRange, slice, removeQuotesAndStrip, skipQuotes, strip]
  | cons r t =>
    rw [hd] at hhead
    simp only [List.head?_cons] at hhead
    rw [← hhead]
    have hlen : (rs.drop n).length = rs.length - n := by simp
    rw [hd] at hlen
    cases t with
    | nil =>
      simp only [List.length_cons, List.length_nil] at hlen
      have : rs.length = n + 1 := by omega
      simp [lastRange, this]
    | cons r' t' =>
      simp only [List.length_cons] at hlen
      have : ¬ (rs.length = n + 1) := by omega
      simp only [lastRange, this, if_false]
      rw [restTrimmed_eq_slice]

theorem mem_takeWhile_sat (p : α → Bool) (l : List α) : ∀ c ∈ l.takeWhile p, p c = true := by
  induction l with
  | nil => intro c hc; simp at hc
  | cons x t ih =>
    intro c hc
    by_cases hx : p x = true
    · simp only [List.takeWhile_cons, hx, if_true, List.mem_cons] at hc
      rcases hc with rfl | hc
      · exact hx
      · exact ih c hc
    · simp [hx] at hc

theorem rstrip_spec (p : α → Bool) (l : List α) :
    ∃ tail, l = rstrip p l ++ tail ∧ (∀ c ∈ tail, p c = true) ∧
      (∀ c, (rstrip p l).getLast? = some c → p c = false) := by
  refine ⟨(l.reverse.takeWhile p).reverse, ?_, ?_, ?_⟩
  · have h0 := List.takeWhile_append_dropWhile (p := p) (l := l.reverse)
    have h1 : l.reverse.reverse = (l.reverse.takeWhile p ++ l.reverse.dropWhile p).reverse := by
      rw [h0]
    rw [List.reverse_reverse, List.reverse_append] at h1
    exact h1
  · intro c hc
    rw [List.mem_reverse] at hc
    exact mem_takeWhile_sat p _ c hc
  · intro c hc
    simp only [rstrip, List.getLast?_reverse] at hc
    have := List.head?_dropWhile_not p l.reverse
    rw [hc] at this
    exact this

theorem readAssign_index (ifs : Ifs) (text : List AttrChar) (n k : Nat) (hk : k < n) :
    (readAssign ifs text n)[k]? =
      some (removeQuotesAndStrip ((splitInto ifs text)[k]?.getD [])) := by
  unfold readAssign
  simp only [assignFirst_eq]
  rw [List.getElem?_append_left (by simp [hk])]
  simp only [List.getElem?_map, List.getElem?_range hk, Option.map_some, splitInto, splitWith]
  cases h : (rangesOf ifs.classifyAttr text)[k]? with
  | none => simp [removeQuotesAndStrip, skipQuotes, strip]
  | some r => simp

theorem readAssign_last (ifs : Ifs) (text : List AttrChar) (n : Nat) :
    (readAssign ifs text n)[n]? =
      some (if (splitInto ifs text).length ≤ n + 1
            then removeQuotesAndStrip ((splitInto ifs text)[n]?.getD [])
            else removeQuotesAndStrip
              (restTrimmed ifs text (((rangesOf ifs.classifyAttr text)[n]?.getD (0, 0)).1))) := by
  rw [readAssign_eq_specRead]
  unfold specRead
  have hr : specSplit (text.map ifs.classifyAttr) = rangesOf ifs.classifyAttr text := by
    simp [rangesOf, ranges_eq_specSplit_cls]
  simp only [hr]
  rw [List.getElem?_append_right (by simp)]
  simp only [List.length_map, List.length_range, Nat.sub_self, List.getElem?_cons_zero, splitInto,
    splitWith, List.getElem?_map]
  generalize rangesOf ifs.classifyAttr text = rs
  cases h : rs[n]? with
  | none =>
    have hl : rs.length ≤ n := by
      rcases Nat.lt_or_ge n rs.length with h' | h'
      · rw [List.getElem?_eq_getElem h'] at h; cases h
      · exact h'
    have : rs.length ≤ n + 1 := by omega
    simp [this, removeQuotesAndStrip, skipQuotes, strip]
  | some r =>
    have hl : n < rs.length := by
      rcases Nat.lt_or_ge n rs.length with h' | h'
      · exact h'
      · rw [List.getElem?_eq_none h'] at h; cases h
    by_cases he : rs.length = n + 1
    · have : rs.length ≤ n + 1 := by omega
      simp [he]
    · have : ¬ rs.length ≤ n + 1 := by omega
      simp [he, this]

/-! ## `input::read`: the one-pass reader against the item-wise Spec -/

/-- the one-pass reader is the two-stage Spec: items of the whole input, cut at the first delimiter -/
theorem readInput_eq_spec_aux (raw : Bool) (delim : Char) : ∀ (n : Nat) (s : List Char), s.length ≤ n →
    readInput raw delim s = specReadInput raw delim s := by
  intro n
  induction n with
  | zero =>
    intro s hs
    have : s = [] := List.eq_nil_of_length_eq_zero (by omega)
    subst this
    simp [readInput, specReadInput, readItems]
  | succ n ih =>
    intro s hs
    cases s with
    | nil => simp [readInput, specReadInput, readItems]
    | cons c rest =>
      have ihr := ih rest (by simp at hs; omega)
      unfold specReadInput at ihr ⊢
      rw [readInput.eq_def, readItems.eq_def]; simp only []
      by_cases hd : (c == delim) = true
      · simp [hd]
      · simp only [hd, if_false, Bool.false_eq_true]
        by_cases hb : (c == '\\' && !raw) = true
        · simp only [hb, if_true]
          cases rest with
          | nil => simp [RItem.chars]
          | cons d rest' =>
            have ih2 := ih rest' (by simp at hs; omega)
            unfold specReadInput at ih2
            by_cases hn : (d == '\n') = true
            · simp [hn, ih2, RItem.chars]
            · simp [hn, ih2, RItem.chars]
        · simp only [hb, if_false, Bool.false_eq_true]
          simp [ihr, RItem.chars]

theorem readInput_eq_specReadInput (raw : Bool) (delim : Char) (s : List Char) :
    readInput raw delim s = specReadInput raw delim s :=
  readInput_eq_spec_aux raw delim s.length s (Nat.le_refl _)

/-- with `-r` there is nothing but ordinary characters and delimiters -/
theorem readItems_raw (delim : Char) : ∀ (s : List Char),
    readItems true delim s = s.map (fun c => if c == delim then RItem.delimiter else RItem.plain c)
  | [] => rfl
  | c :: rest => by
    rw [readItems.eq_def]; simp only []; rw [readItems_raw delim rest]
    by_cases hd : (c == delim) = true
    · have : c = delim := by simpa using hd
      simp [this]
    · have : ¬ c = delim := by simpa using hd
      simp [this]

/-- quote removal of the logical line = the values of its items (backslashes and continuations gone) -/
theorem removeQuotes_items (items : List RItem) :
    removeQuotesAndStrip (items.flatMap RItem.chars) = items.flatMap RItem.value := by
  induction items with
  | nil => rfl
  | cons i t ih =>
    have happ : ∀ a b : List AttrChar, removeQuotesAndStrip (a ++ b) = removeQuotesAndStrip a ++ removeQuotesAndStrip b := by
      intro a b
      induction a with
      | nil => rfl
      | cons x xs ihx =>
        simp only [removeQuotesAndStrip, List.cons_append, skipQuotes] at ihx ⊢
        by_cases hq : x.isQuoting = true <;> simp [hq, strip, ihx]
    rw [List.flatMap_cons, List.flatMap_cons, happ, ih]
    cases i <;> simp [RItem.chars, RItem.value, removeQuotesAndStrip, skipQuotes, strip, plainChar, softChar,
      readQuoting, readQuoted]

end YashModel.Expansion
