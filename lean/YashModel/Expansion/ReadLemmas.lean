/-
  C01 — helper lemmas for `read`: `assigning::assign` (Model `readAssign`) against `specRead`.
-/
import YashModel.Expansion.Lemmas
namespace YashModel.Expansion

variable {α : Type}

/-- remove the trailing elements satisfying `p` -/
def rstrip (p : α → Bool) (l : List α) : List α := (l.reverse.dropWhile p).reverse

theorem take_of_append_eq (l A B : List α) (h : l = A ++ B) :
    l.take (l.length - B.length) = A := by
  subst h; simp

theorem rstrip_eq_take (p : α → Bool) (l : List α) :
    rstrip p l = l.take (l.length - (l.reverse.takeWhile p).length) := by
  have h : l = (l.reverse.dropWhile p).reverse ++ (l.reverse.takeWhile p).reverse := by
    have h0 := List.takeWhile_append_dropWhile (p := p) (l := l.reverse)
    have h1 : l.reverse.reverse = (l.reverse.takeWhile p ++ l.reverse.dropWhile p).reverse := by
      rw [h0]
    rw [List.reverse_reverse, List.reverse_append] at h1
    exact h1
  have := take_of_append_eq l _ _ h
  simpa [rstrip] using this.symm

theorem rstrip_cons (p : α → Bool) (x : α) (l : List α) :
    rstrip p (x :: l) = if (rstrip p l).isEmpty && p x then [] else x :: rstrip p l := by
  unfold rstrip
  rw [List.reverse_cons, List.dropWhile_append]
  by_cases h1 : (List.dropWhile p l.reverse).isEmpty
  · have h1' : List.dropWhile p l.reverse = [] := by simpa using h1
    by_cases h2 : p x <;> simp [h1', h2, List.dropWhile]
  · have h1' : List.dropWhile p l.reverse ≠ [] := by simpa using h1
    simp [h1']

theorem rstrip_drop (p : α → Bool) (l : List α) :
    ∀ s, rstrip p (l.drop s) = (rstrip p l).drop s := by
  induction l with
  | nil => intro s; simp [rstrip]
  | cons x l ih =>
    intro s
    cases s with
    | zero => simp
    | succ s =>
      simp only [List.drop_succ_cons]
      rw [ih s, rstrip_cons]
      by_cases h : ((rstrip p l).isEmpty && p x) = true
      · have he : rstrip p l = [] := by
          have := (Bool.and_eq_true _ _).mp h
          simpa using this.1
        have hp : p x = true := ((Bool.and_eq_true _ _).mp h).2
        simp [he, hp]
      · simp [h]

theorem restTrimmed_eq_slice (ifs : Ifs) (text : List AttrChar) (s : Nat) :
    restTrimmed ifs text s = slice text (s, trimmedEnd ifs text) := by
  have h1 : restTrimmed ifs text s = rstrip (fun c => ifs.classifyAttr c == .ws) (text.drop s) := rfl
  rw [h1, rstrip_drop, rstrip_eq_take]
  simp only [slice, trimmedEnd]
  rw [List.drop_take]

theorem assignFirst_eq (text : List AttrChar) :
    ∀ (n : Nat) (rs : List (Nat × Nat)),
      assignFirst text n rs =
        ((List.range n).map (fun k =>
            match rs[k]? with
            | some r => removeQuotesAndStrip (slice text r)
            | none => []),
         rs.drop n) := by
  intro n
  induction n with
  | zero => intro rs; simp [assignFirst]
  | succ n ih =>
    intro rs
    cases rs with
    | nil =>
      simp only [assignFirst, ih []]
      simp [List.range_succ_eq_map]
    | cons r rs =>
      simp only [assignFirst, ih rs]
      simp [List.range_succ_eq_map, Function.comp_def]

theorem readAssign_eq_specRead (ifs : Ifs) (text : List AttrChar) (n : Nat) :
    readAssign ifs text n = specRead ifs text n := by
  unfold readAssign specRead
  have hr : rangesOf ifs.classifyAttr text = specSplit (text.map ifs.classifyAttr) := by
    simp [rangesOf, ranges_eq_specSplit_cls]
  simp only [hr, assignFirst_eq]
  generalize specSplit (text.map ifs.classifyAttr) = rs
  congr 2
  have hhead : (rs.drop n).head? = rs[n]? := by simp [List.head?_drop]
  cases hd : rs.drop n with
  | nil =>
    rw [hd] at hhead
    simp only [List.head?_nil] at hhead
    rw [← hhead]
    simp [lastRange, slice, removeQuotesAndStrip, skipQuotes, strip]
  | cons r t =>
    rw [hd] at hhead
    simp only [List.head?_cons] at hhead
    rw [← hhead]
    have hlen : (rs.drop n).length = rs.length - n := by simp
    rw [hd] at hlen
    cases t with
    | nil =>
      simp only [List.length_cons, List.length_nil] at hlen
      have : rs.length = n + 1 := by omega
      simp [lastRange, this]
    | cons r' t' =>
      simp only [List.length_cons] at hlen
      have : ¬ (rs.length = n + 1) := by omega
      simp only [lastRange, this, if_false]
      rw [restTrimmed_eq_slice]

end YashModel.Expansion
