/-
  C01 — helper lemmas: a word made only of literal characters, backslash escapes and quotes expands
  (declaratively, hence in the model) to one field of protected characters whose quote removal is
  the enclosed text.
-/
import YashModel.Expansion.PipelineLemmas
namespace YashModel.Expansion

def litChar (c : Char) : AttrChar := { value := c, origin := .literal, isQuoted := false, isQuoting := false }

/-- attributed characters of an expansion-free text unit -/
def TextUnit.pchars : TextUnit → Option (List AttrChar)
  | .lit c => some [litChar c]
  | .bs c => some [quoteChar '\\', quotedLit c]
  | .param _ _ => none
  | .cmd _ _ => none
  | .arith _ => none

def Text.pchars : Text → Option (List AttrChar)
  | .nil => some []
  | .cons u t =>
    match u.pchars, t.pchars with
    | some c, some r => some (c ++ r)
    | _, _ => none

def WordUnit.pchars : WordUnit → Option (List AttrChar)
  | .unq u => u.pchars
  | .sq s => some ([quoteChar '\''] ++ s.map quotedLit ++ [quoteChar '\''])
  | .dsq s => some ([quoteChar '$', quoteChar '\''] ++ s.map quotedLit ++ [quoteChar '\''])
  | .tilde _ _ => none
  | .dq t => t.pchars.map quoteField

def Word.pchars : Word → Option (List AttrChar)
  | .nil => some []
  | .cons u w =>
    match u.pchars, w.pchars with
    | some a, some r => some (a ++ r)
    | _, _ => none

/-- facts about the attributed characters: literal origin, and quote removal gives `s` -/
def Good (cs : List AttrChar) (s : List Char) : Prop :=
  (∀ c ∈ cs, c.origin = .literal) ∧ removeQuotesAndStrip cs = s

theorem Good.append {a b : List AttrChar} {s t : List Char} (ha : Good a s) (hb : Good b t) :
    Good (a ++ b) (s ++ t) := by
  refine ⟨?_, ?_⟩
  · intro c hc
    rcases List.mem_append.mp hc with h | h
    · exact ha.1 c h
    · exact hb.1 c h
  · rw [removeQuotesAndStrip_append, ha.2, hb.2]

theorem removeQuotes_setQuoted (xs : List AttrChar) :
    removeQuotesAndStrip (xs.map (fun c => { c with isQuoted := true })) = removeQuotesAndStrip xs := by
  induction xs with
  | nil => rfl
  | cons c t ih =>
    simp only [removeQuotesAndStrip] at ih
    by_cases h : c.isQuoting = true <;> simp [removeQuotesAndStrip, skipQuotes, strip, h, ih]

theorem Good.quoteField {cs : List AttrChar} {s : List Char} (h : Good cs s) :
    Good (quoteField cs) s := by
  refine ⟨?_, ?_⟩
  · intro c hc
    simp only [YashModel.Expansion.quoteField, List.mem_append, List.mem_singleton, List.mem_map] at hc
    rcases hc with (hc | ⟨d, hd, rfl⟩) | hc
    · subst hc; rfl
    · exact h.1 d hd
    · subst hc; rfl
  · unfold YashModel.Expansion.quoteField
    rw [removeQuotesAndStrip_append, removeQuotesAndStrip_append, removeQuotes_setQuoted, h.2]
    simp [removeQuotesAndStrip, skipQuotes, strip, quoteChar]

theorem quoted_string_good (pre : List AttrChar) (s : List Char)
    (hpre : ∀ c ∈ pre, c.origin = .literal ∧ c.isQuoting = true) :
    Good (pre ++ s.map quotedLit ++ [quoteChar '\'']) s := by
  refine ⟨?_, ?_⟩
  · intro c hc
    simp only [List.mem_append, List.mem_singleton, List.mem_map] at hc
    rcases hc with (hc | ⟨d, _, rfl⟩) | hc
    · exact (hpre c hc).1
    · rfl
    · subst hc; rfl
  · rw [removeQuotesAndStrip_append, removeQuotesAndStrip_append]
    have h1 : removeQuotesAndStrip pre = [] := by
      induction pre with
      | nil => rfl
      | cons c t ih =>
        have hc := (hpre c (by simp)).2
        have := ih (fun d hd => hpre d (by simp [hd]))
        simp only [removeQuotesAndStrip] at this
        simp [removeQuotesAndStrip, skipQuotes, hc, this]
    have h2 : removeQuotesAndStrip (s.map quotedLit) = s := by
      induction s with
      | nil => rfl
      | cons c t ih =>
        simp only [removeQuotesAndStrip] at ih
        simp [removeQuotesAndStrip, skipQuotes, strip, quotedLit, ih]
    rw [h1, h2]
    simp [removeQuotesAndStrip, skipQuotes, strip, quoteChar]

theorem textUnit_plain (u : TextUnit) (c : Char) (h : u.plain = some c) :
    ∃ cs, u.pchars = some cs ∧ Good cs [c] ∧ cs ≠ [] := by
  cases u with
  | lit d =>
    simp only [TextUnit.plain, Option.some.injEq] at h; subst h
    exact ⟨_, rfl, ⟨by simp [litChar], by simp [removeQuotesAndStrip, skipQuotes, strip, litChar]⟩, by simp⟩
  | bs d =>
    simp only [TextUnit.plain, Option.some.injEq] at h; subst h
    exact ⟨_, rfl, ⟨by simp [quoteChar, quotedLit],
      by simp [removeQuotesAndStrip, skipQuotes, strip, quoteChar, quotedLit]⟩, by simp⟩
  | param p m => simp [TextUnit.plain] at h
  | arith t => simp [TextUnit.plain] at h
  | cmd b c => simp [TextUnit.plain] at h

theorem text_plain : ∀ (t : Text) (s : List Char), t.plain = some s →
    ∃ cs, t.pchars = some cs ∧ Good cs s
  | .nil, s, h => by
    simp only [Text.plain, Option.some.injEq] at h; subst h
    exact ⟨[], rfl, by simp [Good, removeQuotesAndStrip, skipQuotes, strip]⟩
  | .cons u t, s, h => by
    simp only [Text.plain] at h
    cases hu : u.plain with
    | none => simp [hu] at h
    | some c =>
      cases ht : t.plain with
      | none => simp [hu, ht] at h
      | some r =>
        simp only [hu, ht, Option.some.injEq] at h; subst h
        obtain ⟨cu, hcu, gu, _⟩ := textUnit_plain u c hu
        obtain ⟨ct, hct, gt⟩ := text_plain t r ht
        exact ⟨cu ++ ct, by simp [Text.pchars, hcu, hct], by simpa using gu.append gt⟩

theorem wordUnit_plain (u : WordUnit) (s : List Char) (h : u.plain = some s) :
    ∃ cs, u.pchars = some cs ∧ Good cs s ∧ cs ≠ [] := by
  cases u with
  | unq t =>
    simp only [WordUnit.plain, Option.map_eq_some_iff] at h
    obtain ⟨c, hc, rfl⟩ := h
    exact textUnit_plain t c hc
  | sq q =>
    simp only [WordUnit.plain, Option.some.injEq] at h; subst h
    refine ⟨_, rfl, quoted_string_good [quoteChar '\''] q (by simp [quoteChar]), by simp⟩
  | dsq q =>
    simp only [WordUnit.plain, Option.some.injEq] at h; subst h
    refine ⟨_, rfl, quoted_string_good [quoteChar '$', quoteChar '\''] q (by simp [quoteChar]), by simp⟩
  | tilde n sl => simp [WordUnit.plain] at h
  | dq t =>
    simp only [WordUnit.plain] at h
    obtain ⟨ct, hct, gt⟩ := text_plain t s h
    exact ⟨quoteField ct, by simp [WordUnit.pchars, hct], gt.quoteField, by simp [quoteField]⟩

theorem word_plain : ∀ (w : Word) (s : List Char), w.plain = some s →
    ∃ cs, w.pchars = some cs ∧ Good cs s ∧ (w ≠ .nil → cs ≠ [])
  | .nil, s, h => by
    simp only [Word.plain, Option.some.injEq] at h; subst h
    exact ⟨[], rfl, by simp [Good, removeQuotesAndStrip, skipQuotes, strip], by simp⟩
  | .cons u w, s, h => by
    simp only [Word.plain] at h
    cases hu : u.plain with
    | none => simp [hu] at h
    | some a =>
      cases hw : w.plain with
      | none => simp [hu, hw] at h
      | some r =>
        simp only [hu, hw, Option.some.injEq] at h; subst h
        obtain ⟨cu, hcu, gu, hne⟩ := wordUnit_plain u a hu
        obtain ⟨cw, hcw, gw, _⟩ := word_plain w r hw
        exact ⟨cu ++ cw, by simp [Word.pchars, hcu, hcw], gu.append gw, by simp [hne]⟩

/-! the declarative expansion of expansion-free syntax -/

theorem posixTextUnit_pchars (env : Env) (ws : Bool) (u : TextUnit) (cs : List AttrChar)
    (h : u.pchars = some cs) : posixTextUnit env ws u = (env, .ok [cs]) := by
  cases u with
  | lit c => simp only [TextUnit.pchars, Option.some.injEq] at h; subst h; rfl
  | bs c => simp only [TextUnit.pchars, Option.some.injEq] at h; subst h; rfl
  | param p m => simp [TextUnit.pchars] at h
  | arith t => simp [TextUnit.pchars] at h
  | cmd b c => simp [TextUnit.pchars] at h

theorem joinFields_one_one (a b : List AttrChar) : joinFields [a] [b] = [a ++ b] := by
  simp [joinFields]

theorem posixTextGo_pchars (env : Env) (ws : Bool) : ∀ (t : Text) (cs a : List AttrChar),
    t.pchars = some cs → posixTextGo env ws [a] t = (env, .ok [a ++ cs])
  | .nil, cs, a, h => by
    simp only [Text.pchars, Option.some.injEq] at h; subst h; simp [posixTextGo]
  | .cons u t, cs, a, h => by
    simp only [Text.pchars] at h
    cases hu : u.pchars with
    | none => simp [hu] at h
    | some cu =>
      cases ht : t.pchars with
      | none => simp [hu, ht] at h
      | some ct =>
        simp only [hu, ht, Option.some.injEq] at h; subst h
        simp only [posixTextGo, posixTextUnit_pchars env ws u cu hu, joinFields_one_one]
        rw [posixTextGo_pchars env ws t ct (a ++ cu) ht, List.append_assoc]

theorem posixTextGo_pchars_nil (env : Env) (ws : Bool) (u : TextUnit) (t : Text) (cs : List AttrChar)
    (h : (Text.cons u t).pchars = some cs) :
    posixTextGo env ws [] (.cons u t) = (env, .ok [cs]) := by
  simp only [Text.pchars] at h
  cases hu : u.pchars with
  | none => simp [hu] at h
  | some cu =>
    cases ht : t.pchars with
    | none => simp [hu, ht] at h
    | some ct =>
      simp only [hu, ht, Option.some.injEq] at h; subst h
      simp only [posixTextGo, posixTextUnit_pchars env ws u cu hu, joinFields_nil_left]
      exact posixTextGo_pchars env ws t ct cu ht

theorem posixWordUnit_pchars (env : Env) (ws : Bool) (u : WordUnit) (cs : List AttrChar)
    (h : u.pchars = some cs) : posixWordUnit env ws u = (env, .ok [cs]) := by
  cases u with
  | unq t => exact posixTextUnit_pchars env ws t cs h
  | sq s => simp only [WordUnit.pchars, Option.some.injEq] at h; subst h; rfl
  | dsq s => simp only [WordUnit.pchars, Option.some.injEq] at h; subst h; rfl
  | tilde n sl => simp [WordUnit.pchars] at h
  | dq t =>
    simp only [WordUnit.pchars, Option.map_eq_some_iff] at h
    obtain ⟨ct, hct, rfl⟩ := h
    cases t with
    | nil =>
      simp only [Text.pchars, Option.some.injEq] at hct; subst hct
      simp [posixWordUnit, Text.isNil]
    | cons v t' =>
      simp [posixWordUnit, Text.isNil, posixTextGo_pchars_nil env false v t' ct hct]

theorem posixWordGo_pchars (env : Env) (ws : Bool) : ∀ (w : Word) (cs a : List AttrChar),
    w.pchars = some cs → posixWordGo env ws [a] w = (env, .ok [a ++ cs])
  | .nil, cs, a, h => by
    simp only [Word.pchars, Option.some.injEq] at h; subst h; simp [posixWordGo]
  | .cons u w, cs, a, h => by
    simp only [Word.pchars] at h
    cases hu : u.pchars with
    | none => simp [hu] at h
    | some cu =>
      cases hw : w.pchars with
      | none => simp [hu, hw] at h
      | some cw =>
        simp only [hu, hw, Option.some.injEq] at h; subst h
        simp only [posixWordGo, posixWordUnit_pchars env ws u cu hu, joinFields_one_one]
        rw [posixWordGo_pchars env ws w cw (a ++ cu) hw, List.append_assoc]

theorem posixWord_pchars (env : Env) (ws : Bool) (u : WordUnit) (w : Word) (cs : List AttrChar)
    (h : (Word.cons u w).pchars = some cs) :
    posixWord env ws (.cons u w) = (env, .ok [cs]) := by
  simp only [Word.pchars] at h
  cases hu : u.pchars with
  | none => simp [hu] at h
  | some cu =>
    cases hw : w.pchars with
    | none => simp [hu, hw] at h
    | some cw =>
      simp only [hu, hw, Option.some.injEq] at h; subst h
      simp only [posixWord, posixWordUnit_pchars env ws u cu hu]
      exact posixWordGo_pchars env ws w cw cu hw

/-! tilde expansion -/

/-- the attributed characters of a tilde expansion: never split (no soft-expansion character), never empty, and
    their quote removal is the text -/
theorem posixTilde_facts (env : Env) (name : List Char) (slash : Bool) :
    (∀ c ∈ posixTilde env name slash, c.origin = .hardExpansion) ∧ posixTilde env name slash ≠ [] ∧
      removeQuotesAndStrip (posixTilde env name slash) = tildeText env name slash := by
  unfold posixTilde
  by_cases h : tildeText env name slash = []
  · simp [h, emptyPathnameMark, removeQuotesAndStrip, skipQuotes, strip]
  · simp only [h, if_false]
    refine ⟨?_, by simpa using h, ?_⟩
    · intro c hc
      simp only [List.mem_map] at hc
      obtain ⟨d, _, rfl⟩ := hc
      rfl
    · generalize tildeText env name slash = t
      induction t with
      | nil => rfl
      | cons c t ih =>
        simp only [removeQuotesAndStrip] at ih
        simp [removeQuotesAndStrip, skipQuotes, strip, protectedChar, ih]

end YashModel.Expansion
