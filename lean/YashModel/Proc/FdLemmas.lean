/-
  C13 — `child_setup_establishes_hygiene`: helper lemmas (case analysis of `moveToStdinStdout`).
-/
import YashModel.Proc.FdSetup
namespace YashModel.Proc

theorem close_some {T : FdTab} {fd : Nat} {r : Res} (h : T fd = some r) :
    T.close fd = some (fun k => if k = fd then none else T k) := by
  simp [FdTab.close, h]

theorem dup2_some {T : FdTab} {frm : Nat} {r : Res} (h : T frm = some r) (to : Nat) :
    T.dup2 frm to = some (fun k => if k = to then some r else T k) := by
  simp [FdTab.dup2, h]

theorem dupTo_some {T : FdTab} {frm d : Nat} {r : Res} (h : T frm = some r) (hd : T d = none) :
    T.dupTo frm d = some (fun k => if k = d then some r else T k) := by
  simp [FdTab.dupTo, h, hd]

/-- the tail of the function: move `rp` (if any, referring to `rd jin`) to descriptor 0 -/
def moveStdin (T : FdTab) (rp : Option Nat) : Option FdTab :=
  match rp with
  | none => some T
  | some reader =>
    if reader = 0 then some T
    else
      match T.dup2 reader 0 with
      | none => none
      | some T6 => T6.close reader

/-- Moving the incoming read end to descriptor 0: afterwards it is at 0 and nowhere else; everything
    else is untouched. -/
theorem moveStdin_spec {T : FdTab} {rp : Option Nat} {jin : Nat}
    (hp : ∀ p, rp = some p → T p = some (.rd jin)) :
    ∃ T', moveStdin T rp = some T' ∧
      (rp.isSome = true → T' 0 = some (.rd jin)) ∧
      (∀ fd, (∀ p, rp = some p → fd ≠ p) → fd ≠ 0 ∨ rp = none → T' fd = T fd) ∧
      (∀ p, rp = some p → p ≠ 0 → T' p = none) := by
  cases rp with
  | none => exact ⟨T, rfl, by simp, by intro fd _ _; rfl, by simp⟩
  | some p =>
    have hTp := hp p rfl
    by_cases h0 : p = 0
    · subst h0
      refine ⟨T, by simp [moveStdin], fun _ => hTp, by intro fd _ _; rfl, by simp⟩
    · refine ⟨fun k => if k = p then none else if k = 0 then some (.rd jin) else T k, ?_, ?_, ?_, ?_⟩
      · simp only [moveStdin, h0, if_false, dup2_some hTp]
        rw [close_some (r := .rd jin) (by simp [h0, hTp])]
      · intro _; simp [Ne.symm h0]
      · intro fd hne hor
        have h1 : fd ≠ p := hne p rfl
        rcases hor with h2 | h2
        · simp [h1, h2]
        · simp at h2
      · intro q hq _; simp at hq; subst hq; simp

/-- the first half of the function: the table and the (possibly moved) `read_previous` after the `next`
    pipe has been dealt with -/
def moveStdout (T : FdTab) (ps : PipeSet) (d : Nat) : Option (FdTab × Option Nat) :=
  match ps.next with
  | none => some (T, ps.readPrevious)
  | some (reader, writer) =>
    match T.close reader with
    | none => none
    | some T1 =>
      if writer = 1 then some (T1, ps.readPrevious)
      else
        let moved : Option (FdTab × Option Nat) :=
          if ps.readPrevious = some 1 then
            match T1.dupTo 1 d with
            | none => none
            | some T2 => some (T2, some d)
          else some (T1, ps.readPrevious)
        match moved with
        | none => none
        | some (T2, rp) =>
          match T2.dup2 writer 1 with
          | none => none
          | some T3 =>
            match T3.close writer with
            | none => none
            | some T4 => some (T4, rp)

theorem move_split (T : FdTab) (ps : PipeSet) (d : Nat) :
    moveToStdinStdout T ps d =
      match moveStdout T ps d with
      | none => none
      | some (T5, rp) => moveStdin T5 rp := by
  unfold moveToStdinStdout moveStdout moveStdin
  rfl

/-- After the first half: descriptor 1 is the write end of the outgoing pipe (if there is one); `rp` refers
    to the read end of the incoming pipe (if there is one); and apart from `rp` and descriptor 1 no
    descriptor refers to a pipe end any more.  `d` = the descriptor `dup` picks: free once `reader` is closed. -/
theorem moveStdout_spec {T : FdTab} {ps : PipeSet} {jin jout d : Nat} (h : ChildStart T ps jin jout)
    (hd : ∀ r w, ps.next = some (r, w) → ps.readPrevious = some 1 → w ≠ 1 → (T d = none ∨ d = r) ∧ d ≠ 1) :
    ∃ T5 rp, moveStdout T ps d = some (T5, rp) ∧
      (rp.isSome = ps.readPrevious.isSome) ∧
      (∀ p, rp = some p → T5 p = some (.rd jin)) ∧
      (ps.next.isSome = true → T5 1 = some (.wr jout) ∧ rp ≠ some 1) ∧
      (∀ fd res, T5 fd = some res → res.isPipeEnd = true →
        rp = some fd ∨ (fd = 1 ∧ res = .wr jout ∧ ps.next.isSome = true)) := by
  cases hn : ps.next with
  | none =>
    refine ⟨T, ps.readPrevious, by simp [moveStdout, hn], rfl, h.prev, by simp, ?_⟩
    intro fd res hfd hpe
    rcases h.only fd res hfd hpe with h1 | ⟨w, h1⟩ | ⟨r, h1⟩
    · exact Or.inl h1
    · rw [hn] at h1; simp at h1
    · rw [hn] at h1; simp at h1
  | some rw =>
    obtain ⟨r, w⟩ := rw
    have hTr := h.nextR r w hn
    have hTw := h.nextW r w hn
    have hrw := h.distinctRW r w hn
    have honly : ∀ fd res, T fd = some res → res.isPipeEnd = true →
        ps.readPrevious = some fd ∨ fd = r ∨ fd = w := by
      intro fd res hfd hpe
      rcases h.only fd res hfd hpe with h1 | ⟨w', h1⟩ | ⟨r', h1⟩
      · exact Or.inl h1
      · rw [hn] at h1; simp at h1; exact Or.inr (Or.inl h1.1.symm)
      · rw [hn] at h1; simp at h1; exact Or.inr (Or.inr h1.2.symm)
    by_cases hw1 : w = 1
    · -- the write end is at descriptor 1 already
      subst hw1
      refine ⟨fun k => if k = r then none else T k, ps.readPrevious, ?_, rfl, ?_, ?_, ?_⟩
      · simp [moveStdout, hn, close_some hTr]
      · intro p hp
        have := (h.distinctP p r 1 hp hn).1
        simp [this, h.prev p hp]
      · intro _
        refine ⟨by simp [Ne.symm hrw, hTw], ?_⟩
        intro hp1
        exact (h.distinctP 1 r 1 hp1 hn).2 rfl
      · intro fd res hfd hpe
        by_cases hfr : fd = r
        · simp [hfr] at hfd
        · simp only [hfr, if_false] at hfd
          rcases honly fd res hfd hpe with h1 | h1 | h1
          · exact Or.inl h1
          · exact absurd h1 hfr
          · subst h1; rw [hTw] at hfd; simp at hfd; subst hfd
            exact Or.inr ⟨rfl, rfl, by simp⟩
    · by_cases hp1 : ps.readPrevious = some 1
      · -- the incoming read end sits at descriptor 1: `dup` it out of the way first
        obtain ⟨hdfree, hd1⟩ := hd r w hn hp1 hw1
        have hT1 : T 1 = some (.rd jin) := h.prev 1 hp1
        obtain ⟨h1r, h1w⟩ := h.distinctP 1 r w hp1 hn
        have hdw : d ≠ w := by
          rcases hdfree with h0 | h0
          · intro e; subst e; rw [hTw] at h0; simp at h0
          · rw [h0]; exact hrw
        let T1 : FdTab := fun k => if k = r then none else T k
        have hT1d : T1 d = none := by
          rcases hdfree with h0 | h0
          · simp [T1, h0]
          · simp [T1, h0]
        have hT11 : T1 1 = some (.rd jin) := by simp [T1, h1r, hT1]
        let T2 : FdTab := fun k => if k = d then some (.rd jin) else T1 k
        have hT2w : T2 w = some (.wr jout) := by simp [T2, T1, Ne.symm hdw, Ne.symm hrw, hTw]
        let T3 : FdTab := fun k => if k = 1 then some (.wr jout) else T2 k
        have hT3w : T3 w = some (.wr jout) := by simp [T3, hw1, hT2w]
        refine ⟨fun k => if k = w then none else T3 k, some d, ?_, by simp [hp1], ?_, ?_, ?_⟩
        · simp only [moveStdout, hn, close_some hTr, hw1, if_false, hp1, if_true]
          have e1 : FdTab.dupTo (fun k => if k = r then none else T k) 1 d = some T2 := dupTo_some hT11 hT1d
          rw [e1]
          simp only
          have e2 : FdTab.dup2 T2 w 1 = some T3 := dup2_some hT2w 1
          rw [e2]
          simp only
          rw [close_some hT3w]
        · intro p hp; simp at hp; subst hp
          simp [T3, T2, hdw, hd1]
        · intro _
          refine ⟨by simp [T3, Ne.symm hw1], ?_⟩
          intro e; simp at e; exact hd1 e
        · intro fd res hfd hpe
          by_cases hfw : fd = w
          · simp [hfw] at hfd
          · simp only [hfw, if_false] at hfd
            by_cases hf1 : fd = 1
            · subst hf1
              simp [T3] at hfd; subst hfd
              exact Or.inr ⟨rfl, rfl, by simp⟩
            · by_cases hfd' : fd = d
              · exact Or.inl (by rw [hfd'])
              · exfalso
                simp only [T3, hf1, if_false, T2, hfd', T1] at hfd
                by_cases hfr : fd = r
                · simp [hfr] at hfd
                · simp only [hfr, if_false] at hfd
                  rcases honly fd res hfd hpe with h1 | h1 | h1
                  · rw [hp1] at h1; simp at h1; exact hf1 h1.symm
                  · exact hfr h1
                  · exact hfw h1
      · -- the ordinary case
        let T1 : FdTab := fun k => if k = r then none else T k
        have hT1w : T1 w = some (.wr jout) := by simp [T1, Ne.symm hrw, hTw]
        let T3 : FdTab := fun k => if k = 1 then some (.wr jout) else T1 k
        have hT3w : T3 w = some (.wr jout) := by simp [T3, hw1, hT1w]
        refine ⟨fun k => if k = w then none else T3 k, ps.readPrevious, ?_, rfl, ?_, ?_, ?_⟩
        · simp only [moveStdout, hn, close_some hTr, hw1, if_false, hp1]
          have e2 : FdTab.dup2 (fun k => if k = r then none else T k) w 1 = some T3 := dup2_some hT1w 1
          rw [e2]
          simp only
          rw [close_some hT3w]
        · intro p hp
          obtain ⟨hpr, hpw⟩ := h.distinctP p r w hp hn
          have hp1' : p ≠ 1 := by intro e; subst e; exact hp1 hp
          simp [T3, T1, hpw, hp1', hpr, h.prev p hp]
        · intro _
          exact ⟨by simp [T3, Ne.symm hw1], hp1⟩
        · intro fd res hfd hpe
          by_cases hfw : fd = w
          · simp [hfw] at hfd
          · simp only [hfw, if_false] at hfd
            by_cases hf1 : fd = 1
            · subst hf1
              simp [T3] at hfd; subst hfd
              exact Or.inr ⟨rfl, rfl, by simp⟩
            · simp only [T3, hf1, if_false, T1] at hfd
              by_cases hfr : fd = r
              · simp [hfr] at hfd
              · simp only [hfr, if_false] at hfd
                rcases honly fd res hfd hpe with h1 | h1 | h1
                · exact Or.inl h1
                · exact absurd h1 hfr
                · exact absurd h1 hfw

theorem child_setup_spec {T : FdTab} {ps : PipeSet} {jin jout d : Nat} (h : ChildStart T ps jin jout)
    (hd : ∀ r w, ps.next = some (r, w) → ps.readPrevious = some 1 → w ≠ 1 → (T d = none ∨ d = r) ∧ d ≠ 1) :
    ∃ T', moveToStdinStdout T ps d = some T' ∧ ChildHygienic T' ps jin jout := by
  obtain ⟨T5, rp, hmove, hrp, hprev, hnext, honly⟩ := moveStdout_spec h hd
  obtain ⟨T', hT', hin, hsame, hgone⟩ := moveStdin_spec hprev
  refine ⟨T', by rw [move_split, hmove]; exact hT', ?_, ?_, ?_⟩
  · intro hs; exact hin (by rw [hrp]; exact hs)
  · intro hs
    obtain ⟨h1, h2⟩ := hnext hs
    rw [hsame 1 (by intro p hp e; subst e; exact h2 hp) (Or.inl (by omega))]
    exact h1
  · intro fd res hfd hpe
    cases hrpc : rp with
    | none =>
      subst hrpc
      rw [hsame fd (by simp) (Or.inr rfl)] at hfd
      rcases honly fd res hfd hpe with h1 | h1
      · simp at h1
      · exact Or.inr h1
    | some p =>
      subst hrpc
      have hsome : ps.readPrevious.isSome = true := by rw [← hrp]; rfl
      by_cases hf0 : fd = 0
      · subst hf0
        rw [hin rfl] at hfd
        simp at hfd
        exact Or.inl ⟨rfl, hfd.symm, hsome⟩
      · by_cases hfp : fd = p
        · subst hfp
          rw [hgone fd rfl hf0] at hfd; simp at hfd
        · rw [hsame fd (by intro q hq e; simp at hq; subst hq; exact hfp e) (Or.inl hf0)] at hfd
          rcases honly fd res hfd hpe with h1 | h1
          · simp at h1; exact absurd h1.symm hfp
          · exact Or.inr h1

end YashModel.Proc
