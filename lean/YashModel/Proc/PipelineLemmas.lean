/-
  C13 — helper lemmas for the pipeline model: descriptor hygiene is an invariant, under it no
  reachable state with a live stage is stuck, every step decreases a measure.
-/
import YashModel.Proc.Pipeline
namespace YashModel.Proc

/-- Descriptor hygiene: "after `move_to_stdin_stdout` a stage holds exactly its stdin reader and its
    stdout writer" (and the parent holds nothing): pipe `j` is held for reading by stage `j+1` only and
    for writing by stage `j` only.  Plus the shape facts: one pipe between neighbours, capacity respected. -/
structure Hyg (c : PCfg) (s : PSys) : Prop where
  len : s.pipes.length + 1 = s.stages.length
  holders : ∀ (j : Nat) (p : Pipe), s.pipes[j]? = some p → p.readers = [j + 1] ∧ p.writers = [j]
  bound : ∀ (j : Nat) (p : Pipe), s.pipes[j]? = some p → p.content ≤ c.cap

/-! ### frame facts of the state updates -/

theorem lt_of_get {α : Type} {l : List α} {i : Nat} {a : α} (h : l[i]? = some a) : i < l.length := by
  rcases Nat.lt_or_ge i l.length with h' | h'
  · exact h'
  · simp [List.getElem?_eq_none h'] at h

theorem get_set {α : Type} {l : List α} {i : Nat} {a : α} (h : l[i]? = some a) (b : α) (k : Nat) :
    (l.set i b)[k]? = if k = i then some b else l[k]? := by
  have hi := lt_of_get h
  simp only [List.getElem?_set]
  by_cases hk : k = i
  · subst hk; simp [hi]
  · have : ¬ i = k := fun e => hk e.symm
    simp [hk, this]

theorem addContent_pipes (s : PSys) (j m k : Nat) :
    (addContent s j m).pipes[k]? =
      if k = j then (s.pipes[j]?).map (fun p => { p with content := p.content + m }) else s.pipes[k]? := by
  unfold addContent
  cases hp : s.pipes[j]? with
  | none => by_cases hk : k = j <;> simp [hk, hp]
  | some p => simp only [get_set hp]; by_cases hk : k = j <;> simp [hk]

theorem subContent_pipes (s : PSys) (j m k : Nat) :
    (subContent s j m).pipes[k]? =
      if k = j then (s.pipes[j]?).map (fun p => { p with content := p.content - m }) else s.pipes[k]? := by
  unfold subContent
  cases hp : s.pipes[j]? with
  | none => by_cases hk : k = j <;> simp [hk, hp]
  | some p => simp only [get_set hp]; by_cases hk : k = j <;> simp [hk]

theorem addContent_stages (s : PSys) (j m : Nat) : (addContent s j m).stages = s.stages := by
  unfold addContent; split <;> rfl

theorem subContent_stages (s : PSys) (j m : Nat) : (subContent s j m).stages = s.stages := by
  unfold subContent; split <;> rfl

theorem addContent_len (s : PSys) (j m : Nat) : (addContent s j m).pipes.length = s.pipes.length := by
  unfold addContent; split <;> simp

theorem subContent_len (s : PSys) (j m : Nat) : (subContent s j m).pipes.length = s.pipes.length := by
  unfold subContent; split <;> simp

/-- changing only the stages keeps hygiene (holders and contents are untouched) -/
theorem hyg_stages {c : PCfg} {s : PSys} (h : Hyg c s) (st' : List Stage)
    (hl : st'.length = s.stages.length) : Hyg c { s with stages := st' } :=
  ⟨by simp only [hl]; exact h.len, h.holders, h.bound⟩

theorem hyg_add {c : PCfg} {s : PSys} (h : Hyg c s) (j m : Nat)
    (hb : ∀ p, s.pipes[j]? = some p → p.content + m ≤ c.cap) : Hyg c (addContent s j m) := by
  refine ⟨by rw [addContent_len, addContent_stages]; exact h.len, ?_, ?_⟩
  · intro k p hk
    rw [addContent_pipes] at hk
    by_cases hkj : k = j
    · subst hkj
      simp only [if_true] at hk
      cases hp : s.pipes[k]? with
      | none => simp [hp] at hk
      | some q => simp [hp] at hk; subst hk; exact h.holders k q hp
    · simp only [hkj, if_false] at hk; exact h.holders k p hk
  · intro k p hk
    rw [addContent_pipes] at hk
    by_cases hkj : k = j
    · subst hkj
      simp only [if_true] at hk
      cases hp : s.pipes[k]? with
      | none => simp [hp] at hk
      | some q => simp [hp] at hk; subst hk; exact hb q hp
    · simp only [hkj, if_false] at hk; exact h.bound k p hk

theorem hyg_sub {c : PCfg} {s : PSys} (h : Hyg c s) (j m : Nat) : Hyg c (subContent s j m) := by
  refine ⟨by rw [subContent_len, subContent_stages]; exact h.len, ?_, ?_⟩
  · intro k p hk
    rw [subContent_pipes] at hk
    by_cases hkj : k = j
    · subst hkj
      simp only [if_true] at hk
      cases hp : s.pipes[k]? with
      | none => simp [hp] at hk
      | some q => simp [hp] at hk; subst hk; exact h.holders k q hp
    · simp only [hkj, if_false] at hk; exact h.holders k p hk
  · intro k p hk
    rw [subContent_pipes] at hk
    by_cases hkj : k = j
    · subst hkj
      simp only [if_true] at hk
      cases hp : s.pipes[k]? with
      | none => simp [hp] at hk
      | some q =>
        simp [hp] at hk; subst hk
        have := h.bound k q hp
        simp only; omega
    · simp only [hkj, if_false] at hk; exact h.bound k p hk

/-- what `write` hands back fits into the pipe -/
theorem wrote_fits {c : PCfg} {s : PSys} {i n m : Nat} (hw : sysWrite c s i n = .wrote m) :
    (∀ p, s.pipes[i]? = some p → p.content ≤ c.cap → p.content + m ≤ c.cap) ∧ m ≤ n ∧ (1 ≤ n → 1 ≤ m) := by
  unfold sysWrite at hw
  split at hw
  · rename_i hp
    simp only [WrOut.wrote.injEq] at hw; subst hw
    exact ⟨by intro p h; simp [hp] at h, Nat.le_refl _, fun h => h⟩
  · rename_i p hp
    split at hw
    · simp at hw
    · split at hw
      · rename_i hlt
        split at hw
        · simp at hw
        · rename_i hnb
          simp only [WrOut.wrote.injEq] at hw; subst hw
          have hr0 : ¬ (c.cap - p.content = 0) := fun e => hnb (Or.inl e)
          refine ⟨?_, by omega, by intro _; omega⟩
          intro q hq hb; rw [hp] at hq; simp at hq; subst hq; omega
      · rename_i hge
        simp only [WrOut.wrote.injEq] at hw; subst hw
        refine ⟨?_, Nat.le_refl _, fun h => h⟩
        intro q hq hb; rw [hp] at hq; simp at hq; subst hq; omega

/-- what `read` hands back was in the pipe, and is at least one byte -/
theorem got_fits {s : PSys} {i want m : Nat} (hr : sysRead s i want = .got m) (hw : 1 ≤ want) :
    ∃ j p, i = j + 1 ∧ s.pipes[j]? = some p ∧ m ≤ p.content ∧ 1 ≤ m ∧ m ≤ want := by
  unfold sysRead at hr
  split at hr
  · simp at hr
  · rename_i j
    split at hr
    · simp at hr
    · rename_i p hp
      split at hr
      · split at hr <;> simp at hr
      · rename_i hne
        simp only [RdOut.got.injEq] at hr; subst hr
        exact ⟨j, p, rfl, hp, Nat.min_le_right _ _, by omega, Nat.min_le_left _ _⟩

/-- hygiene is preserved by every step of every stage -/
theorem hyg_step {c : PCfg} {s s' : PSys} {i : Nat} (h : Hyg c s) (hs : stageStep c s i = some s') :
    Hyg c s' := by
  unfold stageStep at hs
  split at hs
  · simp at hs
  · rename_i st hst
    have hex : ∀ (n : Nat) (p : SProg), Hyg c (exitStage s i n p) := by
      intro n p; exact hyg_stages h _ (by simp)
    have hsp : ∀ p : SProg, Hyg c (setProg s i p) := by
      intro p; exact hyg_stages h _ (by simp)
    split at hs
    · simp at hs
    · split at hs
      · simp only [Option.some.injEq] at hs; subst hs; exact hex _ _
      · simp only [Option.some.injEq] at hs; subst hs; exact hex _ _
      · split at hs
        · simp only [Option.some.injEq] at hs; subst hs; exact hex _ _
        · simp at hs
        · rename_i m hw
          simp only [Option.some.injEq] at hs; subst hs
          exact hyg_add (hsp _) i m (by intro p hp; exact (wrote_fits hw).1 p hp (h.bound i p hp))
      · simp only [Option.some.injEq] at hs; subst hs; exact hex _ _
      · split at hs
        · simp only [Option.some.injEq] at hs; subst hs; exact hex _ _
        · simp at hs
        · simp only [Option.some.injEq] at hs; subst hs; exact hyg_sub (hsp _) _ _
      · split at hs
        · simp only [Option.some.injEq] at hs; subst hs; exact hex _ _
        · simp at hs
        · simp only [Option.some.injEq] at hs; subst hs; exact hyg_sub h _ _
      · split at hs
        · simp only [Option.some.injEq] at hs; subst hs; exact hex _ _
        · simp at hs
        · simp only [Option.some.injEq] at hs; subst hs; exact hyg_sub (hsp _) _ _
      · split at hs
        · simp only [Option.some.injEq] at hs; subst hs; exact hex _ _
        · simp at hs
        · rename_i m hw
          simp only [Option.some.injEq] at hs; subst hs
          exact hyg_add (hsp _) i m (by intro p hp; exact (wrote_fits hw).1 p hp (h.bound i p hp))

theorem hyg_init (c : PCfg) (progs : List SProg) (hne : progs ≠ []) : Hyg c (mkPipeline progs) := by
  have hpos : 1 ≤ progs.length := by
    cases progs with
    | nil => exact absurd rfl hne
    | cons a t => simp
  refine ⟨by simp [mkPipeline]; omega, ?_, ?_⟩
  · intro j p hp
    simp only [mkPipeline, List.getElem?_map] at hp
    cases hr : (List.range (progs.length - 1))[j]? with
    | none => simp [hr] at hp
    | some k =>
      have hk : k = j := by
        have := lt_of_get hr
        rw [List.getElem?_eq_getElem this] at hr
        simpa using hr.symm
      subst hk
      simp [hr] at hp; subst hp; simp
  · intro j p hp
    simp only [mkPipeline, List.getElem?_map] at hp
    cases hr : (List.range (progs.length - 1))[j]? with
    | none => simp [hr] at hp
    | some k => simp [hr] at hp; subst hp; simp

/-! ### no deadlock -/

theorem live_single (s : PSys) (k : Nat) : s.live [k] = if s.alive k then 1 else 0 := by
  simp [PSys.live, List.countP_cons]

/-- stage `i` can write without blocking: its standard output is not a pipe, or nobody holds the
    read end any more (EPIPE), or the pipe is empty -/
def Writable (s : PSys) (i : Nat) : Prop :=
  ∀ p, s.pipes[i]? = some p → s.live p.readers = 0 ∨ p.content = 0

theorem write_not_block {c : PCfg} {s : PSys} {i n : Nat} (hv : c.Valid) (hw : Writable s i) (hn : 1 ≤ n) :
    sysWrite c s i n ≠ .block := by
  unfold sysWrite
  split
  · simp
  · rename_i p hp
    rcases hw p hp with h0 | h0
    · simp [h0]
    · split
      · simp
      · split
        · rename_i hlt
          have : ¬ (c.cap - p.content = 0 ∨ n ≤ c.pbuf) := by
            obtain ⟨h1, h2, _⟩ := hv
            rw [h0] at hlt ⊢
            omega
          simp [this]
        · simp

/-- a live stage that cannot move is blocked in a `read` or in a `write` of at least one byte -/
theorem blocked_reason {c : PCfg} {s : PSys} {i : Nat} {st : Stage} (hst : s.stages[i]? = some st)
    (hex : st.exit.isSome = false) (hn : stageStep c s i = none) :
    (∃ want, sysRead s i want = .block) ∨ (∃ n, 1 ≤ n ∧ sysWrite c s i n = .block) := by
  unfold stageStep at hn
  simp only [hst, hex] at hn
  cases hp : st.prog with
  | idle n => simp [hp] at hn
  | spew n =>
    cases n with
    | zero => simp [hp] at hn
    | succ n =>
      simp only [hp] at hn
      cases hwr : sysWrite c s i (n + 1) with
      | block => exact Or.inr ⟨n + 1, by omega, hwr⟩
      | epipe => simp [hwr] at hn
      | wrote m => simp [hwr] at hn
  | take k n =>
    cases k with
    | zero => simp [hp] at hn
    | succ k =>
      simp only [hp] at hn
      cases hrd : sysRead s i (k + 1) with
      | block => exact Or.inl ⟨_, hrd⟩
      | eof => simp [hrd] at hn
      | got m => simp [hrd] at hn
  | drain =>
    simp only [hp] at hn
    cases hrd : sysRead s i c.chunk with
    | block => exact Or.inl ⟨_, hrd⟩
    | eof => simp [hrd] at hn
    | got m => simp [hrd] at hn
  | cat b =>
    cases b with
    | zero =>
      simp only [hp] at hn
      cases hrd : sysRead s i c.chunk with
      | block => exact Or.inl ⟨_, hrd⟩
      | eof => simp [hrd] at hn
      | got m => simp [hrd] at hn
    | succ b =>
      simp only [hp] at hn
      cases hwr : sysWrite c s i (b + 1) with
      | block => exact Or.inr ⟨b + 1, by omega, hwr⟩
      | epipe => simp [hwr] at hn
      | wrote m => simp [hwr] at hn

/-- a live stage whose output cannot block can move, or some stage upstream of it can -/
theorem enabled_upto {c : PCfg} {s : PSys} (hv : c.Valid) (h : Hyg c s) :
    ∀ i : Nat, s.alive i = true → Writable s i → ∃ j s', stageStep c s j = some s' := by
  intro i
  induction i with
  | zero =>
    intro hal hw
    unfold PSys.alive at hal
    cases hst : s.stages[0]? with
    | none => simp [hst] at hal
    | some st =>
      simp only [hst] at hal
      have hex : st.exit.isSome = false := by cases h' : st.exit <;> simp_all
      cases hstep : stageStep c s 0 with
      | some s' => exact ⟨0, s', hstep⟩
      | none =>
        exfalso
        rcases blocked_reason hst hex hstep with ⟨want, hb⟩ | ⟨n, hn, hb⟩
        · simp [sysRead] at hb
        · exact write_not_block hv hw hn hb
  | succ j ih =>
    intro hal hw
    unfold PSys.alive at hal
    cases hst : s.stages[j + 1]? with
    | none => simp [hst] at hal
    | some st =>
      simp only [hst] at hal
      have hex : st.exit.isSome = false := by cases h' : st.exit <;> simp_all
      cases hstep : stageStep c s (j + 1) with
      | some s' => exact ⟨j + 1, s', hstep⟩
      | none =>
        rcases blocked_reason hst hex hstep with ⟨want, hb⟩ | ⟨n, hn, hb⟩
        · -- blocked in a read: the pipe is empty and its only writer, stage `j`, is alive: look upstream
          unfold sysRead at hb
          simp only at hb
          split at hb
          · simp at hb
          · rename_i p hp
            split at hb
            · rename_i hc0
              split at hb
              · simp at hb
              · rename_i hlw
                have hwj := (h.holders j p hp).2
                rw [hwj, live_single] at hlw
                have halj : s.alive j = true := by
                  cases ha : s.alive j <;> simp [ha] at hlw ⊢
                exact ih halj (by intro q hq; rw [hp] at hq; simp at hq; subst hq; exact Or.inr hc0)
            · simp at hb
        · exact absurd hb (write_not_block hv hw hn)

theorem alive_lt {s : PSys} {i : Nat} (h : s.alive i = true) : i < s.stages.length := by
  unfold PSys.alive at h
  cases hst : s.stages[i]? with
  | none => simp [hst] at h
  | some st => exact lt_of_get hst

/-- among the live stages there is a last one -/
theorem exists_last_alive (s : PSys) :
    ∀ (d k : Nat), s.stages.length - k ≤ d → s.alive k = true →
      ∃ i, s.alive i = true ∧ ∀ m, i < m → s.alive m = false := by
  intro d
  induction d with
  | zero =>
    intro k hk hal
    have := alive_lt hal; omega
  | succ d ih =>
    intro k hk hal
    by_cases hex : ∃ m, k < m ∧ s.alive m = true
    · obtain ⟨m, hkm, hm⟩ := hex
      have := alive_lt hm
      exact ih m (by omega) hm
    · refine ⟨k, hal, ?_⟩
      intro m hkm
      cases hm : s.alive m with
      | false => rfl
      | true => exact absurd ⟨m, hkm, hm⟩ hex

/-- Under hygiene a pipeline with a live stage is never stuck. -/
theorem pipeline_not_stuck {c : PCfg} {s : PSys} (hv : c.Valid) (h : Hyg c s) {k : Nat}
    (hal : s.alive k = true) : ∃ j s', stageStep c s j = some s' := by
  obtain ⟨i, hi, hlast⟩ := exists_last_alive s _ k (Nat.le_refl _) hal
  apply enabled_upto hv h i hi
  intro p hp
  left
  rw [(h.holders i p hp).1, live_single, hlast (i + 1) (by omega)]
  simp

/-- the writer gets EPIPE when the last (= only) reader has closed -/
theorem write_epipe {c : PCfg} {s : PSys} (h : Hyg c s) {i n : Nat} {p : Pipe}
    (hp : s.pipes[i]? = some p) (hdead : s.alive (i + 1) = false) : sysWrite c s i n = .epipe := by
  unfold sysWrite
  simp only [hp]
  rw [(h.holders i p hp).1, live_single, hdead]
  simp

end YashModel.Proc
