/-
  C13 — lemmas for the parent's side of the pipeline set-up (`ForkLoop.lean`): the invariant of the fork
  loop (`LoopInv`, `shift_inv`, `forkLoop_spec`) and the exact result of `move_to_stdin_stdout`
  (`moveStdin_exact`, `moveStdout_exact`, `move_exact`).
-/
import YashModel.Proc.ForkLoop
import YashModel.Proc.FdLemmas
import YashModel.Proc.Spec
import YashModel.Proc.Prog
namespace YashModel.Proc

/-- Invariant of the fork loop between two `shift`s: the parent's table `T` is the table `T0` the pipeline
    started with, plus exactly the descriptors of the `PipeSet` (typed as `ChildStart` says), which are
    free in `T0`. -/
structure LoopInv (T0 T : FdTab) (ps : PipeSet) (jin jout : Nat) : Prop where
  start : ChildStart T ps jin jout
  frame : ∀ fd, ps.readPrevious ≠ some fd → (∀ r w, ps.next = some (r, w) → fd ≠ r ∧ fd ≠ w) → T fd = T0 fd
  fresh : ∀ fd, (ps.readPrevious = some fd ∨ ∃ r w, ps.next = some (r, w) ∧ (fd = r ∨ fd = w)) → T0 fd = none

theorem loopInv_init {T0 : FdTab} (h0 : NoPipe T0) (a b : Nat) :
    LoopInv T0 T0 { readPrevious := none, next := none } a b := by
  refine ⟨⟨by simp, by simp, by simp, by simp, by simp, ?_⟩, by simp, by simp⟩
  intro fd res hfd hpe
  rw [h0 fd res hfd] at hpe
  simp [Res.isPipeEnd] at hpe

/-- One `PipeSet::shift` (all eight shapes: with/without `read_previous`, with/without `next`, with/without
    a new pipe): the invariant moves on by one pipe. -/
theorem shift_inv {A : Alloc} {T0 T T1 : FdTab} {ps ps1 : PipeSet} {hn : Bool} {j a b : Nat}
    (h0 : NoPipe T0) (h : LoopInv T0 T ps a b) (hs : shift A T ps hn j = some (T1, ps1)) :
    LoopInv T0 T1 ps1 b j ∧ ps1.readPrevious.isSome = ps.next.isSome ∧ ps1.next.isSome = hn := by
  obtain ⟨⟨hprev, hnR, hnW, hdRW, hdP, honly⟩, hframe, hfresh⟩ := h
  obtain ⟨rp, nx⟩ := ps
  have hother : ∀ fd res, T0 fd = some res → res.isPipeEnd = false := by
    intro fd res hfd; rw [h0 fd res hfd]; rfl
  have hpe1 : ∀ k, (Res.rd k).isPipeEnd = true := fun _ => rfl
  have hpe2 : ∀ k, (Res.wr k).isPipeEnd = true := fun _ => rfl
  rcases rp with _ | p <;> rcases nx with _ | ⟨r, w⟩ <;> cases hn <;>
    simp only [shift, shiftClose, FdTab.closeIgn, FdTab.pipe, Option.map] at hs
  all_goals (try split at hs)
  all_goals (try (simp at hs))
  all_goals (try (obtain ⟨rfl, rfl⟩ := hs))
  all_goals (refine ⟨⟨⟨?_, ?_, ?_, ?_, ?_, ?_⟩, ?_, ?_⟩, ?_, ?_⟩)
  all_goals (simp only [Option.some.injEq, Prod.mk.injEq, reduceCtorEq, false_implies, implies_true, forall_const, ne_eq, not_false_eq_true, Option.isSome_none, Option.isSome_some, forall_eq', false_or, or_false, exists_false, exists_eq', and_imp, false_and, and_true, exists_eq_left', exists_and_left] at *)
  all_goals (try grind [FdTab.closeIgn])

/-- The fork loop from stage `i` on: every child inherits a table satisfying the invariant for ITS pipes
    (`i+k-1` in, `i+k` out), has a `read_previous` iff it is not the first stage and a `next` iff it is not
    the last, and after the final `shift(false)` the parent's table is `T0` again. -/
theorem forkLoop_spec {A : Alloc} {T0 : FdTab} (h0 : NoPipe T0) :
    ∀ (rem i : Nat) (T : FdTab) (ps : PipeSet) (cs : List (FdTab × PipeSet)) (Tf : FdTab) (psf : PipeSet),
      LoopInv T0 T ps (i - 2) (i - 1) →
      ps.next.isSome = (decide (1 ≤ i) && decide (0 < rem)) →
      forkLoop A i rem T ps = some (cs, Tf, psf) →
      cs.length = rem ∧ (∀ fd, Tf fd = T0 fd) ∧ psf = { readPrevious := none, next := none } ∧
      ∀ k Tk psk, cs[k]? = some (Tk, psk) →
        LoopInv T0 Tk psk (i + k - 1) (i + k) ∧ psk.readPrevious.isSome = decide (0 < i + k) ∧
        psk.next.isSome = decide (k + 1 < rem) := by
  intro rem
  induction rem with
  | zero =>
    intro i T ps cs Tf psf hinv hnext hrun
    simp only [forkLoop] at hrun
    split at hrun
    · rename_i T' ps' hs
      simp at hrun
      obtain ⟨rfl, rfl, rfl⟩ := hrun
      obtain ⟨hinv', h1, h2⟩ := shift_inv h0 hinv hs
      simp at hnext
      rw [hnext] at h1
      obtain ⟨rp', nx'⟩ := ps'
      simp at h1 h2
      subst h1; subst h2
      refine ⟨rfl, ?_, rfl, by simp⟩
      intro fd
      exact hinv'.frame fd (by simp) (by simp)
    · simp at hrun
  | succ rem ih =>
    intro i T ps cs Tf psf hinv hnext hrun
    simp only [forkLoop] at hrun
    split at hrun
    · simp at hrun
    · rename_i T1 ps1 hs
      split at hrun
      · simp at hrun
      · rename_i cs' Tf' psf' hrec
        simp at hrun
        obtain ⟨rfl, rfl, rfl⟩ := hrun
        obtain ⟨hinv1, h1, h2⟩ := shift_inv h0 hinv hs
        have hinv1' : LoopInv T0 T1 ps1 (i + 1 - 2) (i + 1 - 1) := by
          have e1 : i + 1 - 2 = i - 1 := by omega
          have e2 : i + 1 - 1 = i := by omega
          rw [e1, e2]; exact hinv1
        obtain ⟨hlen, hTf, hpsf, hk⟩ := ih (i + 1) T1 ps1 cs' _ _ hinv1' (by rw [h2]; simp) hrec
        refine ⟨by simp [hlen], hTf, hpsf, ?_⟩
        intro k Tk psk hget
        cases k with
        | zero =>
          simp at hget
          obtain ⟨rfl, rfl⟩ := hget
          refine ⟨by simpa using hinv1, ?_, ?_⟩
          · rw [h1, hnext]; simp; omega
          · rw [h2]; simp
        | succ k =>
          simp at hget
          obtain ⟨a1, a2, a3⟩ := hk k Tk psk hget
          have e1 : i + 1 + k = i + (k + 1) := by omega
          rw [e1] at a1 a2
          exact ⟨a1, a2, by rw [a3]; simp⟩

/-! ### the exact result of `move_to_stdin_stdout` -/

/-- what the child's table must be when its command starts -/
def setupResult (T : FdTab) (ps : PipeSet) (jin jout : Nat) : FdTab := fun fd =>
  if fd = 0 ∧ ps.readPrevious.isSome then some (.rd jin)
  else if fd = 1 ∧ ps.next.isSome then some (.wr jout)
  else if T fd = some .other then some .other else none

theorem close_eq {T T' : FdTab} {fd : Nat} (h : T.close fd = some T') :
    (T fd).isSome ∧ ∀ k, T' k = if k = fd then none else T k := by
  unfold FdTab.close at h
  split at h
  · simp at h; subst h; exact ⟨by assumption, fun _ => rfl⟩
  · simp at h

theorem dup2_eq {T T' : FdTab} {frm to : Nat} (h : T.dup2 frm to = some T') :
    ∃ r, T frm = some r ∧ ∀ k, T' k = if k = to then some r else T k := by
  unfold FdTab.dup2 at h
  split at h
  · simp at h
  · rename_i r hr; simp at h; subst h; exact ⟨r, hr, fun _ => rfl⟩

theorem dupTo_eq {T T' : FdTab} {frm d : Nat} (h : T.dupTo frm d = some T') :
    ∃ r, T frm = some r ∧ T d = none ∧ ∀ k, T' k = if k = d then some r else T k := by
  unfold FdTab.dupTo at h
  split at h
  · simp at h
  · rename_i r hr
    split at h
    · rename_i hd; simp at h; subst h; exact ⟨r, hr, by simpa using hd, fun _ => rfl⟩
    · simp at h

theorem moveStdin_exact {T T' : FdTab} {rp : Option Nat} (h : moveStdin T rp = some T') :
    (rp = none → ∀ k, T' k = T k) ∧
    (∀ p, rp = some p → ∀ k, T' k = if p = 0 then T k else if k = p then none else if k = 0 then T p else T k) := by
  cases rp with
  | none => simp [moveStdin] at h; subst h; simp
  | some p =>
    refine ⟨by simp, ?_⟩
    intro q hq k
    simp at hq; subst hq
    by_cases hp : p = 0
    · simp [moveStdin, hp] at h; subst h; simp [hp]
    · simp only [moveStdin, hp, if_false] at h ⊢
      split at h
      · simp at h
      · rename_i T6 h6
        obtain ⟨r, hr, e6⟩ := dup2_eq h6
        obtain ⟨_, e7⟩ := close_eq h
        grind

theorem moveStdout_exact {T T5 : FdTab} {ps : PipeSet} {d : Nat} {rp : Option Nat}
    (h : moveStdout T ps d = some (T5, rp)) :
    match ps.next with
    | none => T5 = T ∧ rp = ps.readPrevious
    | some (r, w) =>
      (T r).isSome ∧
      if w = 1 then rp = ps.readPrevious ∧ ∀ k, T5 k = if k = r then none else T k
      else if ps.readPrevious = some 1 then
        rp = some d ∧ (d = r ∨ T d = none) ∧ d ≠ 1 ∧ (∃ x, T 1 = some x ∧ 1 ≠ r) ∧
          ∀ k, T5 k = if k = w then none else if k = 1 then (if w = d then T 1 else if w = r then none else T w)
                      else if k = d then T 1 else if k = r then none else T k
      else rp = ps.readPrevious ∧
          ∀ k, T5 k = if k = w then none else if k = 1 then (if w = r then none else T w) else if k = r then none else T k := by
  cases hn : ps.next with
  | none => simp [moveStdout, hn] at h; simp [h]
  | some rw =>
    obtain ⟨r, w⟩ := rw
    simp only [moveStdout, hn] at h ⊢
    split at h
    · simp at h
    · rename_i T1 h1
      obtain ⟨hr, e1⟩ := close_eq h1
      refine ⟨hr, ?_⟩
      by_cases hw1 : w = 1
      · simp only [hw1, if_true] at h ⊢
        simp at h
        obtain ⟨rfl, rfl⟩ := h
        exact ⟨rfl, e1⟩
      · simp only [hw1, if_false] at h ⊢
        by_cases hp1 : ps.readPrevious = some 1
        · simp only [hp1, if_true] at h ⊢
          split at h
          · simp at h
          · rename_i T2 rp2 hmv
            split at hmv
            · simp at hmv
            · rename_i T2' h2
              simp at hmv
              obtain ⟨rfl, rfl⟩ := hmv
              obtain ⟨x2, hx2, hd2, e2⟩ := dupTo_eq h2
              split at h
              · simp at h
              · rename_i T3 h3
                split at h
                · simp at h
                · rename_i T4 h4
                  simp at h
                  obtain ⟨rfl, rfl⟩ := h
                  obtain ⟨x3, hx3, e3⟩ := dup2_eq h3
                  obtain ⟨_, e4⟩ := close_eq h4
                  refine ⟨rfl, ?_, ?_, ?_, ?_⟩
                  · grind
                  · grind
                  · grind
                  · intro k; grind
        · simp only [hp1, if_false] at h ⊢
          split at h
          · simp at h
          · rename_i T3 h3
            split at h
            · simp at h
            · rename_i T4 h4
              simp at h
              obtain ⟨rfl, rfl⟩ := h
              obtain ⟨x3, hx3, e3⟩ := dup2_eq h3
              obtain ⟨_, e4⟩ := close_eq h4
              refine ⟨rfl, ?_⟩
              intro k; grind
theorem tab_cases (T : FdTab) (fd : Nat) :
    T fd = none ∨ T fd = some .other ∨ (∃ j, T fd = some (.rd j)) ∨ (∃ j, T fd = some (.wr j)) := by
  cases h : T fd with
  | none => simp
  | some res => cases res <;> simp

theorem move_exact {T T' : FdTab} {ps : PipeSet} {jin jout d : Nat} (h : ChildStart T ps jin jout)
    (hm : moveToStdinStdout T ps d = some T') : ∀ fd, T' fd = setupResult T ps jin jout fd := by
  rw [move_split] at hm
  split at hm
  · simp at hm
  · rename_i T5 rp h5
    have e5 := moveStdout_exact h5
    have e6 := moveStdin_exact hm
    obtain ⟨hprev, hnR, hnW, hdRW, hdP, honly⟩ := h
    obtain ⟨rp0, nx⟩ := ps
    have hpe1 : ∀ k, (Res.rd k).isPipeEnd = true := fun _ => rfl
    have hpe2 : ∀ k, (Res.wr k).isPipeEnd = true := fun _ => rfl
    have hpe3 : Res.other.isPipeEnd = false := rfl
    intro fd
    have c1 := tab_cases T fd
    simp only [setupResult]
    obtain ⟨e6a, e6b⟩ := e6
    clear hm h5
    rcases rp0 with _ | p <;> rcases nx with _ | ⟨r, w⟩ <;> simp only [] at e5
    all_goals (simp only [Option.some.injEq, Prod.mk.injEq, reduceCtorEq, false_implies, implies_true, forall_const, ne_eq, not_false_eq_true, Option.isSome_none, Option.isSome_some, forall_eq', false_or, or_false, exists_false, exists_eq', and_imp, false_and, and_true, exists_eq_left', exists_and_left] at *)
    · grind
    · grind
    · grind
    · obtain ⟨hr, e5⟩ := e5
      by_cases hw1 : w = 1
      · simp only [hw1, if_true] at e5
        obtain ⟨rfl, e5⟩ := e5
        have a1 := e6b p rfl fd
        have a2 := e5 fd
        have a3 := e5 p
        grind
      · simp only [hw1, if_false] at e5
        by_cases hp1 : p = 1
        · simp only [hp1, if_true] at e5
          obtain ⟨rfl, hd, hd1, ⟨x, hx, h1r⟩, e5⟩ := e5
          have a1 := e6b d rfl fd
          have a2 := e5 fd
          have a3 := e5 d
          have c2 := tab_cases T d
          grind
        · simp only [hp1, if_false] at e5
          obtain ⟨rfl, e5⟩ := e5
          have a1 := e6b p rfl fd
          have a2 := e5 fd
          have a3 := e5 p
          grind

/-- the children's tables: one per inherited table, each the result of `moveToStdinStdout` for some `dup`
    result -/
theorem childTables_spec {A : Alloc} :
    ∀ (cs : List (FdTab × PipeSet)) (i : Nat) (ts : List FdTab), childTables A i cs = some ts →
      ts.length = cs.length ∧
      ∀ (k : Nat) Tk psk, cs[k]? = some (Tk, psk) → ∃ T' d, ts[k]? = some T' ∧ moveToStdinStdout Tk psk d = some T' := by
  intro cs
  induction cs with
  | nil => intro i ts h; simp [childTables] at h; subst h; simp
  | cons c rest ih =>
    intro i ts h
    obtain ⟨T, ps⟩ := c
    simp only [childTables] at h
    split at h
    · simp at h
    · rename_i T' hT'
      split at h
      · simp at h
      · rename_i ts' hts'
        simp at h; subst h
        obtain ⟨hl, hk⟩ := ih (i + 1) ts' hts'
        refine ⟨by simp [hl], ?_⟩
        intro k Tk psk hget
        cases k with
        | zero =>
          simp at hget
          obtain ⟨rfl, rfl⟩ := hget
          exact ⟨T', _, by simp, hT'⟩
        | succ k =>
          simp at hget
          obtain ⟨T'', d, h1, h2⟩ := hk k Tk psk hget
          exact ⟨T'', d, by simpa using h1, h2⟩

/-! ### from the model's `Res` to the Spec's `FdKind` -/

/-- the Spec's name for what a descriptor refers to -/
def Res.kind : Res → Spec.FdKind
  | .rd j => .rd j
  | .wr j => .wr j
  | .other => .other

theorem loopInv_other {T0 T : FdTab} {ps : PipeSet} {a b : Nat} (h0 : NoPipe T0) (h : LoopInv T0 T ps a b) (fd : Nat) :
    T fd = some .other ↔ (T0 fd).isSome = true := by
  obtain ⟨⟨hprev, hnR, hnW, hdRW, hdP, honly⟩, hframe, hfresh⟩ := h
  obtain ⟨rp, nx⟩ := ps
  have c0 := tab_cases T0 fd
  have n0 := h0 fd
  rcases rp with _ | p <;> rcases nx with _ | ⟨r, w⟩
  all_goals (simp only [Option.some.injEq, Prod.mk.injEq, reduceCtorEq, false_implies, implies_true, forall_const, ne_eq, not_false_eq_true, forall_eq', false_or, or_false, exists_false, exists_eq', and_imp, false_and, and_true, exists_eq_left', exists_and_left] at *)
  all_goals grind

theorem kind_rd {x : Option Res} {j : Nat} : x.map Res.kind = some (.rd j) ↔ x = some (.rd j) := by
  cases x with
  | none => simp
  | some r => cases r <;> simp [Res.kind]

theorem kind_wr {x : Option Res} {j : Nat} : x.map Res.kind = some (.wr j) ↔ x = some (.wr j) := by
  cases x with
  | none => simp
  | some r => cases r <;> simp [Res.kind]


/-! ### the set-up goes through under the allocation policy of the virtual system -/

/-- every descriptor from `m` on is free -/
def Below (m : Nat) (T : FdTab) : Prop := ∀ fd, m ≤ fd → T fd = none

theorem Below.mono {m m' : Nat} {T : FdTab} (h : Below m T) (hm : m ≤ m') : Below m' T :=
  fun fd hfd => h fd (by omega)

theorem Below.closeIgn {m : Nat} {T : FdTab} (h : Below m T) (fd : Nat) : Below m (T.closeIgn fd) := by
  intro k hk
  simp only [FdTab.closeIgn]
  split
  · rfl
  · exact h k hk

theorem lowestFreeFrom_spec (T : FdTab) : ∀ (fuel d k : Nat), d ≤ k → k < d + fuel → T k = none →
    T (lowestFreeFrom T fuel d) = none ∧ lowestFreeFrom T fuel d ≤ k := by
  intro fuel
  induction fuel with
  | zero => intro d k h1 h2; omega
  | succ fuel ih =>
    intro d k h1 h2 hk
    simp only [lowestFreeFrom]
    split
    · rename_i hd
      exact ⟨by simpa using hd, h1⟩
    · rename_i hd
      have hne : d ≠ k := by
        intro e; subst e; rw [hk] at hd; simp at hd
      exact ih (d + 1) k (by omega) (by omega) hk

theorem lowestFree_spec {b m : Nat} {T : FdTab} (h : Below m T) (hm : m < b) :
    T (lowestFree b T) = none ∧ lowestFree b T ≤ m :=
  lowestFreeFrom_spec T b 0 m (by omega) (by omega) (h m (Nat.le_refl m))

theorem pipe_ok {b m : Nat} {T2 : FdTab} (j : Nat) (hb2 : Below m T2) (hm : m + 2 ≤ b) :
    ∃ T3, T2.pipe j ((Alloc.lowest b).pipeR j T2)
        ((Alloc.lowest b).pipeW j (fun k => if k = (Alloc.lowest b).pipeR j T2 then some (.rd j) else T2 k)) = some T3 ∧
      Below (m + 2) T3 := by
  have hspec : T2 ((Alloc.lowest b).pipeR j T2) = none ∧ (Alloc.lowest b).pipeR j T2 ≤ m :=
    lowestFree_spec hb2 (by omega : m < b)
  obtain ⟨hr, hrm⟩ := hspec
  generalize (Alloc.lowest b).pipeR j T2 = r at hr hrm
  have hb3 : Below (m + 1) (fun k => if k = r then some (Res.rd j) else T2 k) := by
    intro k hk
    have : k ≠ r := by omega
    simp only [this, if_false]
    exact hb2 k (by omega)
  have hspec2 : (fun k => if k = r then some (Res.rd j) else T2 k)
        ((Alloc.lowest b).pipeW j (fun k => if k = r then some (Res.rd j) else T2 k)) = none ∧
      (Alloc.lowest b).pipeW j (fun k => if k = r then some (Res.rd j) else T2 k) ≤ m + 1 :=
    lowestFree_spec hb3 (by omega : m + 1 < b)
  obtain ⟨hw, hwm⟩ := hspec2
  generalize (Alloc.lowest b).pipeW j (fun k => if k = r then some (Res.rd j) else T2 k) = w at hw hwm
  have hwr : w ≠ r := by
    intro e; subst e; simp at hw
  simp only [hwr, if_false] at hw
  have hcond : (T2 r).isNone = true ∧ (T2 w).isNone = true ∧ r ≠ w := ⟨by simp [hr], by simp [hw], Ne.symm hwr⟩
  rw [FdTab.pipe, if_pos hcond]
  refine ⟨_, rfl, ?_⟩
  intro k hk
  have h1 : k ≠ r := by omega
  have h2 : k ≠ w := by omega
  simp only [h1, h2, if_false]
  exact hb2 k (by omega)

theorem shiftClose_below {m : Nat} {T : FdTab} (ps : PipeSet) (hb : Below m T) : Below m (shiftClose T ps) := by
  obtain ⟨rp, nx⟩ := ps
  rcases rp with _ | p <;> rcases nx with _ | ⟨r, w⟩ <;> simp only [shiftClose]
  · exact hb
  · exact hb.closeIgn w
  · exact hb.closeIgn p
  · exact (hb.closeIgn p).closeIgn w

theorem shift_ok {b m : Nat} {T : FdTab} (ps : PipeSet) (hn : Bool) (j : Nat) (hb : Below m T) (hm : m + 2 ≤ b) :
    ∃ T1 ps1, shift (Alloc.lowest b) T ps hn j = some (T1, ps1) ∧ Below (m + 2) T1 := by
  have hb2 := shiftClose_below ps hb
  unfold shift
  cases hn with
  | false => exact ⟨_, _, rfl, hb2.mono (by omega)⟩
  | true =>
    obtain ⟨T3, h3, hb3⟩ := pipe_ok (b := b) j hb2 hm
    simp only [if_true]
    rw [h3]
    exact ⟨T3, _, rfl, hb3⟩

theorem forkLoop_ok {b : Nat} : ∀ (rem i m : Nat) (T : FdTab) (ps : PipeSet), Below m T → m + 2 * (rem + 1) ≤ b →
    ∃ cs Tf psf, forkLoop (Alloc.lowest b) i rem T ps = some (cs, Tf, psf) ∧ ∀ c ∈ cs, Below (m + 2 * rem) c.1 := by
  intro rem
  induction rem with
  | zero =>
    intro i m T ps hb hm
    obtain ⟨T1, ps1, hs, _⟩ := shift_ok (b := b) ps false i hb (by omega)
    exact ⟨[], T1, ps1, by simp [forkLoop, hs], by simp⟩
  | succ rem ih =>
    intro i m T ps hb hm
    obtain ⟨T1, ps1, hs, hb1⟩ := shift_ok (b := b) ps (decide (0 < rem)) i hb (by omega)
    obtain ⟨cs, Tf, psf, hrec, hcs⟩ := ih (i + 1) (m + 2) T1 ps1 hb1 (by omega)
    refine ⟨(T1, ps1) :: cs, Tf, psf, by simp [forkLoop, hs, hrec], ?_⟩
    intro c hc
    simp at hc
    rcases hc with rfl | hc
    · exact hb1.mono (by omega)
    · exact (hcs c hc).mono (by omega)

theorem childTables_ok {b M : Nat} (hM : M < b) : ∀ (cs : List (FdTab × PipeSet)) (i : Nat),
    (∀ c ∈ cs, Below M c.1 ∧ ∃ jin jout, ChildStart c.1 c.2 jin jout) →
    ∃ ts, childTables (Alloc.lowest b) i cs = some ts := by
  intro cs
  induction cs with
  | nil => intro i _; exact ⟨[], rfl⟩
  | cons c rest ih =>
    intro i h
    obtain ⟨T, ps⟩ := c
    have hc0 : Below M T ∧ ∃ jin jout, ChildStart T ps jin jout := h (T, ps) (by simp)
    obtain ⟨hb, jin, jout, hcs⟩ := hc0
    obtain ⟨ts, hts⟩ := ih (i + 1) (fun c hc => h c (by simp [hc]))
    have hb1 : Below M (dupTable T ps) := by
      unfold dupTable
      split
      · exact hb.closeIgn _
      · exact hb
    have hspec : dupTable T ps ((Alloc.lowest b).dupD i (dupTable T ps)) = none ∧
        (Alloc.lowest b).dupD i (dupTable T ps) ≤ M := lowestFree_spec hb1 hM
    obtain ⟨hd, _⟩ := hspec
    simp only [childTables]
    generalize (Alloc.lowest b).dupD i (dupTable T ps) = d at hd ⊢
    have hdok : ∀ r w, ps.next = some (r, w) → ps.readPrevious = some 1 → w ≠ 1 → (T d = none ∨ d = r) ∧ d ≠ 1 := by
      intro r w hn hp hw
      simp only [dupTable, hn, FdTab.closeIgn] at hd
      have h1r := (hcs.distinctP 1 r w hp hn).1
      have hT1' := hcs.prev 1 hp
      constructor
      · by_cases e : d = r
        · exact Or.inr e
        · simp only [e, if_false] at hd; exact Or.inl hd
      · intro e
        subst e
        simp only [h1r, if_false] at hd
        rw [hT1'] at hd; simp at hd
    obtain ⟨T', hT', _⟩ := child_setup_spec hcs hdok
    exact ⟨T' :: ts, by rw [hT', hts]⟩

/-! ### helpers about the driver's functions (`Prog.lean`) -/

theorem showRes_kind (r : Res) : showKind r.kind = showRes r := by
  cases r <;> rfl

theorem mkChildren_one (digits : List Nat) (base v : Nat) :
    mkChildren digits base [v] = [{ state := .running (fuelOf digits base) (.exited v) }] := rfl


end YashModel.Proc
