/-
  C13 — the termination measure of the pipeline model: every byte is charged once for every position
  (stage buffer, pipe, stage buffer, …) it has not yet passed, every live stage once.
-/
import YashModel.Proc.PipelineLemmas
namespace YashModel.Proc

/-- bytes a stage holds and still has to write -/
def internal : SProg → Nat
  | .spew n => n
  | .cat b => b
  | _ => 0

def aliveBit (st : Stage) : Nat := if st.exit.isNone then 1 else 0

/-- sum over all positions of the bytes at or before that position (`acc` = bytes before the list),
    plus the number of live stages -/
def pmeasure (acc : Nat) : List Stage → List Pipe → Nat
  | [], _ => 0
  | st :: ts, [] =>
    (acc + internal st.prog) + aliveBit st + pmeasure (acc + internal st.prog) ts []
  | st :: ts, p :: pt =>
    (acc + internal st.prog) + (acc + internal st.prog + p.content) + aliveBit st +
      pmeasure (acc + internal st.prog + p.content) ts pt

def pmeas (s : PSys) : Nat := pmeasure 0 s.stages s.pipes

theorem pm_mono : ∀ (ts : List Stage) (ps : List Pipe) (a b : Nat), a ≤ b →
    pmeasure a ts ps ≤ pmeasure b ts ps := by
  intro ts
  induction ts with
  | nil => intro ps a b _; simp [pmeasure]
  | cons st tt ih =>
    intro ps a b hab
    cases ps with
    | nil =>
      have := ih [] (a + internal st.prog) (b + internal st.prog) (by omega)
      simp only [pmeasure]; omega
    | cons p pt =>
      have := ih pt (a + internal st.prog + p.content) (b + internal st.prog + p.content) (by omega)
      simp only [pmeasure]; omega

/-- the head stage replaced and the bytes before it not more than before -/
theorem pm_head (st st' : Stage) (tt : List Stage) (ps : List Pipe) (a a' : Nat)
    (hacc : a' + internal st'.prog ≤ a + internal st.prog) (hbit : aliveBit st' ≤ aliveBit st) :
    pmeasure a' (st' :: tt) ps + (a + internal st.prog - (a' + internal st'.prog)) +
      (aliveBit st - aliveBit st') ≤ pmeasure a (st :: tt) ps := by
  cases ps with
  | nil =>
    have := pm_mono tt [] (a' + internal st'.prog) (a + internal st.prog) hacc
    simp only [pmeasure]; omega
  | cons p pt =>
    have := pm_mono tt pt (a' + internal st'.prog + p.content) (a + internal st.prog + p.content) (by omega)
    simp only [pmeasure]; omega

/-- only stage `i` changes: it holds no more bytes and is no more alive than before -/
theorem pm_stage : ∀ (ts : List Stage) (ps : List Pipe) (acc i : Nat) (st st' : Stage),
    ts[i]? = some st → internal st'.prog ≤ internal st.prog → aliveBit st' ≤ aliveBit st →
    pmeasure acc (ts.set i st') ps + (internal st.prog - internal st'.prog) +
      (aliveBit st - aliveBit st') ≤ pmeasure acc ts ps := by
  intro ts
  induction ts with
  | nil => intro ps acc i st st' h; simp at h
  | cons s0 tt ih =>
    intro ps acc i st st' h hint hbit
    cases i with
    | zero =>
      simp at h; subst h
      have := pm_head s0 st' tt ps acc acc (by omega) hbit
      simp only [List.set_cons_zero]; omega
    | succ i =>
      have h' : tt[i]? = some st := by simpa using h
      cases ps with
      | nil =>
        have := ih [] (acc + internal s0.prog) i st st' h' hint hbit
        simp only [List.set_cons_succ, pmeasure]; omega
      | cons p pt =>
        have := ih pt (acc + internal s0.prog + p.content) i st st' h' hint hbit
        simp only [List.set_cons_succ, pmeasure]; omega

/-- stage `i` moves `m` of its bytes into pipe `i` -/
theorem pm_write : ∀ (ts : List Stage) (ps : List Pipe) (acc i m : Nat) (st st' : Stage) (p p' : Pipe),
    ts[i]? = some st → ps[i]? = some p → internal st'.prog + m = internal st.prog →
    aliveBit st' = aliveBit st → p'.content = p.content + m →
    pmeasure acc (ts.set i st') (ps.set i p') + m = pmeasure acc ts ps := by
  intro ts
  induction ts with
  | nil => intro ps acc i m st st' p p' h; simp at h
  | cons s0 tt ih =>
    intro ps acc i m st st' p p' h hp hint hbit hc
    cases ps with
    | nil => simp at hp
    | cons p0 pt =>
      cases i with
      | zero =>
        simp at h hp; subst h; subst hp
        simp only [List.set_cons_zero, pmeasure, hbit, hc]
        have e : acc + internal st'.prog + (p0.content + m) = acc + internal s0.prog + p0.content := by omega
        rw [e]; omega
      | succ i =>
        have h' : tt[i]? = some st := by simpa using h
        have hp' : pt[i]? = some p := by simpa using hp
        have := ih pt (acc + internal s0.prog + p0.content) i m st st' p p' h' hp' hint hbit hc
        simp only [List.set_cons_succ, pmeasure]; omega

/-- `m` bytes leave pipe `j`; stage `j+1` takes at most that many into its buffer -/
theorem pm_read : ∀ (ts : List Stage) (ps : List Pipe) (acc j m : Nat) (st st' : Stage) (p p' : Pipe),
    ts[j + 1]? = some st → ps[j]? = some p → internal st'.prog ≤ internal st.prog + m →
    aliveBit st' = aliveBit st → p'.content + m = p.content →
    pmeasure acc (ts.set (j + 1) st') (ps.set j p') + m ≤ pmeasure acc ts ps := by
  intro ts
  induction ts with
  | nil => intro ps acc j m st st' p p' h; simp at h
  | cons s0 tt ih =>
    intro ps acc j m st st' p p' h hp hint hbit hc
    cases ps with
    | nil => simp at hp
    | cons p0 pt =>
      cases j with
      | zero =>
        simp at hp; subst hp
        cases tt with
        | nil => simp at h
        | cons s1 t2 =>
          simp at h; subst h
          have := pm_head s1 st' t2 pt (acc + internal s0.prog + p0.content)
            (acc + internal s0.prog + p'.content) (by omega) (by omega)
          simp only [List.set_cons_succ, List.set_cons_zero, pmeasure] at this ⊢
          omega
      | succ j =>
        have h' : tt[j + 1]? = some st := by simpa using h
        have hp' : pt[j]? = some p := by simpa using hp
        have := ih pt (acc + internal s0.prog + p0.content) j m st st' p p' h' hp' hint hbit hc
        simp only [List.set_cons_succ, pmeasure]; omega

theorem set_self {α : Type} {l : List α} {i : Nat} {a : α} (h : l[i]? = some a) : l.set i a = l := by
  apply List.ext_getElem?
  intro k
  rw [get_set h]
  by_cases hk : k = i
  · subst hk; simp [h]
  · simp [hk]

/-- Every step of every stage strictly decreases the measure. -/
theorem pmeas_step {c : PCfg} {s s' : PSys} {i : Nat} (hv : c.Valid)
    (hs : stageStep c s i = some s') : pmeas s' < pmeas s := by
  unfold stageStep at hs
  split at hs
  · simp at hs
  · rename_i st hst
    split at hs
    · simp at hs
    · rename_i hex
      have hnone : st.exit = none := by cases h' : st.exit <;> simp_all
      have hbit1 : aliveBit st = 1 := by simp [aliveBit, hnone]
      -- the process ends
      have hexit : ∀ (n : Nat) (p : SProg), internal p ≤ internal st.prog →
          pmeas (exitStage s i n p) < pmeas s := by
        intro n p hp
        have h0 : aliveBit ({ prog := p, exit := some n } : Stage) = 0 := rfl
        have hi : internal ({ prog := p, exit := some n } : Stage).prog = internal p := rfl
        have := pm_stage s.stages s.pipes 0 i st { prog := p, exit := some n } hst hp
          (by rw [h0]; omega)
        rw [h0, hbit1, hi] at this
        simp only [pmeas, exitStage]
        omega
      -- a write of `m ≥ 1` bytes out of the stage's buffer
      have hwrite : ∀ (m : Nat) (p : SProg), 1 ≤ m → internal p + m = internal st.prog →
          pmeas (addContent (setProg s i p) i m) < pmeas s := by
        intro m p hm hp
        have h1 : aliveBit ({ prog := p } : Stage) = 1 := rfl
        have hi : internal ({ prog := p } : Stage).prog = internal p := rfl
        cases hpipe : s.pipes[i]? with
        | none =>
          have := pm_stage s.stages s.pipes 0 i st { prog := p } hst (by rw [hi]; omega)
            (by rw [h1, hbit1]; omega)
          rw [hi, h1, hbit1] at this
          have e : addContent (setProg s i p) i m = setProg s i p := by
            unfold addContent; simp [setProg, hpipe]
          rw [e]
          simp only [pmeas, setProg]
          omega
        | some q =>
          have := pm_write s.stages s.pipes 0 i m st { prog := p } q
            { q with content := q.content + m } hst hpipe (by rw [hi]; exact hp) (by rw [h1, hbit1]) rfl
          have e : addContent (setProg s i p) i m =
              { stages := s.stages.set i { prog := p },
                pipes := s.pipes.set i { q with content := q.content + m } } := by
            unfold addContent; simp [setProg, hpipe]
          rw [e]
          simp only [pmeas]
          omega
      -- a read of `m ≥ 1` bytes out of the stage's standard input
      have hread : ∀ (m want : Nat) (p : SProg), sysRead s i want = .got m → 1 ≤ want →
          internal p ≤ internal st.prog + m →
          pmeas (subContent (setProg s i p) (i - 1) m) < pmeas s := by
        intro m want p hr hw hp
        have h1 : aliveBit ({ prog := p } : Stage) = 1 := rfl
        have hi : internal ({ prog := p } : Stage).prog = internal p := rfl
        obtain ⟨j, q, hij, hq, hmq, hm1, _⟩ := got_fits hr hw
        subst hij
        have := pm_read s.stages s.pipes 0 j m st { prog := p } q
          { q with content := q.content - m } hst hq (by rw [hi]; exact hp) (by rw [h1, hbit1])
          (by simp only; omega)
        have e : subContent (setProg s (j + 1) p) (j + 1 - 1) m =
            { stages := s.stages.set (j + 1) { prog := p },
              pipes := s.pipes.set j { q with content := q.content - m } } := by
          unfold subContent; simp [setProg, hq]
        rw [e]
        simp only [pmeas]
        omega
      split at hs
      · simp only [Option.some.injEq] at hs; subst hs; exact hexit _ _ (by simp [internal])
      · rename_i hp
        simp only [Option.some.injEq] at hs; subst hs; exact hexit _ _ (by simp [hp])
      · rename_i n hp
        split at hs
        · simp only [Option.some.injEq] at hs; subst hs; exact hexit _ _ (by simp [internal])
        · simp at hs
        · rename_i m hw
          simp only [Option.some.injEq] at hs; subst hs
          obtain ⟨_, hmn, hm1⟩ := wrote_fits hw
          exact hwrite m _ (hm1 (by omega)) (by simp only [hp, internal]; omega)
      · rename_i hp
        simp only [Option.some.injEq] at hs; subst hs; exact hexit _ _ (by simp [hp])
      · rename_i k n hp
        split at hs
        · simp only [Option.some.injEq] at hs; subst hs; exact hexit _ _ (by simp [internal])
        · simp at hs
        · rename_i m hr
          simp only [Option.some.injEq] at hs; subst hs
          exact hread m _ _ hr (by omega) (by simp [internal])
      · rename_i hp
        split at hs
        · simp only [Option.some.injEq] at hs; subst hs; exact hexit _ _ (by simp [hp])
        · simp at hs
        · rename_i m hr
          simp only [Option.some.injEq] at hs; subst hs
          have := hread m _ .drain hr hv.2.2 (by simp [internal])
          have e : setProg s i .drain = s := by
            have : ({ prog := SProg.drain } : Stage) = st := by
              cases st; simp_all
            simp only [setProg, this, set_self hst]
          rw [e] at this; exact this
      · rename_i hp
        split at hs
        · simp only [Option.some.injEq] at hs; subst hs; exact hexit _ _ (by simp [hp])
        · simp at hs
        · rename_i m hr
          simp only [Option.some.injEq] at hs; subst hs
          exact hread m _ _ hr hv.2.2 (by simp [internal, hp])
      · rename_i b hp
        split at hs
        · simp only [Option.some.injEq] at hs; subst hs; exact hexit _ _ (by simp [internal])
        · simp at hs
        · rename_i m hw
          simp only [Option.some.injEq] at hs; subst hs
          obtain ⟨_, hmn, hm1⟩ := wrote_fits hw
          exact hwrite m _ (hm1 (by omega)) (by simp only [hp, internal]; omega)

/-! ### runs of the pipeline under an arbitrary scheduler -/

inductive PSteps (c : PCfg) : PSys → PSys → Prop where
  | refl (s : PSys) : PSteps c s s
  | tail {s t u : PSys} (i : Nat) : PSteps c s t → stageStep c t i = some u → PSteps c s u

inductive PStepsN (c : PCfg) : Nat → PSys → PSys → Prop where
  | refl (s : PSys) : PStepsN c 0 s s
  | tail {n : Nat} {s t u : PSys} (i : Nat) : PStepsN c n s t → stageStep c t i = some u →
      PStepsN c (n + 1) s u

theorem PSteps.head {c : PCfg} {s t u : PSys} (i : Nat) (hs : stageStep c s i = some t)
    (h : PSteps c t u) : PSteps c s u := by
  induction h with
  | refl => exact .tail i (.refl s) hs
  | tail j _ hj ih => exact .tail j ih hj

theorem hyg_steps {c : PCfg} {s t : PSys} (h : PSteps c s t) (hh : Hyg c s) : Hyg c t := by
  induction h with
  | refl => exact hh
  | tail i _ hs ih => exact hyg_step ih hs

theorem not_done_alive {s : PSys} (h : s.done = false) : ∃ k, s.alive k = true := by
  unfold PSys.done at h
  rw [List.all_eq_false] at h
  obtain ⟨st, hmem, hst⟩ := h
  obtain ⟨k, hk⟩ := List.mem_iff_getElem?.mp hmem
  refine ⟨k, ?_⟩
  unfold PSys.alive
  rw [hk]
  cases he : st.exit <;> simp_all

theorem prun_steps (c : PCfg) (fuel : Nat) (choices : List Nat) (s : PSys) :
    PSteps c s (prun c fuel choices s) := by
  induction fuel generalizing choices s with
  | zero => exact .refl s
  | succ n ih =>
    unfold prun
    split
    · exact .refl s
    · split
      · rename_i s' hs'
        exact PSteps.head _ hs' (ih _ _)
      · exact .refl s

theorem penabled_step {c : PCfg} {s : PSys} {i : Nat} (h : i ∈ penabled c s) :
    ∃ s', stageStep c s i = some s' := by
  unfold penabled at h
  rw [List.mem_filter] at h
  cases hs : stageStep c s i with
  | none => simp [hs] at h
  | some s' => exact ⟨s', rfl⟩

theorem not_penabled_none {c : PCfg} {s : PSys} {i : Nat} (h : i ∉ penabled c s) :
    stageStep c s i = none := by
  cases hs : stageStep c s i with
  | none => rfl
  | some s' =>
    exfalso; apply h
    unfold penabled
    rw [List.mem_filter]
    refine ⟨?_, by simp [hs]⟩
    rw [List.mem_range]
    unfold stageStep at hs
    split at hs
    · simp at hs
    · rename_i st hst; exact lt_of_get hst

/-- With fuel ≥ `pmeas s` the executable scheduler of the pipeline model ends with every stage ended. -/
theorem prun_done_of_hyg {c : PCfg} (hv : c.Valid) : ∀ (fuel : Nat) (choices : List Nat) (s : PSys),
    Hyg c s → pmeas s ≤ fuel → (prun c fuel choices s).done = true := by
  intro fuel
  induction fuel with
  | zero =>
    intro choices s hh hm
    simp only [prun]
    cases hd : s.done with
    | true => rfl
    | false =>
      obtain ⟨k, hk⟩ := not_done_alive hd
      obtain ⟨i, s', hs⟩ := pipeline_not_stuck hv hh hk
      have := pmeas_step hv hs; omega
  | succ n ih =>
    intro choices s hh hm
    unfold prun
    cases he : penabled c s with
    | nil =>
      simp only
      cases hd : s.done with
      | true => rfl
      | false =>
        obtain ⟨k, hk⟩ := not_done_alive hd
        obtain ⟨i, s', hs⟩ := pipeline_not_stuck hv hh hk
        have : stageStep c s i = none := not_penabled_none (by rw [he]; simp)
        rw [this] at hs; simp at hs
    | cons i is =>
      simp only
      have hmem : pickStage choices i is ∈ penabled c s := by
        rw [he]
        unfold pickStage
        cases choices with
        | nil => simp
        | cons k t =>
          simp only
          have hlt : k % (is.length + 1) < (i :: is).length := by
            simp only [List.length_cons]; exact Nat.mod_lt _ (by omega)
          rw [List.getD_eq_getElem?_getD, List.getElem?_eq_getElem hlt]
          simp only [Option.getD_some]
          exact List.getElem_mem hlt
      obtain ⟨s', hs'⟩ := penabled_step hmem
      rw [hs']
      simp only
      have := pmeas_step hv hs'
      exact ih _ s' (hyg_step hh hs') (by omega)

end YashModel.Proc
