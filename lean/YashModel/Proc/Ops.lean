/-
  C13 — the operand loop of the `wait` built-in (`Command::await_jobs`, yash-builtin/src/wait.rs) on top
  of the small-step system: every `wait_for_any_job_or_trap()` is a complete run of the request
  `wait(-1)` under an arbitrary scheduler (`WaitAnyRun`), the loops of `wait_while_running` and
  `await_jobs` are inductive relations around it.  Helper lemmas for `wait_operands_all_awaited`.
-/
import YashModel.Proc.Awaited
import YashModel.Proc.Spec
namespace YashModel.Proc

/-- One `wait_for_any_job_or_trap()` issued by a parent that is between requests: any scheduler, until
    the parent is done. -/
def WaitAnyRun (s t : Sys) : Prop :=
  Steps { s with todo := [.wait .any] } t ∧ t.final = true

/-- `status::wait_while_running(env, job_status(i))`:
    `loop { if let Break(st) = job_status(jobs) { return Ok(st) }  wait_for_any_job_or_trap(env).await? }`.
    Result `none` = `Err(NothingToWait)`. -/
inductive AwaitJob (i : Nat) : List Nat → Sys → List Nat → Sys → Option WaitRes → Prop where
  | brk {jobs jobs' : List Nat} {s : Sys} {res : WaitRes} :
      jobStatus jobs s.log i = some (res, jobs') → AwaitJob i jobs s jobs' s (some res)
  | again {jobs jobs' : List Nat} {s t u : Sys} {res : Option WaitRes} :
      jobStatus jobs s.log i = none → WaitAnyRun s t → t.results.head? ≠ some .echild →
      AwaitJob i jobs t jobs' u res → AwaitJob i jobs s jobs' u res
  | nothing {jobs : List Nat} {s t : Sys} :
      jobStatus jobs s.log i = none → WaitAnyRun s t → t.results.head? = some .echild →
      AwaitJob i jobs s jobs t none

/-- `Command::await_jobs` over the resolved operands:
    `for index in indexes { exit_status = Some(match index { None => NOT_FOUND, Some(i) =>
    wait_while_running(job_status(i)).await? }) }`.  Outcome: one result per operand (the exit status is
    that of the last one) and `ok = false` if the built-in failed. -/
inductive WaitOps : List Nat → Sys → List (Option Nat) → List Nat → Sys → List WaitRes → Bool → Prop where
  | nil {jobs : List Nat} {s : Sys} : WaitOps jobs s [] jobs s [] true
  | notFound {jobs jobs' : List Nat} {s s' : Sys} {t : List (Option Nat)} {rs : List WaitRes} {ok : Bool} :
      WaitOps jobs s t jobs' s' rs ok → WaitOps jobs s (none :: t) jobs' s' (.echild :: rs) ok
  | job {i : Nat} {jobs jobs1 jobs' : List Nat} {s s1 s' : Sys} {t : List (Option Nat)} {res : WaitRes}
      {rs : List WaitRes} {ok : Bool} :
      AwaitJob i jobs s jobs1 s1 (some res) → WaitOps jobs1 s1 t jobs' s' rs ok →
      WaitOps jobs s (some i :: t) jobs' s' (res :: rs) ok
  | error {i : Nat} {jobs jobs1 : List Nat} {s s1 : Sys} {t : List (Option Nat)} :
      AwaitJob i jobs s jobs1 s1 none → WaitOps jobs s (some i :: t) jobs1 s1 [] false

/-- the true statuses, fixed from the start -/
def fins (s : Sys) : List Result := s.children.map (·.state.fin)

/-- exit status `wait` must report for the child with pid `i` -/
def truthOf (fs : List Result) (i : Nat) : Nat := ((fs[i]?).map Result.status).getD 127

/-- an operand as the Spec sees it: a process ID or a job ID naming no job -/
def Operand.toSpec : Operand → Option Nat
  | .pid i => some i
  | .jobId => none

/-! ### frame lemmas -/

theorem inv_with_todo {s : Sys} (h : Inv s) (r : List Req) : Inv { s with todo := r } :=
  ⟨h.changed_halted, h.handler, h.no_lost, h.awaited, h.once, h.logged⟩

theorem child_frame {s s' : Sys} (j : Nat) (hs : childStep s j = some s') :
    s'.log = s.log ∧ s'.results = s.results ∧ s'.pc = s.pc ∧ s'.todo = s.todo ∧ s'.target = s.target := by
  unfold childStep at hs
  have : ∀ t : Sys, (raiseSigchld t).log = t.log ∧ (raiseSigchld t).results = t.results ∧
      (raiseSigchld t).pc = t.pc ∧ (raiseSigchld t).todo = t.todo ∧ (raiseSigchld t).target = t.target := by
    intro t; unfold raiseSigchld; split <;> simp
  split at hs
  · split at hs
    · simp only [Option.some.injEq] at hs; subst hs; simp
    · simp only [Option.some.injEq] at hs; subst hs; exact this _
    · simp at hs
  · simp at hs

/-- the parent changes the children only through `take_state` -/
theorem parent_children {s s' : Sys} (hs : parentStep s = some s') :
    s'.children = s.children ∨ ∃ j, s'.children = take s.children j := by
  unfold parentStep at hs
  repeat' split at hs
  all_goals first
    | (simp at hs; done)
    | (simp only [Option.some.injEq] at hs; subst hs; first | exact Or.inl rfl | exact Or.inr ⟨_, rfl⟩)

theorem reaped_steps {s t : Sys} (h : Steps s t) (i : Nat) (hr : reaped s.children i = true) :
    reaped t.children i = true := by
  induction h with
  | refl => exact hr
  | tail l _ hs ih =>
    cases l with
    | parent =>
      rcases parent_children hs with h1 | ⟨j, h1⟩
      · rw [h1]; exact ih
      · rw [h1]; exact reaped_take j ih
    | child j => exact reaped_child j hs ih

theorem length_steps {s t : Sys} (h : Steps s t) : t.children.length = s.children.length := by
  have := congrArg List.length (fin_steps h); simpa using this

theorem reaped_of_logged {s : Sys} (h : Inv s) {i : Nat} {r : Result} (hm : (i, r) ∈ s.log) :
    reaped s.children i = true := by
  have := h.once i
  cases hr : reaped s.children i with
  | true => rfl
  | false =>
    rw [hr] at this
    simp only [logCount, Bool.false_eq_true, if_false, List.countP_eq_zero] at this
    have := this (i, r) hm
    simp at this

theorem not_reaped_of_not_logged {s : Sys} (h : Inv s) {i : Nat}
    (hn : s.log.find? (fun e => e.1 == i) = none) : reaped s.children i = false := by
  have := h.once i
  have hz : logCount s.log i = 0 := by
    simp only [logCount, List.countP_eq_zero]
    exact List.find?_eq_none.mp hn
  cases hr : reaped s.children i with
  | false => rfl
  | true => rw [hr, hz] at this; simp at this

/-! ### one `wait_for_any_job_or_trap` never answers "nothing to wait for" while a job is unreported -/

/-- state of a run of the request `wait(-1)` issued from `s0` while job `i` has no recorded final state -/
def SegInv (s0 u : Sys) : Prop :=
  (u.log = s0.log ∧ u.results = s0.results ∧
    ((u.pc = .done ∧ u.todo = [.wait .any]) ∨
     (u.todo = [] ∧ u.target = .any ∧ (u.pc = .enable ∨ u.pc = .poll ∨ u.pc = .await)))) ∨
  (u.pc = .done ∧ u.todo = [] ∧ u.results.head? ≠ some .echild)

theorem seg_step {s0 u u' : Sys} {i : Nat} (l : Label) (hinv : Inv u)
    (hi : i < u.children.length) (hlog : s0.log.find? (fun e => e.1 == i) = none)
    (h : SegInv s0 u) (hs : step u l = some u') : SegInv s0 u' := by
  cases l with
  | child j =>
    obtain ⟨f1, f2, f3, f4, f5⟩ := child_frame j hs
    unfold SegInv
    rw [f1, f2, f3, f4, f5]; exact h
  | parent =>
    simp only [step] at hs
    rcases h with ⟨hl, hr, hshape⟩ | ⟨hpc, htodo, _⟩
    · rcases hshape with ⟨hpc, htodo⟩ | ⟨htodo, htgt, hpc⟩
      · -- the request is taken up
        simp only [parentStep, hpc, htodo, Option.some.injEq] at hs; subst hs
        exact Or.inl ⟨hl, hr, Or.inr ⟨rfl, rfl, Or.inl rfl⟩⟩
      · rcases hpc with hpc | hpc | hpc
        · simp only [parentStep, hpc, Option.some.injEq] at hs; subst hs
          exact Or.inl ⟨hl, hr, Or.inr ⟨htodo, htgt, Or.inr (Or.inl rfl)⟩⟩
        · -- poll
          simp only [parentStep, hpc, htgt] at hs
          split at hs
          · simp only [Option.some.injEq] at hs; subst hs
            exact Or.inr ⟨rfl, htodo, by simp⟩
          · simp only [Option.some.injEq] at hs; subst hs
            exact Or.inl ⟨hl, hr, Or.inr ⟨htodo, by simp, Or.inl rfl⟩⟩
          · simp only [Option.some.injEq] at hs; subst hs
            exact Or.inl ⟨hl, hr, Or.inr ⟨htodo, by simp, Or.inr (Or.inr rfl)⟩⟩
          · -- ECHILD is impossible: child `i` is not reaped
            rename_i hw
            exfalso
            have hnr : reaped u.children i = false :=
              not_reaped_of_not_logged hinv (by rw [hl]; exact hlog)
            have hget : u.children[i]? = some u.children[i] := List.getElem?_eq_getElem hi
            have := (sysWait_any_echild.mp hw) i _ hget
            rw [reaped_self hget] at hnr
            simp [this.1, this.2] at hnr
        · simp only [parentStep, hpc] at hs
          split at hs
          · simp only [Option.some.injEq] at hs; subst hs
            exact Or.inl ⟨hl, hr, Or.inr ⟨htodo, htgt, Or.inr (Or.inl rfl)⟩⟩
          · simp at hs
    · simp [parentStep, hpc, htodo] at hs

theorem seg_steps {s0 a u : Sys} {i : Nat} (h : Steps a u) (hinv : Inv a)
    (hi : i < a.children.length) (hlog : s0.log.find? (fun e => e.1 == i) = none)
    (h0 : SegInv s0 a) : SegInv s0 u := by
  induction h with
  | refl => exact h0
  | tail l hst hs ih =>
    exact seg_step l (inv_steps hst hinv) (by rw [length_steps hst]; exact hi) hlog ih hs

/-- `wait_for_any_job_or_trap` does not fail while job `i` (an existing child) has no recorded final state -/
theorem seg_no_echild {s t : Sys} {i : Nat} (hinv : Inv s) (hi : i < s.children.length)
    (hlog : s.log.find? (fun e => e.1 == i) = none) (hfin : s.final = true) (hrun : WaitAnyRun s t) :
    t.results.head? ≠ some .echild := by
  obtain ⟨hsteps, htfin⟩ := hrun
  simp only [Sys.final, Bool.and_eq_true, beq_iff_eq, List.isEmpty_iff] at hfin htfin
  have h0 : SegInv s { s with todo := [.wait .any] } :=
    Or.inl ⟨rfl, rfl, Or.inl ⟨hfin.1, rfl⟩⟩
  have := seg_steps (s0 := s) hsteps (inv_with_todo hinv _) hi hlog h0
  rcases this with ⟨_, _, hshape⟩ | ⟨_, _, h3⟩
  · rcases hshape with ⟨_, htodo⟩ | ⟨_, _, hpc⟩
    · rw [htfin.2] at htodo; simp at htodo
    · rw [htfin.1] at hpc; simp at hpc
  · exact h3

/-! ### soundness of the two loops -/

structure Carried (s s' : Sys) : Prop where
  inv : Inv s'
  fin : s'.final = true
  fins : fins s' = fins s
  mono : ∀ k : Nat, reaped s.children k = true → reaped s'.children k = true

theorem carried_refl {s : Sys} (hinv : Inv s) (hfin : s.final = true) : Carried s s :=
  ⟨hinv, hfin, rfl, fun _ h => h⟩

theorem carried_trans {s t u : Sys} (h1 : Carried s t) (h2 : Carried t u) : Carried s u :=
  ⟨h2.inv, h2.fin, h2.fins.trans h1.fins, fun k h => h2.mono k (h1.mono k h)⟩

theorem carried_run {s t : Sys} (hinv : Inv s) (hrun : WaitAnyRun s t) : Carried s t :=
  ⟨inv_steps hrun.1 (inv_with_todo hinv _), hrun.2,
   by have := fin_steps hrun.1; simpa [fins] using this,
   fun k h => reaped_steps hrun.1 k h⟩

theorem fins_length {s s' : Sys} (h : fins s' = fins s) : s'.children.length = s.children.length := by
  have := congrArg List.length h; simpa [fins] using this

theorem awaitJob_sound {i : Nat} {jobs jobs' : List Nat} {s s' : Sys} {res : Option WaitRes}
    (h : AwaitJob i jobs s jobs' s' res) (hinv : Inv s) (hfin : s.final = true)
    (hvalid : ∀ x ∈ jobs, x < s.children.length) :
    Carried s s' ∧ ∃ r, res = some r ∧
      (if i ∈ jobs then waitStatus r = truthOf (fins s) i ∧ jobs' = jobs.erase i ∧
          reaped s'.children i = true
       else r = .echild ∧ jobs' = jobs) := by
  induction h with
  | @brk jobs' s res hjs =>
    refine ⟨carried_refl hinv hfin, res, rfl, ?_⟩
    unfold jobStatus at hjs
    by_cases hmem : i ∈ jobs
    · simp only [hmem, if_true] at hjs ⊢
      split at hjs
      · rename_i j r hfind
        simp only [Option.some.injEq, Prod.mk.injEq] at hjs
        obtain ⟨rfl, rfl⟩ := hjs
        have hj : j = i := by simpa using List.find?_some hfind
        subst hj
        have hm : (j, r) ∈ s.log := List.mem_of_find?_eq_some hfind
        obtain ⟨c, hc, hst⟩ := hinv.logged j r hm
        refine ⟨?_, rfl, reaped_of_logged hinv hm⟩
        simp [waitStatus, truthOf, fins, List.getElem?_map, hc, hst, PState.fin]
      · simp at hjs
    · simp only [hmem, if_false, Option.some.injEq, Prod.mk.injEq] at hjs ⊢
      exact ⟨hjs.1.symm, hjs.2.symm⟩
  | @again jobs' s t u res hjs hrun hok _ ih =>
    have hc := carried_run hinv hrun
    have hlen := fins_length hc.fins
    obtain ⟨hc2, r, hr, hspec⟩ := ih hc.inv hc.fin (by intro x hx; rw [hlen]; exact hvalid x hx)
    refine ⟨carried_trans hc hc2, r, hr, ?_⟩
    rw [hc.fins] at hspec; exact hspec
  | @nothing s t hjs hrun hbad =>
    exfalso
    unfold jobStatus at hjs
    by_cases hmem : i ∈ jobs
    · simp only [hmem, if_true] at hjs
      split at hjs
      · simp at hjs
      · rename_i hfind
        exact seg_no_echild hinv (hvalid i hmem) hfind hfin hrun hbad
    · simp [hmem] at hjs

theorem waitOps_sound {jobs jobs' : List Nat} {s s' : Sys} {ro : List (Option Nat)}
    {rs : List WaitRes} {ok : Bool}
    (h : WaitOps jobs s ro jobs' s' rs ok) (hinv : Inv s) (hfin : s.final = true)
    (hvalid : ∀ x ∈ jobs, x < s.children.length) :
    Carried s s' ∧ ok = true ∧
    rs.map waitStatus = Spec.waitEach (truthOf (fins s)) jobs ro ∧
    (∀ i : Nat, some i ∈ ro → i ∈ jobs → reaped s'.children i = true) := by
  induction h with
  | nil => exact ⟨carried_refl hinv hfin, rfl, rfl, by intro i hi; simp at hi⟩
  | notFound _ ih =>
    obtain ⟨hc, hok, hrs, hall⟩ := ih hinv hfin hvalid
    refine ⟨hc, hok, by simp [Spec.waitEach, waitStatus, hrs], ?_⟩
    intro i hi hj
    simp only [List.mem_cons] at hi
    rcases hi with hi | hi
    · simp at hi
    · exact hall i hi hj
  | @job i jobs jobs1 jobs' s s1 s' t res rs ok haw _ ih =>
    obtain ⟨hc1, r, hr, hspec⟩ := awaitJob_sound haw hinv hfin hvalid
    simp only [Option.some.injEq] at hr; subst hr
    have hlen := fins_length hc1.fins
    by_cases hmem : i ∈ jobs
    · simp only [hmem, if_true] at hspec
      obtain ⟨hst, hj1, hreap⟩ := hspec
      have hvalid1 : ∀ x ∈ jobs1, x < s1.children.length := by
        intro x hx; rw [hlen]; rw [hj1] at hx; exact hvalid x (List.mem_of_mem_erase hx)
      obtain ⟨hc2, hok, hrs, hall⟩ := ih hc1.inv hc1.fin hvalid1
      refine ⟨carried_trans hc1 hc2, hok, ?_, ?_⟩
      · simp only [List.map_cons, Spec.waitEach, hmem, if_true, hst]
        rw [hrs, hc1.fins, hj1]
      · intro k hk hkj
        simp only [List.mem_cons, Option.some.injEq] at hk
        by_cases hki : k = i
        · subst hki; exact hc2.mono k hreap
        · rcases hk with hk | hk
          · exact absurd hk hki
          · exact hall k hk (by rw [hj1]; exact (List.mem_erase_of_ne hki).mpr hkj)
    · simp only [hmem, if_false] at hspec
      obtain ⟨hre, hj1⟩ := hspec
      have hvalid1 : ∀ x ∈ jobs1, x < s1.children.length := by
        intro x hx; rw [hlen]; rw [hj1] at hx; exact hvalid x hx
      obtain ⟨hc2, hok, hrs, hall⟩ := ih hc1.inv hc1.fin hvalid1
      refine ⟨carried_trans hc1 hc2, hok, ?_, ?_⟩
      · simp only [List.map_cons, Spec.waitEach, hmem, if_false, hre, waitStatus]
        rw [hrs, hc1.fins, hj1]
      · intro k hk hkj
        simp only [List.mem_cons, Option.some.injEq] at hk
        rcases hk with hk | hk
        · subst hk; exact absurd hkj hmem
        · exact hall k hk (by rw [hj1]; exact hkj)
  | @error i jobs jobs1 s s1 t haw =>
    obtain ⟨_, r, hr, _⟩ := awaitJob_sound haw hinv hfin hvalid
    simp at hr

/-- resolving the operands against the job table first (as `Command::execute` does) does not change
    what the Spec predicts, as long as the table only shrinks -/
theorem waitEach_resolve (truth : Nat → Nat) (jobs0 : List Nat) (ops : List Operand) :
    ∀ jobs : List Nat, (∀ x ∈ jobs, x ∈ jobs0) →
      Spec.waitEach truth jobs (ops.map (resolve jobs0)) = Spec.waitEach truth jobs (ops.map Operand.toSpec) := by
  induction ops with
  | nil => intro jobs _; rfl
  | cons o t ih =>
    intro jobs hsub
    cases o with
    | jobId => simp only [List.map_cons, resolve, Operand.toSpec, Spec.waitEach]; rw [ih jobs hsub]
    | pid i =>
      simp only [List.map_cons, resolve, Operand.toSpec]
      by_cases h0 : i ∈ jobs0
      · simp only [h0, if_true, Spec.waitEach]
        by_cases hj : i ∈ jobs
        · simp only [hj, if_true]
          rw [ih _ (fun x hx => hsub x (List.mem_of_mem_erase hx))]
        · simp only [hj, if_false]; rw [ih jobs hsub]
      · have hj : i ∉ jobs := fun h => h0 (hsub i h)
        simp only [h0, if_false, Spec.waitEach, hj]
        rw [ih jobs hsub]

/-! ### the executable loops of the driver are derivations of the relations -/

theorem awaitJobRun_sound (runFuel : Nat) (choices : Nat → List Nat) :
    ∀ (k : Nat) (jobs : List Nat) (s : Sys) (i : Nat) (jobs' : List Nat) (s' : Sys) (res : WaitRes),
      awaitJobRun runFuel choices k jobs s i = (jobs', s', some res) →
      AwaitJob i jobs s jobs' s' (some res) := by
  intro k
  induction k with
  | zero => intro jobs s i jobs' s' res h; simp [awaitJobRun] at h
  | succ k ih =>
    intro jobs s i jobs' s' res h
    unfold awaitJobRun at h
    cases hjs : jobStatus jobs s.log i with
    | some p =>
      obtain ⟨r, j1⟩ := p
      simp only [hjs, Prod.mk.injEq, Option.some.injEq] at h
      obtain ⟨rfl, rfl, rfl⟩ := h
      exact .brk hjs
    | none =>
      simp only [hjs] at h
      split at h
      · rename_i hfin
        split at h
        · simp at h
        · rename_i hne
          exact .again hjs ⟨run_steps _ _ _, hfin⟩ hne (ih _ _ _ _ _ _ h)
      · simp at h

theorem awaitJobsRun_sound (runFuel outer : Nat) (choices : Nat → List Nat) :
    ∀ (ops : List (Option Nat)) (jobs : List Nat) (s : Sys) (jobs' : List Nat) (s' : Sys)
      (rs : List WaitRes),
      awaitJobsRun runFuel outer choices jobs s ops = some (jobs', s', rs) →
      WaitOps jobs s ops jobs' s' rs true := by
  intro ops
  induction ops with
  | nil =>
    intro jobs s jobs' s' rs h
    simp only [awaitJobsRun, Option.some.injEq, Prod.mk.injEq] at h
    obtain ⟨rfl, rfl, rfl⟩ := h
    exact .nil
  | cons o t ih =>
    intro jobs s jobs' s' rs h
    cases o with
    | none =>
      simp only [awaitJobsRun] at h
      split at h
      · rename_i j1 s1 rs1 hrec
        simp only [Option.some.injEq, Prod.mk.injEq] at h
        obtain ⟨rfl, rfl, rfl⟩ := h
        exact .notFound (ih _ _ _ _ _ hrec)
      · simp at h
    | some i =>
      simp only [awaitJobsRun] at h
      split at h
      · rename_i j1 s1 res haw
        split at h
        · rename_i j2 s2 rs2 hrec
          simp only [Option.some.injEq, Prod.mk.injEq] at h
          obtain ⟨rfl, rfl, rfl⟩ := h
          exact .job (awaitJobRun_sound _ _ _ _ _ _ _ _ _ haw) (ih _ _ _ _ _ hrec)
        · simp at h
      · simp at h

end YashModel.Proc
