/-
  C13 — Spec: what POSIX (XCU 2.9.2 Pipelines, 2.9.3 Asynchronous lists, `wait`, `$?`, `$!`) and the
  yash documentation (`set -o pipefail`) say, in the simplest terms.  Import-free.
-/
namespace YashModel.Proc.Spec

/-- exit status of a pipeline: that of the last command; with `pipefail`, that of the rightmost command
    with a non-zero status, zero if there is none -/
def pipe (pipefail : Bool) (sts : List Nat) : Nat :=
  if pipefail then (sts.reverse.find? (· != 0)).getD 0 else sts.getLast?.getD 0

/-- `! pipeline` -/
def negate (st : Nat) : Nat := if st = 0 then 1 else 0

/-- `wait pid`: the exit status of that child if it is a child that has not been waited for, else 127 -/
def wait (known : Option Nat) : Nat := known.getD 127

end YashModel.Proc.Spec
