/-
  C13 — Spec: what POSIX (XCU 2.9.2 Pipelines, 2.9.3 Asynchronous lists, `wait`, `$?`, `$!`) and the
  yash documentation (`set -o pipefail`) say, in the simplest terms.  Import-free.
-/
namespace YashModel.Proc.Spec

/-- exit status of a pipeline: that of the last command; with `pipefail`, that of the rightmost command
    with a non-zero status, zero if there is none -/
def pipe (pipefail : Bool) (sts : List Nat) : Nat :=
  if pipefail then (sts.reverse.find? (· != 0)).getD 0 else sts.getLast?.getD 0

/-- `! pipeline` -/
def negate (st : Nat) : Nat := if st = 0 then 1 else 0

/-- `wait pid`: the exit status of that child if it is a child that has not been waited for, else 127 -/
def wait (known : Option Nat) : Nat := known.getD 127

/-- `wait` while a signal with a trap action arrives (XCU 2.12 Signals and Error Handling: "When the shell is
    waiting, by means of the wait utility, for asynchronous commands to complete, the reception of a signal for
    which a trap has been set shall cause the wait utility to return immediately with an exit status >128,
    immediately after which the trap associated with that signal shall be taken"; yash: 384 + signal number).
    The awaited job is NOT thereby waited for: a later `wait` for it still yields its status. -/
def waitInterrupted (sig : Nat) : Nat := 384 + sig

/-- `wait o1 … on` (n ≥ 1): every operand that names a child not yet waited for is waited for (and is
    thereby no longer waitable: `active` shrinks); the exit status is that of the LAST operand — the
    child's status, or 127 if the operand names no such child (unknown pid, unknown job ID, a child
    waited for already, also earlier in the same list).  Operands: `some id` = a process ID, `none` = a
    job ID naming no job.  Returns the status and the children still waitable. -/
def waitOps (truth : Nat → Nat) : List Nat → List (Option Nat) → Nat → Nat × List Nat
  | active, [], last => (last, active)
  | active, none :: t, _ => waitOps truth active t 127
  | active, some i :: t, _ =>
    if i ∈ active then waitOps truth (active.erase i) t (truth i) else waitOps truth active t 127

/-- the status each operand of `wait o1 … on` yields, in order (the exit status of `wait` is the last) -/
def waitEach (truth : Nat → Nat) : List Nat → List (Option Nat) → List Nat
  | _, [] => []
  | active, none :: t => 127 :: waitEach truth active t
  | active, some i :: t =>
    if i ∈ active then truth i :: waitEach truth (active.erase i) t else 127 :: waitEach truth active t

/-- stage of a pipeline whose stages block on I/O with each other -/
inductive Flow where
  | spew (n : Nat)          -- writes n bytes; fails (1) if it cannot get rid of them
  | cat                     -- copies; fails (1) if it cannot get rid of what it read
  | drain                   -- reads everything, 0
  | take (k st : Nat)       -- reads k bytes and exits with st
  | st (n : Nat)            -- reads nothing, exits with n
  deriving Repr

def unbounded : Nat := 1000000000

/-- how many bytes the stages downstream will take off a writer -/
def accept : List Flow → Nat
  | [] => unbounded
  | .drain :: _ => unbounded
  | .take k _ :: _ => k
  | .st _ :: _ => 0
  | .spew _ :: _ => 0
  | .cat :: rest => accept rest

/-- Exit statuses of the stages (`supply` = bytes arriving at the head of the list).  A writer succeeds
    iff the downstream takes everything it has; otherwise the reader goes away first and the writer
    fails with EPIPE — nobody blocks for ever.  (Exact when what does not fit exceeds what the pipes
    in between can buffer; in between the outcome is a race of the script, which the generator avoids.) -/
def flowStatuses (supply : Nat) : List Flow → List Nat
  | [] => []
  | .spew n :: rest => (if n ≤ accept rest then 0 else 1) :: flowStatuses n rest
  | .cat :: rest => (if supply ≤ accept rest then 0 else 1) :: flowStatuses supply rest
  | .drain :: rest => 0 :: flowStatuses 0 rest
  | .take _ st :: rest => st :: flowStatuses 0 rest
  | .st n :: rest => n :: flowStatuses 0 rest

/-- The race-free regime of a two-stage flow pipeline `spew n | consumer` over a pipe of capacity `cap`: either
    the consumer takes everything (`n ≤` what it reads), or what it does not take cannot even be buffered
    (`n >` what it reads `+ cap`) — in between, whether the writer finishes before the reader goes away is a race
    of the script.  (`drain` takes everything; `unbounded` is the Spec's finite stand-in for that.) -/
def raceFree2 (cap n : Nat) : Flow → Bool
  | .drain => decide (n ≤ unbounded)
  | .take k _ => decide (n ≤ k) || decide (cap + k < n)
  | .st _ => decide (n = 0) || decide (cap < n)
  | _ => false

/-- The race-free regime of `spew n | cat | consumer`: the consumer takes everything, or what it leaves exceeds
    what the two pipes and the buffer of `cat` (`chunk` bytes) can hold together. -/
def raceFree3 (cap chunk n : Nat) : Flow → Bool
  | .drain => decide (n ≤ unbounded)
  | .take k _ => decide (n ≤ k) || decide (cap + chunk + cap + k < n)
  | .st _ => decide (n = 0) || decide (cap + chunk + cap < n)
  | _ => false

/-- what a descriptor of a pipeline stage refers to: the read / write end of the pipe between stage `j`
    and stage `j+1`, or something that is not a pipe of this pipeline -/
inductive FdKind where
  | rd (j : Nat)
  | wr (j : Nat)
  | other
  deriving DecidableEq, Repr

/-- XCU 2.9.2: "The standard output of all but the last command shall be connected to the standard input
    of the next command" — and nothing else: descriptor `fd` of stage `k` of an `n`-stage pipeline when
    its command starts.  0 is the read end of the pipe from the left neighbour (if there is one), 1 the
    write end of the pipe to the right neighbour (if there is one); every other descriptor is what it was
    in the shell before the pipeline (`openBefore`: open, to something that is not one of these pipes) and
    NO other descriptor refers to a pipe of the pipeline (else a reader never sees end of file, a writer
    never gets EPIPE).  After the pipeline the shell's own table is `openBefore` again. -/
def stageFd (openBefore : Nat → Bool) (n k fd : Nat) : Option FdKind :=
  if fd = 0 ∧ 0 < k then some (.rd (k - 1))
  else if fd = 1 ∧ k + 1 < n then some (.wr k)
  else if openBefore fd then some .other else none

end YashModel.Proc.Spec
