/-
  C13 — Impl model (wave 3): the `wait` built-in waiting for ONE job while signals with a trap action
  arrive — `status::wait_while_running(job_status(index))` around `core::wait_for_any_job_or_trap`
  (yash-builtin/src/wait/status.rs, wait/core.rs), `Env::wait_for_signals` (yash-env/src/lib.rs: every
  signal `select` delivered is passed to `TrapSet::catch_signal`) and `trap::run_trap_if_caught`
  (yash-semantics/src/trap/signal.rs: `take_signal_if_caught`, only an `Action::Command` counts).

  The parent/children/SIGCHLD part is the `Sys` of `Model.lean` (same `childStep`, `sysWait`, `take`,
  `logOf`); added here: the signals OTHER than SIGCHLD that are sent to the shell while it waits.

  * A signal for which a trap command is set has the internal disposition `Catch`, hence (through
    `Concurrent::set_disposition`) it is blocked outside `select` and becomes pending (`sigPending`);
    the `select` inside `wait_for_signals` unblocks, and ALL pending caught signals — SIGCHLD included —
    are delivered in that one call and returned as one list (`Concurrent::select_impl`:
    `self.inner.caught_signals()`).
  * `wait_for_any_job_or_trap`: after `wait_for_signals` the loop runs, in list order, the trap of the
    first signal that has one and returns `Err(Trapped(signal, _))` — whether or not SIGCHLD is in the
    same list: XCU 2.12 "the reception of a signal for which a trap has been set shall cause the wait
    utility to return immediately with an exit status >128".  Only when no trap ran does the loop go
    back to `system.wait(-1)`.
  * `senders`: which child sends which signal to the shell (`kill -s SIG $$` inside an asynchronous
    list).  The `kill` precedes the child's `exit` in program order, so a child with an unsent entry
    cannot take its last step.

  Order of the caught signals: arrival order — exact for signals that arrive while the shell is blocked inside
  `select` (always the case under the executor: other processes run only while the shell is blocked); a signal that
  arrives while the shell is NOT in `select` stays pending in a `Sigset` (a `BTreeSet`) and the next `select`
  delivers those in ascending signal number — a difference visible only with two distinct trapped signals pending
  outside `select`, which needs pre-emption between a wake-up and the next `select`.

  Not modelled: `signals.contains(SIGINT) && env.sigint_has_default_action()` (interactive shells only: a
  defaulted SIGINT kills a non-interactive shell), signals that are neither trapped nor ignored (they
  end the shell), what the trap action does (its `Result`/divert is passed on; the exit status of the built-in is
  `ExitStatus::from(signal)` whatever the action's own status).
-/
import YashModel.Proc.Lemmas
namespace YashModel.Proc
open YashModel.Generated.ProcConsts (EXIT_SUCCESS)

/-- how `wait_while_running(job_status(j))` ends -/
inductive TrapOut where
  /-- `Ok(exit_status)`: the job has finished (and is removed from the job list) -/
  | finished (i : Nat) (r : Result)
  /-- `Err(NothingToWait)` -/
  | nothing
  /-- `Err(Trapped(sig, _))`: the trap action of `sig` was run, the built-in ends with `ExitStatus::from(sig)` -/
  | trapped (sig : Nat)
  /-- a single `wait_for_any_job_or_trap` returned `Ok(())`: the state of child `i` was recorded (bare `wait`) -/
  | changed (i : Nat)
  deriving DecidableEq, Repr

structure TSys where
  sys : Sys
  /-- the job (child index) the operand names -/
  job : Nat
  /-- signals with `Action::Command` -/
  traps : List Nat
  /-- trapped signals sent to the shell and not yet delivered (blocked outside `select`) -/
  sigPending : List Nat := []
  /-- `TrapSet`: signals caught (`catch_signal`) whose trap action has not run yet — run after the built-in -/
  flags : List Nat := []
  /-- `(child, signal)`: that child will send that signal to the shell before it exits -/
  senders : List (Nat × Nat) := []
  /-- `true`: ONE call of `wait_for_any_job_or_trap` (the caller, `any_job_is_running` of a `wait` without
      operands, looks at the whole job list after every `Ok(())`); `false`: `wait_while_running(job_status(job))` -/
  single : Bool := false
  out : Option TrapOut := none
  deriving Repr

/-- `job_status`: the recorded state of the job is final (the `log` entry of the child, see `jobStatus`) -/
def jobDone (log : List (Nat × Result)) (j : Nat) : Option Result :=
  (log.find? (fun e => e.1 == j)).map (·.2)

/-- the first signal of the delivered list for which `run_trap_if_caught` returns `Some` -/
def firstTrapped (traps sigs : List Nat) : Option Nat :=
  sigs.find? (fun σ => traps.contains σ)

/-- The built-in starts waiting for job `j`: `job_status` is looked at BEFORE the first
    `wait_for_any_job_or_trap` (`loop { if let Break(st) = job_status(..) { return Ok(st) } wait_for_any_job_or_trap(env).await?; }`). -/
def TSys.start (s : Sys) (j : Nat) (traps : List Nat) (senders : List (Nat × Nat)) : TSys :=
  match jobDone s.log j with
  | some r => { sys := { s with target := .any, todo := [], pc := .done }, job := j, traps := traps,
                senders := senders, out := some (.finished j r) }
  | none => { sys := { s with target := .any, todo := [], pc := .enable }, job := j, traps := traps,
              senders := senders }

/-- The next operand of the same built-in (`for index in indexes { … wait_while_running(job_status(index)).await? }`,
    `Command::await_jobs`): pending signals, trap flags and senders carry over. -/
def TSys.next (t : TSys) (j : Nat) : TSys :=
  match jobDone t.sys.log j with
  | some r => { t with sys := { t.sys with target := .any, todo := [], pc := .done }, job := j, single := false,
                       out := some (.finished j r) }
  | none => { t with sys := { t.sys with target := .any, todo := [], pc := .enable }, job := j, single := false,
                     out := none }

/-- one more `wait_for_any_job_or_trap` of a `wait` without operands -/
def TSys.call (t : TSys) : TSys :=
  { t with sys := { t.sys with target := .any, todo := [], pc := .enable }, single := true, out := none }

/-- One step of the shell inside `wait_while_running` / `wait_for_any_job_or_trap`. -/
def tparentStep (t : TSys) : Option TSys :=
  match t.out with
  | some _ => none
  | none =>
    match t.sys.pc with
    | .enable =>
      -- `env.traps.enable_internal_disposition_for_sigchld(&env.system).await?` FIRST
      some { t with sys := { t.sys with disp := .catch, pc := .poll } }
    | .poll =>
      -- `match env.system.wait(Pid::ALL)`
      match sysWait t.sys.children .any with
      | .state i st =>
        -- `env.jobs.update_status(pid, state); return Ok(())`, then `job_status` again
        if t.single then
          some { t with sys := { t.sys with children := take t.sys.children i, log := logOf i st ++ t.sys.log,
                                            pc := .done },
                        out := some (.changed i) }
        else
        match jobDone (logOf i st ++ t.sys.log) t.job with
        | some r =>
          some { t with sys := { t.sys with children := take t.sys.children i, log := logOf i st ++ t.sys.log,
                                            pc := .done },
                        out := some (.finished t.job r) }
        | none =>
          some { t with sys := { t.sys with children := take t.sys.children i, log := logOf i st ++ t.sys.log,
                                            pc := .enable } }
      | .none => some { t with sys := { t.sys with pc := .await } }
      | .echild => some { t with sys := { t.sys with pc := .done }, out := some .nothing }
    | .await =>
      -- `let signals = env.wait_for_signals().await;` — returns once something caught is pending, with ALL of it
      if t.sys.pending || !t.sigPending.isEmpty then
        -- `for signal in signals { if let Some(result) = run_trap_if_caught(env, signal).await { return Err(Trapped(..)) } }`
        match firstTrapped t.traps t.sigPending with
        | some σ =>
          some { t with sys := { t.sys with pending := false, pc := .done }, sigPending := [],
                        flags := (t.flags ++ t.sigPending).erase σ, out := some (.trapped σ) }
        | none =>
          some { t with sys := { t.sys with pending := false, pc := .poll }, sigPending := [],
                        flags := t.flags ++ t.sigPending }
      else none
    | _ => none

/-- SIGCHLD in the numbering of the model (`Prog.sigNames`: HUP = 1 … CONT = 9, CHLD = 10; observations show names) -/
def SIGCHLD_NO : Nat := 10

/-- `trap … CHLD`: SIGCHLD has a trap action of its own.  The caught signals of one wake-up are a list in ARRIVAL
    order (`Process::caught_signals`, a `Vec`: a signal raised while the shell is inside `select` is delivered at
    once and pushed), so when SIGCHLD can win the race for "first signal with a trap action" its position matters:
    the exit of a child then also appends SIGCHLD to `sigPending` (once). -/
def noteChld (t : TSys) (s : Sys) : List Nat :=
  if !t.sys.pending && s.pending && t.traps.contains SIGCHLD_NO && !t.sigPending.contains SIGCHLD_NO
  then t.sigPending ++ [SIGCHLD_NO] else t.sigPending

/-- a step of child `i`: as in `Model.lean`, but the child's last step (`exit`) comes after its `kill`s -/
def tchildStep (t : TSys) (i : Nat) : Option TSys :=
  match t.sys.children[i]? with
  | some c =>
    if c.state = .running 0 c.state.fin ∧ t.senders.any (fun e => e.1 == i) then none
    else (childStep t.sys i).map fun s => { t with sys := s, sigPending := noteChld t s }
  | none => none

/-- the `k`-th sender entry fires: `kill -s SIG $$` in a live child (the first unsent entry of that child).  A trapped signal becomes pending at the
    shell (once: pending signals are a set); any other is ignored here. -/
def tsendStep (t : TSys) (k : Nat) : Option TSys :=
  match t.senders[k]? with
  | some (i, σ) =>
    match t.sys.children[i]? with
    | some c =>
      -- program order: the entries of one child fire in list order
      if c.state.isAlive && !(t.senders.take k).any (fun e => e.1 == i) then
        some { t with senders := t.senders.eraseIdx k,
                      sigPending := if t.traps.contains σ && !t.sigPending.contains σ
                                    then t.sigPending ++ [σ] else t.sigPending }
      else none
    | none => none
  | none => none

inductive TLabel where
  | parent
  | child (i : Nat)
  | send (k : Nat)
  deriving DecidableEq, Repr

def tstep (t : TSys) : TLabel → Option TSys
  | .parent => tparentStep t
  | .child i => tchildStep t i
  | .send k => tsendStep t k

def tenabled (t : TSys) : List TLabel :=
  ((TLabel.parent :: ((List.range t.sys.children.length).map TLabel.child ++
      (List.range t.senders.length).map TLabel.send)).filter fun l => (tstep t l).isSome)

/-- the shell runs until it blocks or the built-in ends: a virtual process yields to the executor only where
    its `select` would block (`Concurrent::run_virtual`) -/
def parentBurst : Nat → TSys → TSys
  | 0, t => t
  | n + 1, t =>
    match tparentStep t with
    | some t' => parentBurst n t'
    | none => t

/-- strictly decreases on every step of the shell, of a child, of a sender (`wait_trap_progress`) -/
def tmeasure (t : TSys) : Nat :=
  2 * measure t.sys + 3 * t.sigPending.length + 4 * t.senders.length

/-- one turn of the shell under the executor: it runs until it blocks or the built-in ends (`tmeasure t` steps
    are always enough: `parentTurn_blocked`) -/
def parentTurn (t : TSys) : TSys := parentBurst (tmeasure t) t

/-- a step of the system as the virtual executor schedules it: a turn of the shell is a whole burst -/
def bstep (t : TSys) : TLabel → Option TSys
  | .parent => (tparentStep t).map fun _ => parentTurn t
  | l => tstep t l

/-- executable scheduler of the driver: `choices` pick among the enabled labels; a parent turn is a burst -/
def trun : Nat → List Nat → TSys → TSys
  | 0, _, t => t
  | fuel + 1, choices, t =>
    if t.out.isSome then t   -- the built-in has ended: the shell goes on with the script
    else
    match tenabled t with
    | [] => t
    | l :: ls =>
      let pick := match choices with
        | [] => l
        | c :: _ => (l :: ls).getD (c % (ls.length + 1)) l
      match bstep t pick with
      | some t' => trun fuel choices.tail t'
      | none => t

/-! ### the trap action -/

/-- the body of the trap action as far as the run varies it: `echo …` (any commands that end normally), commands that
    look at `$?` first (`probe`), `return r` (inside a function: `Divert::Return`) -/
inductive TrapAct where
  | plain
  | probe (before : Nat)
  | ret (r : Nat)
  deriving DecidableEq, Repr

/-- `run_trap` → `Result`: `Continue(())`, or `Break(Divert::Return(Some(r)))` for `return r` -/
def TrapAct.divert : TrapAct → Option Nat
  | .ret r => some r
  | _ => none

/-- `$?` as the action sees it when it starts: the value before the trap was taken (XCU `trap`: "the value of `$?` …
    shall be the value it had before the trap action was executed" on exit; on entry the built-in has not set it yet) -/
def TrapAct.entryStatus (before : Nat) : TrapAct → Nat := fun _ => before

/-- `Command::execute` of `wait`: `Err(Trapped(signal, divert)) => Result::with_exit_status_and_divert(ExitStatus::from(signal), divert)`
    — the exit status of the built-in is that of the SIGNAL whatever the action's last command returned; a `return r`
    in the action makes the enclosing function return `r` at once (the rest of its body is skipped) -/
def trappedResult (offset σ : Nat) (act : TrapAct) : Nat × Option Nat := (σ + offset, act.divert)

/-- `$?` after the command that called `wait` inside a function body: the function's status -/
def statusAfter (res : Nat × Option Nat) : Nat := res.2.getD res.1

/-! ### the operand loop and the operand-less form on top of it -/

/-- how the whole built-in ends: per-operand statuses (the exit status is the last), or `Err(Trapped(sig, _))`
    after the operands in `sts` had finished, or `Err(NothingToWait)` / the driver's fuel ran out -/
inductive OpsOut where
  | done (sts : List Nat)
  | trapped (sig : Nat) (sts : List Nat)
  | failed (sts : List Nat)
  deriving DecidableEq, Repr

def OpsOut.push (st : Nat) : OpsOut → OpsOut
  | .done sts => .done (st :: sts)
  | .trapped σ sts => .trapped σ (st :: sts)
  | .failed sts => .failed (st :: sts)

/-- `Command::await_jobs` over the resolved operands (`None` / a job index that is gone → `NOT_FOUND`, else
    `wait_while_running(job_status(i)).await?` — the `?` ends the whole built-in on `Trapped`), `run` being the
    scheduler that takes a started operand to its end.  Returns the job table, the state and the outcome. -/
def tawaitJobs (run : TSys → TSys) : List Nat → TSys → List (Option Nat) → List Nat × TSys × OpsOut
  | jobs, t, [] => (jobs, t, .done [])
  | jobs, t, none :: ops =>
    let r := tawaitJobs run jobs t ops
    (r.1, r.2.1, r.2.2.push (waitStatus .echild))
  | jobs, t, some i :: ops =>
    if i ∈ jobs then
      let u := run (t.next i)
      match u.out with
      | some (.finished _ r) =>
        let q := tawaitJobs run (jobs.erase i) u ops
        (q.1, q.2.1, q.2.2.push r.status)
      | some (.trapped σ) => (jobs, u, .trapped σ [])
      | _ => (jobs, u, .failed [])
    else
      let r := tawaitJobs run jobs t ops
      (r.1, r.2.1, r.2.2.push (waitStatus .echild))

/-- `any_job_is_running`: `job_status` applied to every job removes the finished ones; `Break(SUCCESS)` when none is left -/
def unfinished (jobs : List Nat) (log : List (Nat × Result)) : List Nat :=
  jobs.filter fun j => (jobDone log j).isNone

/-- `wait` without operands: `wait_while_running(any_job_is_running)` — `k` bounds the iterations (driver's fuel) -/
def tawaitAll (run : TSys → TSys) : Nat → List Nat → TSys → List Nat × TSys × OpsOut
  | 0, jobs, t => (unfinished jobs t.sys.log, t, .failed [])
  | k + 1, jobs, t =>
    match unfinished jobs t.sys.log with
    | [] => ([], t, .done [EXIT_SUCCESS])
    | j :: js =>
      let u := run t.call
      match u.out with
      | some (.changed _) => tawaitAll run k (j :: js) u
      | some (.trapped σ) => (j :: js, u, .trapped σ [])
      | _ => (j :: js, u, .failed [])

end YashModel.Proc
