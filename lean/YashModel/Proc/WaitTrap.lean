/-
  C13 — Impl model (wave 3): the `wait` built-in waiting for ONE job while signals with a trap action
  arrive — `status::wait_while_running(job_status(index))` around `core::wait_for_any_job_or_trap`
  (yash-builtin/src/wait/status.rs, wait/core.rs), `Env::wait_for_signals` (yash-env/src/lib.rs: every
  signal `select` delivered is passed to `TrapSet::catch_signal`) and `trap::run_trap_if_caught`
  (yash-semantics/src/trap/signal.rs: `take_signal_if_caught`, only an `Action::Command` counts).

  The parent/children/SIGCHLD part is the `Sys` of `Model.lean` (same `childStep`, `sysWait`, `take`,
  `logOf`); added here: the signals OTHER than SIGCHLD that are sent to the shell while it waits.

  * A signal for which a trap command is set has the internal disposition `Catch`, hence (through
    `Concurrent::set_disposition`) it is blocked outside `select` and becomes pending (`sigPending`);
    the `select` inside `wait_for_signals` unblocks, and ALL pending caught signals — SIGCHLD included —
    are delivered in that one call and returned as one list (`Concurrent::select_impl`:
    `self.inner.caught_signals()`).
  * `wait_for_any_job_or_trap`: after `wait_for_signals` the loop runs, in list order, the trap of the
    first signal that has one and returns `Err(Trapped(signal, _))` — whether or not SIGCHLD is in the
    same list: XCU 2.12 "the reception of a signal for which a trap has been set shall cause the wait
    utility to return immediately with an exit status >128".  Only when no trap ran does the loop go
    back to `system.wait(-1)`.
  * `senders`: which child sends which signal to the shell (`kill -s SIG $$` inside an asynchronous
    list).  The `kill` precedes the child's `exit` in program order, so a child with an unsent entry
    cannot take its last step.

  Not modelled: `signals.contains(SIGINT) && env.sigint_has_default_action()` (interactive shells only: a
  defaulted SIGINT kills a non-interactive shell), signals that are neither trapped nor ignored (they
  end the shell), a trap set for SIGCHLD itself, what the trap action does (its `Result` is passed on).
-/
import YashModel.Proc.Lemmas
namespace YashModel.Proc

/-- how `wait_while_running(job_status(j))` ends -/
inductive TrapOut where
  /-- `Ok(exit_status)`: the job has finished (and is removed from the job list) -/
  | finished (i : Nat) (r : Result)
  /-- `Err(NothingToWait)` -/
  | nothing
  /-- `Err(Trapped(sig, _))`: the trap action of `sig` was run, the built-in ends with `ExitStatus::from(sig)` -/
  | trapped (sig : Nat)
  deriving DecidableEq, Repr

structure TSys where
  sys : Sys
  /-- the job (child index) the operand names -/
  job : Nat
  /-- signals with `Action::Command` -/
  traps : List Nat
  /-- trapped signals sent to the shell and not yet delivered (blocked outside `select`) -/
  sigPending : List Nat := []
  /-- `TrapSet`: signals caught (`catch_signal`) whose trap action has not run yet — run after the built-in -/
  flags : List Nat := []
  /-- `(child, signal)`: that child will send that signal to the shell before it exits -/
  senders : List (Nat × Nat) := []
  out : Option TrapOut := none
  deriving Repr

/-- `job_status`: the recorded state of the job is final (the `log` entry of the child, see `jobStatus`) -/
def jobDone (log : List (Nat × Result)) (j : Nat) : Option Result :=
  (log.find? (fun e => e.1 == j)).map (·.2)

/-- the first signal of the delivered list for which `run_trap_if_caught` returns `Some` -/
def firstTrapped (traps sigs : List Nat) : Option Nat :=
  sigs.find? (fun σ => traps.contains σ)

/-- The built-in starts waiting for job `j`: `job_status` is looked at BEFORE the first
    `wait_for_any_job_or_trap` (`loop { if let Break(st) = job_status(..) { return Ok(st) } wait_for_any_job_or_trap(env).await?; }`). -/
def TSys.start (s : Sys) (j : Nat) (traps : List Nat) (senders : List (Nat × Nat)) : TSys :=
  match jobDone s.log j with
  | some r => { sys := { s with target := .any, todo := [], pc := .done }, job := j, traps := traps,
                senders := senders, out := some (.finished j r) }
  | none => { sys := { s with target := .any, todo := [], pc := .enable }, job := j, traps := traps,
              senders := senders }

/-- One step of the shell inside `wait_while_running` / `wait_for_any_job_or_trap`. -/
def tparentStep (t : TSys) : Option TSys :=
  match t.out with
  | some _ => none
  | none =>
    match t.sys.pc with
    | .enable =>
      -- `env.traps.enable_internal_disposition_for_sigchld(&env.system).await?` FIRST
      some { t with sys := { t.sys with disp := .catch, pc := .poll } }
    | .poll =>
      -- `match env.system.wait(Pid::ALL)`
      match sysWait t.sys.children .any with
      | .state i st =>
        -- `env.jobs.update_status(pid, state); return Ok(())`, then `job_status` again
        match jobDone (logOf i st ++ t.sys.log) t.job with
        | some r =>
          some { t with sys := { t.sys with children := take t.sys.children i, log := logOf i st ++ t.sys.log,
                                            pc := .done },
                        out := some (.finished t.job r) }
        | none =>
          some { t with sys := { t.sys with children := take t.sys.children i, log := logOf i st ++ t.sys.log,
                                            pc := .enable } }
      | .none => some { t with sys := { t.sys with pc := .await } }
      | .echild => some { t with sys := { t.sys with pc := .done }, out := some .nothing }
    | .await =>
      -- `let signals = env.wait_for_signals().await;` — returns once something caught is pending, with ALL of it
      if t.sys.pending || !t.sigPending.isEmpty then
        -- `for signal in signals { if let Some(result) = run_trap_if_caught(env, signal).await { return Err(Trapped(..)) } }`
        match firstTrapped t.traps t.sigPending with
        | some σ =>
          some { t with sys := { t.sys with pending := false, pc := .done }, sigPending := [],
                        flags := (t.flags ++ t.sigPending).erase σ, out := some (.trapped σ) }
        | none =>
          some { t with sys := { t.sys with pending := false, pc := .poll }, sigPending := [],
                        flags := t.flags ++ t.sigPending }
      else none
    | _ => none

/-- a step of child `i`: as in `Model.lean`, but the child's last step (`exit`) comes after its `kill`s -/
def tchildStep (t : TSys) (i : Nat) : Option TSys :=
  match t.sys.children[i]? with
  | some c =>
    if c.state = .running 0 c.state.fin ∧ t.senders.any (fun e => e.1 == i) then none
    else (childStep t.sys i).map fun s => { t with sys := s }
  | none => none

/-- the `k`-th sender entry fires: `kill -s SIG $$` in a live child.  A trapped signal becomes pending at the
    shell (once: pending signals are a set); any other is ignored here. -/
def tsendStep (t : TSys) (k : Nat) : Option TSys :=
  match t.senders[k]? with
  | some (i, σ) =>
    match t.sys.children[i]? with
    | some c =>
      if c.state.isAlive then
        some { t with senders := t.senders.eraseIdx k,
                      sigPending := if t.traps.contains σ && !t.sigPending.contains σ
                                    then t.sigPending ++ [σ] else t.sigPending }
      else none
    | none => none
  | none => none

inductive TLabel where
  | parent
  | child (i : Nat)
  | send (k : Nat)
  deriving DecidableEq, Repr

def tstep (t : TSys) : TLabel → Option TSys
  | .parent => tparentStep t
  | .child i => tchildStep t i
  | .send k => tsendStep t k

def tenabled (t : TSys) : List TLabel :=
  ((TLabel.parent :: ((List.range t.sys.children.length).map TLabel.child ++
      (List.range t.senders.length).map TLabel.send)).filter fun l => (tstep t l).isSome)

/-- the shell runs until it blocks or the built-in ends: a virtual process yields to the executor only where
    its `select` would block (`Concurrent::run_virtual`) -/
def parentBurst : Nat → TSys → TSys
  | 0, t => t
  | n + 1, t =>
    match tparentStep t with
    | some t' => parentBurst n t'
    | none => t

/-- strictly decreases on every step of the shell, of a child, of a sender (`wait_trap_progress`) -/
def tmeasure (t : TSys) : Nat :=
  measure t.sys + 3 * t.sigPending.length + 4 * t.senders.length

/-- one turn of the shell under the executor: it runs until it blocks or the built-in ends (`tmeasure t` steps
    are always enough: `parentTurn_blocked`) -/
def parentTurn (t : TSys) : TSys := parentBurst (tmeasure t) t

/-- a step of the system as the virtual executor schedules it: a turn of the shell is a whole burst -/
def bstep (t : TSys) : TLabel → Option TSys
  | .parent => (tparentStep t).map fun _ => parentTurn t
  | l => tstep t l

/-- executable scheduler of the driver: `choices` pick among the enabled labels; a parent turn is a burst -/
def trun : Nat → List Nat → TSys → TSys
  | 0, _, t => t
  | fuel + 1, choices, t =>
    match tenabled t with
    | [] => t
    | l :: ls =>
      let pick := match choices with
        | [] => l
        | c :: _ => (l :: ls).getD (c % (ls.length + 1)) l
      match bstep t pick with
      | some t' => trun fuel choices.tail t'
      | none => t

end YashModel.Proc
