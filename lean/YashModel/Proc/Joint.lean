/-
  C13 — the JOINT system: the parent of `Model.lean` (program counter of `wait`, SIGCHLD, the
  `state_has_changed` flags, its list of requests) together with the children of `Pipeline.lean` (the
  stages of a pipeline, whose steps are pipe reads, writes and exits).  What the parent can see of child
  `i` is derived from stage `i`: alive while the stage has not ended, `exited st` afterwards; the exit of a
  stage is the one event that touches the parent's side (`set_state`: flag, SIGCHLD to the parent).

  The existing invariants (`Inv`, `Awaited`, `Hyg`) and measures (`measure`, `pmeas`) are reused as lemmas:
  the parent's view moves by `parentStep` or by "child `i` ends with this status", which is `childStep`
  of a child whose fate has just been fixed (`inv_refate`).
-/
import YashModel.Proc.Ops
import YashModel.Proc.PipelineMeasure
namespace YashModel.Proc

structure JSys where
  /-- the parent, and what it can see of its children -/
  view : Sys
  /-- the children: the stages and the pipes between them -/
  pl : PSys

/-- `Process::set_state(Exited st)` of child `i` as the parent's side sees it: final state, flag, SIGCHLD -/
def exitView (v : Sys) (i st : Nat) : Sys :=
  raiseSigchld { v with children := v.children.set i { state := .halted (.exited st), changed := true } }

inductive JLabel where
  | parent
  | stage (i : Nat)
  deriving DecidableEq, Repr

/-- one step of the joint system: the parent moves, or stage `i` makes one system call / ends -/
def jstep (c : PCfg) (j : JSys) : JLabel → Option JSys
  | .parent => (parentStep j.view).map fun v => { j with view := v }
  | .stage i =>
    match stageStep c j.pl i with
    | none => none
    | some pl' =>
      match (pl'.stages[i]?).bind (·.exit) with
      | some st => some { view := exitView j.view i st, pl := pl' }
      | none => some { j with pl := pl' }

/-- the pipeline `progs`, its descriptors set up as `execute_multi_command_pipeline` leaves them, and a
    parent that has forked the stages and still has `reqs` to do -/
def jinit (progs : List SProg) (reqs : List Req) : JSys :=
  { view := init (progs.map fun _ => (0, Result.exited 0)) reqs, pl := mkPipeline progs }

inductive JSteps (c : PCfg) : JSys → JSys → Prop where
  | refl (j : JSys) : JSteps c j j
  | tail {j k l : JSys} (lab : JLabel) : JSteps c j k → jstep c k lab = some l → JSteps c j l

inductive JStepsN (c : PCfg) : Nat → JSys → JSys → Prop where
  | refl (j : JSys) : JStepsN c 0 j j
  | tail {n : Nat} {j k l : JSys} (lab : JLabel) : JStepsN c n j k → jstep c k lab = some l →
      JStepsN c (n + 1) j l

theorem JSteps.head {c : PCfg} {j k l : JSys} (lab : JLabel) (hs : jstep c j lab = some k)
    (h : JSteps c k l) : JSteps c j l := by
  induction h with
  | refl => exact .tail lab (.refl j) hs
  | tail lab' _ hl ih => exact .tail lab' ih hl

def jmeasure (j : JSys) : Nat := measure j.view + pmeas j.pl

/-! ### what a stage step does to the stages -/

theorem stage_frame {c : PCfg} {s s' : PSys} {i : Nat} (hs : stageStep c s i = some s') :
    ∃ st st', s.stages[i]? = some st ∧ st.exit = none ∧ s'.stages = s.stages.set i st' := by
  unfold stageStep at hs
  split at hs
  · simp at hs
  · rename_i st hst
    split at hs
    · simp at hs
    · rename_i hex
      have hnone : st.exit = none := by cases h' : st.exit <;> simp_all
      have hadd : ∀ (t : PSys) (j m : Nat), (addContent t j m).stages = t.stages := addContent_stages
      have hsub : ∀ (t : PSys) (j m : Nat), (subContent t j m).stages = t.stages := subContent_stages
      repeat' split at hs
      all_goals first
        | (simp at hs; done)
        | (simp only [Option.some.injEq] at hs; subst hs
           first
             | exact ⟨st, _, hst, hnone, rfl⟩
             | exact ⟨st, _, hst, hnone, by rw [hadd]; rfl⟩
             | exact ⟨st, _, hst, hnone, by rw [hsub]; rfl⟩
             | exact ⟨st, st, hst, hnone, by rw [hsub, set_self hst]⟩)

/-! ### the parent's view and the stages agree -/

structure Coupled (j : JSys) : Prop where
  len : j.view.children.length = j.pl.stages.length
  alive : ∀ (i : Nat) (c : Child), j.view.children[i]? = some c → c.state.isAlive = j.pl.alive i
  status : ∀ (i : Nat) (c : Child) (r : Result), j.view.children[i]? = some c → c.state = .halted r →
    ∃ st stg, j.pl.stages[i]? = some stg ∧ stg.exit = some st ∧ r = .exited st

theorem coupled_init (progs : List SProg) (reqs : List Req) : Coupled (jinit progs reqs) := by
  refine ⟨by simp [jinit, init, mkPipeline], ?_, ?_⟩
  · intro i c hc
    simp only [jinit, init, List.getElem?_map, List.map_map] at hc
    unfold PSys.alive
    simp only [jinit, mkPipeline, List.getElem?_map]
    cases hp : progs[i]? with
    | none => simp [hp] at hc
    | some p => simp [hp] at hc; subst hc; simp [PState.isAlive]
  · intro i c r hc hst
    simp only [jinit, init, List.getElem?_map, List.map_map] at hc
    cases hp : progs[i]? with
    | none => simp [hp] at hc
    | some p => simp [hp] at hc; subst hc; simp at hst

/-- the parent changes only the flags of its children -/
theorem parent_states {s s' : Sys} (hs : parentStep s = some s') (i : Nat) :
    (s'.children[i]?).map (·.state) = (s.children[i]?).map (·.state) := by
  rcases parent_children hs with h | ⟨j, h⟩
  · rw [h]
  · rw [h]
    unfold take
    split
    · rename_i c hc
      rw [set_get hc]
      by_cases hij : i = j
      · subst hij; simp [hc]
      · simp [hij]
    · rfl

theorem coupled_parent {j : JSys} {v : Sys} (h : Coupled j) (hs : parentStep j.view = some v) :
    Coupled { j with view := v } := by
  have hlen : v.children.length = j.view.children.length := by
    rcases parent_children hs with e | ⟨k, e⟩
    · rw [e]
    · rw [e, length_take]
  have hst : ∀ (i : Nat) (c : Child), v.children[i]? = some c →
      ∃ c0, j.view.children[i]? = some c0 ∧ c0.state = c.state := by
    intro i c hc
    have := parent_states hs i
    rw [hc] at this
    cases h0 : j.view.children[i]? with
    | none => simp [h0] at this
    | some c0 => simp [h0] at this; exact ⟨c0, rfl, this.symm⟩
  refine ⟨by simp only [hlen]; exact h.len, ?_, ?_⟩
  · intro i c hc
    obtain ⟨c0, h0, e⟩ := hst i c hc
    rw [← e]; exact h.alive i c0 h0
  · intro i c r hc hr
    obtain ⟨c0, h0, e⟩ := hst i c hc
    exact h.status i c0 r h0 (by rw [e]; exact hr)

theorem alive_set_other {s : PSys} {i k : Nat} {st st' : Stage} (h : s.stages[i]? = some st)
    (hk : k ≠ i) (pipes : List Pipe) :
    PSys.alive { stages := s.stages.set i st', pipes := pipes } k = s.alive k := by
  unfold PSys.alive
  simp only [get_set h]
  simp [hk]

theorem exitView_children (v : Sys) (i st : Nat) :
    (exitView v i st).children = v.children.set i { state := .halted (.exited st), changed := true } := by
  unfold exitView raiseSigchld; split <;> rfl

theorem coupled_stage {c : PCfg} {j k : JSys} {i : Nat} (h : Coupled j)
    (hs : jstep c j (.stage i) = some k) : Coupled k := by
  simp only [jstep] at hs
  split at hs
  · simp at hs
  · rename_i pl' hpl
    obtain ⟨st, st', hst, hnone, hstages⟩ := stage_frame hpl
    have hi : i < j.pl.stages.length := lt_of_get hst
    have hget' : pl'.stages[i]? = some st' := by rw [hstages, get_set hst]; simp
    have hlen' : pl'.stages.length = j.pl.stages.length := by rw [hstages]; simp
    have hother : ∀ k', k' ≠ i → pl'.alive k' = j.pl.alive k' := by
      intro k' hk
      unfold PSys.alive
      rw [hstages, get_set hst]; simp [hk]
    obtain ⟨c0, hc0⟩ : ∃ c0, j.view.children[i]? = some c0 := by
      have : i < j.view.children.length := by rw [h.len]; exact hi
      exact ⟨_, List.getElem?_eq_getElem this⟩
    split at hs
    · -- the stage has ended
      rename_i stn hex
      simp only [Option.some.injEq] at hs; subst hs
      have hex' : st'.exit = some stn := by rw [hget'] at hex; simpa using hex
      refine ⟨?_, ?_, ?_⟩
      · simp only [exitView_children, List.length_set, hlen']; exact h.len
      · intro k' cc hk
        simp only [exitView_children, set_get hc0] at hk
        by_cases hki : k' = i
        · subst hki
          simp at hk; subst hk
          unfold PSys.alive
          simp [hget', hex', PState.isAlive]
        · simp [hki] at hk
          rw [hother k' hki]; exact h.alive k' cc hk
      · intro k' cc r hk hr
        simp only [exitView_children, set_get hc0] at hk
        by_cases hki : k' = i
        · subst hki
          simp at hk; subst hk
          simp at hr; subst hr
          exact ⟨stn, st', hget', hex', rfl⟩
        · simp [hki] at hk
          obtain ⟨s0, stg, h1, h2, h3⟩ := h.status k' cc r hk hr
          exact ⟨s0, stg, by rw [hstages, get_set hst]; simp [hki, h1], h2, h3⟩
    · -- the stage goes on
      rename_i hex
      simp only [Option.some.injEq] at hs; subst hs
      have hex' : st'.exit = none := by
        rw [hget'] at hex
        cases he : st'.exit <;> simp_all
      refine ⟨by simp only [hlen']; exact h.len, ?_, ?_⟩
      · intro k' cc hk
        by_cases hki : k' = i
        · subst hki
          have := h.alive k' cc hk
          rw [this]
          unfold PSys.alive
          simp [hst, hnone, hget', hex']
        · rw [hother k' hki]; exact h.alive k' cc hk
      · intro k' cc r hk hr
        obtain ⟨s0, stg, h1, h2, h3⟩ := h.status k' cc r hk hr
        by_cases hki : k' = i
        · subst hki
          rw [hst] at h1; simp at h1; subst h1
          rw [hnone] at h2; simp at h2
        · exact ⟨s0, stg, by rw [hstages, get_set hst]; simp [hki, h1], h2, h3⟩

/-! ### the exit of a child, seen from the parent's side, is `childStep` of a child whose fate is fixed -/

/-- fixing the fate of a child that has not ended (how many steps, which final status) keeps `Inv` -/
theorem inv_refate {s : Sys} (hi : Inv s) {i f : Nat} {fin : Result} {ch : Bool} (r' : Result)
    (hc : s.children[i]? = some { state := .running f fin, changed := ch }) :
    Inv { s with children := s.children.set i { state := .running 0 r' } } := by
  have hch : ch = false := by
    cases hb : ch with
    | false => rfl
    | true =>
      subst hb
      have := hi.changed_halted i _ hc rfl; simp [PState.isAlive] at this
  subst hch
  have hnolog : ∀ r, (i, r) ∉ s.log := by
    intro r hm
    obtain ⟨c, h1, h2⟩ := hi.logged i r hm
    rw [hc] at h1; simp at h1; subst h1; simp at h2
  refine ⟨?_, hi.handler, ?_, ?_, ?_, ?_⟩
  · intro j c hj hch
    simp only [set_get hc] at hj
    by_cases hji : j = i
    · simp [hji] at hj; subst hj; simp at hch
    · simp [hji] at hj; exact hi.changed_halted j c hj hch
  · intro hpc j c hj hm hch
    simp only [set_get hc] at hj
    by_cases hji : j = i
    · simp [hji] at hj; subst hj; simp at hch
    · simp [hji] at hj; exact hi.no_lost hpc j c hj hm hch
  · intro hpc
    obtain ⟨j, c, hj, hm, hor⟩ := hi.awaited hpc
    by_cases hji : j = i
    · subst hji
      exact ⟨j, { state := .running 0 r' }, by simp [set_get hc], hm, Or.inl (by simp [PState.isAlive])⟩
    · exact ⟨j, c, by simp [set_get hc, hji, hj], hm, hor⟩
  · intro j
    by_cases hji : j = i
    · subst hji
      have := hi.once j
      rw [reaped_self hc] at this
      simp only
      rw [reaped_set_self hc]
      simpa [PState.isAlive] using this
    · simp only; rw [reaped_set_other hc hji]; exact hi.once j
  · intro j r hm
    by_cases hji : j = i
    · subst hji; exact absurd hm (hnolog r)
    · obtain ⟨c, h1, h2⟩ := hi.logged j r hm
      exact ⟨c, by simp [set_get hc, hji, h1], h2⟩

theorem exitView_eq_childStep {s : Sys} {i st : Nat} {c : Child}
    (hc : s.children[i]? = some c) :
    childStep { s with children := s.children.set i { state := .running 0 (.exited st) } } i =
      some (exitView s i st) := by
  unfold childStep exitView
  simp only [set_get hc, if_true]
  have : (s.children.set i { state := PState.running 0 (Result.exited st) }).set i
      { state := PState.halted (Result.exited st), changed := true } =
      s.children.set i { state := PState.halted (Result.exited st), changed := true } := by
    simp [List.set_set]
  simp only [this]

/-- a live child ends: everything the parent-side theorems need is kept -/
theorem view_exit {reqs : List Req} {s : Sys} {i st : Nat} {c : Child} (hi : Inv s)
    (ha : Awaited reqs s) (hc : s.children[i]? = some c) (hal : c.state.isAlive = true) :
    Inv (exitView s i st) ∧ Awaited reqs (exitView s i st) ∧ measure (exitView s i st) < measure s := by
  obtain ⟨f, fin, hst⟩ : ∃ f fin, c.state = .running f fin := by
    cases h : c.state with
    | running f fin => exact ⟨f, fin, rfl⟩
    | halted r => simp [h, PState.isAlive] at hal
  have hc' : s.children[i]? = some { state := .running f fin, changed := c.changed } := by
    rw [hc]; cases c; simp_all
  have hstep := exitView_eq_childStep (st := st) hc
  have hinv1 := inv_refate hi (.exited st) hc'
  refine ⟨inv_child i hinv1 hstep, ?_, ?_⟩
  · apply awaited_child i _ hstep
    intro k hk hlen
    simp only [List.length_set] at hlen
    rcases ha k hk hlen with h1 | h1 | h1
    · exact Or.inl h1
    · exact Or.inr (Or.inl h1)
    · refine Or.inr (Or.inr ?_)
      by_cases hki : k = i
      · subst hki
        rw [reaped_self hc] at h1; simp [hal] at h1
      · simp only; rw [reaped_set_other hc hki]; exact h1
  · have h1 := measure_child i hstep
    have h2 := childrenW_set hc { state := PState.running 0 (Result.exited st) }
    have hcw : 6 ≤ childW c := by
      unfold childW; rw [hst]; simp only; omega
    have hnew : childW ({ state := PState.running 0 (Result.exited st) } : Child) = 6 := by
      simp [childW]
    have hle : measure { s with children := s.children.set i { state := .running 0 (.exited st) } } ≤
        measure s := by
      simp only [measure]
      rw [hnew] at h2
      omega
    omega

/-! ### the invariant of the joint system -/

structure JInv (c : PCfg) (reqs : List Req) (j : JSys) : Prop where
  inv : Inv j.view
  awaited : Awaited reqs j.view
  hyg : Hyg c j.pl
  coupled : Coupled j

theorem jinv_init (c : PCfg) (progs : List SProg) (hne : progs ≠ []) (reqs : List Req) :
    JInv c reqs (jinit progs reqs) :=
  ⟨inv_init' _ _, awaited_init _ _, hyg_init c progs hne, coupled_init progs reqs⟩

theorem view_child_of_alive {j : JSys} (h : Coupled j) {i : Nat} (hal : j.pl.alive i = true) :
    ∃ c, j.view.children[i]? = some c ∧ c.state.isAlive = true := by
  have hi : i < j.view.children.length := by rw [h.len]; exact alive_lt hal
  refine ⟨_, List.getElem?_eq_getElem hi, ?_⟩
  rw [h.alive i _ (List.getElem?_eq_getElem hi)]; exact hal

theorem stage_alive_of_step {c : PCfg} {s s' : PSys} {i : Nat} (hs : stageStep c s i = some s') :
    s.alive i = true := by
  obtain ⟨st, _, hst, hnone, _⟩ := stage_frame hs
  unfold PSys.alive; simp [hst, hnone]

theorem jinv_step {c : PCfg} {reqs : List Req} {j k : JSys} (hv : c.Valid) (lab : JLabel)
    (h : JInv c reqs j) (hs : jstep c j lab = some k) : JInv c reqs k ∧ jmeasure k < jmeasure j := by
  cases lab with
  | parent =>
    simp only [jstep, Option.map_eq_some_iff] at hs
    obtain ⟨v, hv', rfl⟩ := hs
    exact ⟨⟨inv_parent h.inv hv', awaited_parent h.inv h.awaited hv', h.hyg, coupled_parent h.coupled hv'⟩,
      by have := measure_parent hv'; simp only [jmeasure]; omega⟩
  | stage i =>
    have hcoup := coupled_stage h.coupled hs
    simp only [jstep] at hs
    split at hs
    · simp at hs
    · rename_i pl' hpl
      have hhyg := hyg_step h.hyg hpl
      have hpm := pmeas_step hv hpl
      split at hs
      · rename_i stn hex
        simp only [Option.some.injEq] at hs; subst hs
        obtain ⟨c0, hc0, hal0⟩ := view_child_of_alive h.coupled (stage_alive_of_step hpl)
        obtain ⟨h1, h2, h3⟩ := view_exit (st := stn) h.inv h.awaited hc0 hal0
        exact ⟨⟨h1, h2, hhyg, hcoup⟩, by simp only [jmeasure]; omega⟩
      · simp only [Option.some.injEq] at hs; subst hs
        exact ⟨⟨h.inv, h.awaited, hhyg, hcoup⟩, by simp only [jmeasure]; omega⟩

theorem jinv_steps {c : PCfg} {reqs : List Req} {j k : JSys} (hv : c.Valid) (h : JSteps c j k)
    (hj : JInv c reqs j) : JInv c reqs k := by
  induction h with
  | refl => exact hj
  | tail lab _ hs ih => exact (jinv_step hv lab ih hs).1

/-- the joint system is never stuck while the parent has something left to do or a stage is alive -/
theorem jnot_stuck {c : PCfg} {reqs : List Req} {j : JSys} (hv : c.Valid) (h : JInv c reqs j)
    (hlive : j.view.final = false ∨ j.pl.done = false) : ∃ lab k, jstep c j lab = some k := by
  have stage_moves : (∃ i, j.pl.alive i = true) → ∃ lab k, jstep c j lab = some k := by
    intro ⟨i, hi⟩
    obtain ⟨i', pl', hs⟩ := pipeline_not_stuck hv h.hyg hi
    refine ⟨.stage i', ?_⟩
    simp only [jstep, hs]
    split <;> exact ⟨_, rfl⟩
  rcases hlive with hf | hd
  · obtain ⟨l, s', hs⟩ := not_stuck h.inv hf
    cases l with
    | parent => exact ⟨.parent, { j with view := s' }, by simp only [jstep]; rw [show parentStep j.view = some s' from hs]; rfl⟩
    | child i =>
      -- the view says child `i` is alive: so is stage `i`; some stage can move
      apply stage_moves
      refine ⟨i, ?_⟩
      simp only [step] at hs
      unfold childStep at hs
      split at hs
      · rename_i cc hcc
        rw [← h.coupled.alive i cc hcc]
        cases hst : cc.state with
        | running f r => simp [PState.isAlive]
        | halted r => simp [hst] at hs
      · simp at hs
  · exact stage_moves (not_done_alive hd)

theorem jstep_len {c : PCfg} {j k : JSys} (lab : JLabel) (hs : jstep c j lab = some k) :
    k.pl.stages.length = j.pl.stages.length := by
  cases lab with
  | parent =>
    simp only [jstep, Option.map_eq_some_iff] at hs
    obtain ⟨v, _, rfl⟩ := hs; rfl
  | stage i =>
    simp only [jstep] at hs
    split at hs
    · simp at hs
    · rename_i pl' hpl
      obtain ⟨_, _, _, _, hst⟩ := stage_frame hpl
      have : pl'.stages.length = j.pl.stages.length := by rw [hst]; simp
      split at hs <;> (simp only [Option.some.injEq] at hs; subst hs; exact this)

theorem jsteps_len {c : PCfg} {j k : JSys} (h : JSteps c j k) :
    k.pl.stages.length = j.pl.stages.length := by
  induction h with
  | refl => rfl
  | tail lab _ hs ih => rw [jstep_len lab hs, ih]

end YashModel.Proc
