/-
  C13 — lemmas connecting the interpreter of the run (`Prog.lean`, `St.trapWait`) to the `wait`/trap model
  (`WaitTrap.lean`): `fork` keeps the invariant, `St.trapWait` is `trapWaitRun` on the state `St.newJob` produces.
-/
import YashModel.Proc.TrapLemmas
import YashModel.Proc.Prog
namespace YashModel.Proc
open YashModel.Generated.ProcConsts (SIGNAL_EXIT_OFFSET)


/-- `fork`: a new running child at the end of the process table keeps the invariant -/
theorem inv_fork {s : Sys} (h : Inv s) (f : Nat) (r : Result) :
    Inv { s with children := s.children ++ [{ state := .running f r }] } := by
  have hold : ∀ (i : Nat) (c : Child), s.children[i]? = some c →
      (s.children ++ [({ state := .running f r } : Child)])[i]? = some c := by
    intro i c hc
    have hi : i < s.children.length := by
      rcases Nat.lt_or_ge i s.children.length with h' | h'
      · exact h'
      · simp [List.getElem?_eq_none h'] at hc
    rw [List.getElem?_append_left hi]; exact hc
  have hnew : ∀ (i : Nat) (c : Child), (s.children ++ [({ state := .running f r } : Child)])[i]? = some c →
      s.children[i]? = some c ∨ (i = s.children.length ∧ c = { state := .running f r }) := by
    intro i c hc
    rcases Nat.lt_or_ge i s.children.length with h' | h'
    · rw [List.getElem?_append_left h'] at hc; exact Or.inl hc
    · rw [List.getElem?_append_right h'] at hc
      cases hk : i - s.children.length with
      | zero => simp [hk] at hc; exact Or.inr ⟨by omega, hc.symm⟩
      | succ k => simp [hk] at hc
  have hnolog : ∀ i, s.children.length ≤ i → logCount s.log i = 0 := by
    intro i hi
    simp only [logCount, List.countP_eq_zero]
    intro e he hei
    simp at hei
    obtain ⟨c, hc, _⟩ := h.logged e.1 e.2 (by simpa using he)
    rw [hei] at hc
    simp [List.getElem?_eq_none hi] at hc
  refine ⟨?_, h.handler, ?_, ?_, ?_, ?_⟩
  · intro i c hc hch
    rcases hnew i c hc with h1 | ⟨_, h1⟩
    · exact h.changed_halted i c h1 hch
    · subst h1; simp at hch
  · intro hpc i c hc hm hch
    rcases hnew i c hc with h1 | ⟨_, h1⟩
    · exact h.no_lost hpc i c h1 hm hch
    · subst h1; simp at hch
  · intro hpc
    obtain ⟨i, c, hc, hm, hor⟩ := h.awaited hpc
    exact ⟨i, c, hold i c hc, hm, hor⟩
  · intro i
    rcases Nat.lt_or_ge i s.children.length with h' | h'
    · have : reaped (s.children ++ [({ state := .running f r } : Child)]) i = reaped s.children i := by
        unfold reaped; rw [List.getElem?_append_left h']
      show logCount s.log i = _
      rw [this]; exact h.once i
    · show logCount s.log i = _
      rw [hnolog i h']
      have : reaped (s.children ++ [({ state := .running f r } : Child)]) i = false := by
        unfold reaped
        rw [List.getElem?_append_right h']
        cases hk : i - s.children.length with
        | zero => simp [PState.isAlive]
        | succ k => simp
      rw [this]; rfl
  · intro i r' hm
    obtain ⟨c, hc, hst⟩ := h.logged i r' hm
    exact ⟨c, hold i c hc, hst⟩

theorem next_eq_start (s : Sys) (pid σ : Nat) :
    ({ sys := s, job := pid, traps := [σ], senders := [(pid, σ)], out := some .nothing } : TSys).next pid =
      TSys.start s pid [σ] [(pid, σ)] := by
  cases h : jobDone s.log pid <;> simp [TSys.next, TSys.start, h]

/-- what `St.trapWait [sig] n [] false` runs in the model column once `St.newJob` has forked the job: the operand
    loop over the one operand `$!`, started between two commands -/
def trapWaitRun (digits : List Nat) (runs : Nat) (s : Sys) (active : List Nat) (pid σ : Nat) :
    List Nat × TSys × OpsOut :=
  tawaitJobs (fun x => trun 100000 (mkChoices digits runs) (parentTurn x)) active
    { sys := s, job := pid, traps := [σ], senders := [(pid, σ)], out := some .nothing } [some pid]

/-- the status the driver prints for an outcome of the built-in -/
def opsStatus : OpsOut → Nat
  | .trapped σ _ => σ + SIGNAL_EXIT_OFFSET
  | .done sts => sts.getLast?.getD 0
  | .failed _ => 998

/-- `St.trapWait` in the model column IS `trapWaitRun` on the state `St.newJob` produces (new child at the end of the
    process table with pid = its index, appended to the job table) — by unfolding the interpreter -/
theorem trapWait_uses_run (st : St) (sig : String) (n : Nat) (hu : st.useSys = true)
    (hchld : (sig != "CHLD") = true) :
    let res := trapWaitRun st.digits st.runs
      { st.sys with children := st.sys.children ++
          [{ state := .running (fuelOf st.digits st.sys.children.length) (.exited (exitStatusSeen n)) }] }
      (st.active ++ [st.sys.children.length]) st.sys.children.length (sigNo sig)
    (st.trapWait [sig] n [] false).sys = res.2.1.sys ∧ (st.trapWait [sig] n [] false).active = res.1 ∧
    (st.trapWait [sig] n [] false).status = opsStatus res.2.2 := by
  intro res
  have hgl : ((st.jobs ++ [(st.nasync + 1, st.sys.children.length, exitStatusSeen n)]).getLast?.map (·.2.1)).getD 0 =
      st.sys.children.length := by simp
  have hres : res = trapWaitRun st.digits st.runs
      { st.sys with children := st.sys.children ++
          [{ state := .running (fuelOf st.digits st.sys.children.length) (.exited (exitStatusSeen n)) }] }
      (st.active ++ [st.sys.children.length]) st.sys.children.length (sigNo sig) := rfl
  simp only [St.trapWait, hu, if_true, St.newJob, St.fork, mkChildren, hgl, List.filter, hchld, List.map,
    Bool.false_eq_true, if_false, List.mapM_nil, Option.pure_def, Option.getD_some]
  simp only [trapWaitRun] at hres
  rw [← hres]
  cases res.2.2 <;> exact ⟨rfl, rfl, rfl⟩


end YashModel.Proc
