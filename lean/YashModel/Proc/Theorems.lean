/-
  C13 — property theorems (and non-vacuity examples) ONLY.  Helper lemmas: `Lemmas.lean`, `Steps.lean`.

  Property text: "For every script that starts children (pipelines, asynchronous lists, subshells,
  command substitutions) and under every interleaving of those processes, the shell terminates without
  deadlock; `wait`, `$?` and `$!` report each child's true exit status and identity (the last command
  for a pipeline, the rightmost failure under `pipefail`, 127 for an unknown pid); and every child is
  reaped exactly once, leaving no zombie.  No result depends on which process happens to run first
  unless the script itself contains a race."

  This file is the THEOREM HALF of a partial claim: it speaks about the small-step model of
  `Model.lean` — one parent executing any list of `wait` requests, any number of children with any
  behaviour (`spec`: number of internal steps and final status of each), any scheduler (`Steps`: any
  finite sequence of enabled steps).  Every step of the model is atomic; that the real code's
  check-then-register sequences behave atomically is shown only by the schedule-exploring run.
-/
import YashModel.Proc.Steps
import YashModel.Proc.Awaited
import YashModel.Proc.Ops
import YashModel.Proc.PipelineMeasure
import YashModel.Proc.Joint
import YashModel.Proc.FdLemmas
import YashModel.Proc.Order
import YashModel.Proc.Spec
namespace YashModel.Proc

/-- The invariant holds initially for every system and is preserved by every step of every process. -/
theorem inv_inductive :
    (∀ spec reqs, Inv (init spec reqs)) ∧
    (∀ s l s', Inv s → step s l = some s' → Inv s') :=
  ⟨inv_init', fun _ l _ h hs => inv_step' l h hs⟩

/-- ★ No lost SIGCHLD.  In every reachable state in which the parent is blocked waiting for SIGCHLD:
    the internal handler is installed (it was installed before the poll), and if any child the
    parent is waiting for has a state change that `wait` has not yet reported, SIGCHLD is pending —
    so the parent is not blocked for good. -/
theorem no_lost_sigchld {spec : List (Nat × Result)} {reqs : List Req} {s : Sys}
    (h : Reachable spec reqs s) (hpc : s.pc = .await) :
    s.disp = .catch ∧
    ∀ (i : Nat) (c : Child), s.children[i]? = some c → s.target.matches i → c.changed = true →
      s.pending = true :=
  ⟨(reachable_inv h).handler (Or.inr hpc), (reachable_inv h).no_lost hpc⟩

/-- non-vacuity: a reachable state where the parent is blocked, the awaited child has an unreported
    change, and (as the theorem says) SIGCHLD is pending -/
example :
    let s := run 4 [0, 0, 0, 1] (init [(0, .exited 3)] [.wait (.pid 0)])
    Reachable [(0, .exited 3)] [.wait (.pid 0)] s ∧ s.pc = .await ∧
      (s.children[0]?.map (·.changed)) = some true ∧ s.pending = true :=
  ⟨run_steps _ _ _, by decide, by decide, by decide⟩

/-- The handler must be installed before the poll: a parent that blocks with the default disposition
    (what polling first and enabling afterwards would allow) loses the SIGCHLD of a child that exits
    in between and is stuck for good although the child has an unreported change. -/
theorem handler_first_necessary :
    let s : Sys := { children := [{ state := .running 0 (.exited 3) }], pc := .await, target := .pid 0 }
    let s' : Sys := { children := [{ state := .halted (.exited 3), changed := true }], pc := .await,
                      target := .pid 0 }
    step s (.child 0) = some s' ∧ s'.final = false ∧ ∀ l, step s' l = none := by
  refine ⟨rfl, by decide, ?_⟩
  intro l
  cases l with
  | parent => rfl
  | child i =>
    cases i with
    | zero => rfl
    | succ j => simp [step, childStep]

/-- ★ Progress 1: every step of every process strictly decreases `measure` — so every schedule is
    finite, whatever the scheduler does (no livelock). -/
theorem step_decreases {s s' : Sys} (l : Label) (hs : step s l = some s') : measure s' < measure s :=
  measure_step l hs

/-- every run from `s`, under every scheduler, has at most `measure s` steps -/
theorem run_bounded {n : Nat} {s t : Sys} (h : StepsN n s t) : n + measure t ≤ measure s := by
  induction h with
  | refl => simp
  | tail l _ hs ih => have := measure_step l hs; omega

/-- ★ Progress 2 (no deadlock): in every reachable state that is not final, some process can move. -/
theorem no_deadlock {spec : List (Nat × Result)} {reqs : List Req} {s : Sys}
    (h : Reachable spec reqs s) (hf : s.final = false) : ∃ l s', step s l = some s' :=
  not_stuck (reachable_inv h) hf

/-- ★ `wait_progress`: from every reachable state the parent reaches `Done` with nothing left to do —
    along EVERY maximal schedule: a schedule cannot be extended forever (`step_decreases`), and a
    state from which it cannot be extended is final (`no_deadlock`).  Stated as: (a) a path to a final
    state exists, and (b) every state reachable from `s` in which no process can move is final. -/
theorem wait_progress {spec : List (Nat × Result)} {reqs : List Req} {s : Sys}
    (h : Reachable spec reqs s) :
    (∃ t, Steps s t ∧ t.final = true) ∧
    (∀ t, Steps s t → (∀ l, step t l = none) → t.final = true) := by
  constructor
  · have key : ∀ n (u : Sys), measure u ≤ n → Inv u → ∃ t, Steps u t ∧ t.final = true := by
      intro n
      induction n with
      | zero =>
        intro u hm hi
        cases hfin : u.final with
        | true => exact ⟨u, .refl u, hfin⟩
        | false =>
          obtain ⟨l, u', hs⟩ := not_stuck hi hfin
          have := measure_step l hs; omega
      | succ n ih =>
        intro u hm hi
        cases hfin : u.final with
        | true => exact ⟨u, .refl u, hfin⟩
        | false =>
          obtain ⟨l, u', hs⟩ := not_stuck hi hfin
          have hlt := measure_step l hs
          obtain ⟨t, ht, hft⟩ := ih u' (by omega) (inv_step' l hi hs)
          exact ⟨t, Steps.head l hs ht, hft⟩
    exact key _ s (Nat.le_refl _) (reachable_inv h)
  · intro t ht hstuck
    cases hfin : t.final with
    | true => rfl
    | false =>
      obtain ⟨l, t', hs⟩ := not_stuck (inv_steps ht (reachable_inv h)) hfin
      rw [hstuck l] at hs; simp at hs

example : (run 20 [] (init [(1, .exited 3), (0, .exited 0)] [.wait (.pid 1), .wait (.pid 0), .reapAll])).final = true := by
  decide

/-- ★ `reaped_once`: in every reachable state the final state of every child has been handed out by
    `wait` exactly once if the child is reaped (terminated, flag cleared) and never otherwise; and
    what was handed out is the status the child was going to end with from the start (its true
    status, `spec[i].2`), whatever the schedule. -/
theorem reaped_once {spec : List (Nat × Result)} {reqs : List Req} {s : Sys}
    (h : Reachable spec reqs s) :
    (∀ i : Nat, logCount s.log i = if reaped s.children i then 1 else 0) ∧
    (∀ (i : Nat) (r : Result), (i, r) ∈ s.log → (spec[i]?).map (·.2) = some r) := by
  refine ⟨(reachable_inv h).once, ?_⟩
  intro i r hmem
  obtain ⟨c, hc, hst⟩ := (reachable_inv h).logged i r hmem
  have hfin := fin_steps h
  have h1 : (s.children.map (·.state.fin))[i]? = some r := by
    simp [List.getElem?_map, hc, hst, PState.fin]
  rw [hfin] at h1
  simp only [init, List.map_map, List.getElem?_map] at h1
  cases hs : spec[i]? with
  | none => simp [hs] at h1
  | some p => simp [hs, PState.fin] at h1 ⊢; exact h1

example :
    let s := run 20 [1, 0, 1] (init [(1, .exited 3), (0, .signaled 9)] [.wait (.pid 1), .wait (.pid 0), .wait (.pid 0)])
    s.log = [(0, .exited 3), (1, .signaled 9)] ∧ s.results.map waitStatus = [127, 3, 393] := by
  decide

/-- ★ awaited and reaped (no zombie): when the parent is done, every existing child it was asked to wait
    for by pid has terminated and has been reaped, under every schedule and whatever the other
    requests were. -/
theorem awaited_reaped {spec : List (Nat × Result)} {reqs : List Req} {s : Sys}
    (h : Reachable spec reqs s) (hf : s.final = true) (i : Nat)
    (hreq : Req.wait (.pid i) ∈ reqs) (hi : i < spec.length) : reaped s.children i = true := by
  have hlen : s.children.length = spec.length := by
    have := congrArg List.length (fin_steps h); simpa [init] using this
  have ha := awaited_steps h (inv_init' spec reqs) (awaited_init spec reqs) i hreq (by omega)
  simp only [Sys.final, Bool.and_eq_true, beq_iff_eq, List.isEmpty_iff] at hf
  rcases ha with h1 | h1 | h1
  · rw [hf.2] at h1; simp at h1
  · rw [hf.1] at h1; simp at h1
  · exact h1

example :
    let s := run 30 [2, 1, 0, 2] (init [(2, .exited 1), (0, .exited 2), (1, .exited 0)] [.wait (.pid 2), .wait (.pid 0)])
    s.final = true ∧ reaped s.children 2 = true ∧ reaped s.children 0 = true ∧ reaped s.children 1 = false := by
  decide

/-- ★ afterwards ECHILD: `wait` for a child that has been reaped, or for a pid that is not a child,
    answers ECHILD, which the `wait` built-in reports as 127 -/
theorem wait_again_echild (cs : List Child) (k : Nat) (h : reaped cs k = true ∨ cs.length ≤ k) :
    sysWait cs (.pid k) = .echild ∧ waitStatus .echild = 127 := by
  refine ⟨?_, rfl⟩
  rcases h with h | h
  · exact sysWait_pid_reaped h
  · exact sysWait_pid_unknown h

/-- ★ `wait_operands_all_awaited`: the operand loop of the `wait` built-in (`Command::await_jobs`), started
    by an idle parent in any reachable state with any job table `jobs` (pids of existing children) and
    any operand list, every `wait_for_any_job_or_trap` inside it being a complete run under an
    arbitrary scheduler.  However it runs: the built-in does not fail; operand by operand it yields
    what the Spec says — the true status of the child for a pid that is a job not yet waited for
    (earlier in the same list included), 127 for a pid that is no such job and for a job ID naming no
    job — so the exit status of `wait` is that of the LAST operand; every operand that names a job has
    been awaited and reaped at the end, whatever stands before or after it; and the parent is idle again. -/
theorem wait_operands_all_awaited {spec : List (Nat × Result)} {reqs : List Req} {s : Sys}
    (h : Reachable spec reqs s) (hidle : s.final = true)
    (jobs : List Nat) (hjobs : ∀ x ∈ jobs, x < spec.length) (operands : List Operand)
    {jobs' : List Nat} {s' : Sys} {rs : List WaitRes} {ok : Bool}
    (hrun : WaitOps jobs s (operands.map (resolve jobs)) jobs' s' rs ok) :
    ok = true ∧
    rs.map waitStatus =
      Spec.waitEach (fun i => ((spec[i]?).map (·.2.status)).getD 127) jobs (operands.map Operand.toSpec) ∧
    (∀ i : Nat, Operand.pid i ∈ operands → i ∈ jobs → reaped s'.children i = true) ∧
    s'.final = true := by
  have hinv := reachable_inv h
  have hfins : fins s = spec.map (·.2) := by
    have := fin_steps h
    simp only [init, List.map_map] at this
    unfold fins; rw [this]
    apply List.map_congr_left
    intro p _; simp [PState.fin]
  have hlen : s.children.length = spec.length := by
    have := congrArg List.length hfins; simpa [fins] using this
  obtain ⟨hc, hok, hrs, hall⟩ := waitOps_sound hrun hinv hidle (by intro x hx; rw [hlen]; exact hjobs x hx)
  refine ⟨hok, ?_, ?_, hc.fin⟩
  · rw [hrs, waitEach_resolve _ jobs operands jobs (fun _ hx => hx)]
    congr 1
    funext i
    simp only [truthOf, hfins, List.getElem?_map, Option.map_map]
    rfl
  · intro i hi hj
    exact hall i (List.mem_map.mpr ⟨.pid i, hi, by simp [resolve, hj]⟩) hj

/-- the exit status of `wait o1 … on` as the Spec (and the driver) computes it is the last of the
    per-operand statuses -/
theorem wait_status_is_last (truth : Nat → Nat) (ops : List (Option Nat)) :
    ∀ (active : List Nat) (last : Nat),
      (Spec.waitOps truth active ops last).1 = ((Spec.waitEach truth active ops).getLast?).getD last := by
  induction ops with
  | nil => intro active last; rfl
  | cons o t ih =>
    intro active last
    cases o with
    | none =>
      simp only [Spec.waitOps, Spec.waitEach, List.getLast?_cons]
      rw [ih]; simp
    | some i =>
      simp only [Spec.waitOps, Spec.waitEach]
      split
      · simp only [List.getLast?_cons]; rw [ih]; simp
      · simp only [List.getLast?_cons]; rw [ih]; simp

/-- non-vacuity: `wait 7 $j` with the job's child still running — a derivation of the loop exists, the
    unknown operand in front yields 127 and the job behind it is awaited (status 3) and reaped -/
example :
    let s := init [(1, .exited 3)] []
    let t := run 20 [1, 0] { s with todo := [.wait .any] }
    WaitOps [0] s ([Operand.pid 7, Operand.pid 0].map (resolve [0])) [] t [.echild, .got 0 (.exited 3)] true ∧
      reaped t.children 0 = true := by
  refine ⟨?_, by decide⟩
  refine .notFound (.job (.again (by decide) ⟨run_steps _ _ _, by decide⟩ (by decide) (.brk (by decide))) .nil)

/-- `wait(-1)` answers ECHILD exactly when no child is alive and none holds an unreported state — the
    statement that was false before /repo d05a7cb (the loop looked at the last child only; concrete
    failing case: `st 3 & ( exit 4 ); wait $!` under the schedule "subshell first, then the parent") -/
theorem wait_any_echild_iff (cs : List Child) :
    sysWait cs .any = .echild ↔
      ∀ (i : Nat) (c : Child), cs[i]? = some c → c.changed = false ∧ c.state.isAlive = false :=
  sysWait_any_echild

/-- the failing case of the old code is handled: first child running, second child reaped → `Ok(None)` -/
example : sysWait [{ state := .running 0 (.exited 3) }, { state := .halted (.exited 4) }] .any = .none := by
  decide

/-- ★ `pipefail_rule`: the status fold of `execute_multi_command_pipeline` is the last command's status,
    or with `pipefail` the rightmost non-zero status (zero if there is none) — for every list of statuses. -/
theorem pipefail_rule (pf : Bool) (sts : List Nat) : pipeStatus pf sts = Spec.pipe pf sts := by
  have key : ∀ (acc : Nat),
      sts.foldl (fun acc st => if st != 0 || !pf then st else acc) acc =
        if pf then (sts.reverse.find? (· != 0)).getD acc else sts.getLast?.getD acc := by
    induction sts with
    | nil => intro acc; cases pf <;> simp
    | cons a t ih =>
      intro acc
      rw [List.foldl_cons, ih]
      cases pf with
      | false => simp [List.getLast?_cons]
      | true =>
        simp only [List.reverse_cons, List.find?_append]
        by_cases ha : a = 0
        · subst ha; simp
        · cases hf : List.find? (fun x => x != 0) t.reverse with
          | none => simp [ha]
          | some v => simp
  unfold pipeStatus Spec.pipe
  exact key 0

example : pipeStatus true [3, 0, 7, 0] = 7 ∧ pipeStatus false [3, 0, 7, 0] = 0 ∧ pipeStatus true [0, 0] = 0 := by
  decide

/-- `wait_progress` from ANY state that satisfies the invariant (not only from reachable ones): a final
    state can be reached, and a state reached without an enabled step is final. -/
theorem wait_progress_inv {s : Sys} (hi : Inv s) :
    (∃ t, Steps s t ∧ t.final = true) ∧
    (∀ t, Steps s t → (∀ l, step t l = none) → t.final = true) := by
  constructor
  · have key : ∀ n (u : Sys), measure u ≤ n → Inv u → ∃ t, Steps u t ∧ t.final = true := by
      intro n
      induction n with
      | zero =>
        intro u hm hu
        cases hfin : u.final with
        | true => exact ⟨u, .refl u, hfin⟩
        | false =>
          obtain ⟨l, u', hs⟩ := not_stuck hu hfin
          have := measure_step l hs; omega
      | succ n ih =>
        intro u hm hu
        cases hfin : u.final with
        | true => exact ⟨u, .refl u, hfin⟩
        | false =>
          obtain ⟨l, u', hs⟩ := not_stuck hu hfin
          have hlt := measure_step l hs
          obtain ⟨t, ht, hft⟩ := ih u' (by omega) (inv_step' l hu hs)
          exact ⟨t, Steps.head l hs ht, hft⟩
    exact key _ s (Nat.le_refl _) hi
  · intro t ht hstuck
    cases hfin : t.final with
    | true => rfl
    | false =>
      obtain ⟨l, t', hs⟩ := not_stuck (inv_steps ht hi) hfin
      rw [hstuck l] at hs; simp at hs

/-- ★ `pending_signal_at_entry_terminates_and_notifies_parent`.  A child that has not ended is sent a fatal
    signal `sig` which it still has blocked (it inherited the mask of a parent that traps `sig`): the signal
    is pending, and the child's next step — its entry step, which resets the trap and unblocks the signal
    (`sigmask` → `block_signals` → `deliver_pending_signals`) — is its death.  In the model: the child's
    fate becomes `signaled sig` (`s1`).  Then, in any state `s` satisfying the invariant and whatever the
    parent is doing: the invariant still holds; the child's next step exists, leaves it terminated by
    `sig` with an unreported state change, and SIGCHLD is raised on the PARENT (pending, if the parent has
    its handler installed — which it has whenever it polls or blocks); the invariant holds afterwards, so
    (`wait_progress_inv`) every schedule from there ends with the parent done — no lost wake-up, no
    deadlock; and whatever `wait` hands out for this child is `signaled sig`, reported as 384 + `sig`. -/
theorem pending_signal_at_entry_terminates_and_notifies_parent {s : Sys} (hi : Inv s) {i f : Nat}
    {fin : Result} (sig : Nat) (hc : s.children[i]? = some { state := .running f fin, changed := false }) :
    let s1 : Sys := { s with children := s.children.set i { state := .running 0 (.signaled sig) } }
    Inv s1 ∧
    ∃ s2, childStep s1 i = some s2 ∧
      s2.children[i]? = some { state := .halted (.signaled sig), changed := true } ∧
      (s.disp = .catch → s2.pending = true) ∧
      Inv s2 ∧
      ((∃ t, Steps s2 t ∧ t.final = true) ∧ (∀ t, Steps s2 t → (∀ l, step t l = none) → t.final = true)) ∧
      (∀ t, Steps s2 t → ∀ r, (i, r) ∈ t.log → r = .signaled sig ∧ waitStatus (.got i r) = sig + 384) := by
  intro s1
  have hnolog : ∀ r, (i, r) ∉ s.log := by
    intro r hm
    obtain ⟨c, h1, h2⟩ := hi.logged i r hm
    rw [hc] at h1; simp at h1; subst h1; simp at h2
  have hs1 : Inv s1 := by
    refine ⟨?_, hi.handler, ?_, ?_, ?_, ?_⟩
    · intro j c hj hch
      simp only [s1, set_get hc] at hj
      by_cases hji : j = i
      · simp [hji] at hj; subst hj; simp at hch
      · simp [hji] at hj; exact hi.changed_halted j c hj hch
    · intro hpc j c hj hm hch
      simp only [s1, set_get hc] at hj
      by_cases hji : j = i
      · simp [hji] at hj; subst hj; simp at hch
      · simp [hji] at hj; exact hi.no_lost hpc j c hj hm hch
    · intro hpc
      obtain ⟨j, c, hj, hm, hor⟩ := hi.awaited hpc
      by_cases hji : j = i
      · subst hji
        exact ⟨j, { state := .running 0 (.signaled sig) }, by simp [s1, set_get hc], hm,
          Or.inl (by simp [PState.isAlive])⟩
      · exact ⟨j, c, by simp [s1, set_get hc, hji, hj], hm, hor⟩
    · intro j
      by_cases hji : j = i
      · subst hji
        have := hi.once j
        rw [reaped_self hc] at this
        simp only [s1]
        rw [reaped_set_self hc]
        simpa [PState.isAlive] using this
      · simp only [s1]; rw [reaped_set_other hc hji]; exact hi.once j
    · intro j r hm
      by_cases hji : j = i
      · subst hji; exact absurd hm (hnolog r)
      · obtain ⟨c, h1, h2⟩ := hi.logged j r hm
        exact ⟨c, by simp [s1, set_get hc, hji, h1], h2⟩
  have hget1 : s1.children[i]? = some { state := .running 0 (.signaled sig) } := by
    simp [s1, set_get hc]
  obtain ⟨s2, hstep⟩ : ∃ s2, childStep s1 i = some s2 := by
    unfold childStep; rw [hget1]; exact ⟨_, rfl⟩
  have hs2 : Inv s2 := inv_child i hs1 hstep
  have hchild2 : s2.children[i]? = some { state := .halted (.signaled sig), changed := true } := by
    unfold childStep at hstep
    rw [hget1] at hstep
    simp only [Option.some.injEq] at hstep
    subst hstep
    have : ∀ t : Sys, (raiseSigchld t).children = t.children := by
      intro t; unfold raiseSigchld; split <;> rfl
    rw [this]; simp [set_get hget1]
  have hpend : s.disp = .catch → s2.pending = true := by
    intro hd
    unfold childStep at hstep
    rw [hget1] at hstep
    simp only [Option.some.injEq] at hstep
    subst hstep
    unfold raiseSigchld
    have : s1.disp = .catch := hd
    simp [this]
  refine ⟨hs1, s2, hstep, hchild2, hpend, hs2, wait_progress_inv hs2, ?_⟩
  intro t ht r hm
  obtain ⟨c, h1, h2⟩ := (inv_steps ht hs2).logged i r hm
  have hfin := fin_steps ht
  have e1 : (t.children.map (·.state.fin))[i]? = some r := by
    simp [List.getElem?_map, h1, h2, PState.fin]
  have e2 : (s2.children.map (·.state.fin))[i]? = some (.signaled sig) := by
    simp [List.getElem?_map, hchild2, PState.fin]
  rw [hfin, e2] at e1
  simp at e1; subst e1
  exact ⟨rfl, rfl⟩

/-- non-vacuity: the parent blocked in `wait` for child 0, which has a blocked fatal signal pending -/
example :
    let s := run 3 [0, 0, 0] (init [(2, .exited 3)] [.wait (.pid 0)])
    Inv s ∧ s.pc = .await ∧ s.children[0]? = some { state := .running 2 (.exited 3), changed := false } :=
  ⟨reachable_inv (run_steps _ _ _), by decide, by decide⟩

/-! ### stages of a pipeline that block on I/O with each other (`Pipeline.lean`)

  The theorems above take "every child ends after finitely many steps" as given.  For the stages of a
  pipeline that is a theorem of its own, and it holds only under descriptor hygiene. -/

/-- ★ Descriptor hygiene — "after `move_to_stdin_stdout` a stage holds exactly its stdin reader and its
    stdout writer": pipe `j` is held for reading by stage `j+1` only and for writing by stage `j` only —
    holds for the pipeline as `execute_multi_command_pipeline` sets it up and is preserved by every step
    of every stage (nobody opens or passes on a descriptor; a stage that ends drops what it holds). -/
theorem hygiene_invariant (c : PCfg) :
    (∀ progs : List SProg, progs ≠ [] → Hyg c (mkPipeline progs)) ∧
    (∀ (s s' : PSys) (i : Nat), Hyg c s → stageStep c s i = some s' → Hyg c s') :=
  ⟨hyg_init c, fun _ _ _ h hs => hyg_step h hs⟩

/-- ★ No deadlock among the stages: in every state reachable from a hygienic one in which some stage is
    still alive, some stage can move — for every number of stages, every mix of stage programs
    (`spew`, `take`, `drain`, `cat`, `st`), every payload, every capacity with `1 ≤ PIPE_BUF ≤ PIPE_SIZE`.
    (The last live stage writes into a pipe nobody holds for reading any more — EPIPE, not a block — and a
    stage blocked in a read has a live writer upstream whose pipe is empty.) -/
theorem pipeline_no_deadlock {c : PCfg} {s t : PSys} (hv : c.Valid) (h : Hyg c s)
    (hrun : PSteps c s t) (hlive : t.done = false) : ∃ i t', stageStep c t i = some t' := by
  obtain ⟨k, hk⟩ := not_done_alive hlive
  exact pipeline_not_stuck hv (hyg_steps hrun h) hk

/-- ★ the writer gets EPIPE once the only reader of its pipe has ended -/
theorem writer_gets_epipe {c : PCfg} {s : PSys} (h : Hyg c s) {i n : Nat} {p : Pipe}
    (hp : s.pipes[i]? = some p) (hdead : s.alive (i + 1) = false) : sysWrite c s i n = .epipe :=
  write_epipe h hp hdead

/-- every system call of every stage strictly decreases `pmeas` (each byte is charged for every position
    it has not passed yet, each live stage once) -/
theorem pipeline_step_decreases {c : PCfg} {s s' : PSys} {i : Nat} (hv : c.Valid)
    (hs : stageStep c s i = some s') : pmeas s' < pmeas s :=
  pmeas_step hv hs

theorem pipeline_run_bounded {c : PCfg} {n : Nat} {s t : PSys} (hv : c.Valid)
    (h : PStepsN c n s t) : n + pmeas t ≤ pmeas s := by
  induction h with
  | refl => simp
  | tail i _ hs ih => have := pmeas_step hv hs; omega

/-- ★ `pipeline_terminates`: from a hygienic state every maximal schedule of the stages ends with every
    stage ended (so every stage is a child that "takes finitely many steps and ends", which is what
    `wait_progress`, `reaped_once` and `awaited_reaped` assume of the children): a state with all stages
    ended is reachable, every run is at most `pmeas s` steps long (`pipeline_run_bounded`), and a
    reachable state in which no stage can move has all stages ended. -/
theorem pipeline_terminates {c : PCfg} {s : PSys} (hv : c.Valid) (h : Hyg c s) :
    (∃ t, PSteps c s t ∧ t.done = true) ∧
    (∀ t, PSteps c s t → (∀ i, stageStep c t i = none) → t.done = true) := by
  constructor
  · have key : ∀ n (u : PSys), pmeas u ≤ n → Hyg c u → ∃ t, PSteps c u t ∧ t.done = true := by
      intro n
      induction n with
      | zero =>
        intro u hm hu
        cases hd : u.done with
        | true => exact ⟨u, .refl u, hd⟩
        | false =>
          obtain ⟨k, hk⟩ := not_done_alive hd
          obtain ⟨i, u', hs⟩ := pipeline_not_stuck hv hu hk
          have := pmeas_step hv hs; omega
      | succ n ih =>
        intro u hm hu
        cases hd : u.done with
        | true => exact ⟨u, .refl u, hd⟩
        | false =>
          obtain ⟨k, hk⟩ := not_done_alive hd
          obtain ⟨i, u', hs⟩ := pipeline_not_stuck hv hu hk
          have hlt := pmeas_step hv hs
          obtain ⟨t, ht, hdt⟩ := ih u' (by omega) (hyg_step hu hs)
          exact ⟨t, PSteps.head i hs ht, hdt⟩
    exact key _ s (Nat.le_refl _) h
  · intro t ht hstuck
    cases hd : t.done with
    | true => rfl
    | false =>
      obtain ⟨i, t', hs⟩ := pipeline_no_deadlock hv h ht hd
      rw [hstuck i] at hs; simp at hs

/-- ★ `prun_done`: the executable scheduler of the pipeline model (what the driver runs for the stages of a
    flow pipeline), started on the pipeline `progs` with fuel ≥ `pmeas`, ends with EVERY stage ended,
    whatever the choices — the driver's statuses are those of a complete run, never of a stuck one. -/
theorem prun_done {c : PCfg} (hv : c.Valid) (progs : List SProg) (hne : progs ≠ []) (fuel : Nat)
    (choices : List Nat) (hf : pmeas (mkPipeline progs) ≤ fuel) :
    (prun c fuel choices (mkPipeline progs)).done = true :=
  prun_done_of_hyg hv fuel choices _ (hyg_init c progs hne) hf

/-- non-vacuity with the constants of the virtual system: `spew 4096 | st 7` ends with statuses 1 (EPIPE)
    and 7, `spew 3000 | cat | drain` with 0, 0, 0, under these schedules -/
example :
    (prun PCfg.real 100 [1, 0, 1] (mkPipeline [.spew 4096, .idle 7])).statuses = [1, 7] ∧
    (prun PCfg.real 100 [0, 1, 2, 1] (mkPipeline [.spew 3000, .cat 0, .drain])).statuses = [0, 0, 0] ∧
    PCfg.real.Valid := by
  refine ⟨by decide, by decide, by simp [PCfg.Valid, PCfg.real]⟩

/-- Hygiene is necessary: if a stage keeps the read end of the pipe it writes to (what the child does
    when `move_to_stdin_stdout` does not close it), `spew 10 | st 7` over a 4-byte pipe deadlocks — the
    reader has ended, the pipe is full, the writer still counts as a reader of its own pipe and never
    gets EPIPE. -/
theorem hygiene_necessary :
    let c : PCfg := { cap := 4, pbuf := 2, chunk := 4 }
    let t : PSys :=
      { stages := [{ prog := .spew 6 }, { prog := .idle 7, exit := some 7 }],
        pipes := [{ content := 4, readers := [1, 0], writers := [0] }] }
    PSteps c (mkPipeline [.spew 10, .idle 7] true) t ∧ t.done = false ∧ ∀ i, stageStep c t i = none := by
  intro c t
  refine ⟨?_, by decide, ?_⟩
  · have h := prun_steps c 10 [] (mkPipeline [.spew 10, .idle 7] true)
    have e : prun c 10 [] (mkPipeline [.spew 10, .idle 7] true) = t := by rfl
    rw [e] at h; exact h
  · intro i
    match i with
    | 0 => rfl
    | 1 => rfl
    | i + 2 => simp [stageStep, t]

/-! ### the joint system: parent + children whose steps are pipe reads, writes and exits (`Joint.lean`) -/

theorem joint_run_bounded {c : PCfg} (hv : c.Valid) {reqs : List Req} {n : Nat} {j k : JSys}
    (hj : JInv c reqs j) (h : JStepsN c n j k) : JInv c reqs k ∧ n + jmeasure k ≤ jmeasure j := by
  induction h with
  | refl => exact ⟨hj, by simp⟩
  | tail lab _ hs ih =>
    obtain ⟨h1, h2⟩ := ih hj
    obtain ⟨h3, h4⟩ := jinv_step hv lab h1 hs
    exact ⟨h3, by omega⟩

/-- ★ `joint_terminates_and_reaps`.  ONE system: the shell as the parent of `Model.lean` (its requests:
    `wait(pid)` for the members as `execute_multi_command_pipeline` issues them, and any `wait(-1)` /
    `update_all_subshell_statuses` besides) and the pipeline `progs` (any number of stages `spew`/`take`/
    `drain`/`cat`/`st`, descriptors as the set-up leaves them) whose steps are pipe reads, writes and
    exits, under an arbitrary scheduler that picks the parent or any stage.  For every state `j` the
    scheduler can reach:
    (1) every step of every process strictly decreases `jmeasure` — every schedule is finite, no fairness
        assumption is needed (`joint_run_bounded`: at most `jmeasure` steps);
    (2) as long as the parent is not done or a stage is alive, some process can move (no deadlock: neither
        the parent in `wait` nor the stages among themselves);
    (3) a state with the parent done and every stage ended can be reached;
    (4) once the parent is done, every member it was asked to wait for has ended, is reaped (no zombie), was
        handed out by `wait` exactly once, with the status it really ended with;
    (5) at any time, whatever `wait` has handed out for child `i` is the status stage `i` ended with. -/
theorem joint_terminates_and_reaps {c : PCfg} (hv : c.Valid) {progs : List SProg} (hne : progs ≠ [])
    {reqs : List Req} {j : JSys} (hrun : JSteps c (jinit progs reqs) j) :
    (∀ lab k, jstep c j lab = some k → jmeasure k < jmeasure j) ∧
    ((j.view.final = false ∨ j.pl.done = false) → ∃ lab k, jstep c j lab = some k) ∧
    (∃ k, JSteps c j k ∧ k.view.final = true ∧ k.pl.done = true) ∧
    (j.view.final = true → ∀ i, i < progs.length → Req.wait (.pid i) ∈ reqs →
      ∃ st stg, j.pl.stages[i]? = some stg ∧ stg.exit = some st ∧ reaped j.view.children i = true ∧
        logCount j.view.log i = 1 ∧ ∀ r, (i, r) ∈ j.view.log → r = .exited st) ∧
    (∀ i r, (i, r) ∈ j.view.log →
      ∃ st stg, j.pl.stages[i]? = some stg ∧ stg.exit = some st ∧ r = .exited st) := by
  have hinv : JInv c reqs j := jinv_steps hv hrun (jinv_init c progs hne reqs)
  have hlogged : ∀ i r, (i, r) ∈ j.view.log →
      ∃ st stg, j.pl.stages[i]? = some stg ∧ stg.exit = some st ∧ r = .exited st := by
    intro i r hm
    obtain ⟨cc, h1, h2⟩ := hinv.inv.logged i r hm
    exact hinv.coupled.status i cc r h1 h2
  refine ⟨fun lab k hs => (jinv_step hv lab hinv hs).2, jnot_stuck hv hinv, ?_, ?_, hlogged⟩
  · have key : ∀ n (u : JSys), jmeasure u ≤ n → JInv c reqs u →
        ∃ k, JSteps c u k ∧ k.view.final = true ∧ k.pl.done = true := by
      intro n
      induction n with
      | zero =>
        intro u hm hu
        by_cases hfin : u.view.final = true ∧ u.pl.done = true
        · exact ⟨u, .refl u, hfin.1, hfin.2⟩
        · have hlive : u.view.final = false ∨ u.pl.done = false := by
            cases h1 : u.view.final <;> cases h2 : u.pl.done <;> simp_all
          obtain ⟨lab, k, hs⟩ := jnot_stuck hv hu hlive
          have := (jinv_step hv lab hu hs).2; omega
      | succ n ih =>
        intro u hm hu
        by_cases hfin : u.view.final = true ∧ u.pl.done = true
        · exact ⟨u, .refl u, hfin.1, hfin.2⟩
        · have hlive : u.view.final = false ∨ u.pl.done = false := by
            cases h1 : u.view.final <;> cases h2 : u.pl.done <;> simp_all
          obtain ⟨lab, k, hs⟩ := jnot_stuck hv hu hlive
          obtain ⟨hk, hlt⟩ := jinv_step hv lab hu hs
          obtain ⟨t, ht, hf⟩ := ih k (by omega) hk
          exact ⟨t, JSteps.head lab hs ht, hf⟩
    exact key _ j (Nat.le_refl _) hinv
  · intro hfin i hi hreq
    have hlen : j.view.children.length = progs.length := by
      rw [hinv.coupled.len, jsteps_len hrun]; simp [jinit, mkPipeline]
    have ha := hinv.awaited i hreq (by omega)
    simp only [Sys.final, Bool.and_eq_true, beq_iff_eq, List.isEmpty_iff] at hfin
    have hreap : reaped j.view.children i = true := by
      rcases ha with h1 | h1 | h1
      · rw [hfin.2] at h1; simp at h1
      · rw [hfin.1] at h1; simp at h1
      · exact h1
    have hget : j.view.children[i]? = some j.view.children[i] := List.getElem?_eq_getElem (by omega)
    have hr := hreap
    rw [reaped_self hget] at hr
    simp at hr
    obtain ⟨r0, hr0⟩ : ∃ r0, (j.view.children[i]).state = .halted r0 := by
      cases hs : (j.view.children[i]).state with
      | running f r => simp [hs, PState.isAlive] at hr
      | halted r => exact ⟨r, rfl⟩
    obtain ⟨st, stg, h1, h2, h3⟩ := hinv.coupled.status i _ r0 hget hr0
    refine ⟨st, stg, h1, h2, hreap, by rw [hinv.inv.once i, hreap]; rfl, ?_⟩
    intro r hm
    obtain ⟨st', stg', h1', h2', h3'⟩ := hlogged i r hm
    rw [h1] at h1'; simp at h1'; subst h1'
    rw [h2] at h2'; simp at h2'; subst h2'
    exact h3'

/-! ### the descriptor shuffling of a pipeline child (`FdSetup.lean`) -/

/-- ★ `child_setup_establishes_hygiene`.  `PipeSet::move_to_stdin_stdout`, run in the child on the descriptor
    table it inherits (`ChildStart`: the descriptors named by the `PipeSet` are open, refer to the read end
    of the incoming pipe / both ends of the outgoing pipe, are pairwise different, and no other descriptor
    refers to a pipe of this pipeline), succeeds and leaves the stage holding exactly its stdin reader at
    descriptor 0 and its stdout writer at descriptor 1 (`ChildHygienic`) — for EVERY numbering of the
    descriptors: pipe ends at 3 and above, or at 0, 1, 2 because the shell's own standard descriptors were
    closed (the `writer == STDOUT`, `read_previous == STDOUT` → `dup`, `reader == STDIN` branches), first
    / middle / last stage, and every descriptor `d` the kernel may pick for the `dup` (free once the
    outgoing read end is closed, not 1). -/
theorem child_setup_establishes_hygiene {T : FdTab} {ps : PipeSet} {jin jout d : Nat}
    (h : ChildStart T ps jin jout)
    (hd : ∀ r w, ps.next = some (r, w) → ps.readPrevious = some 1 → w ≠ 1 → (T d = none ∨ d = r) ∧ d ≠ 1) :
    ∃ T', moveToStdinStdout T ps d = some T' ∧ ChildHygienic T' ps jin jout :=
  child_setup_spec h hd

/-- From the children's tables to the holder lists of `Hyg`: if every stage `k` of an `n`-stage pipeline
    is `ChildHygienic` for incoming pipe `k-1` (present iff `k > 0`) and outgoing pipe `k` (present iff
    `k + 1 < n`), then the read end of pipe `j` is held by stage `j+1` and by no other stage, the write end
    by stage `j` and by no other — the `readers = [j+1]`, `writers = [j]` of `mkPipeline`.  (That the PARENT
    holds no end after the last `PipeSet::shift` is a sequence of plain `close` calls and is not modelled.) -/
theorem setup_gives_holders {n : Nat} {tabs : Nat → FdTab} {pss : Nat → PipeSet}
    (hprev : ∀ k, (pss k).readPrevious.isSome = decide (0 < k))
    (hnext : ∀ k, k < n → (pss k).next.isSome = decide (k + 1 < n))
    (hh : ∀ k, k < n → ChildHygienic (tabs k) (pss k) (k - 1) k) :
    (∀ j k fd, k < n → tabs k fd = some (.rd j) → k = j + 1) ∧
    (∀ j k fd, k < n → tabs k fd = some (.wr j) → k = j) ∧
    (∀ j, j + 1 < n → tabs (j + 1) 0 = some (.rd j) ∧ tabs j 1 = some (.wr j)) := by
  refine ⟨?_, ?_, ?_⟩
  · intro j k fd hk hfd
    rcases (hh k hk).only fd _ hfd rfl with ⟨_, h2, h3⟩ | ⟨_, h2, _⟩
    · rw [hprev k] at h3
      simp at h3
      simp only [Res.rd.injEq] at h2
      omega
    · simp at h2
  · intro j k fd hk hfd
    rcases (hh k hk).only fd _ hfd rfl with ⟨_, h2, _⟩ | ⟨_, h2, _⟩
    · simp at h2
    · simp only [Res.wr.injEq] at h2; exact h2.symm
  · intro j hj
    constructor
    · have := (hh (j + 1) hj).stdin (by rw [hprev]; simp)
      simpa using this
    · exact (hh j (by omega)).stdout (by rw [hnext j (by omega)]; simp [hj])

/-- non-vacuity: a middle stage whose pipe ends sit at descriptors 3, 4, 5 -/
example :
    let T : FdTab := fun k =>
      if k = 3 then some (.rd 0) else if k = 4 then some (.rd 1) else if k = 5 then some (.wr 1)
      else if k < 3 then some .other else none
    ChildStart T { readPrevious := some 3, next := some (4, 5) } 0 1 := by
  intro T
  refine ⟨by simp [T], by simp [T], by simp [T], by simp, by simp, ?_⟩
  intro fd res hfd hpe
  simp only [T] at hfd
  split at hfd
  · left; simp_all
  · split at hfd
    · right; left; exact ⟨5, by simp_all⟩
    · split at hfd
      · right; right; exact ⟨4, by simp_all⟩
      · split at hfd
        · simp at hfd; subst hfd; simp [Res.isPipeEnd] at hpe
        · simp at hfd

/-! ### from what the driver computes to what the property says -/

/-- ★ `run_final`: the executable scheduler of the driver (`run`), started in any reachable state with fuel
    ≥ `measure`, ends in a final state whatever the list of choices is (so the driver's "model run" is a
    complete run of the model, not a truncated one). -/
theorem run_final {spec : List (Nat × Result)} {reqs : List Req} {s : Sys} (h : Reachable spec reqs s)
    (fuel : Nat) (choices : List Nat) (hf : measure s ≤ fuel) :
    Reachable spec reqs (run fuel choices s) ∧ (run fuel choices s).final = true :=
  ⟨Steps.trans h (run_steps fuel choices s), run_final_of_inv fuel choices s (reachable_inv h) hf⟩

/-- ★ `waits_report_in_order`: a parent that waits for distinct existing children one after the other
    (`wait_for_subshell_to_finish(pid)` for each member of a pipeline, a subshell, a command substitution)
    gets, when it is done and under every schedule, exactly one result per request, in the order of the
    requests, each the awaited child's OWN final state (identity and true status) — never ECHILD, never
    another child's state. -/
theorem waits_report_in_order {spec : List (Nat × Result)} {ts : List Nat} {s : Sys}
    (h : Reachable spec (waitReqs ts) s) (hnd : ts.Nodup) (hlt : ∀ t ∈ ts, t < spec.length)
    (hfin : s.final = true) :
    s.results.reverse = ts.map (expected (spec.map (·.2))) := by
  have hF : fins (init spec (waitReqs ts)) = spec.map (·.2) := by
    simp only [fins, init, List.map_map]
    apply List.map_congr_left
    intro p _; simp [PState.fin]
  have ho := ord_steps h (inv_init' _ _) hF hnd (by intro x hx; simpa [init] using hlt x hx)
    (ord_init spec ts)
  obtain ⟨done, cur, rest, hts, htodo, hpc, hres, _⟩ := ho.ex
  simp only [Sys.final, Bool.and_eq_true, beq_iff_eq, List.isEmpty_iff] at hfin
  have hrest : rest = [] := by
    rw [hfin.2] at htodo
    cases rest with
    | nil => rfl
    | cons a b => simp [waitReqs] at htodo
  have hcur : cur = [] := by
    rcases hpc with ⟨hc, _⟩ | ⟨t, _, hp, _⟩
    · exact hc
    · rw [hfin.1] at hp; simp at hp
  subst hrest; subst hcur
  simp at hts; subst hts
  exact hres

example :
    (run 40 [2, 0, 1, 1, 2] (init [(1, .exited 3), (0, .signaled 9), (2, .exited 0)] (waitReqs [0, 1, 2]))).results.reverse
      = [.got 0 (.exited 3), .got 1 (.signaled 9), .got 2 (.exited 0)] := by
  decide

/-- ★ `pipeline_status_end_to_end`: what the DRIVER computes for the members of a pipeline (`nestedWait true`:
    build the children, let the parent wait for each, run the model under the scheduler derived from the
    case's schedule digits, read the statuses off the results) is the list of the members' true statuses —
    for every list of statuses (up to 4000 members: the driver's fuel), every schedule digits, every salt;
    so the status the driver reports for the pipeline is what the property says: the last member's, or with
    `pipefail` the rightmost non-zero one. -/
theorem pipeline_status_end_to_end (digits : List Nat) (salt : Nat) (sts : List Nat)
    (hn : sts.length ≤ 4000) (pf : Bool) :
    nestedWait true digits salt sts = sts ∧
    pipeFold true pf (nestedWait true digits salt sts) = Spec.pipe pf sts := by
  have key : nestedWait true digits salt sts = sts := by
    unfold nestedWait
    simp only [Bool.not_true, Bool.false_eq_true, if_false]
    have hs0 : ({ children := mkChildren digits salt sts, todo := waitAll 0 sts.length } : Sys) =
        init (specOf digits salt sts) (waitReqs (List.range sts.length)) := by
      simp [init, mkChildren_eq, waitAll_eq]
    rw [hs0]
    have hreach0 : Reachable (specOf digits salt sts) (waitReqs (List.range sts.length))
        (init (specOf digits salt sts) (waitReqs (List.range sts.length))) := .refl _
    have hm : measure (init (specOf digits salt sts) (waitReqs (List.range sts.length))) ≤ 100000 := by
      have h1 := childrenW_mkChildren digits salt sts
      simp only [measure, init, ← mkChildren_eq, pcW, waitReqs, List.length_map, List.length_range]
      simp
      omega
    obtain ⟨hr, hfin⟩ := run_final hreach0 100000 (mkChoices digits salt) hm
    have hres := waits_report_in_order hr List.nodup_range
      (by intro t ht; rw [specOf_length]; simpa using ht) hfin
    rw [hres, hfin]
    simp only [List.map_map, List.length_map, List.length_range, and_self, if_true]
    have : (waitStatus ∘ expected ((specOf digits salt sts).map (·.2))) = fun t => sts.getD t 0 := by
      funext t
      simp only [Function.comp, expected, waitStatus, specOf_snd]
      rcases Nat.lt_or_ge t sts.length with h | h
      · simp [List.getD_eq_getElem?_getD, List.getElem?_map, List.getElem?_eq_getElem h, Result.status]
      · simp [List.getD_eq_getElem?_getD, List.getElem?_eq_none (by simpa using h : (sts.map Result.exited).length ≤ t),
          List.getElem?_eq_none h, Result.status]
    rw [this]
    exact range_map_getD sts 0
  refine ⟨key, ?_⟩
  rw [key]
  simp only [pipeFold, if_true]
  exact pipefail_rule pf sts

example : nestedWait true [2, 1, 0, 2] 5 [3, 0, 7, 0] = [3, 0, 7, 0] ∧
    pipeFold true true (nestedWait true [2, 1, 0, 2] 5 [3, 0, 7, 0]) = 7 := by
  decide

/-- ★ `wait_builtin_end_to_end`: what the DRIVER computes for `wait o1 … on` (`awaitJobsRun`, the executable
    operand loop `St.awaitJobs` calls, every `wait_for_any_job_or_trap` being a `run` of the model under a
    scheduler derived from the case's schedule digits), whenever it yields a value — in any reachable state
    with the parent idle, for any job table of existing children, any operand list, any fuel and any choice
    lists — is what the Spec says: one status per operand (the job's true status; 127 for a pid that is no
    job any more, for an unknown pid and for an unknown job ID, in ANY position), the exit status is the last
    of them (`Spec.waitOps`), every operand that names a job has been awaited and reaped, and the parent is
    idle again.  (An executable loop that stopped at the first operand naming no job could not be shown to be
    a derivation of `WaitOps`, nor to meet this statement.) -/
theorem wait_builtin_end_to_end {spec : List (Nat × Result)} {reqs : List Req} {s : Sys}
    (h : Reachable spec reqs s) (hidle : s.final = true)
    (jobs : List Nat) (hjobs : ∀ x ∈ jobs, x < spec.length) (operands : List Operand)
    (runFuel outer : Nat) (choices : Nat → List Nat) (last : Nat)
    {jobs' : List Nat} {s' : Sys} {rs : List WaitRes}
    (hrun : awaitJobsRun runFuel outer choices jobs s (operands.map (resolve jobs)) = some (jobs', s', rs)) :
    let truth := fun i => ((spec[i]?).map (·.2.status)).getD 127
    rs.map waitStatus = Spec.waitEach truth jobs (operands.map Operand.toSpec) ∧
    ((rs.map waitStatus).getLast?).getD last = (Spec.waitOps truth jobs (operands.map Operand.toSpec) last).1 ∧
    (∀ i : Nat, Operand.pid i ∈ operands → i ∈ jobs → reaped s'.children i = true) ∧
    s'.final = true := by
  intro truth
  obtain ⟨_, hrs, hall, hfin⟩ :=
    wait_operands_all_awaited h hidle jobs hjobs operands (awaitJobsRun_sound _ _ _ _ _ _ _ _ _ hrun)
  refine ⟨hrs, ?_, hall, hfin⟩
  rw [hrs, wait_status_is_last]

/-- non-vacuity: `wait 7 $j $j` with job 0 (status 3) still running: 127, 3, 127; the exit status is the last -/
example :
    (awaitJobsRun 100 8 (fun _ => [1, 0, 1]) [0] (init [(1, .exited 3)] [])
        ([Operand.pid 7, Operand.pid 0, Operand.pid 0].map (resolve [0]))).map
      (fun r => r.2.2.map waitStatus) = some [127, 3, 127] := by
  decide

end YashModel.Proc
