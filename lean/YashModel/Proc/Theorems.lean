/-
  C13 — property theorems (and non-vacuity examples) ONLY.  Helper lemmas: `Lemmas.lean`, `Steps.lean`.

  Property text: "For every script that starts children (pipelines, asynchronous lists, subshells,
  command substitutions) and under every interleaving of those processes, the shell terminates without
  deadlock; `wait`, `$?` and `$!` report each child's true exit status and identity (the last command
  for a pipeline, the rightmost failure under `pipefail`, 127 for an unknown pid); and every child is
  reaped exactly once, leaving no zombie.  No result depends on which process happens to run first
  unless the script itself contains a race."

  This file is the THEOREM HALF of a partial claim: it speaks about the small-step model of
  `Model.lean` — one parent executing any list of `wait` requests, any number of children with any
  behaviour (`spec`: number of internal steps and final status of each), any scheduler (`Steps`: any
  finite sequence of enabled steps).  Every step of the model is atomic; that the real code's
  check-then-register sequences behave atomically is shown only by the schedule-exploring run.
-/
import YashModel.Proc.Steps
import YashModel.Proc.Awaited
import YashModel.Proc.Ops
import YashModel.Proc.PipelineMeasure
import YashModel.Proc.Joint
import YashModel.Proc.FdLemmas
import YashModel.Proc.ForkLemmas
import YashModel.Proc.Flow2
import YashModel.Proc.Flow3
import YashModel.Proc.FlowN
import YashModel.Proc.Order
import YashModel.Proc.TrapLemmas
import YashModel.Proc.TrapGlue
import YashModel.Proc.BangLemmas
import YashModel.Generated.WaitCore
import YashModel.Proc.Spec
namespace YashModel.Proc

/-- The invariant holds initially for every system and is preserved by every step of every process. -/
theorem inv_inductive :
    (∀ spec reqs, Inv (init spec reqs)) ∧
    (∀ s l s', Inv s → step s l = some s' → Inv s') :=
  ⟨inv_init', fun _ l _ h hs => inv_step' l h hs⟩

/-- ★ No lost SIGCHLD.  In every reachable state in which the parent is blocked waiting for SIGCHLD:
    the internal handler is installed (it was installed before the poll), and if any child the
    parent is waiting for has a state change that `wait` has not yet reported, SIGCHLD is pending —
    so the parent is not blocked for good. -/
theorem no_lost_sigchld {spec : List (Nat × Result)} {reqs : List Req} {s : Sys}
    (h : Reachable spec reqs s) (hpc : s.pc = .await) :
    s.disp = .catch ∧
    ∀ (i : Nat) (c : Child), s.children[i]? = some c → s.target.matches i → c.changed = true →
      s.pending = true :=
  ⟨(reachable_inv h).handler (Or.inr hpc), (reachable_inv h).no_lost hpc⟩

/-- non-vacuity: a reachable state where the parent is blocked, the awaited child has an unreported
    change, and (as the theorem says) SIGCHLD is pending -/
example :
    let s := run 4 [0, 0, 0, 1] (init [(0, .exited 3)] [.wait (.pid 0)])
    Reachable [(0, .exited 3)] [.wait (.pid 0)] s ∧ s.pc = .await ∧
      (s.children[0]?.map (·.changed)) = some true ∧ s.pending = true :=
  ⟨run_steps _ _ _, by decide, by decide, by decide⟩

/-- The handler must be installed before the poll: a parent that blocks with the default disposition
    (what polling first and enabling afterwards would allow) loses the SIGCHLD of a child that exits
    in between and is stuck for good although the child has an unreported change. -/
theorem handler_first_necessary :
    let s : Sys := { children := [{ state := .running 0 (.exited 3) }], pc := .await, target := .pid 0 }
    let s' : Sys := { children := [{ state := .halted (.exited 3), changed := true }], pc := .await,
                      target := .pid 0 }
    step s (.child 0) = some s' ∧ s'.final = false ∧ ∀ l, step s' l = none := by
  refine ⟨rfl, by decide, ?_⟩
  intro l
  cases l with
  | parent => rfl
  | child i =>
    cases i with
    | zero => rfl
    | succ j => simp [step, childStep]

/-- ★ Progress 1: every step of every process strictly decreases `measure` — so every schedule is
    finite, whatever the scheduler does (no livelock). -/
theorem step_decreases {s s' : Sys} (l : Label) (hs : step s l = some s') : measure s' < measure s :=
  measure_step l hs

/-- every run from `s`, under every scheduler, has at most `measure s` steps -/
theorem run_bounded {n : Nat} {s t : Sys} (h : StepsN n s t) : n + measure t ≤ measure s := by
  induction h with
  | refl => simp
  | tail l _ hs ih => have := measure_step l hs; omega

/-- ★ Progress 2 (no deadlock): in every reachable state that is not final, some process can move. -/
theorem no_deadlock {spec : List (Nat × Result)} {reqs : List Req} {s : Sys}
    (h : Reachable spec reqs s) (hf : s.final = false) : ∃ l s', step s l = some s' :=
  not_stuck (reachable_inv h) hf

/-- ★ `wait_progress`: from every reachable state the parent reaches `Done` with nothing left to do —
    along EVERY maximal schedule: a schedule cannot be extended forever (`step_decreases`), and a
    state from which it cannot be extended is final (`no_deadlock`).  Stated as: (a) a path to a final
    state exists, and (b) every state reachable from `s` in which no process can move is final. -/
theorem wait_progress {spec : List (Nat × Result)} {reqs : List Req} {s : Sys}
    (h : Reachable spec reqs s) :
    (∃ t, Steps s t ∧ t.final = true) ∧
    (∀ t, Steps s t → (∀ l, step t l = none) → t.final = true) := by
  constructor
  · have key : ∀ n (u : Sys), measure u ≤ n → Inv u → ∃ t, Steps u t ∧ t.final = true := by
      intro n
      induction n with
      | zero =>
        intro u hm hi
        cases hfin : u.final with
        | true => exact ⟨u, .refl u, hfin⟩
        | false =>
          obtain ⟨l, u', hs⟩ := not_stuck hi hfin
          have := measure_step l hs; omega
      | succ n ih =>
        intro u hm hi
        cases hfin : u.final with
        | true => exact ⟨u, .refl u, hfin⟩
        | false =>
          obtain ⟨l, u', hs⟩ := not_stuck hi hfin
          have hlt := measure_step l hs
          obtain ⟨t, ht, hft⟩ := ih u' (by omega) (inv_step' l hi hs)
          exact ⟨t, Steps.head l hs ht, hft⟩
    exact key _ s (Nat.le_refl _) (reachable_inv h)
  · intro t ht hstuck
    cases hfin : t.final with
    | true => rfl
    | false =>
      obtain ⟨l, t', hs⟩ := not_stuck (inv_steps ht (reachable_inv h)) hfin
      rw [hstuck l] at hs; simp at hs

example : (run 20 [] (init [(1, .exited 3), (0, .exited 0)] [.wait (.pid 1), .wait (.pid 0), .reapAll])).final = true := by
  decide

/-- ★ `reaped_once`: in every reachable state the final state of every child has been handed out by
    `wait` exactly once if the child is reaped (terminated, flag cleared) and never otherwise; and
    what was handed out is the status the child was going to end with from the start (its true
    status, `spec[i].2`), whatever the schedule. -/
theorem reaped_once {spec : List (Nat × Result)} {reqs : List Req} {s : Sys}
    (h : Reachable spec reqs s) :
    (∀ i : Nat, logCount s.log i = if reaped s.children i then 1 else 0) ∧
    (∀ (i : Nat) (r : Result), (i, r) ∈ s.log → (spec[i]?).map (·.2) = some r) := by
  refine ⟨(reachable_inv h).once, ?_⟩
  intro i r hmem
  obtain ⟨c, hc, hst⟩ := (reachable_inv h).logged i r hmem
  have hfin := fin_steps h
  have h1 : (s.children.map (·.state.fin))[i]? = some r := by
    simp [List.getElem?_map, hc, hst, PState.fin]
  rw [hfin] at h1
  simp only [init, List.map_map, List.getElem?_map] at h1
  cases hs : spec[i]? with
  | none => simp [hs] at h1
  | some p => simp [hs, PState.fin] at h1 ⊢; exact h1

example :
    let s := run 20 [1, 0, 1] (init [(1, .exited 3), (0, .signaled 9)] [.wait (.pid 1), .wait (.pid 0), .wait (.pid 0)])
    s.log = [(0, .exited 3), (1, .signaled 9)] ∧ s.results.map waitStatus = [127, 3, 393] := by
  decide

/-- ★ awaited and reaped (no zombie): when the parent is done, every existing child it was asked to wait
    for by pid has terminated and has been reaped, under every schedule and whatever the other
    requests were. -/
theorem awaited_reaped {spec : List (Nat × Result)} {reqs : List Req} {s : Sys}
    (h : Reachable spec reqs s) (hf : s.final = true) (i : Nat)
    (hreq : Req.wait (.pid i) ∈ reqs) (hi : i < spec.length) : reaped s.children i = true := by
  have hlen : s.children.length = spec.length := by
    have := congrArg List.length (fin_steps h); simpa [init] using this
  have ha := awaited_steps h (inv_init' spec reqs) (awaited_init spec reqs) i hreq (by omega)
  simp only [Sys.final, Bool.and_eq_true, beq_iff_eq, List.isEmpty_iff] at hf
  rcases ha with h1 | h1 | h1
  · rw [hf.2] at h1; simp at h1
  · rw [hf.1] at h1; simp at h1
  · exact h1

example :
    let s := run 30 [2, 1, 0, 2] (init [(2, .exited 1), (0, .exited 2), (1, .exited 0)] [.wait (.pid 2), .wait (.pid 0)])
    s.final = true ∧ reaped s.children 2 = true ∧ reaped s.children 0 = true ∧ reaped s.children 1 = false := by
  decide

/-- ★ afterwards ECHILD: `wait` for a child that has been reaped, or for a pid that is not a child,
    answers ECHILD, which the `wait` built-in reports as 127 -/
theorem wait_again_echild (cs : List Child) (k : Nat) (h : reaped cs k = true ∨ cs.length ≤ k) :
    sysWait cs (.pid k) = .echild ∧ waitStatus .echild = 127 := by
  refine ⟨?_, rfl⟩
  rcases h with h | h
  · exact sysWait_pid_reaped h
  · exact sysWait_pid_unknown h

/-- non-vacuity: both disjuncts — child 0 has exited 3 and was reaped (flag cleared), pid 5 is no child; child 1
    is still running and is NOT reaped (the hypothesis is not always true) -/
example :
    let cs : List Child := [{ state := .halted (.exited 3), changed := false }, { state := .running 2 (.exited 0) }]
    reaped cs 0 = true ∧ cs.length ≤ 5 ∧ reaped cs 1 = false ∧ sysWait cs (.pid 1) = .none := by
  decide

/-- ★ `wait_operands_all_awaited`: the operand loop of the `wait` built-in (`Command::await_jobs`), started
    by an idle parent in any reachable state with any job table `jobs` (pids of existing children) and
    any operand list, every `wait_for_any_job_or_trap` inside it being a complete run under an
    arbitrary scheduler.  However it runs: the built-in does not fail; operand by operand it yields
    what the Spec says — the true status of the child for a pid that is a job not yet waited for
    (earlier in the same list included), 127 for a pid that is no such job and for a job ID naming no
    job — so the exit status of `wait` is that of the LAST operand; every operand that names a job has
    been awaited and reaped at the end, whatever stands before or after it; and the parent is idle again. -/
theorem wait_operands_all_awaited {spec : List (Nat × Result)} {reqs : List Req} {s : Sys}
    (h : Reachable spec reqs s) (hidle : s.final = true)
    (jobs : List Nat) (hjobs : ∀ x ∈ jobs, x < spec.length) (operands : List Operand)
    {jobs' : List Nat} {s' : Sys} {rs : List WaitRes} {ok : Bool}
    (hrun : WaitOps jobs s (operands.map (resolve jobs)) jobs' s' rs ok) :
    ok = true ∧
    rs.map waitStatus =
      Spec.waitEach (fun i => ((spec[i]?).map (·.2.status)).getD 127) jobs (operands.map Operand.toSpec) ∧
    (∀ i : Nat, Operand.pid i ∈ operands → i ∈ jobs → reaped s'.children i = true) ∧
    s'.final = true := by
  have hinv := reachable_inv h
  have hfins : fins s = spec.map (·.2) := by
    have := fin_steps h
    simp only [init, List.map_map] at this
    unfold fins; rw [this]
    apply List.map_congr_left
    intro p _; simp [PState.fin]
  have hlen : s.children.length = spec.length := by
    have := congrArg List.length hfins; simpa [fins] using this
  obtain ⟨hc, hok, hrs, hall⟩ := waitOps_sound hrun hinv hidle (by intro x hx; rw [hlen]; exact hjobs x hx)
  refine ⟨hok, ?_, ?_, hc.fin⟩
  · rw [hrs, waitEach_resolve _ jobs operands jobs (fun _ hx => hx)]
    congr 1
    funext i
    simp only [truthOf, hfins, List.getElem?_map, Option.map_map]
    rfl
  · intro i hi hj
    exact hall i (List.mem_map.mpr ⟨.pid i, hi, by simp [resolve, hj]⟩) hj

/-- the exit status of `wait o1 … on` as the Spec (and the driver) computes it is the last of the
    per-operand statuses -/
theorem wait_status_is_last (truth : Nat → Nat) (ops : List (Option Nat)) :
    ∀ (active : List Nat) (last : Nat),
      (Spec.waitOps truth active ops last).1 = ((Spec.waitEach truth active ops).getLast?).getD last := by
  induction ops with
  | nil => intro active last; rfl
  | cons o t ih =>
    intro active last
    cases o with
    | none =>
      simp only [Spec.waitOps, Spec.waitEach, List.getLast?_cons]
      rw [ih]; simp
    | some i =>
      simp only [Spec.waitOps, Spec.waitEach]
      split
      · simp only [List.getLast?_cons]; rw [ih]; simp
      · simp only [List.getLast?_cons]; rw [ih]; simp

/-- non-vacuity: `wait 7 $j` with the job's child still running — a derivation of the loop exists, the
    unknown operand in front yields 127 and the job behind it is awaited (status 3) and reaped -/
example :
    let s := init [(1, .exited 3)] []
    let t := run 20 [1, 0] { s with todo := [.wait .any] }
    WaitOps [0] s ([Operand.pid 7, Operand.pid 0].map (resolve [0])) [] t [.echild, .got 0 (.exited 3)] true ∧
      reaped t.children 0 = true := by
  refine ⟨?_, by decide⟩
  refine .notFound (.job (.again (by decide) ⟨run_steps _ _ _, by decide⟩ (by decide) (.brk (by decide))) .nil)

/-- `wait(-1)` answers ECHILD exactly when no child is alive and none holds an unreported state — the
    statement that was false before /repo d05a7cb (the loop looked at the last child only; concrete
    failing case: `st 3 & ( exit 4 ); wait $!` under the schedule "subshell first, then the parent") -/
theorem wait_any_echild_iff (cs : List Child) :
    sysWait cs .any = .echild ↔
      ∀ (i : Nat) (c : Child), cs[i]? = some c → c.changed = false ∧ c.state.isAlive = false :=
  sysWait_any_echild

/-- the failing case of the old code is handled: first child running, second child reaped → `Ok(None)` -/
example : sysWait [{ state := .running 0 (.exited 3) }, { state := .halted (.exited 4) }] .any = .none := by
  decide

/-- ★ `pipefail_rule`: the status fold of `execute_multi_command_pipeline` is the last command's status,
    or with `pipefail` the rightmost non-zero status (zero if there is none) — for every list of statuses. -/
theorem pipefail_rule (pf : Bool) (sts : List Nat) : pipeStatus pf sts = Spec.pipe pf sts := by
  have key : ∀ (acc : Nat),
      sts.foldl (fun acc st => if st != 0 || !pf then st else acc) acc =
        if pf then (sts.reverse.find? (· != 0)).getD acc else sts.getLast?.getD acc := by
    induction sts with
    | nil => intro acc; cases pf <;> simp
    | cons a t ih =>
      intro acc
      rw [List.foldl_cons, ih]
      cases pf with
      | false => simp [List.getLast?_cons]
      | true =>
        simp only [List.reverse_cons, List.find?_append]
        by_cases ha : a = 0
        · subst ha; simp
        · cases hf : List.find? (fun x => x != 0) t.reverse with
          | none => simp [ha]
          | some v => simp
  unfold pipeStatus Spec.pipe
  exact key 0

example : pipeStatus true [3, 0, 7, 0] = 7 ∧ pipeStatus false [3, 0, 7, 0] = 0 ∧ pipeStatus true [0, 0] = 0 := by
  decide

/-- `wait_progress` from ANY state that satisfies the invariant (not only from reachable ones): a final
    state can be reached, and a state reached without an enabled step is final. -/
theorem wait_progress_inv {s : Sys} (hi : Inv s) :
    (∃ t, Steps s t ∧ t.final = true) ∧
    (∀ t, Steps s t → (∀ l, step t l = none) → t.final = true) := by
  constructor
  · have key : ∀ n (u : Sys), measure u ≤ n → Inv u → ∃ t, Steps u t ∧ t.final = true := by
      intro n
      induction n with
      | zero =>
        intro u hm hu
        cases hfin : u.final with
        | true => exact ⟨u, .refl u, hfin⟩
        | false =>
          obtain ⟨l, u', hs⟩ := not_stuck hu hfin
          have := measure_step l hs; omega
      | succ n ih =>
        intro u hm hu
        cases hfin : u.final with
        | true => exact ⟨u, .refl u, hfin⟩
        | false =>
          obtain ⟨l, u', hs⟩ := not_stuck hu hfin
          have hlt := measure_step l hs
          obtain ⟨t, ht, hft⟩ := ih u' (by omega) (inv_step' l hu hs)
          exact ⟨t, Steps.head l hs ht, hft⟩
    exact key _ s (Nat.le_refl _) hi
  · intro t ht hstuck
    cases hfin : t.final with
    | true => rfl
    | false =>
      obtain ⟨l, t', hs⟩ := not_stuck (inv_steps ht hi) hfin
      rw [hstuck l] at hs; simp at hs

/-- ★ `pending_signal_at_entry_terminates_and_notifies_parent`.  A child that has not ended is sent a fatal
    signal `sig` which it still has blocked (it inherited the mask of a parent that traps `sig`): the signal
    is pending, and the child's next step — its entry step, which resets the trap and unblocks the signal
    (`sigmask` → `block_signals` → `deliver_pending_signals`) — is its death.  In the model: the child's
    fate becomes `signaled sig` (`s1`).  Then, in any state `s` satisfying the invariant and whatever the
    parent is doing: the invariant still holds; the child's next step exists, leaves it terminated by
    `sig` with an unreported state change, and SIGCHLD is raised on the PARENT (pending, if the parent has
    its handler installed — which it has whenever it polls or blocks); the invariant holds afterwards, so
    (`wait_progress_inv`) every schedule from there ends with the parent done — no lost wake-up, no
    deadlock; and whatever `wait` hands out for this child is `signaled sig`, reported as 384 + `sig`. -/
theorem pending_signal_at_entry_terminates_and_notifies_parent {s : Sys} (hi : Inv s) {i f : Nat}
    {fin : Result} (sig : Nat) (hc : s.children[i]? = some { state := .running f fin, changed := false }) :
    let s1 : Sys := { s with children := s.children.set i { state := .running 0 (.signaled sig) } }
    Inv s1 ∧
    ∃ s2, childStep s1 i = some s2 ∧
      s2.children[i]? = some { state := .halted (.signaled sig), changed := true } ∧
      (s.disp = .catch → s2.pending = true) ∧
      Inv s2 ∧
      ((∃ t, Steps s2 t ∧ t.final = true) ∧ (∀ t, Steps s2 t → (∀ l, step t l = none) → t.final = true)) ∧
      (∀ t, Steps s2 t → ∀ r, (i, r) ∈ t.log → r = .signaled sig ∧ waitStatus (.got i r) = sig + 384) := by
  intro s1
  have hnolog : ∀ r, (i, r) ∉ s.log := by
    intro r hm
    obtain ⟨c, h1, h2⟩ := hi.logged i r hm
    rw [hc] at h1; simp at h1; subst h1; simp at h2
  have hs1 : Inv s1 := by
    refine ⟨?_, hi.handler, ?_, ?_, ?_, ?_⟩
    · intro j c hj hch
      simp only [s1, set_get hc] at hj
      by_cases hji : j = i
      · simp [hji] at hj; subst hj; simp at hch
      · simp [hji] at hj; exact hi.changed_halted j c hj hch
    · intro hpc j c hj hm hch
      simp only [s1, set_get hc] at hj
      by_cases hji : j = i
      · simp [hji] at hj; subst hj; simp at hch
      · simp [hji] at hj; exact hi.no_lost hpc j c hj hm hch
    · intro hpc
      obtain ⟨j, c, hj, hm, hor⟩ := hi.awaited hpc
      by_cases hji : j = i
      · subst hji
        exact ⟨j, { state := .running 0 (.signaled sig) }, by simp [s1, set_get hc], hm,
          Or.inl (by simp [PState.isAlive])⟩
      · exact ⟨j, c, by simp [s1, set_get hc, hji, hj], hm, hor⟩
    · intro j
      by_cases hji : j = i
      · subst hji
        have := hi.once j
        rw [reaped_self hc] at this
        simp only [s1]
        rw [reaped_set_self hc]
        simpa [PState.isAlive] using this
      · simp only [s1]; rw [reaped_set_other hc hji]; exact hi.once j
    · intro j r hm
      by_cases hji : j = i
      · subst hji; exact absurd hm (hnolog r)
      · obtain ⟨c, h1, h2⟩ := hi.logged j r hm
        exact ⟨c, by simp [s1, set_get hc, hji, h1], h2⟩
  have hget1 : s1.children[i]? = some { state := .running 0 (.signaled sig) } := by
    simp [s1, set_get hc]
  obtain ⟨s2, hstep⟩ : ∃ s2, childStep s1 i = some s2 := by
    unfold childStep; rw [hget1]; exact ⟨_, rfl⟩
  have hs2 : Inv s2 := inv_child i hs1 hstep
  have hchild2 : s2.children[i]? = some { state := .halted (.signaled sig), changed := true } := by
    unfold childStep at hstep
    rw [hget1] at hstep
    simp only [Option.some.injEq] at hstep
    subst hstep
    have : ∀ t : Sys, (raiseSigchld t).children = t.children := by
      intro t; unfold raiseSigchld; split <;> rfl
    rw [this]; simp [set_get hget1]
  have hpend : s.disp = .catch → s2.pending = true := by
    intro hd
    unfold childStep at hstep
    rw [hget1] at hstep
    simp only [Option.some.injEq] at hstep
    subst hstep
    unfold raiseSigchld
    have : s1.disp = .catch := hd
    simp [this]
  refine ⟨hs1, s2, hstep, hchild2, hpend, hs2, wait_progress_inv hs2, ?_⟩
  intro t ht r hm
  obtain ⟨c, h1, h2⟩ := (inv_steps ht hs2).logged i r hm
  have hfin := fin_steps ht
  have e1 : (t.children.map (·.state.fin))[i]? = some r := by
    simp [List.getElem?_map, h1, h2, PState.fin]
  have e2 : (s2.children.map (·.state.fin))[i]? = some (.signaled sig) := by
    simp [List.getElem?_map, hchild2, PState.fin]
  rw [hfin, e2] at e1
  simp at e1; subst e1
  exact ⟨rfl, rfl⟩

/-- non-vacuity: the parent blocked in `wait` for child 0, which has a blocked fatal signal pending -/
example :
    let s := run 3 [0, 0, 0] (init [(2, .exited 3)] [.wait (.pid 0)])
    Inv s ∧ s.pc = .await ∧ s.children[0]? = some { state := .running 2 (.exited 3), changed := false } :=
  ⟨reachable_inv (run_steps _ _ _), by decide, by decide⟩

/-! ### stages of a pipeline that block on I/O with each other (`Pipeline.lean`)

  The theorems above take "every child ends after finitely many steps" as given.  For the stages of a
  pipeline that is a theorem of its own, and it holds only under descriptor hygiene. -/

/-- ★ Descriptor hygiene — "after `move_to_stdin_stdout` a stage holds exactly its stdin reader and its
    stdout writer": pipe `j` is held for reading by stage `j+1` only and for writing by stage `j` only —
    holds for the pipeline as `execute_multi_command_pipeline` sets it up and is preserved by every step
    of every stage (nobody opens or passes on a descriptor; a stage that ends drops what it holds). -/
theorem hygiene_invariant (c : PCfg) :
    (∀ progs : List SProg, progs ≠ [] → Hyg c (mkPipeline progs)) ∧
    (∀ (s s' : PSys) (i : Nat), Hyg c s → stageStep c s i = some s' → Hyg c s') :=
  ⟨hyg_init c, fun _ _ _ h hs => hyg_step h hs⟩

/-- ★ No deadlock among the stages: in every state reachable from a hygienic one in which some stage is
    still alive, some stage can move — for every number of stages, every mix of stage programs
    (`spew`, `take`, `drain`, `cat`, `st`), every payload, every capacity with `1 ≤ PIPE_BUF ≤ PIPE_SIZE`.
    (The last live stage writes into a pipe nobody holds for reading any more — EPIPE, not a block — and a
    stage blocked in a read has a live writer upstream whose pipe is empty.) -/
theorem pipeline_no_deadlock {c : PCfg} {s t : PSys} (hv : c.Valid) (h : Hyg c s)
    (hrun : PSteps c s t) (hlive : t.done = false) : ∃ i t', stageStep c t i = some t' := by
  obtain ⟨k, hk⟩ := not_done_alive hlive
  exact pipeline_not_stuck hv (hyg_steps hrun h) hk

/-- ★ the writer gets EPIPE once the only reader of its pipe has ended -/
theorem writer_gets_epipe {c : PCfg} {s : PSys} (h : Hyg c s) {i n : Nat} {p : Pipe}
    (hp : s.pipes[i]? = some p) (hdead : s.alive (i + 1) = false) : sysWrite c s i n = .epipe :=
  write_epipe h hp hdead

/-- every system call of every stage strictly decreases `pmeas` (each byte is charged for every position
    it has not passed yet, each live stage once) -/
theorem pipeline_step_decreases {c : PCfg} {s s' : PSys} {i : Nat} (hv : c.Valid)
    (hs : stageStep c s i = some s') : pmeas s' < pmeas s :=
  pmeas_step hv hs

theorem pipeline_run_bounded {c : PCfg} {n : Nat} {s t : PSys} (hv : c.Valid)
    (h : PStepsN c n s t) : n + pmeas t ≤ pmeas s := by
  induction h with
  | refl => simp
  | tail i _ hs ih => have := pmeas_step hv hs; omega

/-- ★ `pipeline_terminates`: from a hygienic state every maximal schedule of the stages ends with every
    stage ended (so every stage is a child that "takes finitely many steps and ends", which is what
    `wait_progress`, `reaped_once` and `awaited_reaped` assume of the children): a state with all stages
    ended is reachable, every run is at most `pmeas s` steps long (`pipeline_run_bounded`), and a
    reachable state in which no stage can move has all stages ended. -/
theorem pipeline_terminates {c : PCfg} {s : PSys} (hv : c.Valid) (h : Hyg c s) :
    (∃ t, PSteps c s t ∧ t.done = true) ∧
    (∀ t, PSteps c s t → (∀ i, stageStep c t i = none) → t.done = true) := by
  constructor
  · have key : ∀ n (u : PSys), pmeas u ≤ n → Hyg c u → ∃ t, PSteps c u t ∧ t.done = true := by
      intro n
      induction n with
      | zero =>
        intro u hm hu
        cases hd : u.done with
        | true => exact ⟨u, .refl u, hd⟩
        | false =>
          obtain ⟨k, hk⟩ := not_done_alive hd
          obtain ⟨i, u', hs⟩ := pipeline_not_stuck hv hu hk
          have := pmeas_step hv hs; omega
      | succ n ih =>
        intro u hm hu
        cases hd : u.done with
        | true => exact ⟨u, .refl u, hd⟩
        | false =>
          obtain ⟨k, hk⟩ := not_done_alive hd
          obtain ⟨i, u', hs⟩ := pipeline_not_stuck hv hu hk
          have hlt := pmeas_step hv hs
          obtain ⟨t, ht, hdt⟩ := ih u' (by omega) (hyg_step hu hs)
          exact ⟨t, PSteps.head i hs ht, hdt⟩
    exact key _ s (Nat.le_refl _) h
  · intro t ht hstuck
    cases hd : t.done with
    | true => rfl
    | false =>
      obtain ⟨i, t', hs⟩ := pipeline_no_deadlock hv h ht hd
      rw [hstuck i] at hs; simp at hs

/-- ★ `prun_done`: the executable scheduler of the pipeline model (what the driver runs for the stages of a
    flow pipeline), started on the pipeline `progs` with fuel ≥ `pmeas`, ends with EVERY stage ended,
    whatever the choices — the driver's statuses are those of a complete run, never of a stuck one. -/
theorem prun_done {c : PCfg} (hv : c.Valid) (progs : List SProg) (hne : progs ≠ []) (fuel : Nat)
    (choices : List Nat) (hf : pmeas (mkPipeline progs) ≤ fuel) :
    (prun c fuel choices (mkPipeline progs)).done = true :=
  prun_done_of_hyg hv fuel choices _ (hyg_init c progs hne) hf

/-- `real_config_valid`: the hypothesis `c.Valid` of every pipeline theorem (`1 ≤ PIPE_BUF ≤ PIPE_SIZE`, read
    buffers ≥ 1) holds for the configuration the driver runs, whose `PIPE_BUF` / `PIPE_SIZE` are re-extracted
    from yash-env/src/system/virtual/file_body.rs on every run (`Generated/PipeConsts.lean`): an edit of either
    constant that breaks the order breaks this proof, not silently the premise of the others. -/
theorem real_config_valid : PCfg.real.Valid := by
  simp only [PCfg.Valid, PCfg.real]
  decide

/-- `consts_as_modelled`: the constants of /repo that the model uses as literals or through
    `Generated/ProcConsts.lean` have the values the Spec (POSIX) needs: descriptors 0 / 1 are what
    `Fd::STDIN` / `Fd::STDOUT` denote (`moveToStdinStdout` moves the pipe ends to the literals 0 and 1),
    `wait` reports `ExitStatus::NOT_FOUND` = 127 for an operand naming no job (`waitStatus .echild`, compared
    with `Spec.wait none`), `!` maps `SUCCESS` = 0 to `FAILURE` = 1 and everything else to 0, a child killed by
    signal `n` is reported as a status above 128 (POSIX; 384 + n here), the default action of SIGCHLD is "none"
    (`raiseSigchld` with the default disposition discards it: `handler_first_necessary`), HUP / INT / QUIT /
    KILL / TERM / USR1 / USR2 terminate, STOP suspends, CONT resumes (what `Prog.lean` lets `kill` do to a
    job).  All read from /repo by tools/tables/proc.py on every run. -/
theorem consts_as_modelled :
    Generated.ProcConsts.STDIN = 0 ∧ Generated.ProcConsts.STDOUT = 1 ∧
    waitStatus .echild = Spec.wait none ∧ Spec.wait none = 127 ∧
    (∀ st, negate st = Spec.negate st) ∧
    (∀ sig, 128 < (Result.signaled sig).status ∨ sig = 0) ∧
    Generated.ProcConsts.signalEffects.lookup "CHLD" = some "none" ∧
    (["HUP", "INT", "QUIT", "KILL", "TERM", "USR1", "USR2"].all fun n =>
      Generated.ProcConsts.signalEffects.lookup n == some "terminate") = true ∧
    Generated.ProcConsts.signalEffects.lookup "STOP" = some "suspend" ∧
    Generated.ProcConsts.signalEffects.lookup "CONT" = some "resume" := by
  refine ⟨by decide, by decide, by decide, by decide, ?_, ?_, by decide, by decide, by decide, by decide⟩
  · intro st
    simp only [negate, Spec.negate]
  · intro sig
    left
    simp only [Result.status]
    have : Generated.ProcConsts.SIGNAL_EXIT_OFFSET = 384 := by decide
    omega

/-- non-vacuity with the constants of the virtual system: `spew 4096 | st 7` ends with statuses 1 (EPIPE)
    and 7, `spew 3000 | cat | drain` with 0, 0, 0, under these schedules -/
example :
    (prun PCfg.real 100 [1, 0, 1] (mkPipeline [.spew 4096, .idle 7])).statuses = [1, 7] ∧
    (prun PCfg.real 100 [0, 1, 2, 1] (mkPipeline [.spew 3000, .cat 0, .drain])).statuses = [0, 0, 0] := by
  refine ⟨by decide, by decide⟩

/-- Hygiene is necessary: if a stage keeps the read end of the pipe it writes to (what the child does
    when `move_to_stdin_stdout` does not close it), `spew 10 | st 7` over a 4-byte pipe deadlocks — the
    reader has ended, the pipe is full, the writer still counts as a reader of its own pipe and never
    gets EPIPE. -/
theorem hygiene_necessary :
    let c : PCfg := { cap := 4, pbuf := 2, chunk := 4 }
    let t : PSys :=
      { stages := [{ prog := .spew 6 }, { prog := .idle 7, exit := some 7 }],
        pipes := [{ content := 4, readers := [1, 0], writers := [0] }] }
    PSteps c (mkPipeline [.spew 10, .idle 7] true) t ∧ t.done = false ∧ ∀ i, stageStep c t i = none := by
  intro c t
  refine ⟨?_, by decide, ?_⟩
  · have h := prun_steps c 10 [] (mkPipeline [.spew 10, .idle 7] true)
    have e : prun c 10 [] (mkPipeline [.spew 10, .idle 7] true) = t := by rfl
    rw [e] at h; exact h
  · intro i
    match i with
    | 0 => rfl
    | 1 => rfl
    | i + 2 => simp [stageStep, t]

/-! ### the joint system: parent + children whose steps are pipe reads, writes and exits (`Joint.lean`) -/

theorem joint_run_bounded {c : PCfg} (hv : c.Valid) {reqs : List Req} {n : Nat} {j k : JSys}
    (hj : JInv c reqs j) (h : JStepsN c n j k) : JInv c reqs k ∧ n + jmeasure k ≤ jmeasure j := by
  induction h with
  | refl => exact ⟨hj, by simp⟩
  | tail lab _ hs ih =>
    obtain ⟨h1, h2⟩ := ih hj
    obtain ⟨h3, h4⟩ := jinv_step hv lab h1 hs
    exact ⟨h3, by omega⟩

/-- ★ `joint_terminates_and_reaps`.  ONE system: the shell as the parent of `Model.lean` (its requests:
    `wait(pid)` for the members as `execute_multi_command_pipeline` issues them, and any `wait(-1)` /
    `update_all_subshell_statuses` besides) and the pipeline `progs` (any number of stages `spew`/`take`/
    `drain`/`cat`/`st`, descriptors as the set-up leaves them) whose steps are pipe reads, writes and
    exits, under an arbitrary scheduler that picks the parent or any stage.  For every state `j` the
    scheduler can reach:
    (1) every step of every process strictly decreases `jmeasure` — every schedule is finite, no fairness
        assumption is needed (`joint_run_bounded`: at most `jmeasure` steps);
    (2) as long as the parent is not done or a stage is alive, some process can move (no deadlock: neither
        the parent in `wait` nor the stages among themselves);
    (3) a state with the parent done and every stage ended can be reached;
    (4) once the parent is done, every member it was asked to wait for has ended, is reaped (no zombie), was
        handed out by `wait` exactly once, with the status it really ended with;
    (5) at any time, whatever `wait` has handed out for child `i` is the status stage `i` ended with. -/
theorem joint_terminates_and_reaps {c : PCfg} (hv : c.Valid) {progs : List SProg} (hne : progs ≠ [])
    {reqs : List Req} {j : JSys} (hrun : JSteps c (jinit progs reqs) j) :
    (∀ lab k, jstep c j lab = some k → jmeasure k < jmeasure j) ∧
    ((j.view.final = false ∨ j.pl.done = false) → ∃ lab k, jstep c j lab = some k) ∧
    (∃ k, JSteps c j k ∧ k.view.final = true ∧ k.pl.done = true) ∧
    (j.view.final = true → ∀ i, i < progs.length → Req.wait (.pid i) ∈ reqs →
      ∃ st stg, j.pl.stages[i]? = some stg ∧ stg.exit = some st ∧ reaped j.view.children i = true ∧
        logCount j.view.log i = 1 ∧ ∀ r, (i, r) ∈ j.view.log → r = .exited st) ∧
    (∀ i r, (i, r) ∈ j.view.log →
      ∃ st stg, j.pl.stages[i]? = some stg ∧ stg.exit = some st ∧ r = .exited st) := by
  have hinv : JInv c reqs j := jinv_steps hv hrun (jinv_init c progs hne reqs)
  have hlogged : ∀ i r, (i, r) ∈ j.view.log →
      ∃ st stg, j.pl.stages[i]? = some stg ∧ stg.exit = some st ∧ r = .exited st := by
    intro i r hm
    obtain ⟨cc, h1, h2⟩ := hinv.inv.logged i r hm
    exact hinv.coupled.status i cc r h1 h2
  refine ⟨fun lab k hs => (jinv_step hv lab hinv hs).2, jnot_stuck hv hinv, ?_, ?_, hlogged⟩
  · have key : ∀ n (u : JSys), jmeasure u ≤ n → JInv c reqs u →
        ∃ k, JSteps c u k ∧ k.view.final = true ∧ k.pl.done = true := by
      intro n
      induction n with
      | zero =>
        intro u hm hu
        by_cases hfin : u.view.final = true ∧ u.pl.done = true
        · exact ⟨u, .refl u, hfin.1, hfin.2⟩
        · have hlive : u.view.final = false ∨ u.pl.done = false := by
            cases h1 : u.view.final <;> cases h2 : u.pl.done <;> simp_all
          obtain ⟨lab, k, hs⟩ := jnot_stuck hv hu hlive
          have := (jinv_step hv lab hu hs).2; omega
      | succ n ih =>
        intro u hm hu
        by_cases hfin : u.view.final = true ∧ u.pl.done = true
        · exact ⟨u, .refl u, hfin.1, hfin.2⟩
        · have hlive : u.view.final = false ∨ u.pl.done = false := by
            cases h1 : u.view.final <;> cases h2 : u.pl.done <;> simp_all
          obtain ⟨lab, k, hs⟩ := jnot_stuck hv hu hlive
          obtain ⟨hk, hlt⟩ := jinv_step hv lab hu hs
          obtain ⟨t, ht, hf⟩ := ih k (by omega) hk
          exact ⟨t, JSteps.head lab hs ht, hf⟩
    exact key _ j (Nat.le_refl _) hinv
  · intro hfin i hi hreq
    have hlen : j.view.children.length = progs.length := by
      rw [hinv.coupled.len, jsteps_len hrun]; simp [jinit, mkPipeline]
    have ha := hinv.awaited i hreq (by omega)
    simp only [Sys.final, Bool.and_eq_true, beq_iff_eq, List.isEmpty_iff] at hfin
    have hreap : reaped j.view.children i = true := by
      rcases ha with h1 | h1 | h1
      · rw [hfin.2] at h1; simp at h1
      · rw [hfin.1] at h1; simp at h1
      · exact h1
    have hget : j.view.children[i]? = some j.view.children[i] := List.getElem?_eq_getElem (by omega)
    have hr := hreap
    rw [reaped_self hget] at hr
    simp at hr
    obtain ⟨r0, hr0⟩ : ∃ r0, (j.view.children[i]).state = .halted r0 := by
      cases hs : (j.view.children[i]).state with
      | running f r => simp [hs, PState.isAlive] at hr
      | halted r => exact ⟨r, rfl⟩
    obtain ⟨st, stg, h1, h2, h3⟩ := hinv.coupled.status i _ r0 hget hr0
    refine ⟨st, stg, h1, h2, hreap, by rw [hinv.inv.once i, hreap]; rfl, ?_⟩
    intro r hm
    obtain ⟨st', stg', h1', h2', h3'⟩ := hlogged i r hm
    rw [h1] at h1'; simp at h1'; subst h1'
    rw [h2] at h2'; simp at h2'; subst h2'
    exact h3'

/-! ### the descriptor shuffling of a pipeline child (`FdSetup.lean`) -/

/-- ★ `child_setup_establishes_hygiene`.  `PipeSet::move_to_stdin_stdout`, run in the child on the descriptor
    table it inherits (`ChildStart`: the descriptors named by the `PipeSet` are open, refer to the read end
    of the incoming pipe / both ends of the outgoing pipe, are pairwise different, and no other descriptor
    refers to a pipe of this pipeline), succeeds and leaves the stage holding exactly its stdin reader at
    descriptor 0 and its stdout writer at descriptor 1 (`ChildHygienic`) — for EVERY numbering of the
    descriptors: pipe ends at 3 and above, or at 0, 1, 2 because the shell's own standard descriptors were
    closed (the `writer == STDOUT`, `read_previous == STDOUT` → `dup`, `reader == STDIN` branches), first
    / middle / last stage, and every descriptor `d` the kernel may pick for the `dup` (free once the
    outgoing read end is closed, not 1). -/
theorem child_setup_establishes_hygiene {T : FdTab} {ps : PipeSet} {jin jout d : Nat}
    (h : ChildStart T ps jin jout)
    (hd : ∀ r w, ps.next = some (r, w) → ps.readPrevious = some 1 → w ≠ 1 → (T d = none ∨ d = r) ∧ d ≠ 1) :
    ∃ T', moveToStdinStdout T ps d = some T' ∧ ChildHygienic T' ps jin jout :=
  child_setup_spec h hd

/-- From the children's tables to the holder lists of `Hyg`: if every stage `k` of an `n`-stage pipeline
    is `ChildHygienic` for incoming pipe `k-1` (present iff `k > 0`) and outgoing pipe `k` (present iff
    `k + 1 < n`), then the read end of pipe `j` is held by stage `j+1` and by no other stage, the write end
    by stage `j` and by no other — the `readers = [j+1]`, `writers = [j]` of `mkPipeline`.  (That the PARENT
    holds no end after the last `PipeSet::shift`, and that the hypotheses `hh` hold for what the fork loop hands
    to the children, is `fork_loop_gives_child_start` / `pipeline_setup_holders` below.) -/
theorem setup_gives_holders {n : Nat} {tabs : Nat → FdTab} {pss : Nat → PipeSet}
    (hprev : ∀ k, (pss k).readPrevious.isSome = decide (0 < k))
    (hnext : ∀ k, k < n → (pss k).next.isSome = decide (k + 1 < n))
    (hh : ∀ k, k < n → ChildHygienic (tabs k) (pss k) (k - 1) k) :
    (∀ j k fd, k < n → tabs k fd = some (.rd j) → k = j + 1) ∧
    (∀ j k fd, k < n → tabs k fd = some (.wr j) → k = j) ∧
    (∀ j, j + 1 < n → tabs (j + 1) 0 = some (.rd j) ∧ tabs j 1 = some (.wr j)) := by
  refine ⟨?_, ?_, ?_⟩
  · intro j k fd hk hfd
    rcases (hh k hk).only fd _ hfd rfl with ⟨_, h2, h3⟩ | ⟨_, h2, _⟩
    · rw [hprev k] at h3
      simp at h3
      simp only [Res.rd.injEq] at h2
      omega
    · simp at h2
  · intro j k fd hk hfd
    rcases (hh k hk).only fd _ hfd rfl with ⟨_, h2, _⟩ | ⟨_, h2, _⟩
    · simp at h2
    · simp only [Res.wr.injEq] at h2; exact h2.symm
  · intro j hj
    constructor
    · have := (hh (j + 1) hj).stdin (by rw [hprev]; simp)
      simpa using this
    · exact (hh j (by omega)).stdout (by rw [hnext j (by omega)]; simp [hj])

/-- non-vacuity: a middle stage whose pipe ends sit at descriptors 3, 4, 5 -/
example :
    let T : FdTab := fun k =>
      if k = 3 then some (.rd 0) else if k = 4 then some (.rd 1) else if k = 5 then some (.wr 1)
      else if k < 3 then some .other else none
    ChildStart T { readPrevious := some 3, next := some (4, 5) } 0 1 := by
  intro T
  refine ⟨by simp [T], by simp [T], by simp [T], by simp, by simp, ?_⟩
  intro fd res hfd hpe
  simp only [T] at hfd
  split at hfd
  · left; simp_all
  · split at hfd
    · right; left; exact ⟨5, by simp_all⟩
    · split at hfd
      · right; right; exact ⟨4, by simp_all⟩
      · split at hfd
        · simp at hfd; subst hfd; simp [Res.isPipeEnd] at hpe
        · simp at hfd

/-! ### the parent's side of the pipeline set-up: `PipeSet::shift` and the fork loop (`ForkLoop.lean`) -/

/-- ★ `fork_loop_gives_child_start`.  The `while` loop of `execute_multi_command_pipeline` (`shift`, fork,
    `shift`, fork, …, final `shift(false)`), started with a table `T0` that holds no end of a pipe of this
    pipeline, for EVERY number of stages and EVERY allocation of descriptors by `pipe()` (`A`; a choice
    that is not free makes the loop fail): stage `k` inherits a table and a `PipeSet` that satisfy
    `ChildStart` for pipes `k-1` (in) and `k` (out) — the hypothesis of `child_setup_establishes_hygiene`,
    which was an assumption before —, with a `read_previous` iff `k > 0` and a `next` iff `k` is not the
    last stage; what the child inherits besides is `T0`; and when the loop is over the parent's table IS
    `T0` again (it holds no pipe end and has lost nothing) and its `PipeSet` is empty. -/
theorem fork_loop_gives_child_start {A : Alloc} {n : Nat} {T0 Tf : FdTab} {psf : PipeSet}
    {cs : List (FdTab × PipeSet)} (h0 : NoPipe T0)
    (h : forkLoop A 0 n T0 { readPrevious := none, next := none } = some (cs, Tf, psf)) :
    cs.length = n ∧ (∀ fd, Tf fd = T0 fd) ∧ psf = { readPrevious := none, next := none } ∧
    ∀ (k : Nat) Tk psk, cs[k]? = some (Tk, psk) →
      ChildStart Tk psk (k - 1) k ∧ psk.readPrevious.isSome = decide (0 < k) ∧
      psk.next.isSome = decide (k + 1 < n) ∧ (∀ fd, Tk fd = some .other ↔ (T0 fd).isSome = true) := by
  obtain ⟨hlen, hTf, hpsf, hk⟩ := forkLoop_spec h0 n 0 T0 _ cs Tf psf (loopInv_init h0 _ _) (by simp) h
  refine ⟨hlen, hTf, hpsf, ?_⟩
  intro k Tk psk hget
  obtain ⟨hinv, h1, h2⟩ := hk k Tk psk hget
  simp only [Nat.zero_add] at hinv h1
  exact ⟨hinv.start, h1, h2, fun fd => loopInv_other h0 hinv fd⟩

/-- ★ `child_setup_exact`.  `PipeSet::move_to_stdin_stdout`, whenever it returns without error on a table
    with `ChildStart`, leaves EXACTLY this table: descriptor 0 = the incoming read end (if any), descriptor
    1 = the outgoing write end (if any), every other descriptor what it was if that was not a pipe end of
    the pipeline, and closed otherwise — for every numbering and every `dup` result (all branches).  This
    is stronger than `ChildHygienic` (it also says that nothing else is lost or gained), and it is what
    the `fd` case family compares with the real descriptor tables. -/
theorem child_setup_exact {T T' : FdTab} {ps : PipeSet} {jin jout d : Nat} (h : ChildStart T ps jin jout)
    (hm : moveToStdinStdout T ps d = some T') : ∀ fd, T' fd = setupResult T ps jin jout fd :=
  move_exact h hm

/-- non-vacuity (the `read_previous == STDOUT` → `dup` branch): the shell's standard output was closed, so the
    incoming read end sits at descriptor 1; the pipe to the right neighbour is (3, 4); `dup` returns 3, which
    is free once the reader 3 has been closed: the function returns, and the result is the exact table -/
example :
    let T : FdTab := fun k =>
      if k = 1 then some (.rd 0) else if k = 3 then some (.rd 1) else if k = 4 then some (.wr 1)
      else if k = 0 ∨ k = 2 then some .other else none
    (moveToStdinStdout T { readPrevious := some 1, next := some (3, 4) } 3).map
        (fun T' => (List.range 6).map T') =
      some [some (.rd 0), some (.wr 1), some .other, none, none, none] := by
  decide

/-- ★ `pipeline_setup_exact`: model = Spec for the whole set-up.  For every number of stages `n`, every
    allocation policy `A` (the driver runs `Alloc.lowest`, the `min_unused_fd` of the virtual system) and
    every starting table `T0` without pipe ends: if the set-up goes through (`pipelineSetup`: fork loop of
    the parent + `move_to_stdin_stdout` in every child), then there are `n` stage tables, every descriptor
    of every stage is what `Spec.stageFd` says (0 = read end of pipe `k-1` iff `k > 0`, 1 = write end of
    pipe `k` iff `k` is not last, no other descriptor refers to a pipe, everything else as in `T0`), and the
    parent's table is `T0` again. -/
theorem pipeline_setup_exact {A : Alloc} {n : Nat} {T0 Tf : FdTab} {ts : List FdTab}
    (h0 : NoPipe T0) (h : pipelineSetup A n T0 = some (ts, Tf)) :
    ts.length = n ∧ (∀ fd, Tf fd = T0 fd) ∧
    ∀ (k : Nat) T, ts[k]? = some T →
      ∀ fd, (T fd).map Res.kind = Spec.stageFd (fun fd => (T0 fd).isSome) n k fd := by
  simp only [pipelineSetup] at h
  split at h
  · simp at h
  · rename_i cs Tf' psf hrun
    split at h
    · simp at h
    · rename_i ts' hts
      simp at h
      obtain ⟨rfl, rfl⟩ := h
      obtain ⟨hlen, hTf, _, hk⟩ := forkLoop_spec h0 n 0 T0 _ cs _ psf (loopInv_init h0 _ _) (by simp) hrun
      obtain ⟨hl2, hc⟩ := childTables_spec cs 0 _ hts
      refine ⟨by omega, hTf, ?_⟩
      intro k T hget fd
      have hklt : k < cs.length := by
        have := (List.getElem?_eq_some_iff.mp hget).1
        omega
      rcases hck : cs[k] with ⟨Tk, psk⟩
      have hcs : cs[k]? = some (Tk, psk) := by rw [List.getElem?_eq_getElem hklt, hck]
      obtain ⟨hinv, hrp, hnx⟩ := hk k Tk psk hcs
      obtain ⟨T', d, hT', hmove⟩ := hc k Tk psk hcs
      rw [hget] at hT'
      simp at hT'; subst hT'
      have hex := move_exact hinv.start hmove fd
      have hoth := loopInv_other h0 hinv fd
      simp only [Nat.zero_add] at hex hrp
      rw [hex]
      simp only [setupResult, Spec.stageFd, hrp, hnx]
      by_cases c1 : fd = 0 ∧ 0 < k
      · simp [c1, Res.kind]
      · by_cases c2 : fd = 1 ∧ k + 1 < n
        · have : ¬ (fd = 0 ∧ 0 < k) := c1
          simp [c2, Res.kind]
        · by_cases c3 : (T0 fd).isSome = true
          · have := hoth.mpr c3
            simp [c1, c2, c3, this, Res.kind]
          · have : ¬ Tk fd = some .other := fun e => c3 (hoth.mp e)
            simp [c1, c2, c3, this]

/-- ★ `pipeline_setup_holders`: the holder lists that `mkPipeline` ASSERTS (`readers = [j+1]`,
    `writers = [j]`, the starting point of `hygiene_invariant`, `pipeline_no_deadlock`,
    `joint_terminates_and_reaps`) are the ones the descriptor set-up PRODUCES: stage `k` holds a descriptor
    for the read end of pipe `j` iff `k` is in `mkPipeline`'s reader list of pipe `j`, likewise for the
    write end, and the parent holds neither end.  (What stays an abstraction: in the pipeline model all
    stages exist from the start, while the real parent forks them one after the other and holds the read
    end of pipe `j` until stage `j+1` is forked — a stage that is not forked yet is a stage that has not
    taken a step yet, and until it is forked the parent's copy keeps the pipe readable.) -/
theorem pipeline_setup_holders {A : Alloc} {n : Nat} {T0 Tf : FdTab} {ts : List FdTab}
    (h0 : NoPipe T0) (h : pipelineSetup A n T0 = some (ts, Tf))
    (progs : List SProg) (hl : progs.length = n) (j : Nat) (p : Pipe)
    (hp : (mkPipeline progs).pipes[j]? = some p) :
    (∀ k, k ∈ p.readers ↔ ∃ T fd, ts[k]? = some T ∧ T fd = some (.rd j)) ∧
    (∀ k, k ∈ p.writers ↔ ∃ T fd, ts[k]? = some T ∧ T fd = some (.wr j)) ∧
    (∀ fd, Tf fd ≠ some (.rd j) ∧ Tf fd ≠ some (.wr j)) ∧ p.content = 0 := by
  obtain ⟨hlen, hTf, hk⟩ := pipeline_setup_exact h0 h
  simp only [mkPipeline, Bool.false_eq_true, if_false] at hp
  rw [List.getElem?_map] at hp
  have hj : j < progs.length - 1 := by
    by_cases hc : j < progs.length - 1
    · exact hc
    · rw [List.getElem?_eq_none (by simp; omega)] at hp
      simp at hp
  rw [List.getElem?_range hj] at hp
  simp at hp
  subst hp
  refine ⟨?_, ?_, ?_, rfl⟩
  · intro k
    simp only [List.mem_singleton]
    constructor
    · intro e
      subst e
      have hlt : j + 1 < ts.length := by omega
      refine ⟨ts[j + 1], 0, List.getElem?_eq_getElem hlt, ?_⟩
      have := hk (j + 1) _ (List.getElem?_eq_getElem hlt) 0
      simp only [Spec.stageFd, Nat.add_sub_cancel, Nat.zero_lt_succ, and_self, if_true] at this
      exact kind_rd.mp this
    · rintro ⟨T, fd, hT, hfd⟩
      have := hk k T hT fd
      rw [hfd] at this
      simp only [Spec.stageFd, Option.map, Res.kind] at this
      split at this
      · simp at this; omega
      · split at this
        · simp at this
        · split at this <;> simp at this
  · intro k
    simp only [List.mem_singleton]
    constructor
    · intro e
      subst e
      have hlt : k < ts.length := by omega
      refine ⟨ts[k], 1, List.getElem?_eq_getElem hlt, ?_⟩
      have := hk k _ (List.getElem?_eq_getElem hlt) 1
      have h2 : k + 1 < n := by omega
      simp only [Spec.stageFd, h2, Nat.one_ne_zero, false_and, if_false, and_self, if_true] at this
      exact kind_wr.mp this
    · rintro ⟨T, fd, hT, hfd⟩
      have := hk k T hT fd
      rw [hfd] at this
      simp only [Spec.stageFd, Option.map, Res.kind] at this
      split at this
      · simp at this
      · split at this
        · simp at this; omega
        · split at this <;> simp at this
  · intro fd
    rw [hTf]
    constructor <;> intro e <;> have := h0 fd _ e <;> simp at this

/-- non-vacuity: three stages, descriptors 0, 1, 2 open, lowest-free allocation — the loop goes through;
    the tables of the stages (descriptors 0..5) and of the parent afterwards -/
example :
    let T0 : FdTab := fun k => if k < 3 then some .other else none
    (pipelineSetup (Alloc.lowest 16) 3 T0).map (fun r =>
        (r.1.map fun T => (List.range 6).map T, (List.range 6).map r.2)) =
      some ([[some .other, some (.wr 0), some .other, none, none, none],
             [some (.rd 0), some (.wr 1), some .other, none, none, none],
             [some (.rd 1), some .other, some .other, none, none, none]],
            [some .other, some .other, some .other, none, none, none]) := by
  decide

/-- non-vacuity: the same with standard input and output closed in the shell (the pipe ends land on 0 and
    1: the `reader == STDIN`, `writer == STDOUT` and `read_previous == STDOUT` → `dup` branches) -/
example :
    let T0 : FdTab := fun k => if k = 2 then some .other else none
    (pipelineSetup (Alloc.lowest 16) 3 T0).map (fun r =>
        (r.1.map fun T => (List.range 5).map T, (List.range 5).map r.2)) =
      some ([[none, some (.wr 0), some .other, none, none],
             [some (.rd 0), some (.wr 1), some .other, none, none],
             [some (.rd 1), none, some .other, none, none]],
            [none, none, some .other, none, none]) := by
  decide

/-! ### from what the driver computes to what the property says -/

/-- ★ `run_final`: the executable scheduler of the driver (`run`), started in any reachable state with fuel
    ≥ `measure`, ends in a final state whatever the list of choices is (so the driver's "model run" is a
    complete run of the model, not a truncated one). -/
theorem run_final {spec : List (Nat × Result)} {reqs : List Req} {s : Sys} (h : Reachable spec reqs s)
    (fuel : Nat) (choices : List Nat) (hf : measure s ≤ fuel) :
    Reachable spec reqs (run fuel choices s) ∧ (run fuel choices s).final = true :=
  ⟨Steps.trans h (run_steps fuel choices s), run_final_of_inv fuel choices s (reachable_inv h) hf⟩

/-- ★ `waits_report_in_order`: a parent that waits for distinct existing children one after the other
    (`wait_for_subshell_to_finish(pid)` for each member of a pipeline, a subshell, a command substitution)
    gets, when it is done and under every schedule, exactly one result per request, in the order of the
    requests, each the awaited child's OWN final state (identity and true status) — never ECHILD, never
    another child's state. -/
theorem waits_report_in_order {spec : List (Nat × Result)} {ts : List Nat} {s : Sys}
    (h : Reachable spec (waitReqs ts) s) (hnd : ts.Nodup) (hlt : ∀ t ∈ ts, t < spec.length)
    (hfin : s.final = true) :
    s.results.reverse = ts.map (expected (spec.map (·.2))) := by
  have hF : fins (init spec (waitReqs ts)) = spec.map (·.2) := by
    simp only [fins, init, List.map_map]
    apply List.map_congr_left
    intro p _; simp [PState.fin]
  have ho := ord_steps h (inv_init' _ _) hF hnd (by intro x hx; simpa [init] using hlt x hx)
    (ord_init spec ts)
  obtain ⟨done, cur, rest, hts, htodo, hpc, hres, _⟩ := ho.ex
  simp only [Sys.final, Bool.and_eq_true, beq_iff_eq, List.isEmpty_iff] at hfin
  have hrest : rest = [] := by
    rw [hfin.2] at htodo
    cases rest with
    | nil => rfl
    | cons a b => simp [waitReqs] at htodo
  have hcur : cur = [] := by
    rcases hpc with ⟨hc, _⟩ | ⟨t, _, hp, _⟩
    · exact hc
    · rw [hfin.1] at hp; simp at hp
  subst hrest; subst hcur
  simp at hts; subst hts
  exact hres

example :
    (run 40 [2, 0, 1, 1, 2] (init [(1, .exited 3), (0, .signaled 9), (2, .exited 0)] (waitReqs [0, 1, 2]))).results.reverse
      = [.got 0 (.exited 3), .got 1 (.signaled 9), .got 2 (.exited 0)] := by
  decide

/-- `pipeline_status_raw` (the core of `pipeline_status_end_to_end`, for children whose recorded statuses are `sts`):
    what the DRIVER computes for the members of a pipeline (`nestedWaitRaw true`:
    build the children, let the parent wait for each, run the model under the scheduler derived from the
    case's schedule digits, read the statuses off the results) is the list of the members' true statuses —
    for every list of statuses (up to 4000 members: the driver's fuel), every schedule digits, every salt;
    so the status the driver reports for the pipeline is what the property says: the last member's, or with
    `pipefail` the rightmost non-zero one. -/
theorem pipeline_status_raw (digits : List Nat) (salt : Nat) (sts : List Nat)
    (hn : sts.length ≤ 4000) (pf : Bool) :
    nestedWaitRaw true digits salt sts = sts ∧
    pipeFold true pf (nestedWaitRaw true digits salt sts) = Spec.pipe pf sts := by
  have key : nestedWaitRaw true digits salt sts = sts := by
    unfold nestedWaitRaw
    simp only [Bool.not_true, Bool.false_eq_true, if_false]
    have hs0 : ({ children := mkChildren digits salt sts, todo := waitAll 0 sts.length } : Sys) =
        init (specOf digits salt sts) (waitReqs (List.range sts.length)) := by
      simp [init, mkChildren_eq, waitAll_eq]
    rw [hs0]
    have hreach0 : Reachable (specOf digits salt sts) (waitReqs (List.range sts.length))
        (init (specOf digits salt sts) (waitReqs (List.range sts.length))) := .refl _
    have hm : measure (init (specOf digits salt sts) (waitReqs (List.range sts.length))) ≤ 100000 := by
      have h1 := childrenW_mkChildren digits salt sts
      simp only [measure, init, ← mkChildren_eq, pcW, waitReqs, List.length_map, List.length_range]
      simp
      omega
    obtain ⟨hr, hfin⟩ := run_final hreach0 100000 (mkChoices digits salt) hm
    have hres := waits_report_in_order hr List.nodup_range
      (by intro t ht; rw [specOf_length]; simpa using ht) hfin
    rw [hres, hfin]
    simp only [List.map_map, List.length_map, List.length_range, and_self, if_true]
    have : (waitStatus ∘ expected ((specOf digits salt sts).map (·.2))) = fun t => sts.getD t 0 := by
      funext t
      simp only [Function.comp, expected, waitStatus, specOf_snd]
      rcases Nat.lt_or_ge t sts.length with h | h
      · simp [List.getD_eq_getElem?_getD, List.getElem?_map, List.getElem?_eq_getElem h, Result.status]
      · simp [List.getD_eq_getElem?_getD, List.getElem?_eq_none (by simpa using h : (sts.map Result.exited).length ≤ t),
          List.getElem?_eq_none h, Result.status]
    rw [this]
    exact range_map_getD sts 0
  refine ⟨key, ?_⟩
  rw [key]
  simp only [pipeFold, if_true]
  exact pipefail_rule pf sts

/-- ★ `pipeline_status_end_to_end`: for members that EXIT WITH `sts` (any naturals — `exit 300`, `( exit 256 )`), what
    the driver computes (`nestedWait true`: the kernel records the low 8 bits, `VirtualSystem::exit`; then as in
    `pipeline_status_raw`) is the list of the statuses POSIX lets the parent see (`sts.map (· % 256)`), under every
    schedule digits and salt; so the pipeline's status is the last / with `pipefail` the rightmost non-zero of THOSE
    (`st 300 | st 0` under `pipefail`: 44; `st 256 | st 0`: 0). -/
theorem pipeline_status_end_to_end (digits : List Nat) (salt : Nat) (sts : List Nat)
    (hn : sts.length ≤ 4000) (pf : Bool) :
    nestedWait true digits salt sts = sts.map (· % 256) ∧
    pipeFold true pf (nestedWait true digits salt sts) = Spec.pipe pf (sts.map (· % 256)) := by
  have h := pipeline_status_raw digits salt (sts.map exitStatusSeen) (by simpa using hn) pf
  exact h

example : nestedWait true [2, 1, 0, 2] 5 [3, 0, 7, 0] = [3, 0, 7, 0] ∧
    pipeFold true true (nestedWait true [2, 1, 0, 2] 5 [3, 0, 7, 0]) = 7 ∧
    nestedWait true [1, 0] 3 [300, 256] = [44, 0] ∧ pipeFold true true (nestedWait true [1, 0] 3 [300, 256]) = 44 := by
  decide

/-- ★ `wait_builtin_end_to_end`: what the DRIVER computes for `wait o1 … on` (`awaitJobsRun`, the executable
    operand loop `St.awaitJobs` calls, every `wait_for_any_job_or_trap` being a `run` of the model under a
    scheduler derived from the case's schedule digits), whenever it yields a value — in any reachable state
    with the parent idle, for any job table of existing children, any operand list, any fuel and any choice
    lists — is what the Spec says: one status per operand (the job's true status; 127 for a pid that is no
    job any more, for an unknown pid and for an unknown job ID, in ANY position), the exit status is the last
    of them (`Spec.waitOps`), every operand that names a job has been awaited and reaped, and the parent is
    idle again.  (An executable loop that stopped at the first operand naming no job could not be shown to be
    a derivation of `WaitOps`, nor to meet this statement.) -/
theorem wait_builtin_end_to_end {spec : List (Nat × Result)} {reqs : List Req} {s : Sys}
    (h : Reachable spec reqs s) (hidle : s.final = true)
    (jobs : List Nat) (hjobs : ∀ x ∈ jobs, x < spec.length) (operands : List Operand)
    (runFuel outer : Nat) (choices : Nat → List Nat) (last : Nat)
    {jobs' : List Nat} {s' : Sys} {rs : List WaitRes}
    (hrun : awaitJobsRun runFuel outer choices jobs s (operands.map (resolve jobs)) = some (jobs', s', rs)) :
    let truth := fun i => ((spec[i]?).map (·.2.status)).getD 127
    rs.map waitStatus = Spec.waitEach truth jobs (operands.map Operand.toSpec) ∧
    ((rs.map waitStatus).getLast?).getD last = (Spec.waitOps truth jobs (operands.map Operand.toSpec) last).1 ∧
    (∀ i : Nat, Operand.pid i ∈ operands → i ∈ jobs → reaped s'.children i = true) ∧
    s'.final = true := by
  intro truth
  obtain ⟨_, hrs, hall, hfin⟩ :=
    wait_operands_all_awaited h hidle jobs hjobs operands (awaitJobsRun_sound _ _ _ _ _ _ _ _ _ hrun)
  refine ⟨hrs, ?_, hall, hfin⟩
  rw [hrs, wait_status_is_last]

/-- non-vacuity: `wait 7 $j $j` with job 0 (status 3) still running: 127, 3, 127; the exit status is the last -/
example :
    (awaitJobsRun 100 8 (fun _ => [1, 0, 1]) [0] (init [(1, .exited 3)] [])
        ([Operand.pid 7, Operand.pid 0, Operand.pid 0].map (resolve [0]))).map
      (fun r => r.2.2.map waitStatus) = some [127, 3, 127] := by
  decide

/-- ★ `fd_tables_end_to_end`: what the driver prints in the model column for an `fd` statement
    (`fdTables true …`: `pipelineSetup` with the lowest-free allocation of the virtual system, shown as text) is
    what it prints in the spec column (`fdTables false …`: `Spec.stageFd`), for every set of closed / opened
    descriptors and every number of stages — whenever the set-up goes through, which the driver checks per case
    (` F[setup-failed]` otherwise, which differs from the spec column). -/
theorem fd_tables_end_to_end (closed opened : List Nat) (n : Nat)
    (hok : (pipelineSetup (Alloc.lowest fdBound) n
      (fun fd => if startOpen closed opened fd then some .other else none)).isSome = true) :
    fdTables true closed opened n = fdTables false closed opened n := by
  simp only [fdTables, if_true, Bool.false_eq_true, if_false]
  cases hps : pipelineSetup (Alloc.lowest fdBound) n
      (fun fd => if startOpen closed opened fd then some Res.other else none) with
  | none => rw [hps] at hok; simp at hok
  | some r =>
    obtain ⟨ts, Tf⟩ := r
    have h0 : NoPipe (fun fd => if startOpen closed opened fd then some Res.other else none) := by
      intro fd res h
      simp only [] at h
      split at h
      · simp at h; exact h.symm
      · simp at h
    obtain ⟨hlen, hTf, hk⟩ := pipeline_setup_exact h0 hps
    simp only []
    have hrows : ts.map (fun T => showTable fun fd => (T fd).map showRes) =
        (List.range n).map fun k => showTable fun fd =>
          (Spec.stageFd (startOpen closed opened) n k fd).map showKind := by
      apply List.ext_getElem
      · simp [hlen]
      · intro k h1 h2
        have hlt : k < ts.length := by simpa using h1
        simp only [List.getElem_map, List.getElem_range]
        have hkk := hk k ts[k] (List.getElem?_eq_getElem hlt)
        congr 1
        funext fd
        have := hkk fd
        have e : (fun fd => ((if startOpen closed opened fd then some Res.other else none : Option Res)).isSome) = startOpen closed opened := by
          funext x; cases startOpen closed opened x <;> simp
        rw [e] at this
        rw [← this]
        cases ts[k] fd with
        | none => rfl
        | some r => simp [showRes_kind]
    have hpar : (showTable fun fd => (Tf fd).map showRes) =
        showTable fun fd => if startOpen closed opened fd then some "o" else none := by
      congr 1
      funext fd
      rw [hTf]
      cases startOpen closed opened fd <;> simp [showRes]
    rw [hrows, hpar]

/-- ★ `pipeline_setup_succeeds`: under the allocation policy of the virtual system (`Alloc.lowest b` = the lowest
    free descriptor below `b`), started with a table without pipe ends whose descriptors from `m` on are free, the
    whole set-up of an `n`-stage pipeline goes through when `m + 2(n+1) ≤ b`: no `pipe()` of the parent and no
    `close` / `dup` / `dup2` of any child fails (every `?` of `PipeSet::shift` and `move_to_stdin_stdout` is dead
    code there).  Removes the hypothesis "if the set-up goes through" of `pipeline_setup_exact` for this policy. -/
theorem pipeline_setup_succeeds {b m n : Nat} {T0 : FdTab} (h0 : NoPipe T0) (hb : Below m T0)
    (hm : m + 2 * (n + 1) ≤ b) : (pipelineSetup (Alloc.lowest b) n T0).isSome = true := by
  obtain ⟨cs, Tf, psf, hrun, hbel⟩ := forkLoop_ok (b := b) n 0 m T0 { readPrevious := none, next := none } hb hm
  obtain ⟨_, _, _, hk⟩ := forkLoop_spec h0 n 0 T0 _ cs Tf psf (loopInv_init h0 _ _) (by simp) hrun
  have hall : ∀ c ∈ cs, Below (m + 2 * n) c.1 ∧ ∃ jin jout, ChildStart c.1 c.2 jin jout := by
    intro c hc
    refine ⟨hbel c hc, ?_⟩
    obtain ⟨k, hk1, hk2⟩ := List.mem_iff_getElem.mp hc
    obtain ⟨T, ps⟩ := c
    have := (hk k T ps (by rw [List.getElem?_eq_getElem hk1, hk2])).1
    exact ⟨_, _, this.start⟩
  obtain ⟨ts, hts⟩ := childTables_ok (b := b) (M := m + 2 * n) (by omega) cs 0 hall
  simp [pipelineSetup, hrun, hts]

/-- ★ `fd_tables_agree`: for every `fd X Y N` statement of the case language (Y ⊆ 3..9, N ≤ 26; the parser
    admits N ≤ 8) the driver's model column equals its spec column — unconditionally. -/
theorem fd_tables_agree (closed opened : List Nat) (n : Nat) (hop : ∀ d ∈ opened, d < 10) (hn : n ≤ 26) :
    fdTables true closed opened n = fdTables false closed opened n := by
  apply fd_tables_end_to_end
  apply pipeline_setup_succeeds (m := 10)
  · intro fd res h
    simp only [] at h
    split at h
    · simp at h; exact h.symm
    · simp at h
  · intro fd hfd
    have : startOpen closed opened fd = false := by
      simp only [startOpen, Bool.or_eq_false_iff, Bool.and_eq_false_imp, decide_eq_true_eq]
      refine ⟨fun h => by omega, ?_⟩
      cases hc : opened.contains fd with
      | false => rfl
      | true =>
        have := hop fd (by simpa using hc)
        omega
    simp [this]
  · simp only [fdBound]; omega

/-- non-vacuity: the set-up goes through for 8 stages with descriptor 1 closed and 3, 5 open -/
example : (pipelineSetup (Alloc.lowest fdBound) 8
    (fun fd => if startOpen [1] [3, 5] fd then some .other else none)).isSome = true := by
  decide

/-- ★ `last_async_is_new_child` (the identity half of "`$!` … report each child's true … identity"): in the
    program interpreter of the driver, starting an asynchronous list (`St.newJob`: `$!` is saved as `$jK`,
    K = `nasync + 1`) registers exactly the child that was just forked: operand `$jK` resolves to the new
    process-table index, that child's fate is the list's true status `v`, the older children are untouched, the
    pid is in the job table, `St.truth` of it is `v` (what the spec column reports for `wait $jK`), and the
    numbering invariant (job numbers ≤ `nasync`, pids below the table length) is kept, so the statement holds
    again for the next `&`.  With `wait_builtin_end_to_end` (status of `wait` on that pid = the child's
    `fin`) this is "`wait $!` reports the status of the list just started". -/
theorem last_async_is_new_child (st : St) (v kind : Nat) (hu : st.useSys = true)
    (hnum : ∀ j ∈ st.jobs, j.1 ≤ st.nasync ∧ j.2.1 < st.sys.children.length) :
    (st.newJob v kind).nasync = st.nasync + 1 ∧
    (st.newJob v kind).pidOf (.job (st.nasync + 1)) = some (some st.sys.children.length) ∧
    (st.newJob v kind).sys.children[st.sys.children.length]? =
      some { state := .running (fuelOf st.digits st.sys.children.length) (.exited v) } ∧
    (∀ i, i < st.sys.children.length → (st.newJob v kind).sys.children[i]? = st.sys.children[i]?) ∧
    st.sys.children.length ∈ (st.newJob v kind).active ∧
    (st.newJob v kind).truth st.sys.children.length = v ∧
    (∀ j ∈ (st.newJob v kind).jobs,
      j.1 ≤ (st.newJob v kind).nasync ∧ j.2.1 < (st.newJob v kind).sys.children.length) := by
  have hfind1 : st.jobs.find? (fun j => j.1 == st.nasync + 1) = none := by
    rw [List.find?_eq_none]
    intro j hj
    have := (hnum j hj).1
    simp; omega
  have hfind2 : st.jobs.find? (fun j => j.2.1 == st.sys.children.length) = none := by
    rw [List.find?_eq_none]
    intro j hj
    have := (hnum j hj).2
    simp; omega
  simp only [St.newJob, hu, if_true, St.fork, mkChildren_one]
  refine ⟨trivial, ?_, ?_, ?_, ?_, ?_, ?_⟩
  · simp [St.pidOf, List.find?_append, hfind1]
  · simp
  · intro i hi
    simp [List.getElem?_append_left hi]
  · simp
  · simp [St.truth, List.find?_append, hfind2]
  · intro j hj
    simp at hj
    rcases hj with hj | hj
    · have := hnum j hj
      simp; omega
    · subst hj; simp

/-- non-vacuity: the second `&` of a program -/
example :
    let st0 : St := { useSys := true, digits := [1, 0] }
    let st1 := st0.newJob 3 1
    (∀ j ∈ st1.jobs, j.1 ≤ st1.nasync ∧ j.2.1 < st1.sys.children.length) ∧
    (st1.newJob 4 1).pidOf (.job 2) = some (some 1) := by
  decide

/-! ### `Spec.flowStatuses` against the pipeline model: two stages -/

/-- ★ `flow2_statuses_exact`: for `spew n | consumer` (consumer = `take k st`, `drain`, `st s`) over a pipe of any
    capacity, in the race-free regime `Spec.raceFree2` (the consumer takes everything, or what it leaves exceeds
    what the pipe can buffer), EVERY complete run of the pipeline model — any schedule, any interleaving of
    partial writes and reads — ends with the statuses `Spec.flowStatuses` predicts: the writer succeeds iff the
    reader takes everything, otherwise it gets EPIPE (1); the reader ends with its own status.  Proof: byte
    accounting as an invariant (`Flow2`: what is left to write vs. what pipe and consumer can still absorb).
    This characterises the Spec function against the model for the two-stage class; pipelines with `cat` in
    the middle are still only compared by the run. -/
theorem flow2_statuses_exact (c : PCfg) (n : Nat) (cons : Spec.Flow) (hrf : Spec.raceFree2 c.cap n cons = true)
    {t : PSys} (ht : PSteps c (mkPipeline [.spew n, flowProg cons]) t) (hd : t.done = true) :
    t.statuses = Spec.flowStatuses 0 [.spew n, cons] := by
  have hmk : mkPipeline [.spew n, flowProg cons] =
      { stages := [⟨.spew n, none⟩, ⟨flowProg cons, none⟩], pipes := [⟨0, [1], [0]⟩] } := rfl
  rw [hmk] at ht
  have key : ∀ (fin1 : Nat) (fail : Bool),
      Flow2 c fin1 fail ⟨.spew n, none⟩ ⟨flowProg cons, none⟩ ⟨0, [1], [0]⟩ →
      t.statuses = [if fail then 1 else 0, fin1] := by
    intro fin1 fail h
    obtain ⟨a, b, p, rfl, h'⟩ := flow2_reach h ht
    exact flow2_final h' hd
  cases cons with
  | spew m => simp [Spec.raceFree2] at hrf
  | cat => simp [Spec.raceFree2] at hrf
  | drain =>
    simp only [Spec.raceFree2, decide_eq_true_eq] at hrf
    rw [key 0 false ⟨rfl, rfl, rfl, Or.inl rfl, Or.inl rfl, n, rfl, fun _ => by simp [flowProg, consRoom]⟩]
    simp [Spec.flowStatuses, Spec.accept, hrf]
  | take k st =>
    simp only [Spec.raceFree2, Bool.or_eq_true, decide_eq_true_eq] at hrf
    rcases hrf with h1 | h1
    · rw [key st false ⟨rfl, rfl, rfl, Or.inl rfl, Or.inl rfl, n, rfl,
        fun _ => by simp [flowProg, consRoom]; omega⟩]
      simp [Spec.flowStatuses, Spec.accept, h1]
    · rw [key st true ⟨rfl, rfl, rfl, Or.inl rfl, Or.inl rfl, n, rfl,
        fun _ => by simp [flowProg, consRoom]; omega⟩]
      have : ¬ n ≤ k := by omega
      simp [Spec.flowStatuses, Spec.accept, this]
  | st s =>
    simp only [Spec.raceFree2, Bool.or_eq_true, decide_eq_true_eq] at hrf
    rcases hrf with h1 | h1
    · rw [key s false ⟨rfl, rfl, rfl, Or.inl rfl, Or.inl rfl, n, rfl,
        fun _ => by simp [flowProg, consRoom]; omega⟩]
      simp [Spec.flowStatuses, Spec.accept, h1]
    · rw [key s true ⟨rfl, rfl, rfl, Or.inl rfl, Or.inl rfl, n, rfl,
        fun _ => by simp [flowProg, consRoom]; omega⟩]
      have : ¬ n = 0 := by omega
      simp [Spec.flowStatuses, Spec.accept, this]

/-- ★ `flow2_driver_agrees`: what the driver computes for such a pipeline in the model column (a `prun` under the
    case's schedule digits with the extracted PIPE_SIZE / PIPE_BUF) is the spec column — or the marker 998 when
    its fuel did not suffice, which the comparison with the real run then shows. -/
theorem flow2_driver_agrees (digits : List Nat) (salt n : Nat) (cons : Spec.Flow)
    (hrf : Spec.raceFree2 PCfg.real.cap n cons = true) :
    flowStatuses true digits salt [.spew n, cons] = flowStatuses false digits salt [.spew n, cons] ∨
    flowStatuses true digits salt [.spew n, cons] = [998, 998] := by
  have e : [Spec.Flow.spew n, cons].map flowProg = [.spew n, flowProg cons] := rfl
  simp only [flowStatuses, if_true, Bool.false_eq_true, if_false, e]
  by_cases hd : (prun PCfg.real 4000 (mkChoices digits salt ++ mkChoices digits (salt + 7))
      (mkPipeline [.spew n, flowProg cons])).done = true
  · left
    rw [if_pos hd]
    exact flow2_statuses_exact PCfg.real n cons hrf (prun_steps _ _ _ _) hd
  · right
    rw [if_neg hd]
    rfl

/-- non-vacuity: the regime predicate on the fixed programs `fp w4096 s7`, `fp w1024 t1024.3`, `fp w2050 t1.5`,
    `fp w2049 d`; a racy one (1500 bytes, the reader takes 1000, the pipe holds 1024) is outside -/
example :
    Spec.raceFree2 PCfg.real.cap 4096 (.st 7) = true ∧ Spec.raceFree2 PCfg.real.cap 1024 (.take 1024 3) = true ∧
    Spec.raceFree2 PCfg.real.cap 2050 (.take 1 5) = true ∧ Spec.raceFree2 PCfg.real.cap 2049 .drain = true ∧
    Spec.raceFree2 PCfg.real.cap 1500 (.take 1000 0) = false := by
  decide

/-- ★ `flow3_statuses_exact`: the same for `spew n | cat | consumer` — two pipes and the read buffer of `cat`
    (`chunk` bytes) in between.  In the regime `Spec.raceFree3` (the consumer takes everything, or what it leaves
    exceeds `2·cap + chunk`), every complete run under every schedule ends with `Spec.flowStatuses`: all three
    succeed, or the consumer ends with its status and BOTH upstream stages end with 1 — `cat` cannot end with 0
    before the producer is gone, and the producer is only ever stopped by EPIPE, which needs `cat` gone first.
    Invariant `Flow3` (Flow3.lean): fail regime `left-to-write > (cap−c0) + (chunk−buf) + (cap−c1) + wanted` while
    `cat` lives and `> 0` afterwards, "producer gone ⇒ cat gone"; success regime `left + c0 + buf + c1 ≤ wanted`,
    "consumer gone ⇒ nothing anywhere", "cat gone ⇒ producer gone and first pipe empty". -/
theorem flow3_statuses_exact (c : PCfg) (n : Nat) (cons : Spec.Flow)
    (hrf : Spec.raceFree3 c.cap c.chunk n cons = true)
    {t : PSys} (ht : PSteps c (mkPipeline [.spew n, .cat 0, flowProg cons]) t) (hd : t.done = true) :
    t.statuses = Spec.flowStatuses 0 [.spew n, .cat, cons] := by
  have hmk : mkPipeline [.spew n, .cat 0, flowProg cons] =
      { stages := [⟨.spew n, none⟩, ⟨.cat 0, none⟩, ⟨flowProg cons, none⟩],
        pipes := [⟨0, [1], [0]⟩, ⟨0, [2], [1]⟩] } := rfl
  rw [hmk] at ht
  have key : ∀ (fin : Nat) (fail : Bool),
      Flow3Reg c fail n 0 0 0 none none none (consRoom (flowProg cons)) → consFin (flowProg cons) = some fin →
      t.statuses = [if fail then 1 else 0, if fail then 1 else 0, fin] := by
    intro fin fail hreg hfin
    have h : Flow3 c fin fail ⟨.spew n, none⟩ ⟨.cat 0, none⟩ ⟨flowProg cons, none⟩ ⟨0, [1], [0]⟩ ⟨0, [2], [1]⟩ :=
      ⟨rfl, rfl, rfl, rfl, hfin, Or.inl rfl, Or.inl rfl, Or.inl rfl, n, 0, rfl, rfl, hreg⟩
    obtain ⟨a, b, d, p0, p1, rfl, h'⟩ := flow3_reach h ht
    exact flow3_final h' hd
  cases cons with
  | spew m => simp [Spec.raceFree3] at hrf
  | cat => simp [Spec.raceFree3] at hrf
  | drain =>
    simp only [Spec.raceFree3, decide_eq_true_eq] at hrf
    rw [key 0 false (by simp [Flow3Reg, flowProg, consRoom]) rfl]
    simp [Spec.flowStatuses, Spec.accept, hrf]
  | take k st =>
    simp only [Spec.raceFree3, Bool.or_eq_true, decide_eq_true_eq] at hrf
    rcases hrf with h1 | h1
    · rw [key st false (by simp [Flow3Reg, flowProg, consRoom]; omega) rfl]
      simp [Spec.flowStatuses, Spec.accept, h1]
    · rw [key st true (by simp [Flow3Reg, flowProg, consRoom]; omega) rfl]
      have : ¬ n ≤ k := by omega
      simp [Spec.flowStatuses, Spec.accept, this]
  | st s =>
    simp only [Spec.raceFree3, Bool.or_eq_true, decide_eq_true_eq] at hrf
    rcases hrf with h1 | h1
    · rw [key s false (by simp [Flow3Reg, flowProg, consRoom]; omega) rfl]
      simp [Spec.flowStatuses, Spec.accept, h1]
    · rw [key s true (by simp [Flow3Reg, flowProg, consRoom]; omega) rfl]
      have : ¬ n = 0 := by omega
      simp [Spec.flowStatuses, Spec.accept, this]

/-- ★ `flow3_driver_agrees`: the driver's model column for such a statement is the spec column, or the marker 998
    when its fuel did not suffice. -/
theorem flow3_driver_agrees (digits : List Nat) (salt n : Nat) (cons : Spec.Flow)
    (hrf : Spec.raceFree3 PCfg.real.cap PCfg.real.chunk n cons = true) :
    flowStatuses true digits salt [.spew n, .cat, cons] = flowStatuses false digits salt [.spew n, .cat, cons] ∨
    flowStatuses true digits salt [.spew n, .cat, cons] = [998, 998, 998] := by
  have e : [Spec.Flow.spew n, .cat, cons].map flowProg = [.spew n, .cat 0, flowProg cons] := rfl
  simp only [flowStatuses, if_true, Bool.false_eq_true, if_false, e]
  by_cases hd : (prun PCfg.real 4000 (mkChoices digits salt ++ mkChoices digits (salt + 7))
      (mkPipeline [.spew n, .cat 0, flowProg cons])).done = true
  · left
    rw [if_pos hd]
    exact flow3_statuses_exact PCfg.real n cons hrf (prun_steps _ _ _ _) hd
  · right
    rw [if_neg hd]
    rfl

/-- non-vacuity: the fixed programs `fp w9000 c t100.2`, `fp w3000 c d`, `fp w6000 c s9`, `fp w512 c t512.0`; and a
    racy one outside the regime -/
example :
    Spec.raceFree3 PCfg.real.cap PCfg.real.chunk 9000 (.take 100 2) = true ∧
    Spec.raceFree3 PCfg.real.cap PCfg.real.chunk 3000 .drain = true ∧
    Spec.raceFree3 PCfg.real.cap PCfg.real.chunk 6000 (.st 9) = true ∧
    Spec.raceFree3 PCfg.real.cap PCfg.real.chunk 512 (.take 512 0) = true ∧
    Spec.raceFree3 PCfg.real.cap PCfg.real.chunk 3000 (.take 10 0) = false := by
  decide



/-- ★ Pipelines of ANY number of stages (any list of `spew`/`take`/`drain`/`cat`/`st` programs, any capacity, any
    payload), under EVERY schedule: in every reachable state a stage that has ended has ended with its OWN status (the
    one its program fixes: `take k st` and `st n` their argument, the others 0) — or it is a writer that is not the
    last stage and ended with 1 because a `write` failed with EPIPE, and then its reader, the next stage, had ended
    before it.  (There is no third way: a stage is never killed by SIGPIPE in the shell — the virtual system and the
    built-ins report EPIPE —, never blocks for good: `pipeline_no_deadlock`.) -/
theorem flow_stages_end_own_or_epipe (c : PCfg) (progs : List SProg) (hne : progs ≠ []) {s : PSys}
    (h : PSteps c (mkPipeline progs) s) :
    ∀ (i : Nat) (st : Stage) (p : SProg) (e : Nat), s.stages[i]? = some st → progs[i]? = some p → st.exit = some e →
      e = ownStatus p ∨ (e = 1 ∧ isWriter p = true ∧ i + 1 < progs.length ∧ s.alive (i + 1) = false) :=
  (flowInv_steps h (flowInv_init c progs hne)).ended

/-- ★ Hence the exit status of a pipeline of any length WITHOUT `pipefail` is the same under every schedule: once all
    stages have ended it is the own status of the last stage (whose standard output is not a pipe: it cannot get
    EPIPE) — `pipeStatus false` = `Spec.pipe false` of the statuses the run produced.  With `pipefail` the status is
    the rightmost non-zero of statuses each of which is the stage's own or 1 (a writer whose reader left first): exact
    in the race-free regimes (`flow2_statuses_exact`, `flow3_statuses_exact`), schedule-dependent outside them — which
    is the script's race, not the shell's. -/
theorem flow_pipeline_status_any_stages (c : PCfg) (progs : List SProg) (hne : progs ≠ []) {s : PSys}
    (h : PSteps c (mkPipeline progs) s) (hd : s.done = true) :
    pipeStatus false s.statuses = ownStatus (progs.getLast hne) ∧
    Spec.pipe false s.statuses = ownStatus (progs.getLast hne) ∧
    (∀ (i : Nat) (p : SProg), progs[i]? = some p →
      s.statuses[i]? = some (ownStatus p) ∨
      (s.statuses[i]? = some 1 ∧ isWriter p = true ∧ i + 1 < progs.length)) := by
  have hI := flowInv_steps h (flowInv_init c progs hne)
  have hlen := hI.len
  have hpos : 0 < progs.length := List.length_pos_iff.mpr hne
  have hall : ∀ (i : Nat) (st : Stage), s.stages[i]? = some st → ∃ e, st.exit = some e := by
    intro i st hst
    have := List.all_eq_true.mp hd st (List.mem_of_getElem? hst)
    cases he : st.exit with
    | none => simp [he] at this
    | some e => exact ⟨e, rfl⟩
  have hstat : ∀ (i : Nat) (st : Stage), s.stages[i]? = some st → s.statuses[i]? = some (st.exit.getD 999) := by
    intro i st hst; simp [PSys.statuses, hst]
  have hlast : s.statuses.getLast? = some (ownStatus (progs.getLast hne)) := by
    have hi : progs.length - 1 < s.stages.length := by omega
    have hst : s.stages[progs.length - 1]? = some s.stages[progs.length - 1] := List.getElem?_eq_getElem hi
    have hp : progs[progs.length - 1]? = some (progs.getLast hne) := by
      rw [List.getLast_eq_getElem]; exact List.getElem?_eq_getElem (by omega)
    obtain ⟨e, he⟩ := hall _ _ hst
    have := hI.ended _ _ _ e hst hp he
    rcases this with h1 | ⟨_, _, h3, _⟩
    · rw [List.getLast?_eq_getElem?]
      have hl : s.statuses.length = progs.length := by simp [PSys.statuses, hlen]
      rw [hl, hstat _ _ hst, he, h1]; rfl
    · omega
  have hspec : Spec.pipe false s.statuses = ownStatus (progs.getLast hne) := by
    simp [Spec.pipe, hlast]
  refine ⟨by rw [pipefail_rule]; exact hspec, hspec, ?_⟩
  intro i p hp
  have hi : i < s.stages.length := by
    have := lt_of_get hp; omega
  have hst : s.stages[i]? = some s.stages[i] := List.getElem?_eq_getElem hi
  obtain ⟨e, he⟩ := hall _ _ hst
  rcases hI.ended _ _ _ e hst hp he with h1 | ⟨h1, h2, h3, _⟩
  · left; rw [hstat _ _ hst, he, h1]; rfl
  · right; exact ⟨by rw [hstat _ _ hst, he, h1]; rfl, h2, h3⟩

/-- what the driver runs for `fp F F …`: whatever `prun` returns for the real constants, if all stages have ended the
    status without `pipefail` is the last stage's own (a four-stage pipeline no earlier theorem covers) -/
example :
    let progs : List SProg := [.idle 5, .spew 3000, .cat 0, .take 10 7]
    (prun PCfg.real 4000 [1, 0, 2, 1, 3, 0] (mkPipeline progs)).done = true ∧
    pipeStatus false (prun PCfg.real 4000 [1, 0, 2, 1, 3, 0] (mkPipeline progs)).statuses = 7 := by
  decide


/-- ★ `$!` is unchanged by every statement that starts no asynchronous list — foreground pipelines (plain, negated,
    flow, `fd`), subshells and command substitutions of every shape (their own `&` included: per subshell), `wait`
    with operands, without, with an invalid option, in a subshell, `kill`, `set -o/+o`, `trap` — in both columns:
    the list of pids of the asynchronous lists is the same afterwards, hence its last element, the value of `$!`. -/
theorem bang_unchanged_by_foreground (st : St) (s : Stmt) (hf : s.foreground = true) :
    (st.stmt s).pids = st.pids ∧ (st.stmt s).bangPid = st.bangPid := by
  have key : (st.stmt s).pids = st.pids := by
    cases s <;> simp only [Stmt.foreground] at hf <;> (try exact absurd hf (by decide)) <;> simp only [St.stmt]
    case pf => rfl
    case pipe neg ms =>
      have := pids_forkWait st (st.members ms)
      cases hp : pipeOutput ms <;> simp only [hp] <;> exact this
    case flow fs => exact pids_forkWait st _
    case fd => exact pids_subshell st _
    case wj ops => exact pids_waitOps st ops
    case monitor => rfl
    case kill sig k =>
      split
      · rfl
      · repeat' split
        all_goals first | rfl | exact pids_killJob _ _ _
    case ti => rfl
    case gj => rfl
    case gl => exact pids_subshell st _
    case wx => rfl
    case ku => rfl
    case tcx => rfl
    case w => exact pids_waitAllJobs st
    case wu => exact pids_waitOps st _
    case g n => exact pids_subshell st n
    case gg n => exact pids_subshell st _
    case gp ms =>
      have := pids_subshell st (pipeFold st.useSys st.pf (nestedWait st.useSys st.digits (st.runs + 2) (st.members ms)))
      cases hp : pipeOutput ms <;> simp only [hp] <;> exact this
    case gb n => exact pids_subshell st _
    case gw a b => exact pids_subshell st _
    case q n => exact pids_subshell st n
    case qe w n => exact pids_subshell st n
    case qq n => exact pids_subshell st _
    case qb n => exact pids_subshell st _
  exact ⟨key, by unfold St.bangPid; rw [key]⟩

/-- ★ … and an asynchronous list sets it to the process `wait $!` must wait for: after `St.newJob` (what `bg M…`,
    `bn`, `ts`, … call) the value of `$!` is the pid recorded for the new job — in the model column the index of the
    child just forked (for `a | b &`, `{ …; } &`, `( … ) &` alike: ONE child of the shell, which runs the list) —,
    that pid is in the job table, and all earlier pids are still there in order. -/
theorem bang_after_async (st : St) (v kind : Nat) :
    let st' := st.newJob v kind
    st'.pids = st.pids ++ [if st.useSys then st.sys.children.length else st.nasync + 1] ∧
    st'.bangPid = some (if st.useSys then st.sys.children.length else st.nasync + 1) ∧
    (if st.useSys then st.sys.children.length else st.nasync + 1) ∈ st'.active := by
  intro st'
  have h1 : st'.pids = st.pids ++ [if st.useSys then st.sys.children.length else st.nasync + 1] := by
    show (st.newJob v kind).pids = _
    unfold St.newJob St.pids
    cases hu : st.useSys <;> simp [St.fork]
  refine ⟨h1, by unfold St.bangPid; rw [h1]; simp, ?_⟩
  show _ ∈ (st.newJob v kind).active
  unfold St.newJob
  cases hu : st.useSys <;> simp [St.fork]

example : (Stmt.pipe false [.st 1, .st 2]).foreground = true ∧ (Stmt.gb 3).foreground = true ∧
    (Stmt.bg [.st 1]).foreground = false := by decide


section WaitTrap
open YashModel.Generated.ProcConsts (SIGNAL_EXIT_OFFSET EXIT_SUCCESS)

/-! ## Wave 3: `wait` interrupted by a trapped signal (`WaitTrap.lean`) -/

/-- The invariant of the `wait`-for-one-job system (the `Inv` of the parent/children system on its `sys` part, every
    pending signal has a trap action, `out` is set exactly when the built-in has ended, a `finished` result is the
    job's logged state, a `trapped` result names a signal with a trap action) holds when the built-in starts between
    two commands of any shell state satisfying `Inv`, and is preserved by every step of the shell, of a child and
    of a sender. -/
theorem wait_trap_inv_inductive :
    (∀ s j traps senders, Inv s → s.pc = .done → TInv (TSys.start s j traps senders)) ∧
    (∀ t l t', TInv t → tstep t l = some t' → TInv t') :=
  ⟨fun _ j traps senders h hpc => tinv_start h hpc j traps senders, fun _ l _ h hs => tinv_step l h hs⟩

/-- ★ The trap wins (XCU 2.12: "the reception of a signal for which a trap has been set shall cause the wait
    utility to return immediately with an exit status >128").  Whenever the shell is blocked in
    `wait_for_signals` and a signal with a trap action is pending (`σ` = the first such in delivery order):
    (1) the shell can move at once and that step ends the built-in with `Trapped(σ)`;
    (2) WHATEVER happens before the shell is scheduled — children running on, the awaited job exiting (SIGCHLD
    becoming pending too), further signals arriving, in any number and order — every run that ends the built-in
    ends it with `Trapped(σ)`, without any child's state having been handed out (the job is still waitable), and
    `σ` has a trap action.  (A `wait_for_any_job_or_trap` that looks at SIGCHLD first breaks (1) and (2).) -/
theorem trap_interrupts_wait {t : TSys} {σ : Nat} (hout : t.out = none) (hpc : t.sys.pc = .await)
    (hσ : firstTrapped t.traps t.sigPending = some σ) :
    (∃ t', tstep t .parent = some t' ∧ t'.out = some (.trapped σ)) ∧
    (∀ u o, TSteps t u → u.out = some o → o = .trapped σ ∧ u.sys.log = t.sys.log ∧ σ ∈ t.traps) := by
  have harm : Armed t σ t.sys.log ∨ Fired t σ t.sys.log := Or.inl ⟨hout, hpc, hσ, rfl⟩
  constructor
  · have hne : t.sigPending.isEmpty = false := by
      have := (firstTrapped_mem hσ).2
      cases hsp : t.sigPending with
      | nil => simp [hsp] at this
      | cons a b => rfl
    refine ⟨_, by simp only [tstep, tparentStep, hout, hpc, hne, hσ]; simp; rfl, rfl⟩
  · intro u o hsteps ho
    rcases armed_steps hsteps harm with ⟨h1, _⟩ | ⟨h1, h2⟩
    · rw [h1] at ho; simp at ho
    · rw [h1] at ho; simp at ho
      exact ⟨ho.symm, h2, (firstTrapped_mem hσ).1⟩

example :
    let t : TSys := { sys := { children := [{ state := .halted (.exited 3), changed := true }], disp := .catch,
                               pending := true, pc := .await },
                      job := 0, traps := [6], sigPending := [6] }
    t.out = none ∧ t.sys.pc = .await ∧ firstTrapped t.traps t.sigPending = some 6 ∧
      ((tstep t .parent).map (·.out)) = some (some (.trapped 6)) := by
  decide

/-- ★ Progress of the built-in under every schedule: every step of the shell, of a child, of a sender strictly
    decreases `tmeasure` (no infinite run, no fairness assumption), and in every invariant state in which the
    built-in has not ended some process can move (no deadlock: a blocked shell has a live child that can step or
    send, or something pending that wakes it).  Hence every maximal run ends the built-in. -/
theorem wait_trap_progress :
    (∀ t l t', tstep t l = some t' → tmeasure t' < tmeasure t) ∧
    (∀ t, TInv t → t.out = none → ∃ l t', tstep t l = some t') :=
  ⟨fun _ l _ hs => tmeasure_step l hs, fun _ h ho => tnot_stuck h ho⟩

/-- ★ What the built-in reports is true, under every schedule: started between two commands of a shell state
    satisfying `Inv`, in every reachable state — `finished i r`: `i` is the awaited job, `r` is the final state the
    child really ended with, handed out by `wait` exactly once (the child is reaped); `trapped σ`: `σ` has a trap
    action; and as long as the built-in runs the awaited job has no recorded final state. -/
theorem wait_trap_result_sound {s : Sys} {j : Nat} {traps : List Nat} {senders : List (Nat × Nat)} {u : TSys}
    (h : Inv s) (hpc : s.pc = .done) (hu : TSteps (TSys.start s j traps senders) u) :
    (∀ i r, u.out = some (.finished i r) →
        i = j ∧ (∃ c, u.sys.children[i]? = some c ∧ c.state = .halted r) ∧ logCount u.sys.log i = 1 ∧
        reaped u.sys.children i = true) ∧
    (∀ σ, u.out = some (.trapped σ) → σ ∈ traps) ∧
    (u.out = none → jobDone u.sys.log j = none) := by
  have hT := tinv_steps hu (tinv_start h hpc j traps senders)
  have h0 : (TSys.start s j traps senders).job = j ∧ (TSys.start s j traps senders).traps = traps := by
    unfold TSys.start; split <;> exact ⟨rfl, rfl⟩
  have h1 : (TSys.start s j traps senders).single = false := by
    unfold TSys.start; split <;> rfl
  obtain ⟨hj, htr, hsg⟩ := tsteps_frame hu
  rw [h0.1] at hj; rw [h0.2] at htr; rw [h1] at hsg
  refine ⟨?_, ?_, ?_⟩
  · intro i r ho
    obtain ⟨h1, h2⟩ := hT.fin_ok i r ho
    obtain ⟨c, hc, hst⟩ := hT.inv.logged i r h2
    have hcount := hT.inv.once i
    have hpos : 0 < logCount u.sys.log i := by
      unfold logCount
      exact List.countP_pos_iff.mpr ⟨(i, r), h2, by simp⟩
    have hre : reaped u.sys.children i = true := by
      by_cases hr : reaped u.sys.children i = true
      · exact hr
      · simp [hr] at hcount; omega
    refine ⟨h1.trans hj, ⟨c, hc, hst⟩, by simpa [hre] using hcount, hre⟩
  · intro σ ho; rw [← htr]; exact hT.trap_ok σ ho
  · intro ho; rw [← hj]; exact hT.job_open ho hsg

/-- ★ No result depends on which process runs first: the awaited job sends the trapped signal `σ` to the shell
    and then exits (`trap … SIG; ( kill -s SIG $$; …; exit N ) & wait $!`).  From the state in which the shell is
    blocked in `wait` for that job, the job being the only live child and still having to send, EVERY run — the
    job's exit and its SIGCHLD may come before or after the shell is scheduled again — that ends the built-in ends
    it with `Trapped(σ)` and hands out no child's state: the exit status of `wait` is `Spec.waitInterrupted σ` under
    every schedule, and the job is still there for the next `wait`.  (With "SIGCHLD first" the same runs give the
    job's status or `Trapped(σ)` depending on the schedule.) -/
theorem sole_job_signal_then_exit_is_trapped {t u : TSys} {σ : Nat} {o : TrapOut} (h : Sole t σ)
    (hu : TSteps t u) (ho : u.out = some o) :
    o = .trapped σ ∧ u.sys.log = t.sys.log ∧ σ + SIGNAL_EXIT_OFFSET = Spec.waitInterrupted σ ∧
      128 < Spec.waitInterrupted σ := by
  have hs : σ + SIGNAL_EXIT_OFFSET = Spec.waitInterrupted σ ∧ 128 < Spec.waitInterrupted σ := by
    simp only [Spec.waitInterrupted, SIGNAL_EXIT_OFFSET]; omega
  rcases sole_steps hu h with ⟨h1, _⟩ | ⟨h1, _⟩ | ⟨h1, h2⟩
  · rw [h1.out] at ho; simp at ho
  · rw [h1] at ho; simp at ho
  · rw [h1] at ho; simp at ho
    exact ⟨ho.symm, h2, hs⟩

/-- the driver's start state for `ts USR1 3` after the shell's first burst is such a state, and its run ends
    `Trapped` for the choices tried (non-vacuity of `Sole`; the hypothesis is decidable per state) -/
example :
    let t := parentTurn (TSys.start { children := [{ state := .running 2 (.exited 3) }] } 0 [6] [(0, 6)])
    t.out = none ∧ t.sys.pc = .await ∧ t.sys.pending = false ∧ t.sigPending = [] ∧ t.senders = [(0, 6)] ∧
      (trun 100 [0, 1, 0, 2, 1] t).out = some (.trapped 6) ∧ (trun 100 [1, 1, 1, 1, 1, 1] t).out = some (.trapped 6) := by
  decide

/-- ★ What the driver computes for a `ts` statement: the executable block scheduler `trun` (a turn of the shell =
    `parentTurn`, as `run_virtual` lets a process run until its `select` would block) only takes steps of the
    system — so `wait_trap_result_sound` and `trap_interrupts_wait` hold of its result — and from a `Sole` state
    its result, if the built-in has ended, is `Trapped(σ)` for every fuel and every choice list. -/
theorem ts_driver_trapped (fuel : Nat) (choices : List Nat) {t : TSys} {σ : Nat} (h : Sole t σ) :
    TSteps t (trun fuel choices t) ∧
    (∀ o, (trun fuel choices t).out = some o → o = .trapped σ ∧ (trun fuel choices t).sys.log = t.sys.log) := by
  refine ⟨trun_tsteps fuel choices t, fun o ho => ?_⟩
  have := sole_job_signal_then_exit_is_trapped h (trun_tsteps fuel choices t) ho
  exact ⟨this.1, this.2.1⟩


/-- ★ The same with ANY other children around (jobs still running, exiting, unreported), under the scheduling
    the executor really does — a turn of the shell runs until the shell blocks (`Concurrent::run_virtual`;
    `BSteps`).  From a state in which the shell is blocked in `wait` for job `j`, `j` alive, unreported, not
    recorded as finished and still to send the trapped signal `σ` (every sender sends `σ`): every run that ends the
    built-in ends it with `Trapped(σ)`, and the job is not recorded as finished — the next `wait` for it yields its
    status, not 127.  SIGCHLDs of other children wake the shell any number of times in between (it records them
    and blocks again: `waiting_burst`); the job's own SIGCHLD can only come after its signal.  At the granularity
    of single steps (`TSteps`) this is false with other children — a signal arriving between a wake-up and the next
    `wait()` loses to the job's exit —, which is why the script is race-free only where the shell cannot be
    pre-empted between the two. -/
theorem signal_then_exit_is_trapped_under_executor {t u : TSys} {σ : Nat} {o : TrapOut}
    (h : Waiting t σ) (hpc : t.sys.pc = .await) (hu : BSteps t u) (ho : u.out = some o) :
    o = .trapped σ ∧ jobDone u.sys.log t.job = none := by
  obtain ⟨_, hr⟩ := race_bsteps hu (⟨rfl, Or.inl ⟨h, hpc⟩⟩ : Race t.job σ t)
  rcases hr with ⟨hw, _⟩ | ⟨log0, hopen, ⟨h1, _⟩ | ⟨h1, h2⟩⟩
  · rw [hw.out] at ho; simp at ho
  · rw [h1] at ho; simp at ho
  · rw [h1] at ho; simp at ho
    exact ⟨ho.symm, by rw [h2]; exact hopen⟩

/-- ★ End to end for the driver's `ts` / `tw` statements: from ANY shell state satisfying `Inv` (any children in any
    state), fork a child (any number of internal steps `f`, any exit status `n`) that sends the trapped signal `σ`
    before it exits, start `wait` for it and let the shell run until it blocks (`St.newJob`, `TSys.start`,
    `parentTurn`): the shell IS then blocked waiting (`Waiting`), and whatever the driver's scheduler `trun` returns
    for any fuel and any choice list, if the built-in has ended it has ended `Trapped(σ)` with the job still
    waitable. -/
theorem ts_driver_trapped_any_children {s : Sys} (hI : Inv s) (f n σ fuel : Nat) (choices : List Nat)
    (hσ : σ ≠ SIGCHLD_NO) :
    let s' : Sys := { s with children := s.children ++ [{ state := .running f (.exited n) }] }
    let t := parentTurn (TSys.start s' s.children.length [σ] [(s.children.length, σ)])
    (Waiting t σ ∧ t.sys.pc = .await) ∧
    ∀ o, (trun fuel choices t).out = some o →
      o = .trapped σ ∧ jobDone (trun fuel choices t).sys.log s.children.length = none := by
  intro s' t
  obtain ⟨hw, hpc, hj⟩ := start_waiting hI f n σ hσ
  refine ⟨⟨hw, hpc⟩, fun o ho => ?_⟩
  have := signal_then_exit_is_trapped_under_executor hw hpc (trun_bsteps fuel choices _) ho
  rw [hj] at this
  exact this

/-- other children alive and unreported, the job's exit overtaking the shell: still `Trapped`, job not logged -/
example :
    let s : Sys := { children := [{ state := .running 1 (.exited 5) }, { state := .halted (.exited 2), changed := true }],
                     disp := .catch, pending := true }
    let t := parentTurn (TSys.start { s with children := s.children ++ [{ state := .running 1 (.exited 3) }] } 2 [6] [(2, 6)])
    t.sys.pc = .await ∧ t.out = none ∧
      (trun 100 [1, 1, 1, 1, 1, 1, 1] t).out = some (.trapped 6) ∧
      (trun 100 [3, 2, 1, 0, 2, 1] t).out = some (.trapped 6) ∧
      jobDone (trun 100 [1, 1, 1, 1, 1, 1, 1] t).sys.log 2 = none := by
  decide


/-- No caught signal is lost at a wake-up: every signal delivered by the `select` of `wait_for_signals` either is the
    one whose trap action the built-in runs (`Trapped`), or is remembered in the `TrapSet` (`catch_signal`: its trap
    action runs after the built-in) — together with everything remembered before; and nothing stays pending. -/
theorem caught_signals_not_lost {t t' : TSys} (hpc : t.sys.pc = .await) (hs : tparentStep t = some t') :
    t'.sigPending = [] ∧ t'.sys.pending = false ∧
    (∀ σ, σ ∈ t.flags ++ t.sigPending → σ ∈ t'.flags ∨ t'.out = some (.trapped σ)) := by
  unfold tparentStep at hs
  split at hs
  · simp at hs
  · simp only [hpc] at hs
    split at hs
    · split at hs
      · rename_i σ0 _
        simp only [Option.some.injEq] at hs; subst hs
        refine ⟨rfl, rfl, fun σ hσ => ?_⟩
        by_cases e : σ = σ0
        · right; simp [e]
        · left; exact (List.mem_erase_of_ne e).mpr hσ
      · simp only [Option.some.injEq] at hs; subst hs
        exact ⟨rfl, rfl, fun σ hσ => Or.inl hσ⟩
    · simp at hs


example :
    let t : TSys := { sys := { children := [{ state := .running 1 (.exited 0) }], disp := .catch, pc := .await },
                      job := 0, traps := [6, 5], sigPending := [5, 6], flags := [2] }
    (tparentStep t).map (fun u => (u.out, u.flags)) = some (some (.trapped 5), [2, 6]) := by
  decide

/-- ★ Connection of the two models: while no trapped signal is pending, every step of the shell inside the `wait`
    built-in of `WaitTrap.lean` IS a step of the request `wait(-1)` of `Model.lean` (`parentStep` with target
    `any`, the system every theorem above and the `WaitOps` layer are about): same children, flags, log,
    disposition, pending SIGCHLD; same program counter, except that after handing out the state of a child that
    is not the awaited job the built-in goes straight into the next `wait_for_any_job_or_trap` (`enable`) where
    the request ends (`done`) — `awaitJobRun` issues the next request there.  (The single call of a bare `wait` ends
    exactly where the request ends.) -/
theorem wait_trap_refines_wait_any {t t' : TSys} (h : TInv t) (hq : t.sigPending = [])
    (hs : tparentStep t = some t') :
    ∃ s', parentStep t.sys = some s' ∧ s'.children = t'.sys.children ∧ s'.log = t'.sys.log ∧
      s'.disp = t'.sys.disp ∧ s'.pending = t'.sys.pending ∧
      (s'.pc = t'.sys.pc ∨ (s'.pc = .done ∧ t'.sys.pc = .enable ∧ t'.out = none)) := by
  have hI := h.inv
  unfold tparentStep at hs
  split at hs
  · simp at hs
  · rename_i hout0
    split at hs
    · rename_i hpc
      simp only [Option.some.injEq] at hs; subst hs
      exact ⟨_, by simp only [parentStep, hpc], rfl, rfl, rfl, rfl, Or.inl rfl⟩
    · rename_i hpc
      split at hs
      · rename_i i st hw
        obtain ⟨c, hc, hch, hst, _⟩ := sysWait_state hw
        have hdead := hI.changed_halted i c hc hch
        obtain ⟨r0, hr0⟩ : ∃ r0, st = .halted r0 := by
          rw [← hst]
          cases hcs : c.state with
          | running f r => simp [hcs, PState.isAlive] at hdead
          | halted r => exact ⟨r, rfl⟩
        subst hr0
        split at hs
        · simp only [Option.some.injEq] at hs; subst hs
          exact ⟨{ t.sys with children := take t.sys.children i, log := (i, r0) :: t.sys.log,
                              results := .got i r0 :: t.sys.results, pc := .done },
            by simp only [parentStep, hpc, h.target, hw], rfl, by simp [logOf], rfl, rfl, Or.inl rfl⟩
        · split at hs
          · simp only [Option.some.injEq] at hs; subst hs
            exact ⟨{ t.sys with children := take t.sys.children i, log := (i, r0) :: t.sys.log,
                                results := .got i r0 :: t.sys.results, pc := .done },
              by simp only [parentStep, hpc, h.target, hw], rfl, by simp [logOf], rfl, rfl, Or.inl rfl⟩
          · simp only [Option.some.injEq] at hs; subst hs
            exact ⟨{ t.sys with children := take t.sys.children i, log := (i, r0) :: t.sys.log,
                                results := .got i r0 :: t.sys.results, pc := .done },
              by simp only [parentStep, hpc, h.target, hw], rfl, by simp [logOf], rfl, rfl,
              Or.inr ⟨rfl, rfl, hout0⟩⟩
      · rename_i hw
        simp only [Option.some.injEq] at hs; subst hs
        exact ⟨_, by simp only [parentStep, hpc, h.target, hw], rfl, rfl, rfl, rfl, Or.inl rfl⟩
      · rename_i hw
        simp only [Option.some.injEq] at hs; subst hs
        exact ⟨{ t.sys with results := .echild :: t.sys.results, pc := .done },
          by simp only [parentStep, hpc, h.target, hw], rfl, rfl, rfl, rfl, Or.inl rfl⟩
    · rename_i hpc
      split at hs
      · rename_i hcond
        simp only [hq, firstTrapped, List.find?_nil, Option.some.injEq] at hs; subst hs
        have hp : t.sys.pending = true := by simpa [hq] using hcond
        exact ⟨_, by simp only [parentStep, hpc, hp, if_true], rfl, rfl, rfl, rfl, Or.inl rfl⟩
      · simp at hs
    · simp at hs



/-- The trap action's body (`Command::execute` of `wait`: `with_exit_status_and_divert(ExitStatus::from(signal), divert)`):
    whatever the action does — ends normally with any status, looks at `$?`, `return`s — the exit status of the
    interrupted `wait` is that of the SIGNAL (384 + σ = `Spec.waitInterrupted`); the action sees in `$?` the value from
    before the trap; a `return r` in the action makes the function around `wait` return `r`.  (`tsr`, `tsq`, `tsf` run
    this against the real shell.) -/
theorem trap_action_result (σ q r : Nat) (act : TrapAct) :
    (trappedResult SIGNAL_EXIT_OFFSET σ act).1 = Spec.waitInterrupted σ ∧
    statusAfter (trappedResult SIGNAL_EXIT_OFFSET σ .plain) = Spec.waitInterrupted σ ∧
    statusAfter (trappedResult SIGNAL_EXIT_OFFSET σ (.probe q)) = Spec.waitInterrupted σ ∧
    statusAfter (trappedResult SIGNAL_EXIT_OFFSET σ (.ret r)) = r ∧
    act.entryStatus q = q := by
  refine ⟨?_, ?_, ?_, rfl, rfl⟩ <;>
    simp only [trappedResult, statusAfter, TrapAct.divert, Spec.waitInterrupted, SIGNAL_EXIT_OFFSET, Option.getD] <;> omega

/-- The shape of `wait_for_any_job_or_trap` that `tparentStep` transcribes, re-extracted from
    yash-builtin/src/wait/core.rs on every run (`tools/tables/proc.py` → `Generated/WaitCore.lean`; a statement the
    extractor cannot classify — a `continue`, a test of another signal — is a loud failure there): the SIGCHLD
    handler is installed before the loop (`Pc.enable` precedes `Pc.poll`), the loop polls `wait(Pid::ALL)`
    (`sysWait … .any`), the `Ok(None)` arm waits for signals, then (interactive shells only, not modelled) the
    defaulted-SIGINT test, then runs the trap of the first caught signal that has one and returns `Trapped`
    (`Pc.await`: `firstTrapped`), else polls again; `Ok(Some)` records the state and returns; ECHILD is
    `NothingToWait`.  A reordering of these statements changes the table and breaks this theorem. -/
theorem wait_core_as_modelled :
    YashModel.Generated.WaitCore.enableBeforeLoop = true ∧
    YashModel.Generated.WaitCore.waitTarget = "ALL" ∧
    YashModel.Generated.WaitCore.okNoneArm =
      ["wait_for_signals", "sigint_default_interrupt", "run_first_trap_return"] ∧
    YashModel.Generated.WaitCore.okSomeArm = ["update_status", "return_ok"] ∧
    YashModel.Generated.WaitCore.echildArm = ["nothing_to_wait"] ∧
    YashModel.Generated.WaitCore.otherErrArm = ["system_error"] := by
  decide


/-- exit status of the whole built-in: the last operand's status; `ExitStatus::from(signal)` = signal + 0x180
    (384 + n, not 128 + n) when a trap interrupted it -/
def OpsOut.status : OpsOut → Nat
  | .done sts => sts.getLast?.getD EXIT_SUCCESS
  | .trapped σ _ => σ + SIGNAL_EXIT_OFFSET
  | .failed _ => 998

/-- ★ `wait o1 … on` while trapped signals arrive — what `Command::await_jobs` guarantees for EVERY operand list,
    every job table and every scheduler (`run`: any function that takes a started operand some number of steps of
    the system).  If it ends `Trapped(σ)`: σ has a trap action; the exit status is 384 + σ (`ExitStatus::from`, > 128
    as XCU 2.12 demands, = `Spec.waitInterrupted`); the operands before the interrupted one — and only those — have
    been dealt with (`sts` has one status per such operand, the job table is the one those operands leave:
    `eraseOps jobs pre`); the interrupted operand's job is STILL IN THE TABLE and no later operand has been looked at
    (`rest`), so every job not named before stays waitable; the state satisfies the invariant (whatever is recorded
    is a true final status, `Inv.logged`).  If it ends `Ok`: one status per operand, table = `eraseOps jobs ops`. -/
theorem wait_operands_trapped_sound (run : TSys → TSys) (hrun : ∀ x, TSteps x (run x)) (jobs : List Nat)
    (t : TSys) (ops : List (Option Nat)) (h : TInv t) :
    let res := tawaitJobs run jobs t ops
    TInv res.2.1 ∧ res.2.1.traps = t.traps ∧
    (∀ sts, res.2.2 = .done sts → sts.length = ops.length ∧ res.1 = eraseOps jobs ops) ∧
    (∀ σ sts, res.2.2 = .trapped σ sts →
      σ ∈ t.traps ∧ res.2.2.status = Spec.waitInterrupted σ ∧ 128 < res.2.2.status ∧
      ∃ pre i rest, ops = pre ++ some i :: rest ∧ sts.length = pre.length ∧ res.1 = eraseOps jobs pre ∧ i ∈ res.1 ∧
        (∀ j, j ∈ res.1 → j ∈ jobs)) := by
  intro res
  have hs := tawaitJobs_sound run hrun jobs t ops h
  refine ⟨hs.inv, hs.traps_eq, hs.done_, ?_⟩
  intro σ sts hres
  obtain ⟨h1, pre, i, rest, h2, h3, h4, h5⟩ := hs.trapped_ σ sts hres
  refine ⟨h1, ?_, ?_, pre, i, rest, h2, h3, h4, h5, ?_⟩
  · show res.2.2.status = _
    rw [hres]; simp only [OpsOut.status, Spec.waitInterrupted, SIGNAL_EXIT_OFFSET]; omega
  · show 128 < res.2.2.status
    rw [hres]; simp only [OpsOut.status, SIGNAL_EXIT_OFFSET]; omega
  · intro j hj
    have : j ∈ eraseOps jobs pre := by rw [← h4]; exact hj
    exact eraseOps_sub this

/-- ★ A trapped signal caught while the shell is blocked ends the WHOLE built-in, whatever operand it is waiting for
    and whatever follows: if on the way of the operand's run (`v`) the shell is blocked with a signal that has a trap
    action pending, then — provided the run ends at all — the outcome is `Trapped(σ)` with nothing awaited from this
    operand on: the job table is untouched, later operands are not waited for. -/
theorem armed_operand_ends_builtin (run : TSys → TSys) (jobs : List Nat) (t : TSys) (i : Nat)
    (ops : List (Option Nat)) (hi : i ∈ jobs) {v : TSys} {σ : Nat} {log0 : List (Nat × Result)}
    (hv : TSteps v (run (t.next i))) (ha : Armed v σ log0) (hend : (run (t.next i)).out ≠ none) :
    tawaitJobs run jobs t (some i :: ops) = (jobs, run (t.next i), .trapped σ []) ∧
      (run (t.next i)).sys.log = log0 := by
  rcases armed_steps hv (Or.inl ha) with ⟨h1, _⟩ | ⟨h1, h2⟩
  · exact absurd h1 hend
  · refine ⟨?_, h2⟩
    simp [tawaitJobs, hi, h1]

/-- ★ `wait $! o2 … on` where `$!` is a job that sends the trapped signal before it exits (the `tso` statements),
    under the executor's scheduling, with any other children and any further operands: `Trapped(σ)`, job table
    untouched, the job not recorded as finished. -/
theorem signalling_first_operand_ends_builtin (run : TSys → TSys) (hrun : ∀ x, BSteps (parentTurn x) (run x))
    (jobs : List Nat) (t : TSys) (pid : Nat) (rest : List (Option Nat)) (hi : pid ∈ jobs) {σ : Nat}
    (hw : Waiting (parentTurn (t.next pid)) σ) (hpc : (parentTurn (t.next pid)).sys.pc = .await)
    (hend : (run (t.next pid)).out ≠ none) :
    tawaitJobs run jobs t (some pid :: rest) = (jobs, run (t.next pid), .trapped σ []) ∧
      jobDone (run (t.next pid)).sys.log (parentTurn (t.next pid)).job = none := by
  cases ho : (run (t.next pid)).out with
  | none => exact absurd ho hend
  | some o =>
    obtain ⟨h1, h2⟩ := signal_then_exit_is_trapped_under_executor hw hpc (hrun _) ho
    subst h1
    refine ⟨?_, h2⟩
    simp [tawaitJobs, hi, ho]

/-- ★ `wait` without operands while trapped signals arrive (`wait_while_running(any_job_is_running)`), for every job
    table, every bound on the iterations and every scheduler: `Ok` ⇒ exit status 0 and an empty table; `Trapped(σ)`
    ⇒ σ has a trap action, exit status 384 + σ, the table is not empty, and NO JOB IS FORGOTTEN: every job of the
    original table is still in the table, or its final state has been recorded (this `wait` has consumed it, as a
    `wait` without operands does); nothing is in the table that was not there; recorded states are true ones
    (`TInv`). -/
theorem wait_all_trapped_sound (run : TSys → TSys) (hrun : ∀ x, TSteps x (run x)) (k : Nat) (jobs : List Nat)
    (t : TSys) (h : TInv t) :
    let res := tawaitAll run k jobs t
    TInv res.2.1 ∧ (∀ j, j ∈ res.1 → j ∈ jobs) ∧
    (∀ j, j ∈ jobs → j ∈ res.1 ∨ (jobDone res.2.1.sys.log j).isSome = true) ∧
    (∀ sts, res.2.2 = .done sts → res.2.2.status = EXIT_SUCCESS ∧ res.1 = []) ∧
    (∀ σ sts, res.2.2 = .trapped σ sts →
      σ ∈ t.traps ∧ res.2.2.status = Spec.waitInterrupted σ ∧ sts = [] ∧ res.1 ≠ []) := by
  intro res
  have hs := tawaitAll_sound run hrun k jobs t h
  refine ⟨hs.inv, hs.sub, hs.kept, ?_, ?_⟩
  · intro sts hres
    obtain ⟨h1, h2⟩ := hs.done_ sts hres
    refine ⟨?_, h2⟩
    show res.2.2.status = _
    rw [hres, h1]; rfl
  · intro σ sts hres
    obtain ⟨h1, h2, h3⟩ := hs.trapped_ σ sts hres
    refine ⟨h1, ?_, h2, h3⟩
    show res.2.2.status = _
    rw [hres]; simp only [OpsOut.status, Spec.waitInterrupted, SIGNAL_EXIT_OFFSET]; omega

/-- ★ A trap on SIGCHLD itself (`trap … CHLD; cmd & wait $!`): the shell blocked in `wait` for its only live child,
    SIGCHLD having a trap action.  Under every schedule the child's exit interrupts the built-in: `Trapped(SIGCHLD)`
    (exit status 384 + SIGCHLD), and the child's state has NOT been handed out — the job is still there for the next
    `wait`, which yields its status.  (XCU 2.12 makes no exception for SIGCHLD.) -/
theorem chld_trap_interrupts_wait {t u : TSys} {o : TrapOut} (h : SoleChld t) (hu : TSteps t u)
    (ho : u.out = some o) : o = .trapped SIGCHLD_NO ∧ u.sys.log = t.sys.log := by
  rcases sole_chld_steps hu h with ⟨h1, _⟩ | ⟨h1, _⟩ | ⟨h1, h2⟩
  · rw [h1.out] at ho; simp at ho
  · rw [h1] at ho; simp at ho
  · rw [h1] at ho; simp at ho
    exact ⟨ho.symm, h2⟩

example :
    let t := parentTurn (TSys.start { children := [{ state := .running 1 (.exited 3) }] } 0 [SIGCHLD_NO] [])
    t.sys.pc = .await ∧ t.out = none ∧ t.sys.disp = .catch ∧
      (trun 100 [0, 0, 0, 0] t).out = some (.trapped SIGCHLD_NO) ∧ (trun 100 [0, 0, 0, 0] t).sys.log = [] := by
  decide

/-- two operands, the first job finishes, the second sends a trapped signal: `Trapped` after one status; and a bare
    `wait` interrupted with one job recorded and one still in the table -/
example :
    let s : Sys := { children := [{ state := .running 0 (.exited 5) }, { state := .running 1 (.exited 3) }] }
    let t0 : TSys := { sys := s, job := 0, traps := [6], senders := [(1, 6)], out := some .nothing }
    let run := fun x => trun 200 [0, 1, 2, 0, 1] (parentTurn x)
    (tawaitJobs run [0, 1] t0 [some 0, none, some 1, some 0]).2.2 = .trapped 6 [5, 127] ∧
    (tawaitJobs run [0, 1] t0 [some 0, none, some 1, some 0]).1 = [1] ∧
    (tawaitAll run 10 [0, 1] t0).2.2 = .trapped 6 [] ∧ (tawaitAll run 10 [0, 1] t0).1 = [1] := by
  decide

/-- ★ Sys-level glue: what the driver runs for `ts SIG N` once the job is forked — `Command::await_jobs` over the one
    operand `$!` (`trapWaitRun` = `tawaitJobs` with the driver's scheduler) from ANY `Inv` state, the new child at the end
    of the process table being in the job table: the outcome is `Trapped(σ)` with no operand finished, the job table
    untouched, the shell between two commands, the job not recorded as finished — or the driver's fuel ran out; the
    resulting state satisfies `TInv` either way. -/
theorem trapWaitRun_trapped {s0 : Sys} (hI : Inv s0) (digits : List Nat) (runs f n σ : Nat) (active : List Nat)
    (hσ : σ ≠ SIGCHLD_NO) (hmem : s0.children.length ∈ active) :
    let res := trapWaitRun digits runs { s0 with children := s0.children ++ [{ state := .running f (.exited n) }] }
      active s0.children.length σ
    TInv res.2.1 ∧
    ((res.2.2 = .trapped σ [] ∧ res.1 = active ∧ res.2.1.sys.pc = .done ∧
        jobDone res.2.1.sys.log s0.children.length = none) ∨ res.2.2 = .failed []) := by
  intro res
  have key := ts_driver_trapped_any_children hI f n σ 100000 (mkChoices digits runs) hσ
  simp only at key
  obtain ⟨_, hout⟩ := key
  have hI1 := inv_fork hI f (.exited n)
  have hstart := tinv_start (s := { s0 with children := s0.children ++ [{ state := .running f (.exited n) }], pc := .done })
    ⟨hI1.changed_halted, by intro h'; simp at h', by intro h'; simp at h', by intro h'; simp at h', hI1.once,
      hI1.logged⟩ rfl s0.children.length [σ] [(s0.children.length, σ)]
  have hstart' : TInv (TSys.start { s0 with children := s0.children ++ [{ state := .running f (.exited n) }] }
      s0.children.length [σ] [(s0.children.length, σ)]) := by
    unfold TSys.start at hstart ⊢
    split <;> rename_i hjd
    · simp only [hjd] at hstart; exact hstart
    · simp only [hjd] at hstart; exact hstart
  have hrunI : TInv (trun 100000 (mkChoices digits runs) (parentTurn (TSys.start
      { s0 with children := s0.children ++ [{ state := .running f (.exited n) }] }
      s0.children.length [σ] [(s0.children.length, σ)]))) :=
    tinv_steps (TSteps.trans (parentBurst_tsteps _ _) (trun_tsteps 100000 (mkChoices digits runs) _)) hstart'
  have hres : res = trapWaitRun digits runs { s0 with children := s0.children ++ [{ state := .running f (.exited n) }] }
      active s0.children.length σ := rfl
  simp only [trapWaitRun, tawaitJobs, hmem, if_true, next_eq_start] at hres
  cases ho : (trun 100000 (mkChoices digits runs) (parentTurn (TSys.start
      { s0 with children := s0.children ++ [{ state := .running f (.exited n) }] }
      s0.children.length [σ] [(s0.children.length, σ)]))).out with
  | none =>
    simp only [ho] at hres
    rw [hres]
    exact ⟨hrunI, Or.inr rfl⟩
  | some o =>
    obtain ⟨h1, h2⟩ := hout o ho
    subst h1
    simp only [ho] at hres
    rw [hres]
    have hpc : (trun 100000 (mkChoices digits runs) (parentTurn (TSys.start
        { s0 with children := s0.children ++ [{ state := .running f (.exited n) }] }
        s0.children.length [σ] [(s0.children.length, σ)]))).sys.pc = .done := by
      apply Classical.byContradiction
      intro hne
      have := hrunI.out_done.mpr hne
      rw [ho] at this; simp at this
    exact ⟨hrunI, Or.inl ⟨rfl, rfl, hpc, h2⟩⟩

/-- ★ The `St`-level glue around `ts_driver_trapped_any_children`: for EVERY interpreter state of the model column whose
    process table satisfies `Inv` — whatever jobs, whatever earlier statements — the statement `ts SIG N` (also `tsn`,
    `tsr`, and, after `St.wake`, `tw`: `St.trapWait [sig] n [] false`) computes the exit status `Spec.waitInterrupted`
    (what the spec column prints: 384 + SIG), keeps the new job in the job table (the next `wait` for it yields its
    status, not 127), and leaves a process table that again satisfies `Inv` with the shell between two commands —
    so the statement may be followed by anything, itself included; or the driver's fuel ran out (status 998, which
    the run would show as a disagreement).  Nothing is assumed about `St.newJob`: the new child, its pid and the start
    state of the built-in are computed from the definitions (`trapWait_uses_run`). -/
theorem trapWait_status_end_to_end (st : St) (sig : String) (n : Nat) (hu : st.useSys = true)
    (hI : Inv st.sys) (hσ : sigNo sig ≠ SIGCHLD_NO) (hchld : (sig != "CHLD") = true) :
    let st' := st.trapWait [sig] n [] false
    Inv st'.sys ∧
    ((st'.status = Spec.waitInterrupted (sigNo sig) ∧ st.sys.children.length ∈ st'.active ∧ st'.sys.pc = .done) ∨
      st'.status = 998) := by
  intro st'
  obtain ⟨h1, h2, h3⟩ := trapWait_uses_run st sig n hu hchld
  have key := trapWaitRun_trapped hI st.digits st.runs (fuelOf st.digits st.sys.children.length) (exitStatusSeen n)
    (sigNo sig) (st.active ++ [st.sys.children.length]) hσ (by simp)
  simp only at key
  obtain ⟨hT, hor⟩ := key
  refine ⟨by show Inv (st.trapWait [sig] n [] false).sys; rw [h1]; exact hT.inv, ?_⟩
  rcases hor with ⟨ho, hact, hpc, _⟩ | ho
  · left
    refine ⟨?_, ?_, ?_⟩
    · show (st.trapWait [sig] n [] false).status = _
      rw [h3, ho]; simp only [opsStatus, Spec.waitInterrupted, SIGNAL_EXIT_OFFSET]; omega
    · show _ ∈ (st.trapWait [sig] n [] false).active
      rw [h2, hact]; simp
    · show (st.trapWait [sig] n [] false).sys.pc = _
      rw [h1]; exact hpc
  · right
    show (st.trapWait [sig] n [] false).status = _
    rw [h3, ho]; rfl

example : sigNo "USR1" ≠ SIGCHLD_NO ∧ sigNo "CHLD" = SIGCHLD_NO := by decide


end WaitTrap

/-- ★ Zombie / job accounting at a command boundary (`Env::update_all_subshell_statuses` has just finished: the reap
    loop of the shell ends, `reap → done`), for every number of children, every behaviour, every schedule leading
    there (`Inv` is all that is used): NO child holds an unreported state — a terminated child has been reaped, no
    zombie outlives the command during which it ended —, and for every child the state recorded for its job (the
    `log` entry every `system.wait` result is passed to `JobList::update_status` as) IS the state of the process:
    alive ⇔ nothing recorded, terminated with `r` ⇔ exactly one record, and that record is `r`.  The run evaluates the
    same statement on the real process table and the real job list after every command (`jcheck`: `FAIL:jobs(…)`). -/
theorem command_boundary_accounting {s s' : Sys} (h : Inv s) (hpc : s.pc = .reap)
    (hs : parentStep s = some s') (hd : s'.pc = .done) :
    ∀ (i : Nat) (c : Child), s'.children[i]? = some c →
      c.changed = false ∧
      ((c.state.isAlive = true ∧ logCount s'.log i = 0) ∨
       (∃ r, c.state = .halted r ∧ (i, r) ∈ s'.log ∧ logCount s'.log i = 1)) := by
  have hI' : Inv s' := inv_parent h hs
  have hch : ∀ (i : Nat) (c : Child), s'.children[i]? = some c → c.changed = false := by
    unfold parentStep at hs
    simp only [hpc] at hs
    split at hs
    · simp only [Option.some.injEq] at hs; subst hs
      simp [hpc] at hd
    · rename_i hw
      simp only [Option.some.injEq] at hs; subst hs
      intro i c hc
      exact (sysWait_none hw).2 i c hc trivial
    · rename_i hw
      simp only [Option.some.injEq] at hs; subst hs
      intro i c hc
      exact (sysWait_any_echild.mp hw i c hc).1
  intro i c hc
  refine ⟨hch i c hc, ?_⟩
  have honce := hI'.once i
  rw [reaped_self hc] at honce
  cases hst : c.state with
  | running f r =>
    left
    simp [hst, PState.isAlive] at honce
    exact ⟨by simp [PState.isAlive], honce⟩
  | halted r =>
    right
    simp [hst, PState.isAlive, hch i c hc] at honce
    have hpos : 0 < logCount s'.log i := by omega
    obtain ⟨e, he, hei⟩ := List.countP_pos_iff.mp hpos
    simp at hei
    obtain ⟨c', hc', hst'⟩ := hI'.logged e.1 e.2 (by simpa using he)
    rw [hei, hc] at hc'
    simp at hc'; subst hc'
    rw [hst] at hst'
    simp at hst'
    refine ⟨r, rfl, ?_, honce⟩
    have : e = (i, r) := by
      obtain ⟨a, b⟩ := e
      simp at hei hst'; subst hei; subst hst'; rfl
    rw [← this]; exact he


end YashModel.Proc
