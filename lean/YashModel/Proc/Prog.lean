/-
  C13 — the small program language of the correspondence run (harness/src/bin/c13.rs `render`) and its
  interpretation, twice:
  * `useSys = true`  (model column): every fork of the main shell adds a child to one persistent `Sys`
    (the process table: children are never removed), every `wait_for_subshell_to_finish` /
    `wait_for_any_job_or_trap` / `update_all_subshell_statuses` is a request executed by `run` under a
    scheduler derived from the schedule digits of the case; the statuses come out of the model run.
  * `useSys = false` (spec column): the POSIX rules of `Spec.lean` applied to the true statuses.
-/
import YashModel.Proc.Model
import YashModel.Proc.Pipeline
import YashModel.Proc.Spec
namespace YashModel.Proc

inductive Member where
  | st (n : Nat)        -- `st N`
  | ex (n : Nat)        -- `exit N`
  | cat                 -- `cat`
  | echo (w : String)   -- `echo W`
  | grp (n : Nat)       -- `( exit N )`
  | cs (n : Nat)        -- `y=$( exit N )`
  deriving Repr

/-- operand of `wait` in a program: the K-th asynchronous list (`$jK`), a pid that never was a child,
    a job ID naming no job -/
inductive WOp where
  | job (k : Nat)
  | unknownPid
  | unknownJobId
  deriving Repr

inductive Stmt where
  | pf (on : Bool)
  | pipe (neg : Bool) (ms : List Member)
  | flow (fs : List Spec.Flow)
  | bg (ms : List Member)
  | wj (ops : List WOp)
  | w
  | wu
  | g (n : Nat)
  | gg (n : Nat)
  | gp (ms : List Member)
  | gb (n : Nat)
  | gw (a b : Nat)
  | q (n : Nat)
  | qe (w : String) (n : Nat)
  | qq (n : Nat)
  | qb (n : Nat)
  deriving Repr

/-- 64 scheduler choices derived from the schedule digits of the case and a salt -/
def mkChoices (digits : List Nat) (salt : Nat) : List Nat :=
  let base := if digits.isEmpty then [0] else digits
  (List.range 64).map fun k => base.getD ((k + salt) % base.length) 0 + (k * (salt + 1)) % 3

/-- number of internal steps of the `i`-th child ("every child behaviour") -/
def fuelOf (digits : List Nat) (i : Nat) : Nat :=
  (digits.getD (i % (digits.length + 1)) 1 + i) % 3

def mkChildren (digits : List Nat) (base : Nat) : List Nat → List Child
  | [] => []
  | s :: t => { state := .running (fuelOf digits base) (.exited s) } :: mkChildren digits (base + 1) t

def waitAll (base n : Nat) : List Req :=
  (List.range n).map fun k => Req.wait (.pid (base + k))

/-- A fresh process (a subshell) forks children with the given statuses and waits for each of them:
    the statuses it sees. -/
def nestedWait (useSys : Bool) (digits : List Nat) (salt : Nat) (sts : List Nat) : List Nat :=
  if !useSys then sts
  else
    let s := run 100000 (mkChoices digits salt)
      { children := mkChildren digits salt sts, todo := waitAll 0 sts.length ++ [.reapAll] }
    let got := s.results.reverse.map waitStatus
    if got.length = sts.length ∧ s.final then got else sts.map fun _ => 999

def memberStatus (useSys : Bool) (digits : List Nat) (salt : Nat) : Member → Nat
  | .st n => n
  | .ex n => n
  | .cat => 0
  | .echo _ => 0
  | .grp n => (nestedWait useSys digits salt [n]).getD 0 999
  | .cs n => (nestedWait useSys digits (salt + 1) [n]).getD 0 999

/-- what a pipeline prints: the word of an `echo` member that is followed by `cat`s only -/
def pipeOutput : List Member → Option String
  | [] => none
  | .echo w :: rest => if rest.all (fun m => match m with | .cat => true | _ => false) then some w else pipeOutput rest
  | _ :: rest => pipeOutput rest

structure St where
  useSys : Bool
  digits : List Nat
  runs : Nat := 0
  sys : Sys := { children := [] }
  pf : Bool := false
  /-- every asynchronous list so far: job number, pid (model column: child index; spec column: the job
      number), true status -/
  jobs : List (Nat × Nat × Nat) := []
  /-- the job table: pids of the jobs not yet removed by `wait` -/
  active : List Nat := []
  nasync : Nat := 0
  status : Nat := 0
  x : String := ""
  out : List String := []

def St.fork (st : St) (sts : List Nat) : St × Nat :=
  let base := st.sys.children.length
  ({ st with sys := { st.sys with children := st.sys.children ++ mkChildren st.digits base sts } }, base)

/-- the main shell executes the requests (the children run interleaved with it) -/
def St.exec (st : St) (reqs : List Req) : St :=
  let s := run 100000 (mkChoices st.digits st.runs) { st.sys with todo := reqs, results := [] }
  { st with sys := s, runs := st.runs + 1 }

def pipeFold (useSys : Bool) (pf : Bool) (sts : List Nat) : Nat :=
  if useSys then pipeStatus pf sts else Spec.pipe pf sts

/-- fork + `wait_for_subshell_to_finish` of the main shell for children with the given true statuses -/
def St.forkWait (st : St) (sts : List Nat) : St × List Nat :=
  if st.useSys then
    let (st1, base) := st.fork sts
    let st2 := st1.exec (waitAll base sts.length)
    let got := st2.sys.results.reverse.map waitStatus
    (st2, if got.length = sts.length ∧ st2.sys.final then got else sts.map fun _ => 999)
  else (st, sts)

/-- statuses of the members as their processes end -/
def St.members (st : St) (ms : List Member) : List Nat :=
  let rec go (k : Nat) : List Member → List Nat
    | [] => []
    | m :: t => memberStatus st.useSys st.digits (st.runs * 8 + k) m :: go (k + 2) t
  go 0 ms

/-- `wait_while_running(job_status(index))`: `jobStatus` on the job table, else
    `wait_for_any_job_or_trap` (request `wait(-1)` of the model) and look again.  `none` = the built-in
    fails ("no job to wait for") or the model does not terminate. -/
def St.awaitJob : Nat → St → Nat → St × Option WaitRes
  | 0, st, _ => (st, none)
  | f + 1, st, idx =>
    match jobStatus st.active st.sys.log idx with
    | some (res, jobs') => ({ st with active := jobs' }, some res)
    | none =>
      let st' := st.exec [.wait .any]
      match st'.sys.results with
      | .echild :: _ => (st', none)
      | _ => St.awaitJob f st' idx

/-- `Command::await_jobs`, the loop over the resolved operands: `None → NOT_FOUND`, `Some(index) →
    wait_while_running`; the exit status is that of the last operand (998 = the built-in failed) -/
def St.awaitJobs : St → List (Option Nat) → Nat → St × Nat
  | st, [], last => (st, last)
  | st, none :: t, _ => St.awaitJobs st t (waitStatus .echild)
  | st, some idx :: t, _ =>
    match St.awaitJob 64 st idx with
    | (st1, some res) => St.awaitJobs st1 t (waitStatus res)
    | (st1, none) => (st1, 998)

def St.pidOf (st : St) : WOp → Option Nat
  | .job k => (st.jobs.find? (fun j => j.1 == k)).map (·.2.1)
  | .unknownPid => some 99999
  | .unknownJobId => none

def St.truth (st : St) (pid : Nat) : Nat :=
  ((st.jobs.find? (fun j => j.2.1 == pid)).map (·.2.2)).getD 999

/-- `wait operands…` -/
def St.waitOps (st : St) (ops : List WOp) : St :=
  if st.useSys then
    -- `Command::execute`: resolve every operand first, then await
    let operands : List Operand := ops.map fun o => match st.pidOf o with
      | some p => Operand.pid p
      | none => Operand.jobId
    let (st1, v) := St.awaitJobs st (operands.map (resolve st.active)) 0
    { st1 with status := v }
  else
    let (v, active) := Spec.waitOps st.truth st.active (ops.map st.pidOf) 0
    { st with status := v, active := active }

/-- `wait` without operands: every job in the table -/
def St.waitAllJobs (st : St) : St :=
  if st.useSys then
    let (st1, v) := St.awaitJobs st (st.active.map some) 0
    { st1 with status := if v = 998 then 998 else 0, active := if v = 998 then st1.active else [] }
  else { st with status := 0, active := [] }

def flowProg : Spec.Flow → SProg
  | .spew n => .spew n
  | .cat => .cat 0
  | .drain => .drain
  | .take k st => .take k st
  | .st n => .idle n

/-- statuses of the stages of a flow pipeline: model column = a run of the pipeline model (`prun`, real
    constants) under the schedule digits; spec column = `Spec.flowStatuses` -/
def flowStatuses (useSys : Bool) (digits : List Nat) (salt : Nat) (fs : List Spec.Flow) : List Nat :=
  if useSys then
    let t := prun PCfg.real 4000 (mkChoices digits salt ++ mkChoices digits (salt + 7)) (mkPipeline (fs.map flowProg))
    if t.done then t.statuses else fs.map fun _ => 998
  else Spec.flowStatuses 0 fs

def St.subshell (st : St) (v : Nat) : St :=
  let (st1, got) := st.forkWait [v]
  { st1 with status := got.getD 0 999 }

def St.stmt (st : St) : Stmt → St
  | .pf on => { st with pf := on, status := 0 }
  | .pipe neg ms =>
    let (st1, got) := st.forkWait (st.members ms)
    let v := pipeFold st.useSys st.pf got
    let st2 := { st1 with status := if neg then (if st.useSys then negate v else Spec.negate v) else v }
    match pipeOutput ms with
    | some w => { st2 with out := s!"o:{w}" :: st2.out }
    | none => st2
  | .flow fs =>
    let (st1, got) := st.forkWait (flowStatuses st.useSys st.digits st.runs fs)
    { st1 with status := pipeFold st.useSys st.pf got }
  | .bg ms =>
    let sts := st.members ms
    let v := match sts with
      | [v] => v
      | _ => pipeFold st.useSys st.pf (nestedWait st.useSys st.digits (st.runs + 5) sts)
    let k := st.nasync + 1
    if st.useSys then
      let (st1, idx) := st.fork [v]
      { st1 with jobs := st1.jobs ++ [(k, idx, v)], active := st1.active ++ [idx], nasync := k, status := 0 }
    else { st with jobs := st.jobs ++ [(k, k, v)], active := st.active ++ [k], nasync := k, status := 0 }
  | .wj ops => st.waitOps ops
  | .w => st.waitAllJobs
  | .wu => st.waitOps [.unknownPid]
  | .g n => st.subshell n
  | .gg n => st.subshell ((nestedWait st.useSys st.digits (st.runs + 1) [n]).getD 0 999)
  | .gp ms =>
    let st1 := st.subshell (pipeFold st.useSys st.pf (nestedWait st.useSys st.digits (st.runs + 2) (st.members ms)))
    match pipeOutput ms with
    | some w => { st1 with out := s!"o:{w}" :: st1.out }
    | none => st1
  | .gb n => st.subshell ((nestedWait st.useSys st.digits (st.runs + 3) [n]).getD 0 999)
  | .gw a b =>
    let got := nestedWait st.useSys st.digits (st.runs + 4) [a, b]
    st.subshell (if got.length = 2 then 0 else 999)
  | .q n => { st.subshell n with x := "" }
  | .qe w n => { st.subshell n with x := w }
  | .qq n => { st.subshell ((nestedWait st.useSys st.digits (st.runs + 1) [n]).getD 0 999) with x := "" }
  | .qb n => { st.subshell ((nestedWait st.useSys st.digits (st.runs + 3) [n]).getD 0 999) with x := "" }

/-- after every command: `update_all_subshell_statuses`, then the probe -/
def St.probe (st : St) : St :=
  let st1 := if st.useSys then st.exec [.reapAll] else st
  let bang := if st1.nasync = 0 then "-" else s!"a{st1.nasync}"
  let x := if st1.x.isEmpty then "-" else st1.x
  { st1 with out := s!"{st1.status}/{bang}/{x}" :: st1.out }

def zombies (s : Sys) : Nat :=
  s.children.countP fun c => c.state.isAlive || c.changed

def interp (useSys : Bool) (digits : List Nat) (prog : List Stmt) : String :=
  let st0 : St := { useSys := useSys, digits := digits }
  let st : St := prog.foldl (fun (st : St) (s : Stmt) => (st.stmt s).probe) st0
  let z := if useSys then zombies st.sys else 0
  " ".intercalate st.out.reverse ++ s!" st={st.status} z={z}"

end YashModel.Proc
