/-
  C13 — the small program language of the correspondence run (harness/src/bin/c13.rs `render`) and its
  interpretation, twice:
  * `useSys = true`  (model column): every fork of the main shell adds a child to one persistent `Sys`
    (the process table: children are never removed), every `wait_for_subshell_to_finish` /
    `wait_for_any_job_or_trap` / `update_all_subshell_statuses` is a request executed by `run` under a
    scheduler derived from the schedule digits of the case; the statuses come out of the model run.
  * `useSys = false` (spec column): the POSIX rules of `Spec.lean` applied to the true statuses.
-/
import YashModel.Proc.Model
import YashModel.Proc.Pipeline
import YashModel.Proc.ForkLoop
import YashModel.Proc.WaitTrap
import YashModel.Proc.Spec
namespace YashModel.Proc
open YashModel.Generated.ProcConsts (SIGNAL_EXIT_OFFSET EXIT_FAILURE signalEffects)

inductive Member where
  | st (n : Nat)        -- `st N`
  | ex (n : Nat)        -- `exit N`
  | cat                 -- `cat`
  | echo (w : String)   -- `echo W`
  | grp (n : Nat)       -- `( exit N )`
  | cs (n : Nat)        -- `y=$( exit N )`
  deriving Repr

/-- operand of `wait` in a program: the K-th asynchronous list (`$jK`), a pid that never was a child,
    a job ID naming no job -/
inductive WOp where
  | job (k : Nat)
  | unknownPid
  | unknownJobId
  /-- `%st` / `%nap`: the job whose name starts so (kind 1 / 2) -/
  | byName (kind : Nat)
  /-- `%%`, `%+` -/
  | current
  /-- `%-` -/
  | previous
  /-- `%N` -/
  | number (n : Nat)
  deriving Repr

/-- signals of the run, by name; the model numbers them 1.. (the numbering of the virtual system is
    arbitrary: observations show names) -/
def sigNames : List String := ["HUP", "INT", "QUIT", "KILL", "TERM", "USR1", "USR2", "STOP", "CONT", "CHLD"]

def sigNo (name : String) : Nat := (sigNames.idxOf name) + 1

/-- an exit status as the observation shows it: above 384 = killed / interrupted by that signal -/
def showStatus (st : Nat) : String :=
  if st > SIGNAL_EXIT_OFFSET then s!"K{sigNames.getD (st - SIGNAL_EXIT_OFFSET - 1) "?"}" else toString st

/-- default action of a signal: `SignalEffect::of`, re-extracted from /repo (`Generated/ProcConsts.lean`) -/
def sigEffect (name : String) : String := (signalEffects.lookup name).getD "?"

inductive Stmt where
  | pf (on : Bool)
  | pipe (neg : Bool) (ms : List Member)
  | flow (fs : List Spec.Flow)
  /-- `fd X Y N`: an N-stage pipeline in a subshell with descriptors X ⊆ {0,1,2} closed and Y ⊆ {3..9} open -/
  | fd (closed opened : List Nat) (n : Nat)
  | bg (ms : List Member)
  | wj (ops : List WOp)
  | monitor (on : Bool)
  | bn (ms n : Nat)
  | kill (sig : String) (k : Nat)
  | tw (sig : String) (n : Nat)
  | tk (gap : Bool) (sig : String) (ms n : Nat)
  /-- `trap … SIG…; ( kill -s SIG $$; …; exit N ) & wait [$! operands…]`: the signals the job sends in order (none for
      `CHLD`: the job's exit is the signal), further operands after `$!`, or a `wait` without operands -/
  | ts (sigs : List String) (n : Nat) (rest : List WOp) (bare : Bool) (act : TrapAct := .plain)
  /-- `trap - CHLD` -/
  | tcx
  | ti
  | gj (k : Nat)
  /-- `( probe "$!" "$x"; wait $! )` -/
  | gl
  | wx
  /-- `kill -s TERM 99999` -/
  | ku
  | sc (n : Nat)
  | scp (n : Nat)
  | w
  | wu
  | g (n : Nat)
  | gg (n : Nat)
  | gp (ms : List Member)
  | gb (n : Nat)
  | gw (a b : Nat)
  | q (n : Nat)
  | qe (w : String) (n : Nat)
  | qq (n : Nat)
  | qb (n : Nat)
  deriving Repr

/-- 64 scheduler choices derived from the schedule digits of the case and a salt -/
def mkChoices (digits : List Nat) (salt : Nat) : List Nat :=
  let base := if digits.isEmpty then [0] else digits
  (List.range 64).map fun k => base.getD ((k + salt) % base.length) 0 + (k * (salt + 1)) % 3

/-- number of internal steps of the `i`-th child ("every child behaviour") -/
def fuelOf (digits : List Nat) (i : Nat) : Nat :=
  (digits.getD (i % (digits.length + 1)) 1 + i) % 3

def mkChildren (digits : List Nat) (base : Nat) : List Nat → List Child
  | [] => []
  | s :: t => { state := .running (fuelOf digits base) (.exited s) } :: mkChildren digits (base + 1) t

def waitAll (base n : Nat) : List Req :=
  (List.range n).map fun k => Req.wait (.pid (base + k))

/-- A fresh process (a subshell) forks children with the given statuses and waits for each of them:
    the statuses it sees. -/
def nestedWaitRaw (useSys : Bool) (digits : List Nat) (salt : Nat) (sts : List Nat) : List Nat :=
  if !useSys then sts
  else
    let s := run 100000 (mkChoices digits salt)
      { children := mkChildren digits salt sts, todo := waitAll 0 sts.length }
    let got := s.results.reverse.map waitStatus
    if got.length = sts.length ∧ s.final then got else sts.map fun _ => 999

/-- the children exit with `sts`; the kernel records (and POSIX lets the parent see) the low 8 bits -/
def nestedWait (useSys : Bool) (digits : List Nat) (salt : Nat) (sts : List Nat) : List Nat :=
  nestedWaitRaw useSys digits salt (sts.map exitStatusSeen)

def memberStatus (useSys : Bool) (digits : List Nat) (salt : Nat) : Member → Nat
  | .st n => n
  | .ex n => n
  | .cat => 0
  | .echo _ => 0
  | .grp n => (nestedWait useSys digits salt [n]).getD 0 999
  | .cs n => (nestedWait useSys digits (salt + 1) [n]).getD 0 999

/-- what a pipeline prints: the word of an `echo` member that is followed by `cat`s only -/
def pipeOutput : List Member → Option String
  | [] => none
  | .echo w :: rest => if rest.all (fun m => match m with | .cat => true | _ => false) then some w else pipeOutput rest
  | _ :: rest => pipeOutput rest

structure St where
  useSys : Bool
  digits : List Nat
  runs : Nat := 0
  sys : Sys := { children := [] }
  pf : Bool := false
  /-- every asynchronous list so far: job number, pid (model column: child index; spec column: the job
      number), true status -/
  jobs : List (Nat × Nat × Nat) := []
  /-- the job table: pids of the jobs not yet removed by `wait` -/
  active : List Nat := []
  /-- per job (by pid): kind of its name (1 = `st …`, 2 = `nap …`, 0 = other), started without job control -/
  info : List (Nat × Nat × Bool) := []
  /-- napping jobs that certainly have not finished (no statement since let virtual time pass) -/
  fresh : List Nat := []
  /-- jobs stopped by `k STOP` and not continued since: a stopped job cannot finish, it stays certainly alive
      however much virtual time passes -/
  stopped : List Nat := []
  /-- model column only: children that sleep.  Virtual time is not part of the small-step model, so a
      sleeping child is kept out of the scheduler (parked as a non-waitable entry of the process table)
      until a statement lets time pass; then it becomes an ordinary running child with this final state. -/
  asleep : List (Nat × Result) := []
  /-- jobs inserted since the job table was last empty, and whether nothing was removed or stopped since
      (then `%N` = N-th of them, `%%` = the first, `%-` = the second: C12 `jobid_designates`) -/
  epoch : List Nat := []
  clean : Bool := true
  monitor : Bool := false
  nasync : Nat := 0
  /-- distinct values of `$!` seen by the probes, and `nasync` at the last probe -/
  seen : Nat := 0
  probed : Nat := 0
  status : Nat := 0
  x : String := ""
  out : List String := []
  /-- descriptor tables of the `fd` statements, in order -/
  fds : List String := []

/-- the jobs that are still certainly alive after virtual time may have passed: the stopped ones -/
def St.kept (st : St) : List Nat := st.fresh.filter fun p => st.stopped.contains p

def St.fork (st : St) (sts : List Nat) : St × Nat :=
  let base := st.sys.children.length
  ({ st with sys := { st.sys with children := st.sys.children ++ mkChildren st.digits base sts } }, base)

/-- the main shell executes the requests (the children run interleaved with it) -/
def St.exec (st : St) (reqs : List Req) : St :=
  let s := run 100000 (mkChoices st.digits st.runs) { st.sys with todo := reqs, results := [] }
  { st with sys := s, runs := st.runs + 1 }

def pipeFold (useSys : Bool) (pf : Bool) (sts : List Nat) : Nat :=
  if useSys then pipeStatus pf sts else Spec.pipe pf sts

/-- fork + `wait_for_subshell_to_finish` of the main shell for children with the given true statuses -/
def St.forkWait (st : St) (sts0 : List Nat) : St × List Nat :=
  -- `exit(s)`: the low 8 bits are what the process table records and what `wait` hands out
  let sts := sts0.map exitStatusSeen
  if st.useSys then
    let (st1, base) := st.fork sts
    let st2 := st1.exec (waitAll base sts.length)
    let got := st2.sys.results.reverse.map waitStatus
    (st2, if got.length = sts.length ∧ st2.sys.final then got else sts.map fun _ => 999)
  else (st, sts)

/-- statuses of the members as their processes end -/
def St.members (st : St) (ms : List Member) : List Nat :=
  let rec go (k : Nat) : List Member → List Nat
    | [] => []
    | m :: t => memberStatus st.useSys st.digits (st.runs * 8 + k) m :: go (k + 2) t
  go 0 ms

/-- `Command::await_jobs` over the resolved operands, by the executable loops of `Model.lean`
    (`awaitJobsRun`: `None → NOT_FOUND`, `Some(index) → wait_while_running`, one `run` of the request
    `wait(-1)` per `wait_for_any_job_or_trap`); the exit status is that of the last operand (998 = the
    built-in failed or the driver's fuel ran out).  `Theorems.lean` `wait_builtin_end_to_end` is about
    exactly this call. -/
def St.awaitJobs (st : St) (ops : List (Option Nat)) (last : Nat) : St × Nat :=
  match awaitJobsRun 100000 64 (fun k => mkChoices st.digits (st.runs + k)) st.active st.sys ops with
  | some (jobs', s', rs) =>
    ({ st with active := jobs', sys := s', runs := st.runs + 65 },
     ((rs.map waitStatus).getLast?).getD last)
  | none => ({ st with runs := st.runs + 65 }, 998)

/-- `search::resolve` for the operand forms of the run: `some (some pid)` = a process ID (a job's or not),
    `some none` = a job ID naming no job, `none` = an ambiguous job ID (the built-in fails) -/
def St.pidOf (st : St) : WOp → Option (Option Nat)
  | .job k => some ((st.jobs.find? (fun j => j.1 == k)).map (·.2.1))
  | .unknownPid => some (some 99999)
  | .unknownJobId => some none
  | .byName kind =>
    match st.active.filter (fun p => (st.info.find? (fun i => i.1 == p)).map (·.2.1) == some kind) with
    | [] => some none
    | [p] => some (some p)
    | _ => none
  | .current => some (if st.clean then st.epoch.head? else none)
  | .previous => some (if st.clean then st.epoch[1]? else none)
  | .number n => some (if st.clean ∧ 1 ≤ n then st.epoch[n - 1]? else none)

def St.truth (st : St) (pid : Nat) : Nat :=
  ((st.jobs.find? (fun j => j.2.1 == pid)).map (·.2.2)).getD 999

/-- virtual time passes: the sleeping children run -/
def St.wake (st : St) : St :=
  let cs := st.asleep.foldl (fun (cs : List Child) (e : Nat × Result) =>
    cs.set e.1 { state := .running (fuelOf st.digits e.1) e.2 }) st.sys.children
  { st with sys := { st.sys with children := cs }, asleep := [] }

/-- bookkeeping after `wait`: the table may have shrunk -/
def St.afterWait (st : St) (before : List Nat) : St :=
  let st := { st with fresh := st.kept }
  if st.active.isEmpty then { st with epoch := [], clean := true }
  else if st.active.length < before.length then { st with clean := false }
  else st

/-- `wait operands…` -/
def St.waitOps (st : St) (ops : List WOp) : St :=
  let st := st.wake
  match ops.mapM st.pidOf with
  | none => { st with status := 2, fresh := st.kept }   -- ambiguous job ID: `report_error`, nothing is awaited
  | some pids =>
    if st.useSys then
      -- `Command::execute`: resolve every operand first, then await
      let operands : List Operand := pids.map fun o => match o with
        | some p => Operand.pid p
        | none => Operand.jobId
      let (st1, v) := St.awaitJobs st (operands.map (resolve st.active)) 0
      ({ st1 with status := v }).afterWait st.active
    else
      let (v, active) := Spec.waitOps st.truth st.active pids 0
      ({ st with status := v, active := active }).afterWait st.active

/-- `wait` without operands: every job in the table -/
def St.waitAllJobs (st : St) : St :=
  let st := st.wake
  if st.useSys then
    let (st1, v) := St.awaitJobs st (st.active.map some) 0
    ({ st1 with status := if v = 998 then 998 else 0, active := if v = 998 then st1.active else [] }).afterWait st.active
  else ({ st with status := 0, active := [] }).afterWait st.active

def flowProg : Spec.Flow → SProg
  | .spew n => .spew n
  | .cat => .cat 0
  | .drain => .drain
  | .take k st => .take k st
  | .st n => .idle n

/-- statuses of the stages of a flow pipeline: model column = a run of the pipeline model (`prun`, real
    constants) under the schedule digits; spec column = `Spec.flowStatuses` -/
def flowStatuses (useSys : Bool) (digits : List Nat) (salt : Nat) (fs : List Spec.Flow) : List Nat :=
  if useSys then
    let t := prun PCfg.real 4000 (mkChoices digits salt ++ mkChoices digits (salt + 7)) (mkPipeline (fs.map flowProg))
    if t.done then t.statuses else fs.map fun _ => 998
  else Spec.flowStatuses 0 fs

/-! ### descriptor tables of pipeline stages (`fd` statements) -/

/-- descriptors the observation looks at -/
def fdBound : Nat := 64

def showRes : Res → String
  | .rd j => s!"r{j}"
  | .wr j => s!"w{j}"
  | .other => "o"

def showKind : Spec.FdKind → String
  | .rd j => s!"r{j}"
  | .wr j => s!"w{j}"
  | .other => "o"

/-- a table as the observation shows it: `<fd><kind>` of every open descriptor, `-` if there is none -/
def showTable (row : Nat → Option String) : String :=
  let toks := (List.range fdBound).filterMap fun fd => (row fd).map fun k => s!"{fd}{k}"
  if toks.isEmpty then "-" else ",".intercalate toks

/-- the shell's table when the pipeline starts: 0, 1, 2 minus `closed`, plus `opened` -/
def startOpen (closed opened : List Nat) (fd : Nat) : Bool :=
  (fd < 3 && !closed.contains fd) || opened.contains fd

/-- ` F[<before>|<stage 0>|…|<stage n-1>|<after>]`.  Model column: `pipelineSetup` (fork loop of the parent
    with `PipeSet::shift`, `move_to_stdin_stdout` in every child) with the allocation policy of the virtual
    system (lowest free descriptor); spec column: `Spec.stageFd`.  `pipeline_setup_exact` proves the two
    equal for every `n`, every starting table and every allocation for which the set-up goes through. -/
def fdTables (useSys : Bool) (closed opened : List Nat) (n : Nat) : String :=
  let openB := startOpen closed opened
  let before := showTable fun fd => if openB fd then some "o" else none
  if useSys then
    let T0 : FdTab := fun fd => if openB fd then some .other else none
    match pipelineSetup (Alloc.lowest fdBound) n T0 with
    | none => " F[setup-failed]"
    | some (ts, Tf) =>
      let rows := ts.map fun T => showTable fun fd => (T fd).map showRes
      " F[" ++ "|".intercalate ([before] ++ rows ++ [showTable fun fd => (Tf fd).map showRes]) ++ "]"
  else
    let rows := (List.range n).map fun k => showTable fun fd => (Spec.stageFd openB n k fd).map showKind
    " F[" ++ "|".intercalate ([before] ++ rows ++ [before]) ++ "]"

def St.subshell (st : St) (v : Nat) : St :=
  let (st1, got) := st.forkWait [v]
  { st1 with status := got.getD 0 999 }

/-- an asynchronous list has been started: `$!`, job table -/
def St.newJob (st : St) (v kind : Nat) : St :=
  let k := st.nasync + 1
  let (st1, pid) := if st.useSys then st.fork [v] else (st, k)
  { st1 with jobs := st1.jobs ++ [(k, pid, v)], active := st1.active ++ [pid],
             info := st1.info ++ [(pid, kind, !st.monitor)], epoch := st1.epoch ++ [pid],
             nasync := k, status := 0 }

/-- the job with pid `pid` will end killed by signal `sig` (it is alive: a napping job) -/
def St.killJob (st : St) (pid sig : Nat) : St :=
  let st1 := { st with jobs := st.jobs.map fun j => if j.2.1 == pid then (j.1, pid, sig + SIGNAL_EXIT_OFFSET) else j,
                       fresh := st.fresh.filter (· != pid) }
  if st.useSys ∧ (st.asleep.any fun e => e.1 == pid) then
    { st1 with sys := { st1.sys with children := st1.sys.children.set pid { state := .running 0 (.signaled sig) } },
               asleep := st1.asleep.filter fun e => e.1 != pid }
  else st1

/-- `trap … SIG…; ( …; kill -s SIG $$; …; exit N ) & wait [$! operands…]`: the shell traps the signals `sigs`, forks a
    job that sends them to the shell (in this order) and exits later, and waits — for that job (`ts`, `tsn`, `tsr`,
    `ts2`, `tw`), for that job and further operands (`tso`), or for all jobs (`tsa`).  `sigs = ["CHLD"]`: nothing is
    sent, SIGCHLD itself has the trap action (`tc`).
    Model column = `tawaitJobs` / `tawaitAll` of `WaitTrap.lean` (`Command::await_jobs` over `wait_while_running` over
    `wait_for_any_job_or_trap`) under the block scheduler `trun`; spec column = XCU 2.12: exit status 384 + the first
    signal, no job waited for.  Every trap action prints its line (the first inside the built-in, the others after it). -/
def St.trapWait (st : St) (sigs : List String) (n0 : Nat) (rest : List WOp) (bare : Bool)
    (act : TrapAct := .plain) : St :=
  let n := exitStatusSeen n0
  let st1 := st.newJob n 0
  let pid := (st1.jobs.getLast?.map (·.2.1)).getD 0
  let first := sigs.headD "?"
  -- what the trap action prints: its line; or (`probe`) `$?` as it finds it — the value before the trap —, `$!` (the new
  -- job's: a value the probes have not seen yet) and `$x`; or nothing (`return r`)
  let st1 := match act with
    | .plain => { st1 with out := (sigs.map fun (sg : String) => s!"o:trap{sg.toLower}").reverse ++ st1.out }
    | .probe q =>
      let x := if st1.x.isEmpty then "-" else st1.x
      { st1 with out := s!"{showStatus (act.entryStatus q)}/a{st1.seen + 1}/{x}" :: st1.out, seen := st1.seen + 1,
                 probed := st1.nasync }
    | .ret _ => st1
  if st.useSys then
    let sent := sigs.filter (· != "CHLD")
    let t0 : TSys := { sys := st1.sys, job := pid, traps := sigs.map sigNo, senders := sent.map fun sg => (pid, sigNo sg),
                       out := some .nothing }
    let run := fun x => trun 100000 (mkChoices st.digits st.runs) (parentTurn x)
    let ops : List (Option Nat) := some pid :: ((rest.mapM st1.pidOf).getD []).map fun o => match o with
      | some p => resolve st1.active (.pid p)
      | none => none
    let res := if bare then tawaitAll run 64 st1.active t0 else tawaitJobs run st1.active t0 ops
    let st2 := { st1 with sys := res.2.1.sys, active := res.1, runs := st1.runs + 1 }
    match res.2.2 with
    | .trapped σ _ => { st2 with status := statusAfter (trappedResult SIGNAL_EXIT_OFFSET σ act) }
    | .done sts => { st2 with status := sts.getLast?.getD 0 }   -- (not reachable: `ts_driver_trapped_any_children`)
    | .failed _ => { st2 with status := 998 }
  else { st1 with status := match act with
    | .ret r => r   -- XCU `return`: the function returns `r`
    | _ => Spec.waitInterrupted (sigNo first) }

def St.stmt (st : St) : Stmt → St
  | .pf on => { st with pf := on, status := 0 }
  | .pipe neg ms =>
    let (st1, got) := st.forkWait (st.members ms)
    let v := pipeFold st.useSys st.pf got
    let st2 := { st1 with status := if neg then (if st.useSys then negate v else Spec.negate v) else v }
    match pipeOutput ms with
    | some w => { st2 with out := s!"o:{w}" :: st2.out }
    | none => st2
  | .flow fs =>
    let (st1, got) := st.forkWait (flowStatuses st.useSys st.digits st.runs fs)
    { st1 with status := pipeFold st.useSys st.pf got }
  | .fd closed opened n =>
    -- `( exec …; fdsnap B; fdsnap 0 | … | fdsnap n-1; fdsnap P )`: a subshell that runs an n-stage pipeline
    let sts := (List.range n).map fun _ => 0
    let st1 := st.subshell (pipeFold st.useSys st.pf (nestedWait st.useSys st.digits (st.runs + 2) sts))
    { st1 with fds := st1.fds ++ [fdTables st.useSys closed opened n] }
  | .bg ms =>
    let sts := st.members ms
    let v := match sts with
      | [v] => v
      | _ => pipeFold st.useSys st.pf (nestedWait st.useSys st.digits (st.runs + 5) sts)
    st.newJob (exitStatusSeen v) (match ms with | .st _ :: _ => 1 | _ => 0)
  | .wj ops => st.waitOps ops
  | .monitor on => { st with monitor := on, status := 0 }
  | .bn _ n0 =>
    let n := exitStatusSeen n0
    let st1 := st.newJob n 2
    let pid := (st1.jobs.getLast?.map (·.2.1)).getD 0
    let st2 := { st1 with fresh := st1.fresh ++ [pid] }
    if st.useSys then
      { st2 with asleep := st2.asleep ++ [(pid, .exited n)],
                 sys := { st2.sys with children := st2.sys.children.set pid { state := .halted (.exited n) } } }
    else st2
  | .kill sig k =>
    match st.jobs.find? (fun j => j.1 == k) with
    | none => { st with status := 0 }
    | some (_, pid, _) =>
      let st0 := { st with status := 0 }
      -- a job that is not certainly alive has certainly ended (the generator sends nothing else) and was reaped by
      -- the `update_all_subshell_statuses` after the command during which it ended: for the kernel that process
      -- no longer exists (`VirtualSystem::kill`: terminated and state consumed by `wait` → ESRCH), the `kill`
      -- built-in fails with `ExitStatus::FAILURE`; the job's first terminal status stands for a later `wait`
      if !st.fresh.contains pid then { st0 with status := EXIT_FAILURE }
      else if sigEffect sig == "suspend" then { st0 with clean := false, stopped := st0.stopped ++ [pid] }
      else if sigEffect sig == "resume" then { st0 with stopped := st0.stopped.filter (· != pid) }
      else if sigEffect sig == "none" then st0
      else if sigEffect sig != "terminate" then { st0 with status := 997 }   -- not a signal of the table
      else if (sig == "INT" || sig == "QUIT") &&
          ((st.info.find? (fun i => i.1 == pid)).map (·.2.2)).getD false then st0
      else st0.killJob pid (sigNo sig)
  | .tw sig n =>
    -- the helper job (naps, sends, naps, exits: virtual time passes); the `wait` for it is interrupted by the trapped
    -- signal: trap action first, then 384+sig
    let st1 := st.wake.trapWait [sig] n [] false
    { st1 with fresh := st1.kept }
  | .tk gap sig _ n0 =>
    let n := exitStatusSeen n0
    -- the shell traps `sig`, forks a napping job and sends it `sig` (at once, or after a foreground
    -- command): whether the signal is delivered by `kill` or, pending, by the child's entry step when it
    -- unblocks, the child ends `signaled sig` and the parent is told — unless the child ignores it
    let st0 := if gap then (st.wake.subshell 0) else st
    let st0 := if gap then { st0 with fresh := st0.kept } else st0
    let st1 := st0.newJob n 2
    let pid := (st1.jobs.getLast?.map (·.2.1)).getD 0
    let st2 := if st.useSys then
        { st1 with asleep := st1.asleep ++ [(pid, .exited n)],
                   sys := { st1.sys with children := st1.sys.children.set pid { state := .halted (.exited n) } } }
      else st1
    if (sig == "INT" || sig == "QUIT") && !st.monitor then { st2 with fresh := st2.fresh ++ [pid], status := 0 }
    else { st2.killJob pid (sigNo sig) with status := 0 }
  | .ts sigs n0 rest bare act => st.trapWait sigs n0 rest bare act
  | .tcx => { st with status := 0 }
  | .ti => { st with status := 0 }
  | .gj _ => { st with status := if st.useSys then waitStatus .echild else Spec.wait none }
  | .gl =>
    -- XCU 2.5.2 / 2.12: the subshell inherits the VALUE of `$!`, but that process is not its child: the probe inside
    -- prints the parent's `$!` (after status 0), `wait $!` there yields 127; the parent's `$!` is unaffected
    let bang := if st.nasync = 0 then "-" else if st.nasync ≠ st.probed then s!"a{st.seen + 1}" else s!"a{st.seen}"
    let x := if st.x.isEmpty then "-" else st.x
    let st1 := st.subshell (if st.useSys then waitStatus .echild else Spec.wait none)
    { st1 with out := s!"{showStatus st.status}/{bang}/{x}" :: st1.out }
  | .wx => { st with status := 2 }
  | .ku => { st with status := EXIT_FAILURE }   -- ESRCH: no such process
  | .sc n =>
    -- job 1 `st 0 &` is waited for at once (the table is empty again), job 2 is the helper (exit 0)
    let st1 := st.wake.newJob 0 1
    let st2 := st1.waitOps [.job 1]
    let st3 := st2.newJob 0 0
    { st3.subshell n with fresh := [] }
  | .scp n =>
    let st1 := st.wake.newJob 0 1
    let st2 := st1.waitOps [.job 1]
    let st3 := st2.newJob 0 0
    let (st4, got) := st3.forkWait [n, 0]
    { st4 with status := pipeFold st.useSys st.pf got, fresh := [] }
  | .w => st.waitAllJobs
  | .wu => st.waitOps [.unknownPid]
  | .g n => st.subshell n
  | .gg n => st.subshell ((nestedWait st.useSys st.digits (st.runs + 1) [n]).getD 0 999)
  | .gp ms =>
    let st1 := st.subshell (pipeFold st.useSys st.pf (nestedWait st.useSys st.digits (st.runs + 2) (st.members ms)))
    match pipeOutput ms with
    | some w => { st1 with out := s!"o:{w}" :: st1.out }
    | none => st1
  | .gb n => st.subshell ((nestedWait st.useSys st.digits (st.runs + 3) [n]).getD 0 999)
  | .gw a b =>
    let got := nestedWait st.useSys st.digits (st.runs + 4) [a, b]
    st.subshell (if got.length = 2 then 0 else 999)
  | .q n => { st.subshell n with x := "" }
  | .qe w n => { st.subshell n with x := w }
  | .qq n => { st.subshell ((nestedWait st.useSys st.digits (st.runs + 1) [n]).getD 0 999) with x := "" }
  | .qb n => { st.subshell ((nestedWait st.useSys st.digits (st.runs + 3) [n]).getD 0 999) with x := "" }

/-- after every command: `update_all_subshell_statuses`, then the probe -/
def St.probe (st : St) : St :=
  let st1 := if st.useSys then st.exec [.reapAll] else st
  let st1 := if st1.nasync ≠ st1.probed then { st1 with seen := st1.seen + 1, probed := st1.nasync } else st1
  let bang := if st1.nasync = 0 then "-" else s!"a{st1.seen}"
  let x := if st1.x.isEmpty then "-" else st1.x
  { st1 with out := s!"{showStatus st1.status}/{bang}/{x}" :: st1.out }

def zombies (s : Sys) : Nat :=
  s.children.countP fun c => c.state.isAlive || c.changed

def interp (useSys : Bool) (digits : List Nat) (prog : List Stmt) : String :=
  let st0 : St := { useSys := useSys, digits := digits }
  let st : St := prog.foldl (fun (st : St) (s : Stmt) => (st.stmt s).probe) st0
  let z := if useSys then zombies st.sys else 0
  " ".intercalate st.out.reverse ++ s!" st={showStatus st.status} z={z}" ++ String.join st.fds

end YashModel.Proc
