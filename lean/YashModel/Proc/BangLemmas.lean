/-
  C13 — `$!` in the interpreter of the run (`Prog.lean`): the list of pids of the asynchronous lists and the helper
  functions of `St.stmt` that leave it alone.  Helper lemmas for `bang_unchanged_by_foreground`.
-/
import YashModel.Proc.Prog
namespace YashModel.Proc

/-- the pids of the asynchronous lists so far, oldest first; the last one is the value of `$!` -/
def St.pids (st : St) : List Nat := st.jobs.map (·.2.1)

/-- `$!`: "the process ID of the most recent background command" (XCU 2.5.2) — in the model the process-table index of
    the child forked for the last asynchronous list, the one `wait $!` waits for -/
def St.bangPid (st : St) : Option Nat := st.pids.getLast?

theorem pids_fork (st : St) (sts : List Nat) : (st.fork sts).1.pids = st.pids := rfl
theorem pids_exec (st : St) (reqs : List Req) : (st.exec reqs).pids = st.pids := rfl
theorem pids_wake (st : St) : st.wake.pids = st.pids := rfl

theorem pids_forkWait (st : St) (sts : List Nat) : (st.forkWait sts).1.pids = st.pids := by
  unfold St.forkWait; split <;> rfl

theorem pids_subshell (st : St) (v : Nat) : (st.subshell v).pids = st.pids := by
  unfold St.subshell; exact pids_forkWait st [v]

theorem pids_afterWait (st : St) (b : List Nat) : (st.afterWait b).pids = st.pids := by
  unfold St.afterWait; simp only []; split
  · rfl
  · split <;> rfl

theorem pids_awaitJobs (st : St) (ops : List (Option Nat)) (last : Nat) : (st.awaitJobs ops last).1.pids = st.pids := by
  unfold St.awaitJobs; split <;> rfl

theorem pids_waitOps (st : St) (ops : List WOp) : (st.waitOps ops).pids = st.pids := by
  unfold St.waitOps
  simp only []
  split
  · rfl
  · split
    · rw [pids_afterWait]; exact pids_awaitJobs _ _ _
    · rw [pids_afterWait]; rfl

theorem pids_waitAllJobs (st : St) : st.waitAllJobs.pids = st.pids := by
  unfold St.waitAllJobs
  simp only []
  split
  · rw [pids_afterWait]; exact pids_awaitJobs _ _ _
  · rw [pids_afterWait]; rfl

theorem pids_killJob (st : St) (pid sig : Nat) : (st.killJob pid sig).pids = st.pids := by
  have hmap : (st.jobs.map fun j => if j.2.1 == pid then (j.1, pid, sig + YashModel.Generated.ProcConsts.SIGNAL_EXIT_OFFSET) else j).map (·.2.1)
      = st.jobs.map (·.2.1) := by
    rw [List.map_map]
    apply List.map_congr_left
    intro j _
    simp only [Function.comp]
    split
    · rename_i h; simp at h; simp [h]
    · rfl
  unfold St.killJob
  simp only []
  split <;> exact hmap

/-- the statements that start no asynchronous list -/
def Stmt.foreground : Stmt → Bool
  | .bg _ | .bn _ _ | .tw _ _ | .tk _ _ _ _ | .ts _ _ _ _ _ | .sc _ | .scp _ => false
  | _ => true

end YashModel.Proc
