/-
  Driver for C13.  stdin: one case per line, `<program> @ <schedule digits>` (see harness/src/bin/c13.rs);
  stdout: `<model observation>\t=<spec observation>`.
-/
import YashModel.Common.Proto
import YashModel.Proc.Prog
open YashModel YashModel.Proc YashModel.Proto

def parseMember (t : String) : Option Member :=
  match t.toList with
  | ['c'] => some .cat
  | 's' :: r => (String.ofList r).toNat?.map .st
  | 'x' :: r => (String.ofList r).toNat?.map .ex
  | 'g' :: r => (String.ofList r).toNat?.map .grp
  | 'q' :: r => (String.ofList r).toNat?.map .cs
  | 'e' :: r => if r.isEmpty then none else some (.echo (String.ofList r))
  | _ => none

def parseFlow (t : String) : Option Spec.Flow :=
  match t.toList with
  | ['c'] => some .cat
  | ['d'] => some .drain
  | 'w' :: r => (String.ofList r).toNat?.map .spew
  | 's' :: r => (String.ofList r).toNat?.map .st
  | 't' :: r =>
    match (String.ofList r).splitOn "." with
    | [k, st] => do pure (.take (← k.toNat?) (← st.toNat?))
    | _ => none
  | _ => none

def parseWOp (t : String) : Option WOp :=
  if t = "u" then some .unknownPid
  else if t = "%" then some .unknownJobId
  else if t = "%st" then some (.byName 1)
  else if t = "%nap" then some (.byName 2)
  else if t = "%%" ∨ t = "%+" then some .current
  else if t = "%-" then some .previous
  else if t.startsWith "%" then (t.drop 1).toString.toNat?.map .number
  else t.toNat?.map .job

/-- `-` = none, else strictly increasing digits within `lo..hi` -/
def parseFdSet (t : String) (lo hi : Nat) : Option (List Nat) :=
  if t = "-" then some []
  else
    let ds := t.toList.map fun c => c.toNat - 48
    if t.toList.all (fun c => '0' ≤ c ∧ c ≤ '9') ∧ !ds.isEmpty ∧ ds.all (fun d => lo ≤ d ∧ d ≤ hi) ∧
        (ds.zip ds.tail).all (fun p => p.1 < p.2) then some ds
    else none

def parseStmt (t : String) : Option Stmt :=
  match words t with
  | ["fd", x, y, n] => do
    let n ← n.toNat?
    if 2 ≤ n ∧ n ≤ 8 then pure (.fd (← parseFdSet x 0 2) (← parseFdSet y 3 9) n) else none
  | ["pf1"] => some (.pf true)
  | ["pf0"] => some (.pf false)
  | "p" :: ms => (ms.mapM parseMember).map (.pipe false)
  | "np" :: ms => (ms.mapM parseMember).map (.pipe true)
  | "fp" :: fs => if fs.length < 2 then none else (fs.mapM parseFlow).map .flow
  | "bg" :: ms => if ms.isEmpty then none else (ms.mapM parseMember).map .bg
  | "wj" :: ks => if ks.isEmpty then none else (ks.mapM parseWOp).map .wj
  | ["m1"] => some (.monitor true)
  | ["m0"] => some (.monitor false)
  | ["bn", ms, n] => do pure (.bn (← ms.toNat?) (← n.toNat?))
  | ["k", sig, k] => k.toNat?.map (.kill sig)
  | ["tw", sig, n] => n.toNat?.map (.tw sig)
  | ["tk", sig, ms, n] => do pure (.tk false sig (← ms.toNat?) (← n.toNat?))
  | ["tkg", sig, ms, n] => do pure (.tk true sig (← ms.toNat?) (← n.toNat?))
  | ["ts", sig, n] => n.toNat?.map fun n => .ts [sig] n [] false
  | ["tsn", sig, n] => n.toNat?.map fun n => .ts [sig] n [] false
  | ["tsr", sig, n, _] => n.toNat?.map fun n => .ts [sig] n [] false
  | ["tsa", sig, n] => n.toNat?.map fun n => .ts [sig] n [] true
  | ["ts2", s1, s2, n] => if s1 = s2 then none else n.toNat?.map fun n => .ts [s1, s2] n [] false
  | ["tsq", sig, n, q] => do pure (.ts [sig] (← n.toNat?) [] false (.probe (← q.toNat?)))
  | ["tsf", sig, n, r] => do pure (.ts [sig] (← n.toNat?) [] false (.ret (← r.toNat?)))
  | ["tc", n] => n.toNat?.map fun n => .ts ["CHLD"] n [] false
  | ["tcx"] => some .tcx
  | "tso" :: sig :: n :: ks => if ks.isEmpty then none else do
      let rest ← ks.mapM parseWOp
      let n ← n.toNat?
      pure (.ts [sig] n rest false)
  | ["ti"] => some .ti
  | ["gj", k] => k.toNat?.map .gj
  | ["gl"] => some .gl
  | ["wx"] => some .wx
  | ["ku"] => some .ku
  | ["sc", n] => n.toNat?.map .sc
  | ["scp", n] => n.toNat?.map .scp
  | "fpo" :: fs => if fs.length < 2 then none else (fs.mapM parseFlow).map .flow
  | "fpi" :: fs => if fs.length < 2 then none else (fs.mapM parseFlow).map .flow
  | "fpb" :: fs => if fs.length < 2 then none else (fs.mapM parseFlow).map .flow
  | ["w"] => some .w
  | ["wu"] => some .wu
  | ["g", n] => n.toNat?.map .g
  | ["gg", n] => n.toNat?.map .gg
  | "gp" :: ms => (ms.mapM parseMember).map .gp
  | ["gb", n] => n.toNat?.map .gb
  | ["gw", a, b] => do pure (.gw (← a.toNat?) (← b.toNat?))
  | ["q", n] => n.toNat?.map .q
  | ["qe", w, n] => n.toNat?.map (.qe w)
  | ["qq", n] => n.toNat?.map .qq
  | ["qb", n] => n.toNat?.map .qb
  | _ => none

def digitVal (c : Char) : Option Nat :=
  if '0' ≤ c ∧ c ≤ '9' then some (c.toNat - 48)
  else if 'a' ≤ c ∧ c ≤ 'z' then some (c.toNat - 87)
  else none

def runLine (line : String) : String :=
  match splitTrim line "@" with
  | [prog, sched] =>
    match ((splitTrim prog ";").filter (· ≠ "")).mapM parseStmt with
    | none => "bad-case\t-"
    | some stmts =>
      let digits := sched.toList.filterMap digitVal
      interp true digits stmts ++ "\t=" ++ interp false digits stmts
  | _ => "bad-case\t-"

def main : IO Unit := mainLoop runLine
