/-
  C13 — Impl model, second part: the stages of one pipeline blocking on I/O with each other.

  The first part (`Model.lean`) treats a child as something that takes finitely many steps and ends.
  Whether the stages of a pipeline do end depends on the pipes between them and on WHICH PROCESS HOLDS
  WHICH END: a writer gets EPIPE only when every process holding the read end is gone.  This file
  models that: a pipe object with its buffered byte count, its capacity and the list of processes
  holding its read end and its write end, and the stages as small I/O programs.

  Transcribed from (current /repo):
  * yash-env/src/system/virtual/file_body.rs  `FileBody::Fifo { content, readers, writers }`,
      `poll_read` (0 bytes ⇔ empty and no writer; block ⇔ empty and a writer; else `min` of request and
      content), `poll_write` (EPIPE ⇔ no reader; block ⇔ `room = 0` or an atomic request ≤ PIPE_BUF does
      not fit; else `min room len` bytes), `PIPE_SIZE`, `PIPE_BUF`;  `Process::set_state` closes every
      descriptor of a process that ends (`close_fds`), which is what decrements `readers`/`writers`
  * yash-semantics/src/command/pipeline.rs   `execute_multi_command_pipeline`, `PipeSet::shift` (the
      parent closes both ends after forking), `PipeSet::move_to_stdin_stdout` (the child closes the
      read end of the pipe it writes to, moves the write end to fd 1 and the previous read end to fd 0)
  * yash-env/src/system/concurrency/rw_all.rs `write_all` (loop: the whole rest is passed to `write`)
  * harness/src/bin/c13.rs                    `spew`, `take`, `drain`; harness/src/shell.rs `cat`, `st`

  (C14's `Pipe/Model.lean` has one writer and one reader of one pipe; what is restated here from it is
  the read/write rule of the FIFO.  New here: n stages, n-1 pipes, holder lists per pipe, stages that
  stop reading early.)
-/
import YashModel.Generated.PipeConsts
namespace YashModel.Proc

structure PCfg where
  /-- `PIPE_SIZE` -/
  cap : Nat
  /-- `PIPE_BUF` -/
  pbuf : Nat
  /-- buffer size of the `read` calls of `cat` and `drain` -/
  chunk : Nat
  deriving Repr

/-- the constants of the virtual system (`PIPE_SIZE`, `PIPE_BUF` of file_body.rs, re-extracted from /repo on
    every run into `Generated/PipeConsts.lean`) and of the harness built-ins (`cat`/`drain` read 1024 bytes) -/
def PCfg.real : PCfg :=
  { cap := YashModel.Generated.PipeConsts.PIPE_SIZE, pbuf := YashModel.Generated.PipeConsts.PIPE_BUF, chunk := 1024 }

def PCfg.Valid (c : PCfg) : Prop := 1 ≤ c.pbuf ∧ c.pbuf ≤ c.cap ∧ 1 ≤ c.chunk

/-- what a stage still does ("terminating stages": every program below ends on its own once its I/O
    calls return) -/
inductive SProg where
  /-- `spew n`: `write_all` of the remaining `n` bytes, then exit 0; exit 1 on EPIPE -/
  | spew (n : Nat)
  /-- `take k st`: read until `k` more bytes have arrived or end of file, then exit `st` -/
  | take (k : Nat) (st : Nat)
  /-- `drain`: read to end of file, exit 0 -/
  | drain
  /-- `cat`: `buf = 0`: read a chunk (end of file: exit 0); `buf > 0`: `write_all` of the chunk (EPIPE: exit 1) -/
  | cat (buf : Nat)
  /-- `st n`, `exit n`: no I/O, exit `st` -/
  | idle (st : Nat)
  deriving DecidableEq, Repr

structure Stage where
  prog : SProg
  /-- `some st` once the process has ended (all its descriptors are closed then) -/
  exit : Option Nat := none
  deriving DecidableEq, Repr

/-- a pipe: buffered bytes, and the processes (stage numbers) that hold an open descriptor of its read
    end / of its write end.  `readers`/`writers` of `FileBody::Fifo` = the holders that are alive. -/
structure Pipe where
  content : Nat := 0
  readers : List Nat
  writers : List Nat
  deriving DecidableEq, Repr

/-- one pipeline: pipe `j` carries the output of stage `j` to stage `j+1` -/
structure PSys where
  stages : List Stage
  pipes : List Pipe
  deriving Repr

def PSys.alive (s : PSys) (i : Nat) : Bool :=
  match s.stages[i]? with
  | some st => st.exit.isNone
  | none => false

/-- number of live holders = the `readers` / `writers` counter of the FIFO -/
def PSys.live (s : PSys) (holders : List Nat) : Nat :=
  holders.countP fun i => s.alive i

inductive RdOut where
  | eof
  | block
  | got (m : Nat)
  deriving DecidableEq, Repr

/-- `read(0, buf[..want])` in stage `i` (`want ≥ 1`).  Standard input of the first stage is the shell's
    (an empty regular file in the run: end of file at once). -/
def sysRead (s : PSys) (i want : Nat) : RdOut :=
  match i with
  | 0 => .eof
  | j + 1 =>
    match s.pipes[j]? with
    | none => .eof
    | some p =>
      if p.content = 0 then (if s.live p.writers = 0 then .eof else .block)
      else .got (min want p.content)

inductive WrOut where
  | epipe
  | block
  | wrote (m : Nat)
  deriving DecidableEq, Repr

/-- `write(1, buf[..n])` in stage `i` (`n ≥ 1`).  Standard output of the last stage is not a pipe. -/
def sysWrite (c : PCfg) (s : PSys) (i n : Nat) : WrOut :=
  match s.pipes[i]? with
  | none => .wrote n
  | some p =>
    if s.live p.readers = 0 then .epipe
    else if c.cap - p.content < n then
      (if c.cap - p.content = 0 ∨ n ≤ c.pbuf then .block else .wrote (c.cap - p.content))
    else .wrote n

def setProg (s : PSys) (i : Nat) (p : SProg) : PSys :=
  { s with stages := s.stages.set i { prog := p } }

/-- the process ends: `set_state(Exited)` closes all its descriptors (it stops counting as a holder) -/
def exitStage (s : PSys) (i st : Nat) (p : SProg) : PSys :=
  { s with stages := s.stages.set i { prog := p, exit := some st } }

def addContent (s : PSys) (j m : Nat) : PSys :=
  match s.pipes[j]? with
  | some p => { s with pipes := s.pipes.set j { p with content := p.content + m } }
  | none => s

def subContent (s : PSys) (j m : Nat) : PSys :=
  match s.pipes[j]? with
  | some p => { s with pipes := s.pipes.set j { p with content := p.content - m } }
  | none => s

/-- One system call (or the exit) of stage `i`; `none` = the stage has ended or is blocked. -/
def stageStep (c : PCfg) (s : PSys) (i : Nat) : Option PSys :=
  match s.stages[i]? with
  | none => none
  | some st =>
    if st.exit.isSome then none
    else
      match st.prog with
      | .idle n => some (exitStage s i n (.idle n))
      | .spew 0 => some (exitStage s i 0 (.spew 0))
      | .spew (n + 1) =>
        match sysWrite c s i (n + 1) with
        | .epipe => some (exitStage s i 1 (.spew 0))
        | .block => none
        | .wrote m => some (addContent (setProg s i (.spew (n + 1 - m))) i m)
      | .take 0 n => some (exitStage s i n (.take 0 n))
      | .take (k + 1) n =>
        match sysRead s i (k + 1) with
        | .eof => some (exitStage s i n (.take 0 n))
        | .block => none
        | .got m => some (subContent (setProg s i (.take (k + 1 - m) n)) (i - 1) m)
      | .drain =>
        match sysRead s i c.chunk with
        | .eof => some (exitStage s i 0 .drain)
        | .block => none
        | .got m => some (subContent s (i - 1) m)
      | .cat 0 =>
        match sysRead s i c.chunk with
        | .eof => some (exitStage s i 0 (.cat 0))
        | .block => none
        | .got m => some (subContent (setProg s i (.cat m)) (i - 1) m)
      | .cat (b + 1) =>
        match sysWrite c s i (b + 1) with
        | .epipe => some (exitStage s i 1 (.cat 0))
        | .block => none
        | .wrote m => some (addContent (setProg s i (.cat (b + 1 - m))) i m)

/-- every stage has ended -/
def PSys.done (s : PSys) : Bool := s.stages.all fun st => st.exit.isSome

/-- the exit statuses, once ended -/
def PSys.statuses (s : PSys) : List Nat := s.stages.map fun st => st.exit.getD 999

/-- The pipeline as `execute_multi_command_pipeline` leaves it once every child has run
    `move_to_stdin_stdout` and the parent has closed its copies: pipe `j` is held for reading by
    stage `j+1` only and for writing by stage `j` only.  `leak j` adds what the child would keep if it
    did not close the read end of the pipe it writes to: stage `j` as a further reader of pipe `j`. -/
def mkPipeline (progs : List SProg) (leak : Bool := false) : PSys :=
  { stages := progs.map fun p => { prog := p },
    pipes := (List.range (progs.length - 1)).map fun j =>
      { readers := if leak then [j + 1, j] else [j + 1], writers := [j] } }

/-- stages that can move -/
def penabled (c : PCfg) (s : PSys) : List Nat :=
  (List.range s.stages.length).filter fun i => (stageStep c s i).isSome

def pickStage (choices : List Nat) (i : Nat) (is : List Nat) : Nat :=
  match choices with
  | [] => i
  | k :: _ => (i :: is).getD (k % (is.length + 1)) i

/-- runs under the scheduler `choices` (index into `penabled`, modulo its length) -/
def prun (c : PCfg) : Nat → List Nat → PSys → PSys
  | 0, _, s => s
  | fuel + 1, choices, s =>
    match penabled c s with
    | [] => s
    | i :: is =>
      match stageStep c s (pickStage choices i is) with
      | some s' => prun c fuel choices.tail s'
      | none => s

end YashModel.Proc
