/-
  C13 — pipelines of any number of stages: how each stage can end (own status, or 1 after EPIPE once its reader has
  ended), as an invariant of the pipeline model.  Helper lemmas for `flow_stages_end_own_or_epipe`.
-/
import YashModel.Proc.PipelineMeasure
namespace YashModel.Proc

/-! ### pipelines of ANY number of stages: how a stage can end -/

/-- the status a stage ends with when none of its writes fails -/
def ownStatus : SProg → Nat
  | .spew _ => 0
  | .take _ st => st
  | .drain => 0
  | .cat _ => 0
  | .idle st => st

/-- the stage writes to its standard output -/
def isWriter : SProg → Bool
  | .spew _ => true
  | .cat _ => true
  | _ => false

/-- what one step does to the stage that moves: the other stages are untouched, the stage keeps its kind, and if it
    ends it ends with its own status, or with 1 because its write failed with EPIPE -/
theorem stageStep_char {c : PCfg} {s s' : PSys} {i : Nat} (hs : stageStep c s i = some s') :
    ∃ st st', s.stages[i]? = some st ∧ st.exit = none ∧ s'.stages = s.stages.set i st' ∧
      s'.pipes.length = s.pipes.length ∧
      ownStatus st'.prog = ownStatus st.prog ∧ isWriter st'.prog = isWriter st.prog ∧
      (∀ e, st'.exit = some e →
        e = ownStatus st.prog ∨
        (e = 1 ∧ isWriter st.prog = true ∧ ∃ n, sysWrite c s i n = .epipe)) := by
  unfold stageStep at hs
  split at hs
  · simp at hs
  · rename_i st hst
    split at hs
    · simp at hs
    · rename_i hex
      have hnone : st.exit = none := by
        cases he : st.exit with
        | none => rfl
        | some e => simp [he] at hex
      split at hs
      · rename_i n hp
        simp only [Option.some.injEq] at hs; subst hs
        exact ⟨st, _, hst, hnone, rfl, rfl, by simp [hp, ownStatus], by simp [hp, isWriter],
          by intro e he; left; simp at he; simp [hp, ownStatus, he]⟩
      · rename_i hp
        simp only [Option.some.injEq] at hs; subst hs
        exact ⟨st, _, hst, hnone, rfl, rfl, by simp [hp, ownStatus], by simp [hp, isWriter],
          by intro e he; left; simp at he; simp [hp, ownStatus, he]⟩
      · rename_i n hp
        split at hs
        · rename_i hw
          simp only [Option.some.injEq] at hs; subst hs
          exact ⟨st, _, hst, hnone, rfl, rfl, by simp [hp, ownStatus], by simp [hp, isWriter],
            by intro e he; right; simp at he; exact ⟨he.symm, by simp [hp, isWriter], _, hw⟩⟩
        · simp at hs
        · rename_i m _
          simp only [Option.some.injEq] at hs; subst hs
          exact ⟨st, { prog := .spew (n + 1 - m) }, hst, hnone, by simp [addContent_stages, setProg], by simp [addContent_len, setProg],
            by simp [hp, ownStatus], by simp [hp, isWriter], by intro e he; simp at he⟩
      · rename_i n hp
        simp only [Option.some.injEq] at hs; subst hs
        exact ⟨st, _, hst, hnone, rfl, rfl, by simp [hp, ownStatus], by simp [hp, isWriter],
          by intro e he; left; simp at he; simp [hp, ownStatus, he]⟩
      · rename_i k n hp
        split at hs
        · simp only [Option.some.injEq] at hs; subst hs
          exact ⟨st, _, hst, hnone, rfl, rfl, by simp [hp, ownStatus], by simp [hp, isWriter],
            by intro e he; left; simp at he; simp [hp, ownStatus, he]⟩
        · simp at hs
        · rename_i m _
          simp only [Option.some.injEq] at hs; subst hs
          exact ⟨st, { prog := .take (k + 1 - m) n }, hst, hnone, by simp [subContent_stages, setProg], by simp [subContent_len, setProg],
            by simp [hp, ownStatus], by simp [hp, isWriter], by intro e he; simp at he⟩
      · rename_i hp
        split at hs
        · simp only [Option.some.injEq] at hs; subst hs
          exact ⟨st, _, hst, hnone, rfl, rfl, by simp [hp, ownStatus], by simp [hp, isWriter],
            by intro e he; left; simp at he; simp [hp, ownStatus, he]⟩
        · simp at hs
        · simp only [Option.some.injEq] at hs; subst hs
          refine ⟨st, st, hst, hnone, ?_, by simp [subContent_len], rfl, rfl, by intro e he; simp [hnone] at he⟩
          rw [subContent_stages]
          apply List.ext_getElem?
          intro k
          rw [get_set hst st k]
          split
          · rename_i hk; rw [hk]; exact hst
          · rfl
      · rename_i hp
        split at hs
        · simp only [Option.some.injEq] at hs; subst hs
          exact ⟨st, _, hst, hnone, rfl, rfl, by simp [hp, ownStatus], by simp [hp, isWriter],
            by intro e he; left; simp at he; simp [hp, ownStatus, he]⟩
        · simp at hs
        · rename_i m _
          simp only [Option.some.injEq] at hs; subst hs
          exact ⟨st, { prog := .cat m }, hst, hnone, by simp [subContent_stages, setProg], by simp [subContent_len, setProg],
            by simp [hp, ownStatus], by simp [hp, isWriter], by intro e he; simp at he⟩
      · rename_i b hp
        split at hs
        · rename_i hw
          simp only [Option.some.injEq] at hs; subst hs
          exact ⟨st, _, hst, hnone, rfl, rfl, by simp [hp, ownStatus], by simp [hp, isWriter],
            by intro e he; right; simp at he; exact ⟨he.symm, by simp [hp, isWriter], _, hw⟩⟩
        · simp at hs
        · rename_i m _
          simp only [Option.some.injEq] at hs; subst hs
          exact ⟨st, { prog := .cat (b + 1 - m) }, hst, hnone, by simp [addContent_stages, setProg], by simp [addContent_len, setProg],
            by simp [hp, ownStatus], by simp [hp, isWriter], by intro e he; simp at he⟩

theorem epipe_dead {c : PCfg} {s : PSys} {i n : Nat} (h : Hyg c s) (hw : sysWrite c s i n = .epipe) :
    s.alive (i + 1) = false ∧ i < s.pipes.length := by
  unfold sysWrite at hw
  cases hp : s.pipes[i]? with
  | none => simp [hp] at hw
  | some p =>
    simp only [hp] at hw
    refine ⟨?_, lt_of_get hp⟩
    rw [(h.holders i p hp).1, live_single] at hw
    cases ha : s.alive (i + 1) with
    | false => rfl
    | true =>
      simp [ha] at hw
      repeat' split at hw
      all_goals simp at hw

/-- how the stages of a pipeline of ANY length stand, in every reachable state: each stage keeps its kind; a stage that
    has ended has ended with its own status, or — a writer that is not the last stage — with 1 after a write that failed
    with EPIPE, and then its reader (the next stage) has ended before it -/
structure FlowInv (c : PCfg) (progs : List SProg) (s : PSys) : Prop where
  hyg : Hyg c s
  len : s.stages.length = progs.length
  kind : ∀ (i : Nat) (st : Stage) (p : SProg), s.stages[i]? = some st → progs[i]? = some p →
    ownStatus st.prog = ownStatus p ∧ isWriter st.prog = isWriter p
  ended : ∀ (i : Nat) (st : Stage) (p : SProg) (e : Nat), s.stages[i]? = some st → progs[i]? = some p →
    st.exit = some e →
    e = ownStatus p ∨ (e = 1 ∧ isWriter p = true ∧ i + 1 < progs.length ∧ s.alive (i + 1) = false)

theorem flowInv_init (c : PCfg) (progs : List SProg) (hne : progs ≠ []) : FlowInv c progs (mkPipeline progs) := by
  refine ⟨hyg_init c progs hne, by simp [mkPipeline], ?_, ?_⟩
  · intro i st p hst hp
    simp only [mkPipeline, List.getElem?_map, hp, Option.map_some, Option.some.injEq] at hst
    subst hst; exact ⟨rfl, rfl⟩
  · intro i st p e hst hp he
    simp only [mkPipeline, List.getElem?_map, hp, Option.map_some, Option.some.injEq] at hst
    subst hst; simp at he

theorem flowInv_step {c : PCfg} {progs : List SProg} {s s' : PSys} {i : Nat} (h : FlowInv c progs s)
    (hs : stageStep c s i = some s') : FlowInv c progs s' := by
  obtain ⟨st, st', hst, hnone, hstages, hplen, hown, hwr, hend⟩ := stageStep_char hs
  have hget : ∀ k, s'.stages[k]? = if k = i then some st' else s.stages[k]? := by
    intro k; rw [hstages]; exact get_set hst st' k
  have halive : ∀ k, s.alive k = false → s'.alive k = false := by
    intro k hk
    unfold PSys.alive at hk ⊢
    rw [hget k]
    by_cases hki : k = i
    · subst hki; rw [hst] at hk; simp [hnone] at hk
    · simp only [hki, if_false]; exact hk
  refine ⟨hyg_step h.hyg hs, by rw [hstages, List.length_set]; exact h.len, ?_, ?_⟩
  · intro k stk p hk hp
    rw [hget k] at hk
    by_cases hki : k = i
    · subst hki
      simp at hk; subst hk
      obtain ⟨h1, h2⟩ := h.kind k st p hst hp
      exact ⟨hown.trans h1, hwr.trans h2⟩
    · simp only [hki, if_false] at hk
      exact h.kind k stk p hk hp
  · intro k stk p e hk hp he
    rw [hget k] at hk
    by_cases hki : k = i
    · subst hki
      simp at hk; subst hk
      obtain ⟨h1, h2⟩ := h.kind k st p hst hp
      rcases hend e he with h3 | ⟨h3, h4, n, h5⟩
      · exact Or.inl (h3.trans h1)
      · obtain ⟨h6, h7⟩ := epipe_dead h.hyg h5
        refine Or.inr ⟨h3, h2 ▸ h4, ?_, halive _ h6⟩
        have := h.hyg.len
        have := h.len
        omega
    · simp only [hki, if_false] at hk
      rcases h.ended k stk p e hk hp he with h1 | ⟨h1, h2, h3, h4⟩
      · exact Or.inl h1
      · exact Or.inr ⟨h1, h2, h3, halive _ h4⟩

theorem flowInv_steps {c : PCfg} {progs : List SProg} {s t : PSys} (h : PSteps c s t) (hi : FlowInv c progs s) :
    FlowInv c progs t := by
  induction h with
  | refl => exact hi
  | tail i _ hs ih => exact flowInv_step ih hs

end YashModel.Proc
