/-
  C13 — the descriptor shuffling of a pipeline child: `PipeSet::move_to_stdin_stdout`
  (yash-semantics/src/command/pipeline.rs), on a descriptor table that maps a descriptor to what it
  refers to.  Import-free definitions (part of the Impl model) and the lemmas for
  `child_setup_establishes_hygiene`.

  Allocation is not modelled by "lowest free descriptor": wherever the kernel picks a descriptor
  (`dup(STDOUT, Fd(0), …)`), the model takes ANY free one as a parameter, so the theorems hold for
  every allocation policy.
-/
namespace YashModel.Proc

/-- what a descriptor refers to: the read end / write end of pipe `j`, or something that is not a pipe of
    this pipeline (a file, a terminal, …) -/
inductive Res where
  | rd (j : Nat)
  | wr (j : Nat)
  | other
  deriving DecidableEq, Repr

def Res.isPipeEnd : Res → Bool
  | .other => false
  | _ => true

/-- descriptor table of one process -/
abbrev FdTab := Nat → Option Res

/-- `close(fd)`: EBADF (`none`) if `fd` is not open -/
def FdTab.close (T : FdTab) (fd : Nat) : Option FdTab :=
  if (T fd).isSome then some (fun k => if k = fd then none else T k) else none

/-- `dup2(from, to)`: EBADF if `from` is not open; `to` is silently replaced; `from = to` changes nothing -/
def FdTab.dup2 (T : FdTab) (frm to : Nat) : Option FdTab :=
  match T frm with
  | none => none
  | some r => some (fun k => if k = to then some r else T k)

/-- `dup(from, min, flags)`: the kernel picks a free descriptor `d ≥ min` (here `min = 0`): any free `d` -/
def FdTab.dupTo (T : FdTab) (frm d : Nat) : Option FdTab :=
  match T frm with
  | none => none
  | some r => if (T d).isNone then some (fun k => if k = d then some r else T k) else none

/-- `PipeSet { read_previous, next: (reader, writer) }` -/
structure PipeSet where
  readPrevious : Option Nat
  next : Option (Nat × Nat)
  deriving Repr

/-- `PipeSet::move_to_stdin_stdout` in the child (every `?` is an early `none`):
    ```
    if let Some((reader, writer)) = self.next {
        env.system.close(reader)?;
        if writer != Fd::STDOUT {
            if self.read_previous == Some(Fd::STDOUT) {
                self.read_previous = Some(env.system.dup(Fd::STDOUT, Fd(0), EnumSet::empty())?);
            }
            env.system.dup2(writer, Fd::STDOUT)?;
            env.system.close(writer)?;
        }
    }
    if let Some(reader) = self.read_previous && reader != Fd::STDIN {
        env.system.dup2(reader, Fd::STDIN)?;
        env.system.close(reader)?;
    }
    ``` -/
def moveToStdinStdout (T : FdTab) (ps : PipeSet) (d : Nat) : Option FdTab :=
  let step1 : Option (FdTab × Option Nat) :=
    match ps.next with
    | none => some (T, ps.readPrevious)
    | some (reader, writer) =>
      match T.close reader with
      | none => none
      | some T1 =>
        if writer = 1 then some (T1, ps.readPrevious)
        else
          let moved : Option (FdTab × Option Nat) :=
            if ps.readPrevious = some 1 then
              match T1.dupTo 1 d with
              | none => none
              | some T2 => some (T2, some d)
            else some (T1, ps.readPrevious)
          match moved with
          | none => none
          | some (T2, rp) =>
            match T2.dup2 writer 1 with
            | none => none
            | some T3 =>
              match T3.close writer with
              | none => none
              | some T4 => some (T4, rp)
  match step1 with
  | none => none
  | some (T5, rp) =>
    match rp with
    | none => some T5
    | some reader =>
      if reader = 0 then some T5
      else
        match T5.dup2 reader 0 with
        | none => none
        | some T6 => T6.close reader

/-- The table the child inherits, for the stage that reads pipe `jin` (if `readPrevious` is set) and
    writes pipe `jout` (if `next` is set): the descriptors named by the `PipeSet` are open, refer to those
    ends, are pairwise different (the `assert_ne!`s of the function), and no other descriptor refers to an
    end of a pipe of this pipeline (the parent has closed the earlier ones: `PipeSet::shift`). -/
structure ChildStart (T : FdTab) (ps : PipeSet) (jin jout : Nat) : Prop where
  prev : ∀ p, ps.readPrevious = some p → T p = some (.rd jin)
  nextR : ∀ r w, ps.next = some (r, w) → T r = some (.rd jout)
  nextW : ∀ r w, ps.next = some (r, w) → T w = some (.wr jout)
  distinctRW : ∀ r w, ps.next = some (r, w) → r ≠ w
  distinctP : ∀ p r w, ps.readPrevious = some p → ps.next = some (r, w) → p ≠ r ∧ p ≠ w
  only : ∀ fd res, T fd = some res → res.isPipeEnd = true →
    ps.readPrevious = some fd ∨ (∃ w, ps.next = some (fd, w)) ∨ (∃ r, ps.next = some (r, fd))

/-- "the stage holds exactly its stdin reader and its stdout writer": descriptor 0 is the read end of the
    incoming pipe (if there is one), descriptor 1 the write end of the outgoing pipe (if there is one), and
    no other descriptor refers to an end of a pipe of this pipeline -/
structure ChildHygienic (T : FdTab) (ps : PipeSet) (jin jout : Nat) : Prop where
  stdin : ps.readPrevious.isSome = true → T 0 = some (.rd jin)
  stdout : ps.next.isSome = true → T 1 = some (.wr jout)
  only : ∀ fd res, T fd = some res → res.isPipeEnd = true →
    (fd = 0 ∧ res = .rd jin ∧ ps.readPrevious.isSome = true) ∨
    (fd = 1 ∧ res = .wr jout ∧ ps.next.isSome = true)

end YashModel.Proc
