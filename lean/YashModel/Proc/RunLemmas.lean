/-
  C13 — the executable scheduler `run` (what the driver computes) is a complete run: with enough fuel it
  ends in a final state, whatever the choices.
-/
import YashModel.Proc.Steps
namespace YashModel.Proc

theorem step_none_of_not_enabled {s : Sys} {l : Label} (h : l ∉ enabled s) : step s l = none := by
  cases hs : step s l with
  | none => rfl
  | some s' =>
    exfalso
    apply h
    unfold enabled
    rw [List.mem_filter]
    refine ⟨?_, by simp [hs]⟩
    cases l with
    | parent => simp
    | child i =>
      simp only [List.mem_cons, List.mem_map, List.mem_range]
      right
      refine ⟨i, ?_, rfl⟩
      simp only [step] at hs
      unfold childStep at hs
      split at hs
      · rename_i c hc
        rcases Nat.lt_or_ge i s.children.length with h' | h'
        · exact h'
        · simp [List.getElem?_eq_none h'] at hc
      · simp at hs

theorem pickLabel_mem (choices : List Nat) (l : Label) (ls : List Label) :
    pickLabel choices l ls ∈ l :: ls := by
  unfold pickLabel
  cases choices with
  | nil => simp
  | cons c t =>
    simp only
    have hlt : c % (ls.length + 1) < (l :: ls).length := by
      simp only [List.length_cons]; exact Nat.mod_lt _ (by omega)
    rw [List.getD_eq_getElem?_getD, List.getElem?_eq_getElem hlt]
    simp only [Option.getD_some]
    exact List.getElem_mem hlt

theorem enabled_step {s : Sys} {l : Label} (h : l ∈ enabled s) : ∃ s', step s l = some s' := by
  unfold enabled at h
  rw [List.mem_filter] at h
  cases hs : step s l with
  | none => simp [hs] at h
  | some s' => exact ⟨s', rfl⟩

/-- ★ With fuel ≥ `measure s` the executable scheduler ends in a final state, for every list of choices. -/
theorem run_final_of_inv : ∀ (fuel : Nat) (choices : List Nat) (s : Sys), Inv s → measure s ≤ fuel →
    (run fuel choices s).final = true := by
  intro fuel
  induction fuel with
  | zero =>
    intro choices s hi hm
    simp only [run]
    cases hf : s.final with
    | true => rfl
    | false =>
      obtain ⟨l, s', hs⟩ := not_stuck hi hf
      have := measure_step l hs; omega
  | succ n ih =>
    intro choices s hi hm
    unfold run
    cases he : enabled s with
    | nil =>
      simp only
      cases hf : s.final with
      | true => rfl
      | false =>
        obtain ⟨l, s', hs⟩ := not_stuck hi hf
        have : step s l = none := step_none_of_not_enabled (by rw [he]; simp)
        rw [this] at hs; simp at hs
    | cons l ls =>
      simp only
      have hmem : pickLabel choices l ls ∈ enabled s := by rw [he]; exact pickLabel_mem _ _ _
      obtain ⟨s', hs'⟩ := enabled_step hmem
      rw [hs']
      simp only
      have := measure_step _ hs'
      exact ih _ s' (inv_step' _ hi hs') (by omega)

end YashModel.Proc
