/-
  C13 — the invariant of the parent/children system and its preservation by every step of every
  process; every step decreases the measure; no reachable non-final state is stuck.
-/
import YashModel.Proc.Lemmas
namespace YashModel.Proc

/-- how often the final state of child `i` has been handed out by `wait` -/
def logCount (log : List (Nat × Result)) (i : Nat) : Nat :=
  log.countP (fun e => e.1 == i)

structure Inv (s : Sys) : Prop where
  /-- a set `state_has_changed` flag belongs to a terminated child (no stop/continue in the model) -/
  changed_halted : ∀ (i : Nat) (c : Child), s.children[i]? = some c → c.changed = true →
    c.state.isAlive = false
  /-- the handler is installed before the poll -/
  handler : s.pc = .poll ∨ s.pc = .await → s.disp = .catch
  /-- no lost SIGCHLD -/
  no_lost : s.pc = .await → ∀ (i : Nat) (c : Child), s.children[i]? = some c → s.target.matches i →
    c.changed = true → s.pending = true
  /-- while blocked there is something to wait for -/
  awaited : s.pc = .await → ∃ (i : Nat) (c : Child), s.children[i]? = some c ∧ s.target.matches i ∧
    (c.state.isAlive = true ∨ c.changed = true)
  /-- reaped exactly once -/
  once : ∀ i : Nat, logCount s.log i = if reaped s.children i then 1 else 0
  /-- what was handed out is the child's final state -/
  logged : ∀ (i : Nat) (r : Result), (i, r) ∈ s.log → ∃ c, s.children[i]? = some c ∧ c.state = .halted r

theorem inv_init' (spec : List (Nat × Result)) (reqs : List Req) : Inv (init spec reqs) := by
  have hget : ∀ (i : Nat) (c : Child), (init spec reqs).children[i]? = some c →
      c.changed = false ∧ c.state.isAlive = true := by
    intro i c h
    simp only [init, List.getElem?_map] at h
    cases hs : spec[i]? with
    | none => simp [hs] at h
    | some p => simp [hs] at h; subst h; simp [PState.isAlive]
  refine ⟨?_, ?_, ?_, ?_, ?_, ?_⟩
  · intro i c h hc; have := (hget i c h).1; simp [hc] at this
  · intro h; simp [init] at h
  · intro h; simp [init] at h
  · intro h; simp [init] at h
  · intro i
    have : reaped (init spec reqs).children i = false := by
      unfold reaped
      split
      · rename_i c hc; simp [(hget i c hc).2]
      · rfl
    rw [this]; simp [init, logCount]
  · intro i r h; simp [init] at h

theorem reaped_set_other {cs : List Child} {i j : Nat} {c c' : Child} (h : cs[i]? = some c)
    (hj : j ≠ i) : reaped (cs.set i c') j = reaped cs j := by
  unfold reaped; rw [set_get h c' j]; simp [hj]

theorem reaped_set_self {cs : List Child} {i : Nat} {c c' : Child} (h : cs[i]? = some c) :
    reaped (cs.set i c') i = (!c'.state.isAlive && !c'.changed) := by
  unfold reaped; rw [set_get h c' i]; simp

theorem reaped_self {cs : List Child} {i : Nat} {c : Child} (h : cs[i]? = some c) :
    reaped cs i = (!c.state.isAlive && !c.changed) := by
  unfold reaped; rw [h]

theorem take_eq_set {cs : List Child} {i : Nat} {c : Child} (h : cs[i]? = some c) :
    take cs i = cs.set i { c with changed := false } := by
  unfold take; rw [h]

/-- a step of a child preserves the invariant -/
theorem inv_child {s s' : Sys} (i : Nat) (h : Inv s) (hs : childStep s i = some s') : Inv s' := by
  unfold childStep at hs
  split at hs
  · rename_i c hc
    split at hs
    · -- internal step
      rename_i f r hst
      simp only [Option.some.injEq] at hs; subst hs
      have hal : c.changed = false := by
        cases hch : c.changed with
        | false => rfl
        | true => have := h.changed_halted i c hc hch; simp [hst, PState.isAlive] at this
      refine ⟨?_, h.handler, ?_, ?_, ?_, ?_⟩
      · intro j c' hj hch
        simp only [set_get hc] at hj
        by_cases hji : j = i
        · simp [hji] at hj; subst hj; simp [hal] at hch
        · simp [hji] at hj; exact h.changed_halted j c' hj hch
      · intro hpc j c' hj hm hch
        simp only [set_get hc] at hj
        by_cases hji : j = i
        · simp [hji] at hj; subst hj; simp [hal] at hch
        · simp [hji] at hj; exact h.no_lost hpc j c' hj hm hch
      · intro hpc
        obtain ⟨j, c', hj, hm, hor⟩ := h.awaited hpc
        by_cases hji : j = i
        · subst hji
          refine ⟨j, { c with state := PState.running f r }, by simp [set_get hc], hm, Or.inl ?_⟩
          simp [PState.isAlive]
        · exact ⟨j, c', by simp [set_get hc, hji, hj], hm, hor⟩
      · intro j
        by_cases hji : j = i
        · subst hji
          rw [reaped_set_self hc]
          have := h.once j
          rw [reaped_self hc] at this
          simp [hst, PState.isAlive] at this ⊢
          exact this
        · rw [reaped_set_other hc hji]; exact h.once j
      · intro j r' hj
        obtain ⟨c', h1, h2⟩ := h.logged j r' hj
        by_cases hji : j = i
        · subst hji
          rw [hc] at h1; simp at h1; subst h1
          rw [hst] at h2; simp at h2
        · exact ⟨c', by simp [set_get hc, hji, h1], h2⟩
    · -- the child terminates: `set_state` + SIGCHLD to the parent
      rename_i r hst
      simp only [Option.some.injEq] at hs; subst hs
      have hal : c.changed = false := by
        cases hch : c.changed with
        | false => rfl
        | true => have := h.changed_halted i c hc hch; simp [hst, PState.isAlive] at this
      have hch' : ∀ (t : Sys), (raiseSigchld t).children = t.children ∧ (raiseSigchld t).pc = t.pc ∧
          (raiseSigchld t).disp = t.disp ∧ (raiseSigchld t).target = t.target ∧
          (raiseSigchld t).log = t.log ∧ (t.disp = .catch → (raiseSigchld t).pending = true) ∧
          (t.pending = true → (raiseSigchld t).pending = true) := by
        intro t; unfold raiseSigchld; split <;> simp_all
      generalize hu : ({ s with children := s.children.set i { state := PState.halted r, changed := true } } : Sys) = u
      have huc : u.children = s.children.set i { state := PState.halted r, changed := true } := by subst hu; rfl
      have hupc : u.pc = s.pc := by subst hu; rfl
      have hud : u.disp = s.disp := by subst hu; rfl
      have hut : u.target = s.target := by subst hu; rfl
      have hul : u.log = s.log := by subst hu; rfl
      have hup : u.pending = s.pending := by subst hu; rfl
      obtain ⟨k1, k2, k3, k4, k5, k6, k7⟩ := hch' u
      refine ⟨?_, ?_, ?_, ?_, ?_, ?_⟩
      · intro j c' hj hch
        rw [k1, huc] at hj
        simp only [set_get hc] at hj
        by_cases hji : j = i
        · simp [hji] at hj; subst hj; simp [PState.isAlive]
        · simp [hji] at hj; exact h.changed_halted j c' hj hch
      · rw [k2, k3, hupc, hud]; exact h.handler
      · intro hpc j c' hj hm hch
        rw [k2, hupc] at hpc
        have hd := h.handler (Or.inr hpc)
        exact k6 (by rw [hud]; exact hd)
      · intro hpc
        rw [k2, hupc] at hpc
        obtain ⟨j, c', hj, hm, hor⟩ := h.awaited hpc
        rw [k1, huc, k4, hut]
        by_cases hji : j = i
        · subst hji
          exact ⟨j, { state := PState.halted r, changed := true }, by simp [set_get hc], hm, Or.inr rfl⟩
        · exact ⟨j, c', by simp [set_get hc, hji, hj], hm, hor⟩
      · intro j
        rw [k5, hul, k1, huc]
        by_cases hji : j = i
        · subst hji
          rw [reaped_set_self hc]
          have := h.once j
          rw [reaped_self hc] at this
          simp [hst, PState.isAlive] at this ⊢
          exact this
        · rw [reaped_set_other hc hji]; exact h.once j
      · intro j r' hj
        rw [k5, hul] at hj
        rw [k1, huc]
        obtain ⟨c', h1, h2⟩ := h.logged j r' hj
        by_cases hji : j = i
        · subst hji
          rw [hc] at h1; simp at h1; subst h1
          rw [hst] at h2; simp at h2
        · exact ⟨c', by simp [set_get hc, hji, h1], h2⟩
    · simp at hs
  · simp at hs

/-- `take_state` on a child whose flag is set: the other fields of the invariant -/
theorem inv_take {s : Sys} {i : Nat} {c : Child} (h : Inv s) (hc : s.children[i]? = some c)
    (hch : c.changed = true) :
    (∀ (j : Nat) (c' : Child), (take s.children i)[j]? = some c' → c'.changed = true →
        c'.state.isAlive = false) ∧
    (∀ j : Nat, logCount (logOf i c.state ++ s.log) j = if reaped (take s.children i) j then 1 else 0) ∧
    (∀ (j : Nat) (r : Result), (j, r) ∈ logOf i c.state ++ s.log →
        ∃ c', (take s.children i)[j]? = some c' ∧ c'.state = .halted r) := by
  have hdead := h.changed_halted i c hc hch
  obtain ⟨r0, hr0⟩ : ∃ r0, c.state = .halted r0 := by
    cases hst : c.state with
    | running f r => simp [hst, PState.isAlive] at hdead
    | halted r => exact ⟨r, rfl⟩
  refine ⟨?_, ?_, ?_⟩
  · intro j c' hj hch'
    rw [take_get hc] at hj
    by_cases hji : j = i
    · simp [hji] at hj; subst hj; simp at hch'
    · simp [hji] at hj; exact h.changed_halted j c' hj hch'
  · intro j
    rw [take_eq_set hc, hr0]
    simp only [logOf, logCount, List.cons_append, List.nil_append, List.countP_cons]
    by_cases hji : j = i
    · subst hji
      rw [reaped_set_self hc]
      have := h.once j
      rw [reaped_self hc] at this
      simp [hch, logCount] at this
      simp [PState.isAlive]
      exact this
    · rw [reaped_set_other hc hji]
      have := h.once j
      have hne : ¬ i = j := fun e => hji e.symm
      simp [logCount] at this
      simp [hne, this]
  · intro j r hj
    rw [hr0] at hj
    simp only [logOf, List.cons_append, List.nil_append, List.mem_cons] at hj
    rw [take_get hc]
    rcases hj with hj | hj
    · simp only [Prod.mk.injEq] at hj
      obtain ⟨rfl, rfl⟩ := hj
      exact ⟨{ c with changed := false }, by simp, hr0⟩
    · obtain ⟨c', h1, h2⟩ := h.logged j r hj
      by_cases hji : j = i
      · subst hji
        rw [hc] at h1; simp at h1; subst h1
        exact ⟨{ c with changed := false }, by simp, h2⟩
      · exact ⟨c', by simp [hji, h1], h2⟩

/-- a step of the parent preserves the invariant -/
theorem inv_parent {s s' : Sys} (h : Inv s) (hs : parentStep s = some s') : Inv s' := by
  unfold parentStep at hs
  split at hs
  · -- enable
    rename_i hpc
    simp only [Option.some.injEq] at hs; subst hs
    exact ⟨h.changed_halted, fun _ => rfl, by intro h'; simp at h', by intro h'; simp at h',
      h.once, h.logged⟩
  · -- poll
    rename_i hpc
    split at hs
    · rename_i i r hw
      simp only [Option.some.injEq] at hs; subst hs
      obtain ⟨c, hc, hch, hst, _⟩ := sysWait_state hw
      obtain ⟨t1, t2, t3⟩ := inv_take h hc hch
      rw [hst] at t2 t3
      exact ⟨t1, by intro h'; simp at h', by intro h'; simp at h', by intro h'; simp at h',
        by simpa [logOf] using t2, by simpa [logOf] using t3⟩
    · rename_i i f r hw
      simp only [Option.some.injEq] at hs; subst hs
      obtain ⟨c, hc, hch, hst, _⟩ := sysWait_state hw
      obtain ⟨t1, t2, t3⟩ := inv_take h hc hch
      rw [hst] at t2 t3
      exact ⟨t1, by intro h'; simp at h', by intro h'; simp at h', by intro h'; simp at h',
        by simpa [logOf] using t2, by simpa [logOf] using t3⟩
    · rename_i hw
      simp only [Option.some.injEq] at hs; subst hs
      obtain ⟨⟨i, c, hc, hm, hal⟩, hno⟩ := sysWait_none hw
      refine ⟨h.changed_halted, fun _ => h.handler (Or.inl hpc), ?_, ?_, h.once, h.logged⟩
      · intro _ j c' hj hm' hch
        have := hno j c' hj hm'; simp [hch] at this
      · intro _; exact ⟨i, c, hc, hm, Or.inl hal⟩
    · simp only [Option.some.injEq] at hs; subst hs
      exact ⟨h.changed_halted, by intro h'; simp at h', by intro h'; simp at h',
        by intro h'; simp at h', h.once, h.logged⟩
  · -- await
    rename_i hpc
    split at hs
    · simp only [Option.some.injEq] at hs; subst hs
      exact ⟨h.changed_halted, fun _ => h.handler (Or.inr hpc), by intro h'; simp at h',
        by intro h'; simp at h', h.once, h.logged⟩
    · simp at hs
  · -- reap
    rename_i hpc
    split at hs
    · rename_i i st hw
      simp only [Option.some.injEq] at hs; subst hs
      obtain ⟨c, hc, hch, hst, _⟩ := sysWait_state hw
      obtain ⟨t1, t2, t3⟩ := inv_take h hc hch
      rw [hst] at t2 t3
      exact ⟨t1, by intro h'; simp [hpc] at h', by intro h'; simp [hpc] at h',
        by intro h'; simp [hpc] at h', t2, t3⟩
    · simp only [Option.some.injEq] at hs; subst hs
      exact ⟨h.changed_halted, by intro h'; simp at h', by intro h'; simp at h',
        by intro h'; simp at h', h.once, h.logged⟩
    · simp only [Option.some.injEq] at hs; subst hs
      exact ⟨h.changed_halted, by intro h'; simp at h', by intro h'; simp at h',
        by intro h'; simp at h', h.once, h.logged⟩
  · -- done: next request
    rename_i hpc
    split at hs
    · simp at hs
    · simp only [Option.some.injEq] at hs; subst hs
      exact ⟨h.changed_halted, by intro h'; simp at h', by intro h'; simp at h',
        by intro h'; simp at h', h.once, h.logged⟩
    · simp only [Option.some.injEq] at hs; subst hs
      exact ⟨h.changed_halted, by intro h'; simp at h', by intro h'; simp at h',
        by intro h'; simp at h', h.once, h.logged⟩

theorem inv_step' {s s' : Sys} (l : Label) (h : Inv s) (hs : step s l = some s') : Inv s' := by
  cases l with
  | parent => exact inv_parent h hs
  | child i => exact inv_child i h hs

/-! ### every step decreases the measure -/

theorem measure_child {s s' : Sys} (i : Nat) (hs : childStep s i = some s') :
    measure s' < measure s := by
  unfold childStep at hs
  split at hs
  · rename_i c hc
    split at hs
    · rename_i f r hst
      simp only [Option.some.injEq] at hs; subst hs
      have := childrenW_set hc { c with state := PState.running f r }
      simp only [measure, childW, hst] at this ⊢
      omega
    · rename_i r hst
      simp only [Option.some.injEq] at hs; subst hs
      have := childrenW_set hc { state := PState.halted r, changed := true }
      have hr : ∀ t : Sys, measure (raiseSigchld t) ≤ measure t + 2 := by
        intro t; unfold raiseSigchld measure
        cases t.disp <;> simp <;> split <;> omega
      refine Nat.lt_of_le_of_lt (hr _) ?_
      simp only [measure, childW, hst] at this ⊢
      simp at this
      split at this <;> omega
    · simp at hs
  · simp at hs

theorem measure_parent {s s' : Sys} (hs : parentStep s = some s') : measure s' < measure s := by
  unfold parentStep at hs
  split at hs
  · rename_i hpc
    simp only [Option.some.injEq] at hs; subst hs
    simp [measure, hpc, pcW]
  · rename_i hpc
    split at hs
    · rename_i i r hw
      simp only [Option.some.injEq] at hs; subst hs
      obtain ⟨c, hc, hch, _, _⟩ := sysWait_state hw
      have := childrenW_take hc hch
      simp only [measure, hpc, pcW]; omega
    · rename_i i f r hw
      simp only [Option.some.injEq] at hs; subst hs
      obtain ⟨c, hc, hch, _, _⟩ := sysWait_state hw
      have := childrenW_take hc hch
      simp only [measure, hpc, pcW]; omega
    · simp only [Option.some.injEq] at hs; subst hs
      simp only [measure, hpc, pcW]; omega
    · simp only [Option.some.injEq] at hs; subst hs
      simp only [measure, hpc, pcW]; omega
  · rename_i hpc
    split at hs
    · rename_i hp
      simp only [Option.some.injEq] at hs; subst hs
      simp only [measure, hpc, pcW, hp]; simp
    · simp at hs
  · rename_i hpc
    split at hs
    · rename_i i st hw
      simp only [Option.some.injEq] at hs; subst hs
      obtain ⟨c, hc, hch, _, _⟩ := sysWait_state hw
      have := childrenW_take hc hch
      simp only [measure, hpc, pcW]; omega
    · simp only [Option.some.injEq] at hs; subst hs
      simp only [measure, hpc, pcW]; omega
    · simp only [Option.some.injEq] at hs; subst hs
      simp only [measure, hpc, pcW]; omega
  · rename_i hpc
    split at hs
    · simp at hs
    · rename_i t rest htodo
      simp only [Option.some.injEq] at hs; subst hs
      simp only [measure, hpc, pcW, htodo, List.length_cons]; omega
    · rename_i rest htodo
      simp only [Option.some.injEq] at hs; subst hs
      simp only [measure, hpc, pcW, htodo, List.length_cons]; omega

theorem measure_step {s s' : Sys} (l : Label) (hs : step s l = some s') : measure s' < measure s := by
  cases l with
  | parent => exact measure_parent hs
  | child i => exact measure_child i hs

/-! ### no deadlock -/

theorem child_alive_enabled {s : Sys} {i : Nat} {c : Child} (hc : s.children[i]? = some c)
    (hal : c.state.isAlive = true) : ∃ s', childStep s i = some s' := by
  unfold childStep
  cases hst : c.state with
  | halted r => simp [hst, PState.isAlive] at hal
  | running f r =>
    cases f with
    | zero => simp only [hc, hst]; exact ⟨_, rfl⟩
    | succ f => simp only [hc, hst]; exact ⟨_, rfl⟩

/-- In a state satisfying the invariant that is not final some process can move. -/
theorem not_stuck {s : Sys} (h : Inv s) (hf : s.final = false) : ∃ l s', step s l = some s' := by
  cases hpc : s.pc with
  | enable =>
    refine ⟨.parent, ?_⟩
    simp only [step, parentStep, hpc]
    exact ⟨_, rfl⟩
  | poll =>
    refine ⟨.parent, ?_⟩
    simp only [step, parentStep, hpc]
    split <;> exact ⟨_, rfl⟩
  | reap =>
    refine ⟨.parent, ?_⟩
    simp only [step, parentStep, hpc]
    split <;> exact ⟨_, rfl⟩
  | done =>
    refine ⟨.parent, ?_⟩
    simp only [step, parentStep, hpc]
    cases htodo : s.todo with
    | nil => simp [Sys.final, hpc, htodo] at hf
    | cons r rest => cases r <;> exact ⟨_, rfl⟩
  | await =>
    obtain ⟨i, c, hc, hm, hor⟩ := h.awaited hpc
    by_cases hch : c.changed = true
    · have hp := h.no_lost hpc i c hc hm hch
      refine ⟨.parent, ?_⟩
      simp only [step, parentStep, hpc, hp]
      exact ⟨_, rfl⟩
    · rcases hor with hal | hch'
      · obtain ⟨s', hs'⟩ := child_alive_enabled hc hal
        exact ⟨.child i, s', hs'⟩
      · exact absurd hch' hch

/-! ### runs under an arbitrary scheduler -/

/-- `Steps s t`: some scheduler leads from `s` to `t` (any finite sequence of enabled steps) -/
inductive Steps : Sys → Sys → Prop where
  | refl (s : Sys) : Steps s s
  | tail {s t u : Sys} (l : Label) : Steps s t → step t l = some u → Steps s u

/-- `StepsN n s t`: a run of exactly `n` steps -/
inductive StepsN : Nat → Sys → Sys → Prop where
  | refl (s : Sys) : StepsN 0 s s
  | tail {n : Nat} {s t u : Sys} (l : Label) : StepsN n s t → step t l = some u → StepsN (n + 1) s u

/-- reachable from the initial state of some children (`spec`: internal steps and final status of
    every child) and some list of requests of the parent, under some scheduler -/
def Reachable (spec : List (Nat × Result)) (reqs : List Req) (s : Sys) : Prop :=
  Steps (init spec reqs) s

theorem Steps.trans {s t u : Sys} (h1 : Steps s t) (h2 : Steps t u) : Steps s u := by
  induction h2 with
  | refl => exact h1
  | tail l _ hs ih => exact .tail l ih hs

theorem Steps.head {s t u : Sys} (l : Label) (hs : step s l = some t) (h : Steps t u) : Steps s u :=
  Steps.trans (.tail l (.refl s) hs) h

theorem inv_steps {s t : Sys} (h : Steps s t) (hi : Inv s) : Inv t := by
  induction h with
  | refl => exact hi
  | tail l _ hs ih => exact inv_step' l ih hs

theorem reachable_inv {spec : List (Nat × Result)} {reqs : List Req} {s : Sys}
    (h : Reachable spec reqs s) : Inv s :=
  inv_steps h (inv_init' spec reqs)

/-- the executable scheduler `run` only takes steps of the system -/
theorem run_steps (fuel : Nat) (choices : List Nat) (s : Sys) : Steps s (run fuel choices s) := by
  induction fuel generalizing choices s with
  | zero => exact .refl s
  | succ n ih =>
    unfold run
    split
    · exact .refl s
    · split
      · rename_i s' hs'
        exact Steps.head _ hs' (ih _ _)
      · exact .refl s

/-- the final status of every child is fixed from the start: no step changes it -/
theorem fin_child {s s' : Sys} (i : Nat) (hs : childStep s i = some s') :
    s'.children.map (·.state.fin) = s.children.map (·.state.fin) := by
  unfold childStep at hs
  split at hs
  · rename_i c hc
    have key : ∀ c' : Child, c'.state.fin = c.state.fin →
        (s.children.set i c').map (·.state.fin) = s.children.map (·.state.fin) := by
      intro c' hfin
      apply List.ext_getElem?
      intro j
      simp only [List.getElem?_map, set_get hc]
      by_cases hji : j = i
      · subst hji; simp [hc, hfin]
      · simp [hji]
    split at hs
    · rename_i f r hst
      simp only [Option.some.injEq] at hs; subst hs
      exact key _ (by simp [hst, PState.fin])
    · rename_i r hst
      simp only [Option.some.injEq] at hs; subst hs
      have : ∀ t : Sys, (raiseSigchld t).children = t.children := by
        intro t; unfold raiseSigchld; split <;> rfl
      rw [this]
      exact key _ (by simp [hst, PState.fin])
    · simp at hs
  · simp at hs

theorem fin_take (cs : List Child) (i : Nat) :
    (take cs i).map (·.state.fin) = cs.map (·.state.fin) := by
  unfold take
  split
  · rename_i c hc
    apply List.ext_getElem?
    intro j
    simp only [List.getElem?_map, set_get hc]
    by_cases hji : j = i
    · subst hji; simp [hc]
    · simp [hji]
  · rfl

theorem fin_parent {s s' : Sys} (hs : parentStep s = some s') :
    s'.children.map (·.state.fin) = s.children.map (·.state.fin) := by
  unfold parentStep at hs
  repeat' split at hs
  all_goals first
    | (simp at hs; done)
    | (simp only [Option.some.injEq] at hs; subst hs; first | rfl | exact fin_take _ _)

theorem fin_steps {s t : Sys} (h : Steps s t) :
    t.children.map (·.state.fin) = s.children.map (·.state.fin) := by
  induction h with
  | refl => rfl
  | tail l _ hs ih =>
    rw [← ih]
    cases l with
    | parent => exact fin_parent hs
    | child i => exact fin_child i hs

end YashModel.Proc
