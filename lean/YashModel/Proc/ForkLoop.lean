/-
  C13 — the PARENT's side of a pipeline's descriptor set-up: `PipeSet::shift` and the fork loop of
  `execute_multi_command_pipeline` (yash-semantics/src/command/pipeline.rs), on the descriptor tables of
  `FdSetup.lean`.  Import-free apart from `FdSetup` (part of the Impl model, executed by the driver for
  the `fd` case family against the REAL descriptor tables of the virtual system).

  ```
  let mut pipes = PipeSet::new();
  while let Some(command) = commands.next() {
      let has_next = commands.len() > 0;
      shift_or_fail(env, &mut pipes, has_next).await?;      // PipeSet::shift
      let pipes = pipes;                                    // a copy goes into the child
      Config::new().start(env, async move |env, _| {        // fork: `child.fds = parent.fds.clone()`
          connect_pipe_and_execute_command(env, pipes, command)   // PipeSet::move_to_stdin_stdout
          …
  }
  shift_or_fail(env, &mut pipes, false).await?;
  ```

  Descriptor allocation is a PARAMETER (`Alloc`): which free descriptors `pipe()` and `dup()` return may
  depend on the stage number and on the table in any way; a choice that is not free makes the call fail
  (`none`).  `Alloc.lowest` is the policy of the virtual system (`min_unused_fd`), used by the driver.
-/
import YashModel.Proc.FdSetup
namespace YashModel.Proc

/-- `let _ = env.system.close(fd);` — the result is discarded (and `VirtualSystem::close` cannot fail) -/
def FdTab.closeIgn (T : FdTab) (fd : Nat) : FdTab := fun k => if k = fd then none else T k

/-- `env.system.pipe()` creating pipe `j`: the reader is allocated first, then the writer; both must be
    free (`open_fd` never returns a descriptor in use), else EMFILE -/
def FdTab.pipe (T : FdTab) (j r w : Nat) : Option FdTab :=
  if (T r).isNone ∧ (T w).isNone ∧ r ≠ w then
    some (fun k => if k = r then some (.rd j) else if k = w then some (.wr j) else T k)
  else none

/-- which descriptors the kernel hands out: `pipeR i T` = the reader for the pipe created for stage `i` in
    table `T`, `pipeW i T` = the writer (on the table that already contains the reader), `dupD i T` = the
    result of the `dup` of stage `i` -/
structure Alloc where
  pipeR : Nat → FdTab → Nat
  pipeW : Nat → FdTab → Nat
  dupD : Nat → FdTab → Nat

/-- the first free descriptor among `d, d+1, …, d+fuel-1`; `d + fuel` if there is none -/
def lowestFreeFrom (T : FdTab) : Nat → Nat → Nat
  | 0, d => d
  | fuel + 1, d => if (T d).isNone then d else lowestFreeFrom T fuel (d + 1)

/-- `min_unused_fd(Fd(0), …)` (yash-env/src/system/virtual/process.rs), searched below `bound` (`bound` itself
    if every descriptor below it is in use: the allocation then fails unless `bound` happens to be free) -/
def lowestFree (bound : Nat) (T : FdTab) : Nat := lowestFreeFrom T bound 0

/-- the allocation policy of the virtual system -/
def Alloc.lowest (bound : Nat) : Alloc :=
  { pipeR := fun _ T => lowestFree bound T, pipeW := fun _ T => lowestFree bound T,
    dupD := fun _ T => lowestFree bound T }

/-- `PipeSet::shift(env, has_next)`; `j` = the number of the pipe that is created:
    ```
    if let Some(fd) = self.read_previous { let _ = env.system.close(fd); }
    if let Some((reader, writer)) = self.next {
        let _ = env.system.close(writer);
        self.read_previous = Some(reader);
    } else { self.read_previous = None; }
    self.next = None;
    if has_next { self.next = Some(env.system.pipe()?); }
    ``` -/
def shiftClose (T : FdTab) (ps : PipeSet) : FdTab :=
  let T1 : FdTab := match ps.readPrevious with
    | some fd => T.closeIgn fd
    | none => T
  match ps.next with
  | some (_, writer) => T1.closeIgn writer
  | none => T1

/-- `PipeSet::shift`, see above (`shiftClose` = the two `close`s) -/
def shift (A : Alloc) (T : FdTab) (ps : PipeSet) (hasNext : Bool) (j : Nat) : Option (FdTab × PipeSet) :=
  let T2 := shiftClose T ps
  let rp : Option Nat := ps.next.map (·.1)
  if hasNext then
    let r := A.pipeR j T2
    let w := A.pipeW j (fun k => if k = r then some (.rd j) else T2 k)
    match T2.pipe j r w with
    | some T3 => some (T3, { readPrevious := rp, next := some (r, w) })
    | none => none
  else some (T2, { readPrevious := rp, next := none })

/-- The `while` loop of `execute_multi_command_pipeline` from stage `i` on with `rem` stages left, then the
    final `shift(false)`: what every child inherits at its fork (the parent's table and a copy of the
    `PipeSet`), and the parent's table and `PipeSet` at the end. -/
def forkLoop (A : Alloc) : (i rem : Nat) → FdTab → PipeSet → Option (List (FdTab × PipeSet) × FdTab × PipeSet)
  | i, 0, T, ps =>
    match shift A T ps false i with
    | some (T', ps') => some ([], T', ps')
    | none => none
  | i, rem + 1, T, ps =>
    match shift A T ps (decide (0 < rem)) i with
    | none => none
    | some (T1, ps1) =>
      match forkLoop A (i + 1) rem T1 ps1 with
      | none => none
      | some (cs, Tf, psf) => some ((T1, ps1) :: cs, Tf, psf)

/-- the table the kernel sees when the child calls `dup` (if it does): after `close(reader)` -/
def dupTable (T : FdTab) (ps : PipeSet) : FdTab :=
  match ps.next with
  | some (reader, _) => T.closeIgn reader
  | none => T

/-- the children run `move_to_stdin_stdout` on what they inherited (stage `i`, `i+1`, …) -/
def childTables (A : Alloc) : Nat → List (FdTab × PipeSet) → Option (List FdTab)
  | _, [] => some []
  | i, (T, ps) :: rest =>
    match moveToStdinStdout T ps (A.dupD i (dupTable T ps)) with
    | none => none
    | some T' =>
      match childTables A (i + 1) rest with
      | none => none
      | some ts => some (T' :: ts)

/-- The whole set-up of an `n`-stage pipeline started with table `T0`: the table of every stage when its
    command starts, and the parent's table afterwards. -/
def pipelineSetup (A : Alloc) (n : Nat) (T0 : FdTab) : Option (List FdTab × FdTab) :=
  match forkLoop A 0 n T0 { readPrevious := none, next := none } with
  | none => none
  | some (cs, Tf, _) =>
    match childTables A 0 cs with
    | none => none
    | some ts => some (ts, Tf)

/-- the table refers to no end of a pipe of this pipeline -/
def NoPipe (T : FdTab) : Prop := ∀ fd res, T fd = some res → res = .other

end YashModel.Proc
