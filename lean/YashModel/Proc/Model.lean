/-
  C13 — Impl model: one parent process and n child processes of the virtual system as a small-step
  system under an ARBITRARY scheduler (a step = the choice of which runnable process moves).

  Transcribed from (current /repo):
  * yash-env/src/system/virtual/process.rs   `Process { state, state_has_changed, … }`, `set_state`,
                                             `take_state`, `raise_signal`/`deliver_signal` (SIGCHLD)
  * yash-env/src/system/virtual.rs           `impl Exit` (`exit` → `set_state` → `raise_sigchld`),
                                             `impl Wait` (`wait`), `SystemState::child_to_wait_for`
  * yash-env/src/system/concurrency/signal.rs `set_disposition(Catch)` blocks the signal outside `select`
  * yash-env/src/system/virtual/select.rs    `select` unblocks, delivers the pending signal, returns EINTR
  * yash-env/src/lib.rs                      `Env::wait_for_subshell{,_to_halt,_to_finish}`,
                                             `Env::update_all_subshell_statuses`
  * yash-builtin/src/wait/core.rs            `wait_for_any_job_or_trap` (same order of the three phases)
  * yash-semantics/src/command/pipeline.rs   `execute_multi_command_pipeline` (status fold)
  * yash-builtin/src/wait.rs                 `ExitStatus::NOT_FOUND` for a job that is not known

  Not modelled: stopped/continued children (job control is off in everything C13 runs), signals other
  than SIGCHLD, file descriptors.  Every step of this model is atomic; the real code's
  check-then-register sequences (`Concurrent::select_impl`, `wait_for_signals`, waker registration in
  the virtual `select`) are exercised only by the schedule-exploring run (harness/src/bin/c13.rs).
-/
import YashModel.Generated.ProcConsts
namespace YashModel.Proc
open YashModel.Generated.ProcConsts (EXIT_SUCCESS EXIT_FAILURE EXIT_NOT_FOUND SIGNAL_EXIT_OFFSET)

/-- `ProcessResult::{Exited, Signaled}` — the final state of a process -/
inductive Result where
  | exited (st : Nat)
  | signaled (sig : Nat)
  deriving DecidableEq, Repr, Inhabited

/-- `ProcessState` of a child.  "Every child behaviour": a running child carries the number of
    internal steps it still takes (`fuel`, arbitrary) and the way it will end (`fin`, arbitrary). -/
inductive PState where
  | running (fuel : Nat) (fin : Result)
  | halted (r : Result)
  deriving DecidableEq, Repr, Inhabited

/-- `ProcessState::is_alive` -/
def PState.isAlive : PState → Bool
  | .running .. => true
  | .halted _ => false

/-- the status the child ends with, whatever the schedule -/
def PState.fin : PState → Result
  | .running _ r => r
  | .halted r => r

/-- `Process`: the two fields `wait` looks at -/
structure Child where
  state : PState
  /-- `state_has_changed`: set by `set_state`, cleared by `take_state` -/
  changed : Bool := false
  deriving DecidableEq, Repr, Inhabited

/-- disposition of SIGCHLD in the parent.  `catch` = the internal handler is installed, which (through
    `Concurrent::set_disposition`) also means: blocked outside `select`, unblocked inside. -/
inductive Disp where
  | default
  | catch
  deriving DecidableEq, Repr

/-- argument of `wait`: `Pid::ALL` (-1) or the pid of one child (child `i` has pid `i`) -/
inductive Target where
  | any
  | pid (i : Nat)
  deriving DecidableEq, Repr

/-- what the parent does next: one `wait_for_subshell_to_finish(target)` /
    `wait_for_any_job_or_trap()` (target `any`), or one `update_all_subshell_statuses()` -/
inductive Req where
  | wait (t : Target)
  | reapAll
  deriving DecidableEq, Repr

/-- program counter of the parent inside `wait_for_subshell`:
    `enable` = before `enable_internal_disposition_for_sigchld`, `poll` = before `system.wait(target)`,
    `await` = blocked in `wait_for_signal(SIGCHLD)` (i.e. in `select`), `reap` = inside the loop of
    `update_all_subshell_statuses`, `done` = between requests. -/
inductive Pc where
  | enable
  | poll
  | await
  | reap
  | done
  deriving DecidableEq, Repr

/-- outcome of a finished `wait` request -/
inductive WaitRes where
  | got (i : Nat) (r : Result)
  | echild
  deriving DecidableEq, Repr

structure Sys where
  children : List Child
  disp : Disp := .default
  /-- SIGCHLD is pending (raised while blocked, not yet delivered in `select`) -/
  pending : Bool := false
  pc : Pc := .done
  target : Target := .any
  todo : List Req := []
  /-- outcomes of the finished `wait` requests, most recent first -/
  results : List WaitRes := []
  /-- every final state handed out by `system.wait`, most recent first -/
  log : List (Nat × Result) := []
  deriving Repr

/-- initial system: child `i` runs for `spec[i].1` more steps and then ends with `spec[i].2` -/
def init (spec : List (Nat × Result)) (reqs : List Req) : Sys :=
  { children := spec.map fun (f, r) => { state := .running f r }, todo := reqs }

/-- no request in progress and none left -/
def Sys.final (s : Sys) : Bool :=
  s.pc == .done && s.todo.isEmpty

/-! ### the simulated kernel -/

/-- index of the first child whose `state_has_changed` flag is set -/
def firstChanged : List Child → Option Nat
  | [] => none
  | c :: t => if c.changed then some 0 else (firstChanged t).map (· + 1)

/-- index of the first child that is still alive -/
def firstAlive : List Child → Option Nat
  | [] => none
  | c :: t => if c.state.isAlive then some 0 else (firstAlive t).map (· + 1)

/-- `SystemState::child_to_wait_for` (every child in the model is a child of the parent).
    Branch `-1` (as of /repo d05a7cb): a child with a changed state is returned at once; otherwise the
    loop keeps the first child and replaces it by the first *alive* one (`is_better`), so an
    already-reaped child is selected only when there is nothing else. -/
def childToWaitFor (cs : List Child) : Target → Option Nat
  | .any =>
    match firstChanged cs with
    | some i => some i
    | none =>
      match firstAlive cs with
      | some i => some i
      | none => if cs.length = 0 then none else some 0
  | .pid i => if i < cs.length then some i else none

/-- `Ok(Some((pid, state)))`, `Ok(None)`, `Err(ECHILD)` -/
inductive WaitOut where
  | state (i : Nat) (st : PState)
  | none
  | echild
  deriving DecidableEq, Repr

/-- `VirtualSystem::wait` without the `take_state` side effect -/
def sysWait (cs : List Child) (t : Target) : WaitOut :=
  match childToWaitFor cs t with
  | none => .echild
  | some i =>
    match cs[i]? with
    | none => .echild
    | some c =>
      if c.changed then .state i c.state
      else if c.state.isAlive then .none
      else .echild

/-- `Process::take_state` on child `i` -/
def take (cs : List Child) (i : Nat) : List Child :=
  match cs[i]? with
  | some c => cs.set i { c with changed := false }
  | none => cs

/-- `raise_sigchld(parent)`: blocked (= caught) → pending; default disposition → discarded
    (`SignalEffect::None`) -/
def raiseSigchld (s : Sys) : Sys :=
  match s.disp with
  | .catch => { s with pending := true }
  | .default => s

/-- One step of child `i`: an internal step, or `exit`/death (`set_state` sets the flag, then SIGCHLD). -/
def childStep (s : Sys) (i : Nat) : Option Sys :=
  match s.children[i]? with
  | some c =>
    match c.state with
    | .running (f + 1) r =>
      some { s with children := s.children.set i { c with state := .running f r } }
    | .running 0 r =>
      some (raiseSigchld { s with children := s.children.set i { state := .halted r, changed := true } })
    | .halted _ => none
  | none => none

def logOf (i : Nat) : PState → List (Nat × Result)
  | .halted r => [(i, r)]
  | .running .. => []

/-- One step of the parent.  `none` = the parent is blocked (or has nothing left to do). -/
def parentStep (s : Sys) : Option Sys :=
  match s.pc with
  | .enable =>
    -- `self.traps.enable_internal_disposition_for_sigchld(&self.system).await?` comes FIRST
    some { s with disp := .catch, pc := .poll }
  | .poll =>
    -- `if let Some((pid, state)) = self.system.wait(target)? { return Ok((pid, state)) }`
    match sysWait s.children s.target with
    | .state i (.halted r) =>
      some { s with children := take s.children i, log := (i, r) :: s.log,
                    results := .got i r :: s.results, pc := .done }
    | .state i (.running ..) =>
      -- `wait_for_subshell_to_finish`: not a final state, call `wait_for_subshell` again
      some { s with children := take s.children i, pc := .enable }
    | .none => some { s with pc := .await }
    | .echild => some { s with results := .echild :: s.results, pc := .done }
  | .await =>
    -- `self.wait_for_signal(S::SIGCHLD).await`: `select` returns when SIGCHLD is delivered
    if s.pending then some { s with pending := false, pc := .poll } else none
  | .reap =>
    -- `while let Ok(Some((pid, state))) = self.system.wait(Pid::ALL) { … }`
    match sysWait s.children .any with
    | .state i st => some { s with children := take s.children i, log := logOf i st ++ s.log }
    | .none => some { s with pc := .done }
    | .echild => some { s with pc := .done }
  | .done =>
    match s.todo with
    | [] => none
    | .wait t :: rest => some { s with todo := rest, target := t, pc := .enable }
    | .reapAll :: rest => some { s with todo := rest, pc := .reap }

/-- scheduler choice: which process moves -/
inductive Label where
  | parent
  | child (i : Nat)
  deriving DecidableEq, Repr

def step (s : Sys) : Label → Option Sys
  | .parent => parentStep s
  | .child i => childStep s i

/-- labels that are enabled in `s`, parent first, then children by pid -/
def enabled (s : Sys) : List Label :=
  ((Label.parent :: (List.range s.children.length).map Label.child).filter fun l => (step s l).isSome)

def pickLabel (choices : List Nat) (l : Label) (ls : List Label) : Label :=
  match choices with
  | [] => l
  | c :: _ => (l :: ls).getD (c % (ls.length + 1)) l

/-- Runs `s` under the scheduler given by `choices` (index into `enabled`, modulo its length; when the
    choices are used up: the first enabled label) for at most `fuel` steps. -/
def run : Nat → List Nat → Sys → Sys
  | 0, _, s => s
  | fuel + 1, choices, s =>
    match enabled s with
    | [] => s
    | l :: ls =>
      match step s (pickLabel choices l ls) with
      | some s' => run fuel choices.tail s'
      | none => s

/-! ### the `wait` built-in: job table and operands

  `JobList` as far as `wait` needs it: `jobs` = the pids (child indices) registered as jobs and not yet
  removed.  The recorded state of a job is the last state `JobList::update_status` received, and every
  result of `system.wait` is passed to it (`wait_for_subshell`, `update_all_subshell_statuses`,
  `wait_for_any_job_or_trap`), so the recorded state of job `i` is the `log` entry of child `i`. -/

/-- an operand of `wait` (`JobSpec`): a process ID, or a job ID that names no job (`%7`) -/
inductive Operand where
  | pid (i : Nat)
  | jobId
  deriving DecidableEq, Repr

/-- `search::resolve`: `jobs.find_by_pid(pid)` / `FindError::NotFound → Ok(None)`.  All operands are
    resolved before the first one is awaited (`Command::execute`). -/
def resolve (jobs : List Nat) : Operand → Option Nat
  | .pid i => if i ∈ jobs then some i else none
  | .jobId => none

/-- `status::job_status(index)` applied to the job list: `none` = `Continue` (still running), `some` =
    `Break`: the job is gone (`jobs.get(index) = None`, removed by an earlier operand) → `NOT_FOUND`;
    the job has finished → its status, and the job is removed. -/
def jobStatus (jobs : List Nat) (log : List (Nat × Result)) (i : Nat) : Option (WaitRes × List Nat) :=
  if i ∈ jobs then
    match log.find? (fun e => e.1 == i) with
    | some (_, r) => some (.got i r, jobs.erase i)
    | none => none
  else some (.echild, jobs)

/-- Executable `status::wait_while_running(job_status(i))` on top of the executable scheduler: look the job
    up, else run one `wait_for_any_job_or_trap` (request `wait(-1)`, `run` with the `k`-th choice list) to
    completion and look again.  `none` = the built-in fails (NothingToWait) or the driver's fuel ran out. -/
def awaitJobRun (runFuel : Nat) (choices : Nat → List Nat) :
    Nat → List Nat → Sys → Nat → List Nat × Sys × Option WaitRes
  | 0, jobs, s, _ => (jobs, s, none)
  | k + 1, jobs, s, i =>
    match jobStatus jobs s.log i with
    | some (res, jobs') => (jobs', s, some res)
    | none =>
      let t := run runFuel (choices k) { s with todo := [.wait .any] }
      if t.final then
        (if t.results.head? = some .echild then (jobs, t, none)
         else awaitJobRun runFuel choices k jobs t i)
      else (jobs, t, none)

/-- Executable `Command::await_jobs` over the resolved operands: `None → NOT_FOUND`, `Some(i) →
    wait_while_running`, and ON TO THE NEXT OPERAND; one result per operand.  `none` = failed / out of fuel. -/
def awaitJobsRun (runFuel outer : Nat) (choices : Nat → List Nat) :
    List Nat → Sys → List (Option Nat) → Option (List Nat × Sys × List WaitRes)
  | jobs, s, [] => some (jobs, s, [])
  | jobs, s, none :: t =>
    match awaitJobsRun runFuel outer choices jobs s t with
    | some (jobs', s', rs) => some (jobs', s', .echild :: rs)
    | none => none
  | jobs, s, some i :: t =>
    match awaitJobRun runFuel choices outer jobs s i with
    | (jobs1, s1, some res) =>
      match awaitJobsRun runFuel outer choices jobs1 s1 t with
      | some (jobs', s', rs) => some (jobs', s', res :: rs)
      | none => none
    | (_, _, none) => none

/-! ### exit statuses -/

/-- `ExitStatus::from(ProcessResult)`: exited → status, signaled → signal number + the offset of
    `impl From<signal::Number> for ExitStatus` (`SIGNAL_EXIT_OFFSET` = 128 + 256, re-extracted from /repo) -/
def Result.status : Result → Nat
  | .exited st => st
  | .signaled sig => sig + SIGNAL_EXIT_OFFSET

/-- `impl Exit for VirtualSystem::exit` (`ExitStatus(exit_status.0 & 0xFF)`, /repo ae6bc1e): of the status a process
    passes to `exit` only the least significant 8 bits reach the parent (`WEXITSTATUS`); this is the status a child
    that "exits with `st`" is recorded with (`Result.exited (exitStatusSeen st)`) -/
def exitStatusSeen (st : Nat) : Nat := st % 256

/-- exit status of `wait` for one operand: the job's status, or 127 (`ExitStatus::NOT_FOUND`) when
    the pid is not a known child (never was, or already waited for) -/
def waitStatus : WaitRes → Nat
  | .got _ r => r.status
  | .echild => EXIT_NOT_FOUND

/-- `execute_multi_command_pipeline`: `final = SUCCESS; for each member { if !status.is_successful()
    || !pipefail { final = status } }` -/
def pipeStatus (pipefail : Bool) (sts : List Nat) : Nat :=
  sts.foldl (fun acc st => if st != 0 || !pipefail then st else acc) 0

/-- `Pipeline::execute` with `negation` -/
def negate (st : Nat) : Nat := if st = EXIT_SUCCESS then EXIT_FAILURE else EXIT_SUCCESS

end YashModel.Proc
