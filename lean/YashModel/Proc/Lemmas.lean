/-
  C13 — helper lemmas: the simulated `wait`, the invariant and its preservation by every step,
  the termination measure.  Property theorems are in `Theorems.lean`.
-/
import YashModel.Proc.Model
namespace YashModel.Proc

/-- does child `i` match the `wait` target? -/
def Target.matches : Target → Nat → Prop
  | .any, _ => True
  | .pid k, i => i = k

instance (t : Target) (i : Nat) : Decidable (t.matches i) := by
  cases t <;> simp only [Target.matches] <;> infer_instance

/-- the child has terminated and its state has been handed out by `wait` -/
def reaped (cs : List Child) (i : Nat) : Bool :=
  match cs[i]? with
  | some c => !c.state.isAlive && !c.changed
  | none => false

/-! ### searches -/

theorem firstChanged_some {cs : List Child} {i : Nat} (h : firstChanged cs = some i) :
    ∃ c, cs[i]? = some c ∧ c.changed = true := by
  induction cs generalizing i with
  | nil => simp [firstChanged] at h
  | cons c t ih =>
    simp only [firstChanged] at h
    by_cases hc : c.changed = true
    · simp [hc] at h; subst h; exact ⟨c, by simp, hc⟩
    · simp [hc] at h
      obtain ⟨j, hj, rfl⟩ := h
      obtain ⟨c', h1, h2⟩ := ih hj
      exact ⟨c', by simpa using h1, h2⟩

theorem firstChanged_none {cs : List Child} (h : firstChanged cs = none) :
    ∀ (i : Nat) (c : Child), cs[i]? = some c → c.changed = false := by
  induction cs with
  | nil => intro i c hc; simp at hc
  | cons c t ih =>
    simp only [firstChanged] at h
    by_cases hc : c.changed = true
    · simp [hc] at h
    · simp [hc] at h
      intro i c' hi
      cases i with
      | zero => simp at hi; subst hi; simpa using hc
      | succ j => exact ih h j c' (by simpa using hi)

theorem firstAlive_some {cs : List Child} {i : Nat} (h : firstAlive cs = some i) :
    ∃ c, cs[i]? = some c ∧ c.state.isAlive = true := by
  induction cs generalizing i with
  | nil => simp [firstAlive] at h
  | cons c t ih =>
    simp only [firstAlive] at h
    by_cases hc : c.state.isAlive = true
    · simp [hc] at h; subst h; exact ⟨c, by simp, hc⟩
    · simp [hc] at h
      obtain ⟨j, hj, rfl⟩ := h
      obtain ⟨c', h1, h2⟩ := ih hj
      exact ⟨c', by simpa using h1, h2⟩

theorem firstAlive_none {cs : List Child} (h : firstAlive cs = none) :
    ∀ (i : Nat) (c : Child), cs[i]? = some c → c.state.isAlive = false := by
  induction cs with
  | nil => intro i c hc; simp at hc
  | cons c t ih =>
    simp only [firstAlive] at h
    by_cases hc : c.state.isAlive = true
    · simp [hc] at h
    · simp [hc] at h
      intro i c' hi
      cases i with
      | zero => simp at hi; subst hi; simpa using hc
      | succ j => exact ih h j c' (by simpa using hi)

/-! ### `wait` -/

theorem childToWaitFor_matches {cs : List Child} {t : Target} {i : Nat}
    (h : childToWaitFor cs t = some i) : t.matches i := by
  cases t with
  | any => trivial
  | pid k =>
    simp only [childToWaitFor] at h
    split at h
    · simp at h; exact h.symm
    · simp at h

/-- `Ok(Some((pid, state)))`: that child's flag was set, it matches the target -/
theorem sysWait_state {cs : List Child} {t : Target} {i : Nat} {st : PState}
    (h : sysWait cs t = .state i st) :
    ∃ c, cs[i]? = some c ∧ c.changed = true ∧ c.state = st ∧ t.matches i := by
  unfold sysWait at h
  split at h
  · simp at h
  · rename_i j hj
    split at h
    · simp at h
    · rename_i c hc
      split at h
      · rename_i hch
        simp only [WaitOut.state.injEq] at h
        obtain ⟨rfl, rfl⟩ := h
        exact ⟨c, hc, hch, rfl, childToWaitFor_matches hj⟩
      · split at h <;> simp at h

/-- `Ok(None)`: some matching child is alive, and no matching child has an unreported change -/
theorem sysWait_none {cs : List Child} {t : Target} (h : sysWait cs t = .none) :
    (∃ i c, cs[i]? = some c ∧ t.matches i ∧ c.state.isAlive = true) ∧
    (∀ (i : Nat) (c : Child), cs[i]? = some c → t.matches i → c.changed = false) := by
  unfold sysWait at h
  split at h
  · simp at h
  · rename_i j hj
    split at h
    · simp at h
    · rename_i c hc
      split at h
      · simp at h
      · rename_i hch
        split at h
        · rename_i hal
          refine ⟨⟨j, c, hc, childToWaitFor_matches hj, hal⟩, ?_⟩
          cases t with
          | any =>
            simp only [childToWaitFor] at hj
            split at hj
            · rename_i k hk
              simp at hj; subst hj
              obtain ⟨c', h1, h2⟩ := firstChanged_some hk
              rw [hc] at h1; simp at h1; subst h1; simp [h2] at hch
            · rename_i hk
              intro i c' hi _
              exact firstChanged_none hk i c' hi
          | pid k =>
            intro i c' hi hm
            simp only [Target.matches] at hm; subst hm
            have := childToWaitFor_matches hj
            simp only [Target.matches] at this; subst this
            rw [hc] at hi; simp at hi; subst hi; simpa using hch
        · simp at h

/-- `Err(ECHILD)` for target -1 exactly when no child is alive and none holds an unreported state
    (the statement that failed before /repo d05a7cb) -/
theorem sysWait_any_echild {cs : List Child} :
    sysWait cs .any = .echild ↔ ∀ (i : Nat) (c : Child), cs[i]? = some c → c.changed = false ∧ c.state.isAlive = false := by
  constructor
  · intro h i c hi
    unfold sysWait at h
    simp only [childToWaitFor] at h
    cases hfc : firstChanged cs with
    | some k =>
      obtain ⟨c', h1, h2⟩ := firstChanged_some hfc
      simp [hfc, h1, h2] at h
    | none =>
      cases hfa : firstAlive cs with
      | some k =>
        obtain ⟨c', h1, h2⟩ := firstAlive_some hfa
        have := firstChanged_none hfc k c' h1
        simp [hfc, hfa, h1, h2, this] at h
      | none =>
        exact ⟨firstChanged_none hfc i c hi, firstAlive_none hfa i c hi⟩
  · intro h
    unfold sysWait
    simp only [childToWaitFor]
    cases hfc : firstChanged cs with
    | some k =>
      obtain ⟨c', h1, h2⟩ := firstChanged_some hfc
      have := (h k c' h1).1; simp [h2] at this
    | none =>
      cases hfa : firstAlive cs with
      | some k =>
        obtain ⟨c', h1, h2⟩ := firstAlive_some hfa
        have := (h k c' h1).2; simp [h2] at this
      | none =>
        simp only
        split
        · rfl
        · rename_i j hj
          split
          · rfl
          · rename_i c hc
            have := h j c hc
            simp [this.1, this.2]

theorem sysWait_pid_unknown {cs : List Child} {k : Nat} (h : cs.length ≤ k) :
    sysWait cs (.pid k) = .echild := by
  unfold sysWait childToWaitFor
  simp [Nat.not_lt.mpr h]

theorem sysWait_pid_reaped {cs : List Child} {k : Nat} (h : reaped cs k = true) :
    sysWait cs (.pid k) = .echild := by
  unfold reaped at h
  unfold sysWait childToWaitFor
  split at h
  · rename_i c hc
    have hk : k < cs.length := by
      rcases Nat.lt_or_ge k cs.length with h' | h'
      · exact h'
      · simp [List.getElem?_eq_none h'] at hc
    simp at h
    have hg : cs[k] = c := by
      have := List.getElem?_eq_getElem hk
      rw [hc] at this; simpa using this.symm
    simp [hk, hg, h.1, h.2]
  · simp at h

/-! ### `take_state` -/

theorem take_get {cs : List Child} {i : Nat} {c : Child} (h : cs[i]? = some c) (j : Nat) :
    (take cs i)[j]? = if j = i then some { c with changed := false } else cs[j]? := by
  have hi : i < cs.length := by
    rcases Nat.lt_or_ge i cs.length with h' | h'
    · exact h'
    · simp [List.getElem?_eq_none h'] at h
  unfold take
  rw [h]
  simp only [List.getElem?_set]
  by_cases hji : j = i
  · subst hji; simp [hi]
  · have : ¬ i = j := fun e => hji e.symm
    simp [hji, this]

theorem set_get {cs : List Child} {i : Nat} {c : Child} (h : cs[i]? = some c) (c' : Child) (j : Nat) :
    (cs.set i c')[j]? = if j = i then some c' else cs[j]? := by
  have hi : i < cs.length := by
    rcases Nat.lt_or_ge i cs.length with h' | h'
    · exact h'
    · simp [List.getElem?_eq_none h'] at h
  simp only [List.getElem?_set]
  by_cases hji : j = i
  · subst hji; simp [hi]
  · have : ¬ i = j := fun e => hji e.symm
    simp [hji, this]

/-! ### termination measure -/

def childW (c : Child) : Nat :=
  (match c.state with
   | .running f _ => 6 * (f + 1)
   | .halted _ => 0) + (if c.changed then 2 else 0)

def childrenW : List Child → Nat
  | [] => 0
  | c :: t => childW c + childrenW t

def pcW : Pc → Nat
  | .enable => 3
  | .poll => 2
  | .await => 1
  | .reap => 1
  | .done => 0

/-- strictly decreases on every step of every process (`step_decreases`) -/
def measure (s : Sys) : Nat :=
  childrenW s.children + (if s.pending then 2 else 0) + pcW s.pc + 6 * s.todo.length

theorem childrenW_set {cs : List Child} {i : Nat} {c : Child} (h : cs[i]? = some c) (c' : Child) :
    childrenW (cs.set i c') + childW c = childrenW cs + childW c' := by
  induction cs generalizing i with
  | nil => simp at h
  | cons a t ih =>
    cases i with
    | zero =>
      simp at h; subst h
      simp only [List.set_cons_zero, childrenW]; omega
    | succ j =>
      have h' : t[j]? = some c := by simpa using h
      have := ih h'
      simp only [List.set_cons_succ, childrenW]; omega

theorem childrenW_take {cs : List Child} {i : Nat} {c : Child} (h : cs[i]? = some c)
    (hc : c.changed = true) : childrenW (take cs i) + 2 = childrenW cs := by
  have := childrenW_set h { c with changed := false }
  have e : take cs i = cs.set i { c with changed := false } := by unfold take; rw [h]
  rw [e]
  simp only [childW, hc] at this
  simp at this
  omega

end YashModel.Proc
