/-
  C13 — the two-stage flow pipeline `spew n | consumer` (consumer = `take k st` / `drain` / `st`): byte accounting
  as an invariant of the pipeline model, for `flow2_statuses_exact` (the exit statuses are those of
  `Spec.flowStatuses` under EVERY schedule, in the race-free regime).
-/
import YashModel.Proc.PipelineMeasure
import YashModel.Proc.Spec
namespace YashModel.Proc

/-- how many more bytes a consumer stage will take (`none` = any number), and the status it ends with -/
def consRoom : SProg → Option Nat
  | .take k _ => some k
  | .idle _ => some 0
  | .drain => none
  | _ => some 0

def consFin : SProg → Option Nat
  | .take _ st => some st
  | .idle st => some st
  | .drain => some 0
  | _ => none

/-- Invariant of `spew n | consumer` (explicit components: producer `a`, consumer `b`, the pipe `p`).
    `fail = true`: what is left to write exceeds what the pipe and the consumer can still absorb (so the
    producer can only end through EPIPE); `fail = false`: what is left to write and what is buffered fits into
    what the consumer still wants, and once the consumer is gone nothing is left (so EPIPE never comes up). -/
structure Flow2 (c : PCfg) (fin1 : Nat) (fail : Bool) (a b : Stage) (p : Pipe) : Prop where
  rd : p.readers = [1]
  wr : p.writers = [0]
  cons : consFin b.prog = some fin1
  consExit : b.exit = none ∨ b.exit = some fin1
  prodExit : a.exit = none ∨ a.exit = some (if fail then 1 else 0)
  prod : ∃ m, a.prog = .spew m ∧
    (a.exit = none →
      if fail then ∃ k, consRoom b.prog = some k ∧ (c.cap - p.content) + k < m ∧ p.content ≤ c.cap
      else (b.exit = none → ∀ k, consRoom b.prog = some k → m + p.content ≤ k) ∧ (b.exit ≠ none → m = 0))

theorem flow2_step {c : PCfg} {fin1 : Nat} {fail : Bool} {a b : Stage} {p : Pipe} {i : Nat} {t : PSys}
    (h : Flow2 c fin1 fail a b p) (hs : stageStep c { stages := [a, b], pipes := [p] } i = some t) :
    ∃ a' b' p', t = { stages := [a', b'], pipes := [p'] } ∧ Flow2 c fin1 fail a' b' p' := by
  obtain ⟨hrd, hwr, hcons, hce, hpe, m, hprog, hprod⟩ := h
  match i with
  | 0 =>
    obtain ⟨ap, ae⟩ := a
    obtain ⟨bp, be⟩ := b
    obtain ⟨pc, pr, pw⟩ := p
    simp only at hrd hwr hcons hce hpe hprog hprod
    subst hrd hwr hprog
    cases ae with
    | some x => simp [stageStep] at hs
    | none =>
      have hprod := hprod rfl
      cases m with
      | zero =>
        simp [stageStep, exitStage] at hs
        subst hs
        refine ⟨_, _, _, rfl, ⟨rfl, rfl, hcons, hce, ?_, 0, rfl, by simp⟩⟩
        cases fail with
        | true => simp at hprod
        | false => simp
      | succ m =>
        have hlive : PSys.live { stages := [⟨.spew (m + 1), none⟩, ⟨bp, be⟩], pipes := [⟨pc, [1], [0]⟩] } [1] =
            if be.isNone then 1 else 0 := by
          simp [PSys.live, PSys.alive]
        simp only [stageStep, List.getElem?_cons_zero, Option.isSome_none, Bool.false_eq_true, if_false,
          sysWrite, hlive] at hs
        cases be with
        | some y =>
          simp [exitStage] at hs
          subst hs
          refine ⟨_, _, _, rfl, ⟨rfl, rfl, hcons, hce, ?_, 0, rfl, by simp⟩⟩
          cases fail with
          | true => simp
          | false => simp at hprod
        | none =>
          simp only [Option.isNone_none, if_true, Nat.one_ne_zero, if_false] at hs
          by_cases h1 : c.cap - pc < m + 1
          · simp only [h1, if_true] at hs
            by_cases h2 : c.cap - pc = 0 ∨ m + 1 ≤ c.pbuf
            · simp [h2] at hs
            · simp only [h2, if_false] at hs
              simp [addContent, setProg] at hs
              subst hs
              refine ⟨_, _, _, rfl, ⟨rfl, rfl, hcons, hce, hpe, _, rfl, ?_⟩⟩
              intro _
              cases fail with
              | true =>
                simp only [if_true] at hprod ⊢
                obtain ⟨k, hk1, hk2, hk3⟩ := hprod
                exact ⟨k, hk1, by omega, by omega⟩
              | false =>
                simp only [Bool.false_eq_true, if_false] at hprod ⊢
                refine ⟨fun _ k hk => ?_, by simp⟩
                have := hprod.1 trivial k hk
                omega
          · simp only [h1, if_false] at hs
            simp [addContent, setProg] at hs
            subst hs
            refine ⟨_, _, _, rfl, ⟨rfl, rfl, hcons, hce, hpe, _, rfl, ?_⟩⟩
            intro _
            cases fail with
            | true =>
              simp only [if_true] at hprod ⊢
              obtain ⟨k, hk1, hk2, hk3⟩ := hprod
              omega
            | false =>
              simp only [Bool.false_eq_true, if_false] at hprod ⊢
              refine ⟨fun _ k hk => ?_, by simp⟩
              have := hprod.1 trivial k hk
              omega
  | 1 =>
    obtain ⟨ap, ae⟩ := a
    obtain ⟨bp, be⟩ := b
    obtain ⟨pc, pr, pw⟩ := p
    simp only at hrd hwr hcons hce hpe hprog hprod
    subst hrd hwr hprog
    cases be with
    | some x => simp [stageStep] at hs
    | none =>
      have hlive : PSys.live { stages := [⟨.spew m, ae⟩, ⟨bp, none⟩], pipes := [⟨pc, [1], [0]⟩] } [0] =
          if ae.isNone then 1 else 0 := by
        simp [PSys.live, PSys.alive]
      cases bp with
      | spew n => simp [consFin] at hcons
      | cat n => simp [consFin] at hcons
      | idle st =>
        simp [consFin] at hcons
        subst hcons
        simp [stageStep, exitStage] at hs
        subst hs
        refine ⟨_, _, _, rfl, ⟨rfl, rfl, rfl, Or.inr rfl, hpe, m, rfl, ?_⟩⟩
        intro hae
        have := hprod hae
        cases fail with
        | true => simpa using this
        | false =>
          simp only [Bool.false_eq_true, if_false] at this ⊢
          refine ⟨by simp, fun _ => ?_⟩
          have := this.1 trivial 0 rfl
          omega
      | drain =>
        simp [consFin] at hcons
        subst hcons
        simp only [stageStep, List.getElem?_cons_succ, List.getElem?_cons_zero, Option.isSome_none,
          Bool.false_eq_true, if_false, sysRead, hlive] at hs
        by_cases hpc : pc = 0
        · simp only [hpc, if_true] at hs
          cases ae with
          | none => simp at hs
          | some y =>
            simp [exitStage] at hs
            subst hs
            exact ⟨_, _, _, rfl, ⟨rfl, rfl, rfl, Or.inr rfl, hpe, m, rfl, by simp⟩⟩
        · simp only [hpc, if_false] at hs
          simp [subContent] at hs
          subst hs
          refine ⟨_, _, _, rfl, ⟨rfl, rfl, rfl, Or.inl rfl, hpe, m, rfl, ?_⟩⟩
          intro hae
          have := hprod hae
          cases fail with
          | true => simp [consRoom] at this
          | false =>
            simp only [Bool.false_eq_true, if_false] at this ⊢
            exact ⟨by simp [consRoom], by simp⟩
      | take k st =>
        simp [consFin] at hcons
        subst hcons
        cases k with
        | zero =>
          simp [stageStep, exitStage] at hs
          subst hs
          refine ⟨_, _, _, rfl, ⟨rfl, rfl, rfl, Or.inr rfl, hpe, m, rfl, ?_⟩⟩
          intro hae
          have := hprod hae
          cases fail with
          | true => simpa using this
          | false =>
            simp only [Bool.false_eq_true, if_false] at this ⊢
            refine ⟨by simp, fun _ => ?_⟩
            have := this.1 trivial 0 rfl
            omega
        | succ k =>
          simp only [stageStep, List.getElem?_cons_succ, List.getElem?_cons_zero, Option.isSome_none,
            Bool.false_eq_true, if_false, sysRead, hlive] at hs
          by_cases hpc : pc = 0
          · simp only [hpc, if_true] at hs
            cases ae with
            | none => simp at hs
            | some y =>
              simp [exitStage] at hs
              subst hs
              exact ⟨_, _, _, rfl, ⟨rfl, rfl, rfl, Or.inr rfl, hpe, m, rfl, by simp⟩⟩
          · simp only [hpc, if_false] at hs
            simp [subContent, setProg] at hs
            subst hs
            refine ⟨_, _, _, rfl, ⟨rfl, rfl, rfl, Or.inl rfl, hpe, m, rfl, ?_⟩⟩
            intro hae
            have := hprod hae
            cases fail with
            | true =>
              simp only [if_true, consRoom, Option.some.injEq, exists_eq_left'] at this ⊢
              omega
            | false =>
              simp only [Bool.false_eq_true, if_false, consRoom, Option.some.injEq, forall_eq'] at this ⊢
              refine ⟨fun _ => ?_, by simp⟩
              have := this.1 trivial
              omega
  | k + 2 => simp [stageStep] at hs

theorem flow2_reach {c : PCfg} {fin1 : Nat} {fail : Bool} {a b : Stage} {p : Pipe} {t : PSys}
    (h : Flow2 c fin1 fail a b p) (hs : PSteps c { stages := [a, b], pipes := [p] } t) :
    ∃ a' b' p', t = { stages := [a', b'], pipes := [p'] } ∧ Flow2 c fin1 fail a' b' p' := by
  induction hs with
  | refl => exact ⟨a, b, p, rfl, h⟩
  | tail i _ hstep ih =>
    obtain ⟨a1, b1, p1, rfl, h1⟩ := ih
    exact flow2_step h1 hstep

theorem flow2_final {c : PCfg} {fin1 : Nat} {fail : Bool} {a b : Stage} {p : Pipe}
    (h : Flow2 c fin1 fail a b p) (hd : PSys.done { stages := [a, b], pipes := [p] } = true) :
    PSys.statuses { stages := [a, b], pipes := [p] } = [if fail then 1 else 0, fin1] := by
  simp [PSys.done] at hd
  obtain ⟨ha, hb⟩ := hd
  have h1 := h.prodExit
  have h2 := h.consExit
  rcases h1 with h1 | h1
  · rw [h1] at ha; simp at ha
  · rcases h2 with h2 | h2
    · rw [h2] at hb; simp at hb
    · simp [PSys.statuses, h1, h2]
end YashModel.Proc
