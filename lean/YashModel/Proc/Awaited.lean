/-
  C13 — helper lemmas for `awaited_reaped`: a child the parent was asked to wait for is reaped when the
  parent is done (no zombie is left behind by a finished `wait`).
-/
import YashModel.Proc.Steps
namespace YashModel.Proc

theorem reaped_take {cs : List Child} {i : Nat} (j : Nat) (h : reaped cs i = true) :
    reaped (take cs j) i = true := by
  unfold take
  split
  · rename_i c hc
    by_cases hij : i = j
    · subst hij
      rw [reaped_set_self hc]
      rw [reaped_self hc] at h
      simp at h ⊢; exact h.1
    · rw [reaped_set_other hc hij]; exact h
  · exact h

theorem reaped_take_self {cs : List Child} {j : Nat} {c : Child} (hc : cs[j]? = some c)
    (hdead : c.state.isAlive = false) : reaped (take cs j) j = true := by
  rw [take_eq_set hc, reaped_set_self hc]; simp [hdead]

theorem reaped_child {s s' : Sys} {i : Nat} (j : Nat) (hs : childStep s j = some s')
    (h : reaped s.children i = true) : reaped s'.children i = true := by
  unfold childStep at hs
  split at hs
  · rename_i c hc
    have hne : c.state.isAlive = true → i ≠ j := by
      intro hal hij
      subst hij
      rw [reaped_self hc] at h; simp [hal] at h
    split at hs
    · rename_i f r hst
      simp only [Option.some.injEq] at hs; subst hs
      rw [reaped_set_other hc (hne (by simp [hst, PState.isAlive]))]; exact h
    · rename_i r hst
      simp only [Option.some.injEq] at hs; subst hs
      have : ∀ t : Sys, (raiseSigchld t).children = t.children := by
        intro t; unfold raiseSigchld; split <;> rfl
      rw [this, reaped_set_other hc (hne (by simp [hst, PState.isAlive]))]; exact h
    · simp at hs
  · simp at hs

/-- every requested `wait pid` for an existing child is still to do, in progress, or has left the child
    reaped -/
def Awaited (reqs : List Req) (s : Sys) : Prop :=
  ∀ i : Nat, Req.wait (.pid i) ∈ reqs → i < s.children.length →
    Req.wait (.pid i) ∈ s.todo ∨
    ((s.pc = .enable ∨ s.pc = .poll ∨ s.pc = .await) ∧ s.target = .pid i) ∨
    reaped s.children i = true

theorem awaited_init (spec : List (Nat × Result)) (reqs : List Req) : Awaited reqs (init spec reqs) := by
  intro i hi _; exact Or.inl hi

theorem length_take (cs : List Child) (i : Nat) : (take cs i).length = cs.length := by
  unfold take; split <;> simp

theorem length_child {s s' : Sys} (j : Nat) (hs : childStep s j = some s') :
    s'.children.length = s.children.length := by
  have := congrArg List.length (fin_child j hs); simpa using this

theorem awaited_child {reqs : List Req} {s s' : Sys} (j : Nat) (h : Awaited reqs s)
    (hs : childStep s j = some s') : Awaited reqs s' := by
  have hsame : s'.todo = s.todo ∧ s'.pc = s.pc ∧ s'.target = s.target := by
    unfold childStep at hs
    have : ∀ t : Sys, (raiseSigchld t).todo = t.todo ∧ (raiseSigchld t).pc = t.pc ∧
        (raiseSigchld t).target = t.target := by
      intro t; unfold raiseSigchld; split <;> simp
    split at hs
    · split at hs
      · simp only [Option.some.injEq] at hs; subst hs; simp
      · simp only [Option.some.injEq] at hs; subst hs; exact this _
      · simp at hs
    · simp at hs
  intro i hi hlen
  rw [length_child j hs] at hlen
  rcases h i hi hlen with h1 | h1 | h1
  · exact Or.inl (by rw [hsame.1]; exact h1)
  · exact Or.inr (Or.inl (by rw [hsame.2.1, hsame.2.2]; exact h1))
  · exact Or.inr (Or.inr (reaped_child j hs h1))

theorem awaited_parent {reqs : List Req} {s s' : Sys} (_hinv : Inv s) (h : Awaited reqs s)
    (hs : parentStep s = some s') : Awaited reqs s' := by
  unfold parentStep at hs
  split at hs
  · -- enable
    rename_i hpc
    simp only [Option.some.injEq] at hs; subst hs
    intro i hi hlen
    rcases h i hi hlen with h1 | h1 | h1
    · exact Or.inl h1
    · exact Or.inr (Or.inl ⟨Or.inr (Or.inl rfl), h1.2⟩)
    · exact Or.inr (Or.inr h1)
  · -- poll
    rename_i hpc
    split at hs
    · rename_i j r hw
      simp only [Option.some.injEq] at hs; subst hs
      obtain ⟨c, hc, hch, hst, hm⟩ := sysWait_state hw
      intro i hi hlen
      simp only [length_take] at hlen
      rcases h i hi hlen with h1 | h1 | h1
      · exact Or.inl h1
      · refine Or.inr (Or.inr ?_)
        rw [h1.2] at hm
        simp only [Target.matches] at hm; subst hm
        exact reaped_take_self hc (by simp [hst, PState.isAlive])
      · exact Or.inr (Or.inr (reaped_take j h1))
    · rename_i j f r hw
      simp only [Option.some.injEq] at hs; subst hs
      intro i hi hlen
      simp only [length_take] at hlen
      rcases h i hi hlen with h1 | h1 | h1
      · exact Or.inl h1
      · exact Or.inr (Or.inl ⟨Or.inl rfl, h1.2⟩)
      · exact Or.inr (Or.inr (reaped_take j h1))
    · simp only [Option.some.injEq] at hs; subst hs
      intro i hi hlen
      rcases h i hi hlen with h1 | h1 | h1
      · exact Or.inl h1
      · exact Or.inr (Or.inl ⟨Or.inr (Or.inr rfl), h1.2⟩)
      · exact Or.inr (Or.inr h1)
    · rename_i hw
      simp only [Option.some.injEq] at hs; subst hs
      intro i hi hlen
      rcases h i hi hlen with h1 | h1 | h1
      · exact Or.inl h1
      · refine Or.inr (Or.inr ?_)
        -- ECHILD for an existing child: it is neither alive nor unreported
        have ht := h1.2
        rw [ht] at hw
        unfold sysWait childToWaitFor at hw
        simp only [hlen, if_true] at hw
        have hget : s.children[i]? = some s.children[i] := List.getElem?_eq_getElem hlen
        rw [hget] at hw
        simp only at hw
        rw [reaped_self hget]
        split at hw
        · simp at hw
        · rename_i hch
          split at hw
          · simp at hw
          · rename_i hal
            simp at hch hal
            simp [hch, hal]
      · exact Or.inr (Or.inr h1)
  · -- await
    rename_i hpc
    split at hs
    · simp only [Option.some.injEq] at hs; subst hs
      intro i hi hlen
      rcases h i hi hlen with h1 | h1 | h1
      · exact Or.inl h1
      · exact Or.inr (Or.inl ⟨Or.inr (Or.inl rfl), h1.2⟩)
      · exact Or.inr (Or.inr h1)
    · simp at hs
  · -- reap
    rename_i hpc
    split at hs
    · rename_i j st hw
      simp only [Option.some.injEq] at hs; subst hs
      intro i hi hlen
      simp only [length_take] at hlen
      rcases h i hi hlen with h1 | h1 | h1
      · exact Or.inl h1
      · simp [hpc] at h1
      · exact Or.inr (Or.inr (reaped_take j h1))
    · simp only [Option.some.injEq] at hs; subst hs
      intro i hi hlen
      rcases h i hi hlen with h1 | h1 | h1
      · exact Or.inl h1
      · simp [hpc] at h1
      · exact Or.inr (Or.inr h1)
    · simp only [Option.some.injEq] at hs; subst hs
      intro i hi hlen
      rcases h i hi hlen with h1 | h1 | h1
      · exact Or.inl h1
      · simp [hpc] at h1
      · exact Or.inr (Or.inr h1)
  · -- done: next request
    rename_i hpc
    split at hs
    · simp at hs
    · rename_i t rest htodo
      simp only [Option.some.injEq] at hs; subst hs
      intro i hi hlen
      rcases h i hi hlen with h1 | h1 | h1
      · rw [htodo] at h1
        simp only [List.mem_cons] at h1
        rcases h1 with h1 | h1
        · simp only [Req.wait.injEq] at h1
          exact Or.inr (Or.inl ⟨Or.inl rfl, h1.symm⟩)
        · exact Or.inl h1
      · simp [hpc] at h1
      · exact Or.inr (Or.inr h1)
    · rename_i rest htodo
      simp only [Option.some.injEq] at hs; subst hs
      intro i hi hlen
      rcases h i hi hlen with h1 | h1 | h1
      · rw [htodo] at h1
        simp only [List.mem_cons] at h1
        rcases h1 with h1 | h1
        · simp at h1
        · exact Or.inl h1
      · simp [hpc] at h1
      · exact Or.inr (Or.inr h1)

theorem awaited_steps {reqs : List Req} {s t : Sys} (h : Steps s t) (hi : Inv s)
    (ha : Awaited reqs s) : Awaited reqs t := by
  induction h with
  | refl => exact ha
  | tail l hst hs ih =>
    cases l with
    | parent => exact awaited_parent (inv_steps hst hi) ih hs
    | child j => exact awaited_child j ih hs

end YashModel.Proc
