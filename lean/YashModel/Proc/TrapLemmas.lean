/-
  C13 — lemmas about `WaitTrap.lean` (the `wait` built-in waiting for one job while trapped signals arrive):
  invariant, measure, no deadlock, "the trap wins".  Property theorems are in `Theorems.lean`.
-/
import YashModel.Proc.Steps
import YashModel.Proc.WaitTrap
namespace YashModel.Proc

/-- `TSteps t u`: some scheduler leads from `t` to `u` (any finite sequence of enabled steps of the shell, of a
    child, or of a sender) -/
inductive TSteps : TSys → TSys → Prop where
  | refl (t : TSys) : TSteps t t
  | tail {t u v : TSys} (l : TLabel) : TSteps t u → tstep u l = some v → TSteps t v

theorem TSteps.trans {s t u : TSys} (h1 : TSteps s t) (h2 : TSteps t u) : TSteps s u := by
  induction h2 with
  | refl => exact h1
  | tail l _ hs ih => exact .tail l ih hs

theorem TSteps.head {s t u : TSys} (l : TLabel) (hs : tstep s l = some t) (h : TSteps t u) : TSteps s u :=
  TSteps.trans (.tail l (.refl s) hs) h

structure TInv (t : TSys) : Prop where
  inv : Inv t.sys
  target : t.sys.target = .any
  notReap : t.sys.pc ≠ .reap
  pend : ∀ σ, σ ∈ t.sigPending → σ ∈ t.traps
  out_done : t.out = none ↔ t.sys.pc ≠ .done
  job_open : t.out = none → jobDone t.sys.log t.job = none
  fin_ok : ∀ i r, t.out = some (.finished i r) → i = t.job ∧ (i, r) ∈ t.sys.log
  trap_ok : ∀ σ, t.out = some (.trapped σ) → σ ∈ t.traps

theorem jobDone_mem {log : List (Nat × Result)} {j : Nat} {r : Result} (h : jobDone log j = some r) :
    (j, r) ∈ log := by
  unfold jobDone at h
  cases hf : log.find? (fun e => e.1 == j) with
  | none => simp [hf] at h
  | some e =>
    simp [hf] at h
    have h1 := List.find?_some hf
    have h2 := List.mem_of_find?_eq_some hf
    simp at h1
    obtain ⟨a, b⟩ := e
    simp at h1 h; subst h1; subst h; exact h2

theorem firstTrapped_mem {traps sigs : List Nat} {σ : Nat} (h : firstTrapped traps sigs = some σ) :
    σ ∈ traps ∧ σ ∈ sigs := by
  unfold firstTrapped at h
  have h1 := List.find?_some h
  have h2 := List.mem_of_find?_eq_some h
  simp at h1
  exact ⟨h1, h2⟩

theorem childStep_frame {s s' : Sys} {i : Nat} (hs : childStep s i = some s') :
    s'.pc = s.pc ∧ s'.log = s.log ∧ s'.target = s.target ∧ s'.todo = s.todo ∧ s'.disp = s.disp := by
  unfold childStep at hs
  split at hs
  · split at hs
    · simp at hs; subst hs; simp
    · simp at hs; subst hs
      unfold raiseSigchld
      split <;> simp_all
    · simp at hs
  · simp at hs

/-- the invariant holds when the built-in starts (between two commands: `pc = done`) -/
theorem tinv_start {s : Sys} (h : Inv s) (_hpc : s.pc = .done) (j : Nat) (traps : List Nat)
    (senders : List (Nat × Nat)) : TInv (TSys.start s j traps senders) := by
  unfold TSys.start
  split
  · rename_i r hr
    refine ⟨⟨h.changed_halted, by intro h'; simp at h', by intro h'; simp at h', by intro h'; simp at h',
      h.once, h.logged⟩, rfl, by simp, by simp, by simp, by simp, ?_, by simp⟩
    intro i r' h'
    simp at h'
    obtain ⟨rfl, rfl⟩ := h'
    exact ⟨rfl, jobDone_mem hr⟩
  · rename_i hr
    refine ⟨⟨h.changed_halted, by intro h'; simp at h', by intro h'; simp at h', by intro h'; simp at h',
      h.once, h.logged⟩, rfl, by simp, by simp, by simp, fun _ => hr, by simp, by simp⟩

theorem tinv_parent {t t' : TSys} (h : TInv t) (hs : tparentStep t = some t') : TInv t' := by
  unfold tparentStep at hs
  split at hs
  · simp at hs
  · rename_i hout
    have hI := h.inv
    split at hs
    · -- enable
      rename_i hpc
      simp only [Option.some.injEq] at hs; subst hs
      refine ⟨⟨hI.changed_halted, fun _ => rfl, by intro h'; simp at h', by intro h'; simp at h',
        hI.once, hI.logged⟩, h.target, by simp, h.pend, by simp [hout], h.job_open, h.fin_ok, h.trap_ok⟩
    · -- poll
      rename_i hpc
      split at hs
      · rename_i i st hw
        obtain ⟨c, hc, hch, hst, _⟩ := sysWait_state hw
        obtain ⟨t1, t2, t3⟩ := inv_take hI hc hch
        rw [hst] at t2 t3
        split at hs
        · rename_i r hr
          simp only [Option.some.injEq] at hs; subst hs
          refine ⟨⟨t1, by intro h'; simp at h', by intro h'; simp at h', by intro h'; simp at h', t2, t3⟩,
            h.target, by simp, h.pend, by simp, by simp, ?_, by simp⟩
          intro i' r' h'
          simp at h'
          obtain ⟨rfl, rfl⟩ := h'
          exact ⟨rfl, jobDone_mem hr⟩
        · rename_i hr
          simp only [Option.some.injEq] at hs; subst hs
          refine ⟨⟨t1, by intro h'; simp at h', by intro h'; simp at h', by intro h'; simp at h', t2, t3⟩,
            h.target, by simp, h.pend, by simp [hout], fun _ => hr, ?_, ?_⟩
          · intro i' r' h'; simp [hout] at h'
          · intro σ h'; simp [hout] at h'
      · rename_i hw
        simp only [Option.some.injEq] at hs; subst hs
        obtain ⟨⟨i, c, hc, hm, hal⟩, hno⟩ := sysWait_none hw
        refine ⟨⟨hI.changed_halted, fun _ => hI.handler (Or.inl hpc), ?_, ?_, hI.once, hI.logged⟩,
          h.target, by simp, h.pend, by simp [hout], h.job_open, h.fin_ok, h.trap_ok⟩
        · intro _ j c' hj _ hch
          have := hno j c' hj trivial; simp [hch] at this
        · intro _; exact ⟨i, c, hc, by simp [h.target, Target.matches], Or.inl hal⟩
      · simp only [Option.some.injEq] at hs; subst hs
        refine ⟨⟨hI.changed_halted, by intro h'; simp at h', by intro h'; simp at h', by intro h'; simp at h',
          hI.once, hI.logged⟩, h.target, by simp, h.pend, by simp, by simp, by simp, by simp⟩
    · -- await
      rename_i hpc
      split at hs
      · split at hs
        · rename_i σ hσ
          simp only [Option.some.injEq] at hs; subst hs
          refine ⟨⟨hI.changed_halted, by intro h'; simp at h', by intro h'; simp at h', by intro h'; simp at h',
            hI.once, hI.logged⟩, h.target, by simp, by simp, by simp, by simp, by simp, ?_⟩
          intro σ' h'
          simp at h'; subst h'
          exact (firstTrapped_mem hσ).1
        · simp only [Option.some.injEq] at hs; subst hs
          refine ⟨⟨hI.changed_halted, fun _ => hI.handler (Or.inr hpc), by intro h'; simp at h',
            by intro h'; simp at h', hI.once, hI.logged⟩, h.target, by simp, by simp, by simp [hout],
            h.job_open, h.fin_ok, h.trap_ok⟩
      · simp at hs
    · simp at hs

theorem tinv_child {t t' : TSys} {i : Nat} (h : TInv t) (hs : tchildStep t i = some t') : TInv t' := by
  unfold tchildStep at hs
  split at hs
  · split at hs
    · simp at hs
    · cases hcs : childStep t.sys i with
      | none => simp [hcs] at hs
      | some s =>
        simp [hcs] at hs; subst hs
        obtain ⟨f1, f2, f3, f4, f5⟩ := childStep_frame hcs
        refine ⟨inv_child i h.inv hcs, by simp [f3, h.target], by simp [f1, h.notReap], h.pend,
          by simp [f1, h.out_done], by simp [f2]; exact h.job_open, by simp [f2]; exact h.fin_ok, h.trap_ok⟩
  · simp at hs

theorem tinv_send {t t' : TSys} {k : Nat} (h : TInv t) (hs : tsendStep t k = some t') : TInv t' := by
  unfold tsendStep at hs
  split at hs
  · split at hs
    · split at hs
      · simp only [Option.some.injEq] at hs; subst hs
        refine ⟨h.inv, h.target, h.notReap, ?_, h.out_done, h.job_open, h.fin_ok, h.trap_ok⟩
        intro σ' hm
        simp only at hm
        split at hm
        · rename_i hc
          simp at hc
          simp at hm
          rcases hm with hm | hm
          · exact h.pend σ' hm
          · subst hm; exact hc.1
        · exact h.pend σ' hm
      · simp at hs
    · simp at hs
  · simp at hs

theorem tinv_step {t t' : TSys} (l : TLabel) (h : TInv t) (hs : tstep t l = some t') : TInv t' := by
  cases l with
  | parent => exact tinv_parent h hs
  | child i => exact tinv_child h hs
  | send k => exact tinv_send h hs

theorem tinv_steps {t u : TSys} (h : TSteps t u) (hi : TInv t) : TInv u := by
  induction h with
  | refl => exact hi
  | tail l _ hs ih => exact tinv_step l ih hs

/-! ### every step decreases a measure -/

theorem tmeasure_parent {t t' : TSys} (hs : tparentStep t = some t') :
    tmeasure t' < tmeasure t := by
  unfold tparentStep at hs
  split at hs
  · simp at hs
  · split at hs
    · rename_i hpc
      simp only [Option.some.injEq] at hs; subst hs
      simp only [tmeasure, measure, hpc, pcW]; omega
    · rename_i hpc
      split at hs
      · rename_i i st hw
        obtain ⟨c, hc, hch, _, _⟩ := sysWait_state hw
        have hk := childrenW_take hc hch
        split at hs
        · simp only [Option.some.injEq] at hs; subst hs
          simp only [tmeasure, measure, hpc, pcW]; omega
        · simp only [Option.some.injEq] at hs; subst hs
          simp only [tmeasure, measure, hpc, pcW]; omega
      · simp only [Option.some.injEq] at hs; subst hs
        simp only [tmeasure, measure, hpc, pcW]; omega
      · simp only [Option.some.injEq] at hs; subst hs
        simp only [tmeasure, measure, hpc, pcW]; omega
    · rename_i hpc
      split at hs
      · rename_i hcond
        have hlen : t.sys.pending = true ∨ 0 < t.sigPending.length := by
          simp at hcond
          rcases hcond with h1 | h1
          · exact Or.inl h1
          · right; exact List.length_pos_iff.mpr h1
        split at hs
        · simp only [Option.some.injEq] at hs; subst hs
          simp only [tmeasure, measure, hpc, pcW, List.length_nil]
          by_cases hp : t.sys.pending = true <;> simp [hp] <;> omega
        · simp only [Option.some.injEq] at hs; subst hs
          simp only [tmeasure, measure, hpc, pcW, List.length_nil]
          by_cases hp : t.sys.pending = true
          · simp [hp]; omega
          · rcases hlen with h1 | h1
            · exact absurd h1 hp
            · simp [hp]; omega
      · simp at hs
    · simp at hs

theorem tmeasure_child {t t' : TSys} {i : Nat} (hs : tchildStep t i = some t') :
    tmeasure t' < tmeasure t := by
  unfold tchildStep at hs
  split at hs
  · split at hs
    · simp at hs
    · cases hcs : childStep t.sys i with
      | none => simp [hcs] at hs
      | some s =>
        simp [hcs] at hs; subst hs
        have := measure_child i hcs
        simp only [tmeasure]; omega
  · simp at hs

theorem tmeasure_send {t t' : TSys} {k : Nat} (hs : tsendStep t k = some t') :
    tmeasure t' < tmeasure t := by
  unfold tsendStep at hs
  split at hs
  · rename_i i σ hk
    have hlt : k < t.senders.length := by
      rcases Nat.lt_or_ge k t.senders.length with h' | h'
      · exact h'
      · simp [List.getElem?_eq_none h'] at hk
    split at hs
    · split at hs
      · simp only [Option.some.injEq] at hs; subst hs
        simp only [tmeasure, List.length_eraseIdx, hlt, if_true]
        split <;> simp <;> omega
      · simp at hs
    · simp at hs
  · simp at hs

theorem tmeasure_step {t t' : TSys} (l : TLabel) (hs : tstep t l = some t') :
    tmeasure t' < tmeasure t := by
  cases l with
  | parent => exact tmeasure_parent hs
  | child i => exact tmeasure_child hs
  | send k => exact tmeasure_send hs

/-! ### no deadlock -/

theorem tnot_stuck {t : TSys} (h : TInv t) (hout : t.out = none) : ∃ l t', tstep t l = some t' := by
  have hI := h.inv
  cases hpc : t.sys.pc with
  | enable =>
    refine ⟨.parent, ?_⟩
    simp only [tstep, tparentStep, hout, hpc]
    exact ⟨_, rfl⟩
  | poll =>
    refine ⟨.parent, ?_⟩
    simp only [tstep, tparentStep, hout, hpc]
    split
    · split <;> exact ⟨_, rfl⟩
    · exact ⟨_, rfl⟩
    · exact ⟨_, rfl⟩
  | reap => exact absurd hpc h.notReap
  | done => exact absurd hpc (h.out_done.mp hout)
  | await =>
    obtain ⟨i, c, hc, _, hor⟩ := hI.awaited hpc
    by_cases hch : c.changed = true
    · have hp := hI.no_lost hpc i c hc (by simp [h.target, Target.matches]) hch
      refine ⟨.parent, ?_⟩
      simp only [tstep, tparentStep, hout, hpc, hp, Bool.true_or, if_true]
      split <;> exact ⟨_, rfl⟩
    · rcases hor with hal | hch'
      · by_cases hb : c.state = .running 0 c.state.fin ∧ t.senders.any (fun e => e.1 == i) = true
        · obtain ⟨e, he, hei⟩ := List.any_eq_true.mp hb.2
          obtain ⟨k, hk⟩ := List.getElem?_of_mem he
          refine ⟨.send k, ?_⟩
          obtain ⟨a, σ⟩ := e
          simp at hei; subst hei
          simp only [tstep, tsendStep, hk, hc, hal, if_true]
          exact ⟨_, rfl⟩
        · obtain ⟨s', hs'⟩ := child_alive_enabled hc hal
          refine ⟨.child i, ?_⟩
          simp only [tstep, tchildStep, hc, hb, if_false, hs', Option.map_some]
          exact ⟨_, rfl⟩
      · exact absurd hch' hch

/-! ### the trap wins -/

/-- the shell is blocked in `wait_for_signals` and a signal with a trap action is pending -/
def Armed (t : TSys) (σ : Nat) (log0 : List (Nat × Result)) : Prop :=
  t.out = none ∧ t.sys.pc = .await ∧ firstTrapped t.traps t.sigPending = some σ ∧ t.sys.log = log0

/-- the built-in has ended with `Trapped(σ)` and has handed out no child's state -/
def Fired (t : TSys) (σ : Nat) (log0 : List (Nat × Result)) : Prop :=
  t.out = some (.trapped σ) ∧ t.sys.log = log0

theorem armed_step {t t' : TSys} {σ : Nat} {log0 : List (Nat × Result)} (l : TLabel)
    (h : Armed t σ log0 ∨ Fired t σ log0) (hs : tstep t l = some t') : Armed t' σ log0 ∨ Fired t' σ log0 := by
  rcases h with ⟨hout, hpc, hft, hlog⟩ | ⟨hout, hlog⟩
  · cases l with
    | parent =>
      right
      have hne : t.sigPending.isEmpty = false := by
        have := (firstTrapped_mem hft).2
        cases hsp : t.sigPending with
        | nil => simp [hsp] at this
        | cons a b => rfl
      simp only [tstep, tparentStep, hout, hpc, hne, hft] at hs
      simp at hs; subst hs
      exact ⟨rfl, hlog⟩
    | child i =>
      left
      simp only [tstep, tchildStep] at hs
      split at hs
      · split at hs
        · simp at hs
        · cases hcs : childStep t.sys i with
          | none => simp [hcs] at hs
          | some s =>
            simp [hcs] at hs; subst hs
            obtain ⟨f1, f2, _, _, _⟩ := childStep_frame hcs
            exact ⟨hout, by simp [f1, hpc], hft, by simp [f2, hlog]⟩
      · simp at hs
    | send k =>
      left
      simp only [tstep, tsendStep] at hs
      split at hs
      · split at hs
        · split at hs
          · simp only [Option.some.injEq] at hs; subst hs
            refine ⟨hout, hpc, ?_, hlog⟩
            simp only
            split
            · unfold firstTrapped at hft ⊢
              rw [List.find?_append, hft]; rfl
            · exact hft
          · simp at hs
        · simp at hs
      · simp at hs
  · right
    cases l with
    | parent => simp [tstep, tparentStep, hout] at hs
    | child i =>
      simp only [tstep, tchildStep] at hs
      split at hs
      · split at hs
        · simp at hs
        · cases hcs : childStep t.sys i with
          | none => simp [hcs] at hs
          | some s =>
            simp [hcs] at hs; subst hs
            obtain ⟨_, f2, _, _, _⟩ := childStep_frame hcs
            exact ⟨hout, by simp [f2, hlog]⟩
      · simp at hs
    | send k =>
      simp only [tstep, tsendStep] at hs
      split at hs
      · split at hs
        · split at hs
          · simp only [Option.some.injEq] at hs; subst hs
            exact ⟨hout, hlog⟩
          · simp at hs
        · simp at hs
      · simp at hs

theorem armed_steps {t u : TSys} {σ : Nat} {log0 : List (Nat × Result)} (h : TSteps t u)
    (ha : Armed t σ log0 ∨ Fired t σ log0) : Armed u σ log0 ∨ Fired u σ log0 := by
  induction h with
  | refl => exact ha
  | tail l _ hs ih => exact armed_step l ih hs

/-! ### the awaited job sends the trapped signal and exits: always `Trapped` -/

/-- The shell is blocked in `wait` for job `j`, which is the only child alive; `j` still has to send the trapped
    signal `σ` to the shell (before it exits), nothing is pending yet. -/
structure Sole (t : TSys) (σ : Nat) : Prop where
  out : t.out = none
  pc : t.sys.pc = .await
  pending : t.sys.pending = false
  nosig : t.sigPending = []
  others : ∀ (i : Nat) (c : Child), t.sys.children[i]? = some c → i ≠ t.job → c.state.isAlive = false
  jobAlive : ∃ c, t.sys.children[t.job]? = some c ∧ c.state.isAlive = true
  sender : ∃ e, e ∈ t.senders ∧ e.1 = t.job
  sigs : ∀ e, e ∈ t.senders → e.1 = t.job → e.2 = σ
  trapped : σ ∈ t.traps

theorem childStep_dead {s : Sys} {i : Nat} {c : Child} (hc : s.children[i]? = some c)
    (hd : c.state.isAlive = false) : childStep s i = none := by
  unfold childStep
  rw [hc]
  cases hst : c.state with
  | running f r => simp [hst, PState.isAlive] at hd
  | halted r => simp only [hst]

theorem sole_step {t t' : TSys} {σ : Nat} (l : TLabel) (h : Sole t σ) (hs : tstep t l = some t') :
    (Sole t' σ ∧ t'.sys.log = t.sys.log) ∨ Armed t' σ t.sys.log := by
  cases l with
  | parent =>
    simp [tstep, tparentStep, h.out, h.pc, h.pending, h.nosig] at hs
  | child i =>
    left
    simp only [tstep, tchildStep] at hs
    split at hs
    · rename_i c hc
      split at hs
      · simp at hs
      · rename_i hb
        cases hcs : childStep t.sys i with
        | none => simp [hcs] at hs
        | some s =>
          simp [hcs] at hs; subst hs
          by_cases hij : i = t.job
          · subst hij
            obtain ⟨e, he, hej⟩ := h.sender
            have hany : t.senders.any (fun e => e.1 == t.job) = true :=
              List.any_eq_true.mpr ⟨e, he, by simp [hej]⟩
            cases hst : c.state with
            | halted r =>
              obtain ⟨c', hc', hal⟩ := h.jobAlive
              rw [hc] at hc'; simp at hc'; subst hc'
              simp [hst, PState.isAlive] at hal
            | running f r =>
              cases f with
              | zero => exact absurd ⟨by simp [hst, PState.fin], hany⟩ hb
              | succ f' =>
                simp only [childStep, hc, hst, Option.some.injEq] at hcs
                subst hcs
                refine ⟨⟨h.out, h.pc, h.pending, h.nosig, ?_, ?_, h.sender, h.sigs, h.trapped⟩, rfl⟩
                · intro k c' hk hkj
                  simp only [set_get hc, hkj, if_false] at hk
                  exact h.others k c' hk hkj
                · exact ⟨{ state := .running f' r, changed := c.changed }, by simp [set_get hc],
                    by simp [PState.isAlive]⟩
          · have := childStep_dead hc (h.others i c hc hij)
            rw [this] at hcs; simp at hcs
    · simp at hs
  | send k =>
    right
    simp only [tstep, tsendStep] at hs
    split at hs
    · rename_i i σ' hk
      split at hs
      · rename_i c hc
        split at hs
        · rename_i hal
          simp only [Option.some.injEq] at hs; subst hs
          have hmem := List.mem_of_getElem? hk
          by_cases hij : i = t.job
          · have hσ : σ' = σ := h.sigs (i, σ') hmem hij
            subst hσ
            refine ⟨h.out, h.pc, ?_, rfl⟩
            have htr : σ' ∈ t.traps := h.trapped
            simp [h.nosig, htr, firstTrapped]
          · have := h.others i c hc hij
            simp [this] at hal
        · simp at hs
      · simp at hs
    · simp at hs

theorem sole_steps {t u : TSys} {σ : Nat} (h : TSteps t u) (hs : Sole t σ) :
    (Sole u σ ∧ u.sys.log = t.sys.log) ∨ Armed u σ t.sys.log ∨ Fired u σ t.sys.log := by
  induction h with
  | refl => exact Or.inl ⟨hs, rfl⟩
  | tail l _ hst ih =>
    rcases ih with ⟨h1, hl⟩ | h2
    · rcases sole_step l h1 hst with ⟨h3, hl3⟩ | h3
      · exact Or.inl ⟨h3, hl3.trans hl⟩
      · right; left; rw [← hl]; exact h3
    · exact Or.inr (armed_step l h2 hst)

/-- no step changes which job is awaited or which signals have a trap action -/
theorem tstep_frame {v w : TSys} (l : TLabel) (hs : tstep v l = some w) : w.job = v.job ∧ w.traps = v.traps := by
  cases l with
  | parent =>
    simp only [tstep, tparentStep] at hs
    split at hs
    · simp at hs
    · split at hs
      · simp at hs; subst hs; exact ⟨rfl, rfl⟩
      · split at hs
        · split at hs <;> (simp at hs; subst hs; exact ⟨rfl, rfl⟩)
        · simp at hs; subst hs; exact ⟨rfl, rfl⟩
        · simp at hs; subst hs; exact ⟨rfl, rfl⟩
      · split at hs
        · split at hs <;> (simp at hs; subst hs; exact ⟨rfl, rfl⟩)
        · simp at hs
      · simp at hs
  | child i =>
    simp only [tstep, tchildStep] at hs
    split at hs
    · split at hs
      · simp at hs
      · cases hcs : childStep v.sys i with
        | none => simp [hcs] at hs
        | some s' => simp [hcs] at hs; subst hs; exact ⟨rfl, rfl⟩
    · simp at hs
  | send k =>
    simp only [tstep, tsendStep] at hs
    split at hs
    · split at hs
      · split at hs
        · simp at hs; subst hs; exact ⟨rfl, rfl⟩
        · simp at hs
      · simp at hs
    · simp at hs

/-! ### the driver's scheduler -/

theorem parentBurst_tsteps (n : Nat) (t : TSys) : TSteps t (parentBurst n t) := by
  induction n generalizing t with
  | zero => exact .refl t
  | succ n ih =>
    unfold parentBurst
    split
    · rename_i t' ht'
      exact TSteps.head .parent ht' (ih t')
    · exact .refl t

theorem bstep_tsteps {t t' : TSys} (l : TLabel) (hs : bstep t l = some t') : TSteps t t' := by
  cases l with
  | parent =>
    simp only [bstep] at hs
    cases hp : tparentStep t with
    | none => simp [hp] at hs
    | some u => simp [hp] at hs; subst hs; exact parentBurst_tsteps _ t
  | child i => exact .tail (.child i) (.refl t) hs
  | send k => exact .tail (.send k) (.refl t) hs

/-- the executable scheduler of the driver only takes steps of the system -/
theorem trun_tsteps (fuel : Nat) (choices : List Nat) (t : TSys) : TSteps t (trun fuel choices t) := by
  induction fuel generalizing choices t with
  | zero => exact .refl t
  | succ n ih =>
    unfold trun
    split
    · exact .refl t
    · simp only
      split
      · rename_i t' ht'
        exact TSteps.trans (bstep_tsteps _ ht') (ih _ _)
      · exact .refl t

end YashModel.Proc
