/-
  C13 — lemmas about `WaitTrap.lean` (the `wait` built-in waiting for one job while trapped signals arrive):
  invariant, measure, no deadlock, "the trap wins".  Property theorems are in `Theorems.lean`.
-/
import YashModel.Proc.Steps
import YashModel.Proc.WaitTrap
namespace YashModel.Proc

/-- `TSteps t u`: some scheduler leads from `t` to `u` (any finite sequence of enabled steps of the shell, of a
    child, or of a sender) -/
inductive TSteps : TSys → TSys → Prop where
  | refl (t : TSys) : TSteps t t
  | tail {t u v : TSys} (l : TLabel) : TSteps t u → tstep u l = some v → TSteps t v

theorem TSteps.trans {s t u : TSys} (h1 : TSteps s t) (h2 : TSteps t u) : TSteps s u := by
  induction h2 with
  | refl => exact h1
  | tail l _ hs ih => exact .tail l ih hs

theorem TSteps.head {s t u : TSys} (l : TLabel) (hs : tstep s l = some t) (h : TSteps t u) : TSteps s u :=
  TSteps.trans (.tail l (.refl s) hs) h

structure TInv (t : TSys) : Prop where
  inv : Inv t.sys
  target : t.sys.target = .any
  notReap : t.sys.pc ≠ .reap
  pend : ∀ σ, σ ∈ t.sigPending → σ ∈ t.traps
  out_done : t.out = none ↔ t.sys.pc ≠ .done
  job_open : t.out = none → t.single = false → jobDone t.sys.log t.job = none
  fin_ok : ∀ i r, t.out = some (.finished i r) → i = t.job ∧ (i, r) ∈ t.sys.log
  trap_ok : ∀ σ, t.out = some (.trapped σ) → σ ∈ t.traps

theorem jobDone_mem {log : List (Nat × Result)} {j : Nat} {r : Result} (h : jobDone log j = some r) :
    (j, r) ∈ log := by
  unfold jobDone at h
  cases hf : log.find? (fun e => e.1 == j) with
  | none => simp [hf] at h
  | some e =>
    simp [hf] at h
    have h1 := List.find?_some hf
    have h2 := List.mem_of_find?_eq_some hf
    simp at h1
    obtain ⟨a, b⟩ := e
    simp at h1 h; subst h1; subst h; exact h2

theorem firstTrapped_mem {traps sigs : List Nat} {σ : Nat} (h : firstTrapped traps sigs = some σ) :
    σ ∈ traps ∧ σ ∈ sigs := by
  unfold firstTrapped at h
  have h1 := List.find?_some h
  have h2 := List.mem_of_find?_eq_some h
  simp at h1
  exact ⟨h1, h2⟩

theorem childStep_frame {s s' : Sys} {i : Nat} (hs : childStep s i = some s') :
    s'.pc = s.pc ∧ s'.log = s.log ∧ s'.target = s.target ∧ s'.todo = s.todo ∧ s'.disp = s.disp := by
  unfold childStep at hs
  split at hs
  · split at hs
    · simp at hs; subst hs; simp
    · simp at hs; subst hs
      unfold raiseSigchld
      split <;> simp_all
    · simp at hs
  · simp at hs

theorem noteChld_mem {t : TSys} {s : Sys} {x : Nat} (h : x ∈ noteChld t s) :
    x ∈ t.sigPending ∨ (x = SIGCHLD_NO ∧ SIGCHLD_NO ∈ t.traps) := by
  unfold noteChld at h
  split at h
  · rename_i hc
    simp at hc
    simp at h
    rcases h with h | h
    · exact Or.inl h
    · exact Or.inr ⟨h, hc.1.2⟩
  · exact Or.inl h

theorem noteChld_same {t : TSys} {s : Sys} (h : s.pending = t.sys.pending) : noteChld t s = t.sigPending := by
  unfold noteChld
  cases hp : t.sys.pending <;> simp [h, hp]

theorem noteChld_length (t : TSys) (s : Sys) : (noteChld t s).length ≤ t.sigPending.length + 1 := by
  unfold noteChld; split <;> simp

theorem noteChld_prefix (t : TSys) (s : Sys) : ∃ l, noteChld t s = t.sigPending ++ l := by
  unfold noteChld; split
  · exact ⟨_, rfl⟩
  · exact ⟨[], by simp⟩

/-- the exit of a child (the only step that raises SIGCHLD) takes two units off the measure -/
theorem measure_child2 {s s' : Sys} (i : Nat) (hs : childStep s i = some s') :
    measure s' + 2 ≤ measure s ∨ s'.pending = s.pending := by
  unfold childStep at hs
  split at hs
  · rename_i c hc
    split at hs
    · right
      simp only [Option.some.injEq] at hs; subst hs; rfl
    · left
      rename_i r hst
      simp only [Option.some.injEq] at hs; subst hs
      have := childrenW_set hc { state := PState.halted r, changed := true }
      have hr : ∀ t : Sys, measure (raiseSigchld t) ≤ measure t + 2 := by
        intro t; unfold raiseSigchld measure
        cases t.disp <;> simp <;> split <;> omega
      have h2 := hr { s with children := s.children.set i { state := PState.halted r, changed := true } }
      simp only [measure, childW, hst] at this h2 ⊢
      simp at this
      split at this <;> omega
    · simp at hs
  · simp at hs

/-- the invariant holds when the built-in starts (between two commands: `pc = done`) -/
theorem tinv_start {s : Sys} (h : Inv s) (_hpc : s.pc = .done) (j : Nat) (traps : List Nat)
    (senders : List (Nat × Nat)) : TInv (TSys.start s j traps senders) := by
  unfold TSys.start
  split
  · rename_i r hr
    refine ⟨⟨h.changed_halted, by intro h'; simp at h', by intro h'; simp at h', by intro h'; simp at h',
      h.once, h.logged⟩, rfl, by simp, by simp, by simp, by simp, ?_, by simp⟩
    intro i r' h'
    simp at h'
    obtain ⟨rfl, rfl⟩ := h'
    exact ⟨rfl, jobDone_mem hr⟩
  · rename_i hr
    refine ⟨⟨h.changed_halted, by intro h'; simp at h', by intro h'; simp at h', by intro h'; simp at h',
      h.once, h.logged⟩, rfl, by simp, by simp, by simp, fun _ _ => hr, by simp, by simp⟩

theorem tinv_parent {t t' : TSys} (h : TInv t) (hs : tparentStep t = some t') : TInv t' := by
  unfold tparentStep at hs
  split at hs
  · simp at hs
  · rename_i hout
    have hI := h.inv
    split at hs
    · -- enable
      rename_i hpc
      simp only [Option.some.injEq] at hs; subst hs
      refine ⟨⟨hI.changed_halted, fun _ => rfl, by intro h'; simp at h', by intro h'; simp at h',
        hI.once, hI.logged⟩, h.target, by simp, h.pend, by simp [hout], h.job_open, h.fin_ok, h.trap_ok⟩
    · -- poll
      rename_i hpc
      split at hs
      · rename_i i st hw
        obtain ⟨c, hc, hch, hst, _⟩ := sysWait_state hw
        obtain ⟨t1, t2, t3⟩ := inv_take hI hc hch
        rw [hst] at t2 t3
        split at hs
        · simp only [Option.some.injEq] at hs; subst hs
          exact ⟨⟨t1, by intro h'; simp at h', by intro h'; simp at h', by intro h'; simp at h', t2, t3⟩,
            h.target, by simp, h.pend, by simp, by simp, by simp, by simp⟩
        · split at hs
          · rename_i r hr
            simp only [Option.some.injEq] at hs; subst hs
            refine ⟨⟨t1, by intro h'; simp at h', by intro h'; simp at h', by intro h'; simp at h', t2, t3⟩,
              h.target, by simp, h.pend, by simp, by simp, ?_, by simp⟩
            intro i' r' h'
            simp at h'
            obtain ⟨rfl, rfl⟩ := h'
            exact ⟨rfl, jobDone_mem hr⟩
          · rename_i hr
            simp only [Option.some.injEq] at hs; subst hs
            refine ⟨⟨t1, by intro h'; simp at h', by intro h'; simp at h', by intro h'; simp at h', t2, t3⟩,
              h.target, by simp, h.pend, by simp [hout], fun _ _ => hr, ?_, ?_⟩
            · intro i' r' h'; simp [hout] at h'
            · intro σ h'; simp [hout] at h'
      · rename_i hw
        simp only [Option.some.injEq] at hs; subst hs
        obtain ⟨⟨i, c, hc, hm, hal⟩, hno⟩ := sysWait_none hw
        refine ⟨⟨hI.changed_halted, fun _ => hI.handler (Or.inl hpc), ?_, ?_, hI.once, hI.logged⟩,
          h.target, by simp, h.pend, by simp [hout], h.job_open, h.fin_ok, h.trap_ok⟩
        · intro _ j c' hj _ hch
          have := hno j c' hj trivial; simp [hch] at this
        · intro _; exact ⟨i, c, hc, by simp [h.target, Target.matches], Or.inl hal⟩
      · simp only [Option.some.injEq] at hs; subst hs
        refine ⟨⟨hI.changed_halted, by intro h'; simp at h', by intro h'; simp at h', by intro h'; simp at h',
          hI.once, hI.logged⟩, h.target, by simp, h.pend, by simp, by simp, by simp, by simp⟩
    · -- await
      rename_i hpc
      split at hs
      · split at hs
        · rename_i σ hσ
          simp only [Option.some.injEq] at hs; subst hs
          refine ⟨⟨hI.changed_halted, by intro h'; simp at h', by intro h'; simp at h', by intro h'; simp at h',
            hI.once, hI.logged⟩, h.target, by simp, by simp, by simp, by simp, by simp, ?_⟩
          intro σ' h'
          simp at h'; subst h'
          exact (firstTrapped_mem hσ).1
        · simp only [Option.some.injEq] at hs; subst hs
          refine ⟨⟨hI.changed_halted, fun _ => hI.handler (Or.inr hpc), by intro h'; simp at h',
            by intro h'; simp at h', hI.once, hI.logged⟩, h.target, by simp, by simp, by simp [hout],
            h.job_open, h.fin_ok, h.trap_ok⟩
      · simp at hs
    · simp at hs

theorem tinv_child {t t' : TSys} {i : Nat} (h : TInv t) (hs : tchildStep t i = some t') : TInv t' := by
  unfold tchildStep at hs
  split at hs
  · split at hs
    · simp at hs
    · cases hcs : childStep t.sys i with
      | none => simp [hcs] at hs
      | some s =>
        simp [hcs] at hs; subst hs
        obtain ⟨f1, f2, f3, f4, f5⟩ := childStep_frame hcs
        refine ⟨inv_child i h.inv hcs, by simp [f3, h.target], by simp [f1, h.notReap], ?_,
          by simp [f1, h.out_done], by simp [f2]; exact h.job_open, by simp [f2]; exact h.fin_ok, h.trap_ok⟩
        intro σ hσ
        rcases noteChld_mem hσ with h1 | ⟨h1, h2⟩
        · exact h.pend σ h1
        · rw [h1]; exact h2
  · simp at hs

theorem tinv_send {t t' : TSys} {k : Nat} (h : TInv t) (hs : tsendStep t k = some t') : TInv t' := by
  unfold tsendStep at hs
  split at hs
  · split at hs
    · split at hs
      · simp only [Option.some.injEq] at hs; subst hs
        refine ⟨h.inv, h.target, h.notReap, ?_, h.out_done, h.job_open, h.fin_ok, h.trap_ok⟩
        intro σ' hm
        simp only at hm
        split at hm
        · rename_i hc
          simp at hc
          simp at hm
          rcases hm with hm | hm
          · exact h.pend σ' hm
          · subst hm; exact hc.1
        · exact h.pend σ' hm
      · simp at hs
    · simp at hs
  · simp at hs

theorem tinv_step {t t' : TSys} (l : TLabel) (h : TInv t) (hs : tstep t l = some t') : TInv t' := by
  cases l with
  | parent => exact tinv_parent h hs
  | child i => exact tinv_child h hs
  | send k => exact tinv_send h hs

theorem tinv_steps {t u : TSys} (h : TSteps t u) (hi : TInv t) : TInv u := by
  induction h with
  | refl => exact hi
  | tail l _ hs ih => exact tinv_step l ih hs

/-! ### every step decreases a measure -/

theorem tmeasure_parent {t t' : TSys} (hs : tparentStep t = some t') :
    tmeasure t' < tmeasure t := by
  unfold tparentStep at hs
  split at hs
  · simp at hs
  · split at hs
    · rename_i hpc
      simp only [Option.some.injEq] at hs; subst hs
      simp only [tmeasure, measure, hpc, pcW]; omega
    · rename_i hpc
      split at hs
      · rename_i i st hw
        obtain ⟨c, hc, hch, _, _⟩ := sysWait_state hw
        have hk := childrenW_take hc hch
        split at hs
        · simp only [Option.some.injEq] at hs; subst hs
          simp only [tmeasure, measure, hpc, pcW]; omega
        · split at hs
          · simp only [Option.some.injEq] at hs; subst hs
            simp only [tmeasure, measure, hpc, pcW]; omega
          · simp only [Option.some.injEq] at hs; subst hs
            simp only [tmeasure, measure, hpc, pcW]; omega
      · simp only [Option.some.injEq] at hs; subst hs
        simp only [tmeasure, measure, hpc, pcW]; omega
      · simp only [Option.some.injEq] at hs; subst hs
        simp only [tmeasure, measure, hpc, pcW]; omega
    · rename_i hpc
      split at hs
      · rename_i hcond
        have hlen : t.sys.pending = true ∨ 0 < t.sigPending.length := by
          simp at hcond
          rcases hcond with h1 | h1
          · exact Or.inl h1
          · right; exact List.length_pos_iff.mpr h1
        split at hs
        · simp only [Option.some.injEq] at hs; subst hs
          simp only [tmeasure, measure, hpc, pcW, List.length_nil]
          by_cases hp : t.sys.pending = true <;> simp [hp] <;> omega
        · simp only [Option.some.injEq] at hs; subst hs
          simp only [tmeasure, measure, hpc, pcW, List.length_nil]
          by_cases hp : t.sys.pending = true
          · simp [hp]; omega
          · rcases hlen with h1 | h1
            · exact absurd h1 hp
            · simp [hp]; omega
      · simp at hs
    · simp at hs

theorem tmeasure_child {t t' : TSys} {i : Nat} (hs : tchildStep t i = some t') :
    tmeasure t' < tmeasure t := by
  unfold tchildStep at hs
  split at hs
  · split at hs
    · simp at hs
    · cases hcs : childStep t.sys i with
      | none => simp [hcs] at hs
      | some s =>
        simp [hcs] at hs; subst hs
        have h1 := measure_child i hcs
        have h3 := noteChld_length t s
        rcases measure_child2 i hcs with h2 | h2
        · simp only [tmeasure]; omega
        · have h4 := noteChld_same (t := t) h2
          simp only [tmeasure, h4]; omega
  · simp at hs

theorem tmeasure_send {t t' : TSys} {k : Nat} (hs : tsendStep t k = some t') :
    tmeasure t' < tmeasure t := by
  unfold tsendStep at hs
  split at hs
  · rename_i i σ hk
    have hlt : k < t.senders.length := by
      rcases Nat.lt_or_ge k t.senders.length with h' | h'
      · exact h'
      · simp [List.getElem?_eq_none h'] at hk
    split at hs
    · split at hs
      · simp only [Option.some.injEq] at hs; subst hs
        simp only [tmeasure, List.length_eraseIdx, hlt, if_true]
        split <;> simp <;> omega
      · simp at hs
    · simp at hs
  · simp at hs

theorem tmeasure_step {t t' : TSys} (l : TLabel) (hs : tstep t l = some t') :
    tmeasure t' < tmeasure t := by
  cases l with
  | parent => exact tmeasure_parent hs
  | child i => exact tmeasure_child hs
  | send k => exact tmeasure_send hs

/-! ### no deadlock -/

theorem first_sender {l : List (Nat × Nat)} {i : Nat} (h : l.any (fun e => e.1 == i) = true) :
    ∃ k σ, l[k]? = some (i, σ) ∧ (l.take k).any (fun e => e.1 == i) = false := by
  induction l with
  | nil => simp at h
  | cons a t ih =>
    by_cases ha : a.1 = i
    · exact ⟨0, a.2, by simp [← ha], by simp⟩
    · have ht : t.any (fun e => e.1 == i) = true := by
        simp only [List.any_cons, Bool.or_eq_true] at h
        rcases h with h | h
        · simp at h; exact absurd h ha
        · exact h
      obtain ⟨k, σ, h1, h2⟩ := ih ht
      refine ⟨k + 1, σ, by simpa using h1, ?_⟩
      simp only [List.take_succ_cons, List.any_cons, h2, Bool.or_false]
      simpa using ha


theorem tnot_stuck {t : TSys} (h : TInv t) (hout : t.out = none) : ∃ l t', tstep t l = some t' := by
  have hI := h.inv
  cases hpc : t.sys.pc with
  | enable =>
    refine ⟨.parent, ?_⟩
    simp only [tstep, tparentStep, hout, hpc]
    exact ⟨_, rfl⟩
  | poll =>
    refine ⟨.parent, ?_⟩
    simp only [tstep, tparentStep, hout, hpc]
    split
    · split
      · exact ⟨_, rfl⟩
      · split <;> exact ⟨_, rfl⟩
    · exact ⟨_, rfl⟩
    · exact ⟨_, rfl⟩
  | reap => exact absurd hpc h.notReap
  | done => exact absurd hpc (h.out_done.mp hout)
  | await =>
    obtain ⟨i, c, hc, _, hor⟩ := hI.awaited hpc
    by_cases hch : c.changed = true
    · have hp := hI.no_lost hpc i c hc (by simp [h.target, Target.matches]) hch
      refine ⟨.parent, ?_⟩
      simp only [tstep, tparentStep, hout, hpc, hp, Bool.true_or, if_true]
      split <;> exact ⟨_, rfl⟩
    · rcases hor with hal | hch'
      · by_cases hb : c.state = .running 0 c.state.fin ∧ t.senders.any (fun e => e.1 == i) = true
        · obtain ⟨k, σ, hk, hfirst⟩ := first_sender hb.2
          refine ⟨.send k, ?_⟩
          simp only [tstep, tsendStep, hk, hc, hal, hfirst, Bool.not_false, Bool.and_self, if_true]
          exact ⟨_, rfl⟩
        · obtain ⟨s', hs'⟩ := child_alive_enabled hc hal
          refine ⟨.child i, ?_⟩
          simp only [tstep, tchildStep, hc, hb, if_false, hs', Option.map_some]
          exact ⟨_, rfl⟩
      · exact absurd hch' hch

/-! ### the trap wins -/

/-- the shell is blocked in `wait_for_signals` and a signal with a trap action is pending -/
def Armed (t : TSys) (σ : Nat) (log0 : List (Nat × Result)) : Prop :=
  t.out = none ∧ t.sys.pc = .await ∧ firstTrapped t.traps t.sigPending = some σ ∧ t.sys.log = log0

/-- the built-in has ended with `Trapped(σ)` and has handed out no child's state -/
def Fired (t : TSys) (σ : Nat) (log0 : List (Nat × Result)) : Prop :=
  t.out = some (.trapped σ) ∧ t.sys.log = log0

theorem armed_step {t t' : TSys} {σ : Nat} {log0 : List (Nat × Result)} (l : TLabel)
    (h : Armed t σ log0 ∨ Fired t σ log0) (hs : tstep t l = some t') : Armed t' σ log0 ∨ Fired t' σ log0 := by
  rcases h with ⟨hout, hpc, hft, hlog⟩ | ⟨hout, hlog⟩
  · cases l with
    | parent =>
      right
      have hne : t.sigPending.isEmpty = false := by
        have := (firstTrapped_mem hft).2
        cases hsp : t.sigPending with
        | nil => simp [hsp] at this
        | cons a b => rfl
      simp only [tstep, tparentStep, hout, hpc, hne, hft] at hs
      simp at hs; subst hs
      exact ⟨rfl, hlog⟩
    | child i =>
      left
      simp only [tstep, tchildStep] at hs
      split at hs
      · split at hs
        · simp at hs
        · cases hcs : childStep t.sys i with
          | none => simp [hcs] at hs
          | some s =>
            simp [hcs] at hs; subst hs
            obtain ⟨f1, f2, _, _, _⟩ := childStep_frame hcs
            refine ⟨hout, by simp [f1, hpc], ?_, by simp [f2, hlog]⟩
            obtain ⟨l, hl⟩ := noteChld_prefix t s
            simp only [hl]
            unfold firstTrapped at hft ⊢
            rw [List.find?_append, hft]; rfl
      · simp at hs
    | send k =>
      left
      simp only [tstep, tsendStep] at hs
      split at hs
      · split at hs
        · split at hs
          · simp only [Option.some.injEq] at hs; subst hs
            refine ⟨hout, hpc, ?_, hlog⟩
            simp only
            split
            · unfold firstTrapped at hft ⊢
              rw [List.find?_append, hft]; rfl
            · exact hft
          · simp at hs
        · simp at hs
      · simp at hs
  · right
    cases l with
    | parent => simp [tstep, tparentStep, hout] at hs
    | child i =>
      simp only [tstep, tchildStep] at hs
      split at hs
      · split at hs
        · simp at hs
        · cases hcs : childStep t.sys i with
          | none => simp [hcs] at hs
          | some s =>
            simp [hcs] at hs; subst hs
            obtain ⟨_, f2, _, _, _⟩ := childStep_frame hcs
            exact ⟨hout, by simp [f2, hlog]⟩
      · simp at hs
    | send k =>
      simp only [tstep, tsendStep] at hs
      split at hs
      · split at hs
        · split at hs
          · simp only [Option.some.injEq] at hs; subst hs
            exact ⟨hout, hlog⟩
          · simp at hs
        · simp at hs
      · simp at hs

theorem armed_steps {t u : TSys} {σ : Nat} {log0 : List (Nat × Result)} (h : TSteps t u)
    (ha : Armed t σ log0 ∨ Fired t σ log0) : Armed u σ log0 ∨ Fired u σ log0 := by
  induction h with
  | refl => exact ha
  | tail l _ hs ih => exact armed_step l ih hs

/-! ### the awaited job sends the trapped signal and exits: always `Trapped` -/

/-- The shell is blocked in `wait` for job `j`, which is the only child alive; `j` still has to send the trapped
    signal `σ` to the shell (before it exits), nothing is pending yet. -/
structure Sole (t : TSys) (σ : Nat) : Prop where
  out : t.out = none
  pc : t.sys.pc = .await
  pending : t.sys.pending = false
  nosig : t.sigPending = []
  others : ∀ (i : Nat) (c : Child), t.sys.children[i]? = some c → i ≠ t.job → c.state.isAlive = false
  jobAlive : ∃ c, t.sys.children[t.job]? = some c ∧ c.state.isAlive = true
  sender : ∃ e, e ∈ t.senders ∧ e.1 = t.job
  sigs : ∀ e, e ∈ t.senders → e.1 = t.job → e.2 = σ
  trapped : σ ∈ t.traps

theorem childStep_dead {s : Sys} {i : Nat} {c : Child} (hc : s.children[i]? = some c)
    (hd : c.state.isAlive = false) : childStep s i = none := by
  unfold childStep
  rw [hc]
  cases hst : c.state with
  | running f r => simp [hst, PState.isAlive] at hd
  | halted r => simp only [hst]

theorem sole_step {t t' : TSys} {σ : Nat} (l : TLabel) (h : Sole t σ) (hs : tstep t l = some t') :
    (Sole t' σ ∧ t'.sys.log = t.sys.log) ∨ Armed t' σ t.sys.log := by
  cases l with
  | parent =>
    simp [tstep, tparentStep, h.out, h.pc, h.pending, h.nosig] at hs
  | child i =>
    left
    simp only [tstep, tchildStep] at hs
    split at hs
    · rename_i c hc
      split at hs
      · simp at hs
      · rename_i hb
        cases hcs : childStep t.sys i with
        | none => simp [hcs] at hs
        | some s =>
          simp [hcs] at hs; subst hs
          by_cases hij : i = t.job
          · subst hij
            obtain ⟨e, he, hej⟩ := h.sender
            have hany : t.senders.any (fun e => e.1 == t.job) = true :=
              List.any_eq_true.mpr ⟨e, he, by simp [hej]⟩
            cases hst : c.state with
            | halted r =>
              obtain ⟨c', hc', hal⟩ := h.jobAlive
              rw [hc] at hc'; simp at hc'; subst hc'
              simp [hst, PState.isAlive] at hal
            | running f r =>
              cases f with
              | zero => exact absurd ⟨by simp [hst, PState.fin], hany⟩ hb
              | succ f' =>
                simp only [childStep, hc, hst, Option.some.injEq] at hcs
                subst hcs
                refine ⟨⟨h.out, h.pc, h.pending, (noteChld_same (by rfl)).trans h.nosig, ?_, ?_, h.sender, h.sigs, h.trapped⟩, rfl⟩
                · intro k c' hk hkj
                  simp only [set_get hc, hkj, if_false] at hk
                  exact h.others k c' hk hkj
                · exact ⟨{ state := .running f' r, changed := c.changed }, by simp [set_get hc],
                    by simp [PState.isAlive]⟩
          · have := childStep_dead hc (h.others i c hc hij)
            rw [this] at hcs; simp at hcs
    · simp at hs
  | send k =>
    right
    simp only [tstep, tsendStep] at hs
    split at hs
    · rename_i i σ' hk
      split at hs
      · rename_i c hc
        split at hs
        · rename_i hal
          simp only [Option.some.injEq] at hs; subst hs
          have hmem := List.mem_of_getElem? hk
          by_cases hij : i = t.job
          · have hσ : σ' = σ := h.sigs (i, σ') hmem hij
            subst hσ
            refine ⟨h.out, h.pc, ?_, rfl⟩
            have htr : σ' ∈ t.traps := h.trapped
            simp [h.nosig, htr, firstTrapped]
          · have := h.others i c hc hij
            simp [this] at hal
        · simp at hs
      · simp at hs
    · simp at hs

theorem sole_steps {t u : TSys} {σ : Nat} (h : TSteps t u) (hs : Sole t σ) :
    (Sole u σ ∧ u.sys.log = t.sys.log) ∨ Armed u σ t.sys.log ∨ Fired u σ t.sys.log := by
  induction h with
  | refl => exact Or.inl ⟨hs, rfl⟩
  | tail l _ hst ih =>
    rcases ih with ⟨h1, hl⟩ | h2
    · rcases sole_step l h1 hst with ⟨h3, hl3⟩ | h3
      · exact Or.inl ⟨h3, hl3.trans hl⟩
      · right; left; rw [← hl]; exact h3
    · exact Or.inr (armed_step l h2 hst)

/-- no step changes which job is awaited or which signals have a trap action -/
theorem tstep_frame {v w : TSys} (l : TLabel) (hs : tstep v l = some w) :
    w.job = v.job ∧ w.traps = v.traps ∧ w.single = v.single := by
  cases l with
  | parent =>
    simp only [tstep, tparentStep] at hs
    split at hs
    · simp at hs
    · split at hs
      · simp at hs; subst hs; exact ⟨rfl, rfl, rfl⟩
      · split at hs
        · split at hs
          · simp at hs; subst hs; exact ⟨rfl, rfl, rfl⟩
          · split at hs <;> (simp at hs; subst hs; exact ⟨rfl, rfl, rfl⟩)
        · simp at hs; subst hs; exact ⟨rfl, rfl, rfl⟩
        · simp at hs; subst hs; exact ⟨rfl, rfl, rfl⟩
      · split at hs
        · split at hs <;> (simp at hs; subst hs; exact ⟨rfl, rfl, rfl⟩)
        · simp at hs
      · simp at hs
  | child i =>
    simp only [tstep, tchildStep] at hs
    split at hs
    · split at hs
      · simp at hs
      · cases hcs : childStep v.sys i with
        | none => simp [hcs] at hs
        | some s' => simp [hcs] at hs; subst hs; exact ⟨rfl, rfl, rfl⟩
    · simp at hs
  | send k =>
    simp only [tstep, tsendStep] at hs
    split at hs
    · split at hs
      · split at hs
        · simp at hs; subst hs; exact ⟨rfl, rfl, rfl⟩
        · simp at hs
      · simp at hs
    · simp at hs

/-! ### a trap on SIGCHLD itself -/

/-- `trap … CHLD; cmd & wait $!`: the shell is blocked in `wait` for job `j`, its only live child; SIGCHLD has a
    trap action, the handler is installed, nobody sends anything. -/
structure SoleChld (t : TSys) : Prop where
  out : t.out = none
  pc : t.sys.pc = .await
  disp : t.sys.disp = .catch
  pending : t.sys.pending = false
  nosig : t.sigPending = []
  others : ∀ (i : Nat) (c : Child), t.sys.children[i]? = some c → i ≠ t.job → c.state.isAlive = false
  jobAlive : ∃ c, t.sys.children[t.job]? = some c ∧ c.state.isAlive = true
  quiet : t.senders = []
  trapped : SIGCHLD_NO ∈ t.traps

theorem sole_chld_step {t t' : TSys} (l : TLabel) (h : SoleChld t) (hs : tstep t l = some t') :
    (SoleChld t' ∧ t'.sys.log = t.sys.log) ∨ Armed t' SIGCHLD_NO t.sys.log := by
  cases l with
  | parent => simp [tstep, tparentStep, h.out, h.pc, h.pending, h.nosig] at hs
  | send k => simp [tstep, tsendStep, h.quiet] at hs
  | child i =>
    simp only [tstep, tchildStep] at hs
    split at hs
    · rename_i c hc
      split at hs
      · simp at hs
      · cases hcs : childStep t.sys i with
        | none => simp [hcs] at hs
        | some s =>
          simp [hcs] at hs; subst hs
          by_cases hij : i = t.job
          · subst hij
            cases hst : c.state with
            | halted r =>
              obtain ⟨c', hc', hal⟩ := h.jobAlive
              rw [hc] at hc'; simp at hc'; subst hc'
              simp [hst, PState.isAlive] at hal
            | running f r =>
              cases f with
              | succ f' =>
                left
                simp only [childStep, hc, hst, Option.some.injEq] at hcs
                subst hcs
                refine ⟨⟨h.out, h.pc, h.disp, h.pending, (noteChld_same (by rfl)).trans h.nosig, ?_, ?_, h.quiet,
                  h.trapped⟩, rfl⟩
                · intro k c' hk hkj
                  simp only [set_get hc, hkj, if_false] at hk
                  exact h.others k c' hk hkj
                · exact ⟨{ state := .running f' r, changed := c.changed }, by simp [set_get hc],
                    by simp [PState.isAlive]⟩
              | zero =>
                right
                simp only [childStep, hc, hst, Option.some.injEq] at hcs
                subst hcs
                have htr : t.traps.contains SIGCHLD_NO = true := by simpa using h.trapped
                refine ⟨h.out, by simp [raiseSigchld, h.disp, h.pc], ?_, by simp [raiseSigchld, h.disp]⟩
                simp [noteChld, raiseSigchld, h.disp, h.pending, h.nosig, htr, firstTrapped, h.trapped]
          · have := childStep_dead hc (h.others i c hc hij)
            rw [this] at hcs; simp at hcs
    · simp at hs

theorem sole_chld_steps {t u : TSys} (h : TSteps t u) (hs : SoleChld t) :
    (SoleChld u ∧ u.sys.log = t.sys.log) ∨ Armed u SIGCHLD_NO t.sys.log ∨ Fired u SIGCHLD_NO t.sys.log := by
  induction h with
  | refl => exact Or.inl ⟨hs, rfl⟩
  | tail l _ hst ih =>
    rcases ih with ⟨h1, hl⟩ | h2
    · rcases sole_chld_step l h1 hst with ⟨h3, hl3⟩ | h3
      · exact Or.inl ⟨h3, hl3.trans hl⟩
      · right; left; rw [← hl]; exact h3
    · exact Or.inr (armed_step l h2 hst)


/-! ### the driver's scheduler -/

theorem parentBurst_tsteps (n : Nat) (t : TSys) : TSteps t (parentBurst n t) := by
  induction n generalizing t with
  | zero => exact .refl t
  | succ n ih =>
    unfold parentBurst
    split
    · rename_i t' ht'
      exact TSteps.head .parent ht' (ih t')
    · exact .refl t

theorem bstep_tsteps {t t' : TSys} (l : TLabel) (hs : bstep t l = some t') : TSteps t t' := by
  cases l with
  | parent =>
    simp only [bstep] at hs
    cases hp : tparentStep t with
    | none => simp [hp] at hs
    | some u => simp [hp] at hs; subst hs; exact parentBurst_tsteps _ t
  | child i => exact .tail (.child i) (.refl t) hs
  | send k => exact .tail (.send k) (.refl t) hs


/-! ### under the executor's scheduling (a turn of the shell is a burst): any other children -/

/-- `BSteps t u`: a run of the system as the virtual executor schedules it — the shell, once scheduled, runs until
    it blocks (`Concurrent::run_virtual`), children and senders step one at a time -/
inductive BSteps : TSys → TSys → Prop where
  | refl (t : TSys) : BSteps t t
  | tail {t u v : TSys} (l : TLabel) : BSteps t u → bstep u l = some v → BSteps t v

theorem BSteps.trans {s t u : TSys} (h1 : BSteps s t) (h2 : BSteps t u) : BSteps s u := by
  induction h2 with
  | refl => exact h1
  | tail l _ hs ih => exact .tail l ih hs

theorem BSteps.tsteps {t u : TSys} (h : BSteps t u) : TSteps t u := by
  induction h with
  | refl => exact .refl _
  | tail l _ hs ih => exact TSteps.trans ih (bstep_tsteps l hs)

/-- a full turn ends where the shell cannot move -/
theorem parentBurst_blocked (n : Nat) (t : TSys) (h : tmeasure t ≤ n) : tparentStep (parentBurst n t) = none := by
  induction n generalizing t with
  | zero =>
    unfold parentBurst
    cases hp : tparentStep t with
    | none => rfl
    | some t' => have := tmeasure_parent hp; omega
  | succ n ih =>
    unfold parentBurst
    cases hp : tparentStep t with
    | none => exact hp
    | some t' =>
      exact ih t' (by have := tmeasure_parent hp; omega)

theorem parentTurn_blocked (t : TSys) : tparentStep (parentTurn t) = none :=
  parentBurst_blocked _ t (Nat.le_refl _)

/-- Mid-turn state of the shell waiting for job `j` that is alive, unreported, not recorded as finished and still
    has to send `σ`; nothing but SIGCHLD has arrived.  No condition on the other children. -/
structure Waiting (t : TSys) (σ : Nat) : Prop where
  out : t.out = none
  pcs : t.sys.pc = .enable ∨ t.sys.pc = .poll ∨ t.sys.pc = .await
  nosig : t.sigPending = []
  jobAlive : ∃ c, t.sys.children[t.job]? = some c ∧ c.state.isAlive = true ∧ c.changed = false
  open_ : jobDone t.sys.log t.job = none
  sender : ∃ e, e ∈ t.senders ∧ e.1 = t.job
  sigs : ∀ e, e ∈ t.senders → e.2 = σ
  trapped : σ ∈ t.traps
  /-- SIGCHLD itself has no trap action (else the exit of any other child interrupts the built-in as well) -/
  nochld : SIGCHLD_NO ∉ t.traps
  /-- `wait_while_running(job_status(job))`, not the single call of a bare `wait` -/
  multi : t.single = false

theorem noteChld_notrap {t : TSys} (s : Sys) (h : SIGCHLD_NO ∉ t.traps) : noteChld t s = t.sigPending := by
  unfold noteChld
  simp
  intro _ _ h3; exact absurd h3 h

theorem jobDone_logOf {log : List (Nat × Result)} {i j : Nat} (st : PState) (hij : i ≠ j) :
    jobDone (logOf i st ++ log) j = jobDone log j := by
  cases st with
  | running f r => simp [logOf]
  | halted r =>
    have : (i == j) = false := by simpa using hij
    simp [logOf, jobDone, this]

theorem childStep_other {s s' : Sys} {i j : Nat} (hs : childStep s i = some s') (hij : j ≠ i) :
    s'.children[j]? = s.children[j]? := by
  unfold childStep at hs
  split at hs
  · rename_i c hc
    split at hs
    · simp only [Option.some.injEq] at hs; subst hs
      simp [set_get hc, hij]
    · simp only [Option.some.injEq] at hs; subst hs
      unfold raiseSigchld
      split <;> simp [set_get hc, hij]
    · simp at hs
  · simp at hs

theorem waiting_parent {t t' : TSys} {σ : Nat} (h : Waiting t σ) (hs : tparentStep t = some t') :
    Waiting t' σ := by
  obtain ⟨cj, hcj, halj, hchj⟩ := h.jobAlive
  unfold tparentStep at hs
  simp only [h.out] at hs
  split at hs
  · simp only [Option.some.injEq] at hs; subst hs
    exact ⟨by simp, Or.inr (Or.inl rfl), h.nosig, ⟨cj, hcj, halj, hchj⟩, h.open_, h.sender, h.sigs, h.trapped, h.nochld, h.multi⟩
  · split at hs
    · rename_i i st hw
      obtain ⟨c, hc, hch, _, _⟩ := sysWait_state hw
      have hij : i ≠ t.job := by
        intro e; subst e; rw [hcj] at hc; simp at hc; subst hc; simp [hchj] at hch
      have hopen : jobDone (logOf i st ++ t.sys.log) t.job = none := by
        rw [jobDone_logOf st hij]; exact h.open_
      simp only [h.multi, hopen] at hs
      simp only [Bool.false_eq_true, if_false, Option.some.injEq] at hs; subst hs
      refine ⟨by simp, Or.inl rfl, h.nosig, ⟨cj, ?_, halj, hchj⟩, hopen, h.sender, h.sigs, h.trapped, h.nochld, rfl⟩
      simp only [take_get hc]
      have : ¬ t.job = i := fun e => hij e.symm
      simp [this, hcj]
    · simp only [Option.some.injEq] at hs; subst hs
      exact ⟨by simp, Or.inr (Or.inr rfl), h.nosig, ⟨cj, hcj, halj, hchj⟩, h.open_, h.sender, h.sigs, h.trapped, h.nochld, h.multi⟩
    · rename_i hw
      have := (sysWait_any_echild.mp hw t.job cj hcj).2
      simp [halj] at this
  · split at hs
    · simp only [h.nosig, firstTrapped, List.find?_nil, Option.some.injEq] at hs; subst hs
      exact ⟨by simp, Or.inr (Or.inl rfl), rfl, ⟨cj, hcj, halj, hchj⟩, h.open_, h.sender, h.sigs, h.trapped, h.nochld, h.multi⟩
    · simp at hs
  · rename_i h1 h2 h3
    rcases h.pcs with e | e | e
    · exact absurd e h1
    · exact absurd e h2
    · exact absurd e h3

theorem waiting_burst {t : TSys} {σ : Nat} (n : Nat) (h : Waiting t σ) : Waiting (parentBurst n t) σ := by
  induction n generalizing t with
  | zero => exact h
  | succ n ih =>
    unfold parentBurst
    cases hp : tparentStep t with
    | none => exact h
    | some t' => exact ih (waiting_parent h hp)

/-- a waiting shell that cannot move is blocked in `wait_for_signals` -/
theorem waiting_blocked {t : TSys} {σ : Nat} (h : Waiting t σ) (hb : tparentStep t = none) :
    t.sys.pc = .await := by
  rcases h.pcs with e | e | e
  · simp [tparentStep, h.out, e] at hb
  · simp only [tparentStep, h.out, e, h.multi] at hb
    split at hb
    · simp only [Bool.false_eq_true, if_false] at hb
      split at hb <;> simp at hb
    · simp at hb
    · simp at hb
  · exact e

theorem armed_burst {t : TSys} {σ : Nat} {log0 : List (Nat × Result)} (n : Nat)
    (h : Armed t σ log0 ∨ Fired t σ log0) : Armed (parentBurst n t) σ log0 ∨ Fired (parentBurst n t) σ log0 :=
  armed_steps (parentBurst_tsteps n t) h

/-- one scheduling decision of the executor from a blocked waiting state -/
theorem waiting_bstep {t t' : TSys} {σ : Nat} (l : TLabel) (h : Waiting t σ) (hpc : t.sys.pc = .await)
    (hs : bstep t l = some t') :
    (Waiting t' σ ∧ t'.sys.pc = .await ∧ jobDone t'.sys.log t'.job = none) ∨ Armed t' σ t'.sys.log := by
  obtain ⟨cj, hcj, halj, hchj⟩ := h.jobAlive
  cases l with
  | parent =>
    left
    simp only [bstep] at hs
    cases hp : tparentStep t with
    | none => simp [hp] at hs
    | some u =>
      simp [hp] at hs; subst hs
      have hw := waiting_burst (tmeasure t) h
      exact ⟨hw, waiting_blocked hw (parentTurn_blocked t), hw.open_⟩
  | child i =>
    left
    simp only [bstep, tstep, tchildStep] at hs
    split at hs
    · rename_i c hc
      split at hs
      · simp at hs
      · rename_i hb
        cases hcs : childStep t.sys i with
        | none => simp [hcs] at hs
        | some s =>
          simp [hcs] at hs; subst hs
          obtain ⟨f1, f2, _, _, _⟩ := childStep_frame hcs
          have hjob : ∃ c', s.children[t.job]? = some c' ∧ c'.state.isAlive = true ∧ c'.changed = false := by
            by_cases hij : i = t.job
            · subst hij
              rw [hcj] at hc; simp at hc; subst hc
              obtain ⟨e, he, hej⟩ := h.sender
              have hany : t.senders.any (fun e => e.1 == t.job) = true :=
                List.any_eq_true.mpr ⟨e, he, by simp [hej]⟩
              cases hst : cj.state with
              | halted r => simp [hst, PState.isAlive] at halj
              | running f r =>
                cases f with
                | zero => exact absurd ⟨by simp [hst, PState.fin], hany⟩ hb
                | succ f' =>
                  simp only [childStep, hcj, hst, Option.some.injEq] at hcs
                  subst hcs
                  exact ⟨{ state := .running f' r, changed := cj.changed }, by simp [set_get hcj],
                    by simp [PState.isAlive], hchj⟩
            · -- another child moves: the job's entry is untouched
              refine ⟨cj, ?_, halj, hchj⟩
              rw [childStep_other hcs (fun e => hij e.symm)]; exact hcj
          exact ⟨⟨h.out, by simp [f1, hpc], (noteChld_notrap s h.nochld).trans h.nosig, hjob,
            by simp [f2]; exact h.open_, h.sender, h.sigs, h.trapped, h.nochld, h.multi⟩, by simp [f1, hpc],
            by simp [f2]; exact h.open_⟩
    · simp at hs
  | send k =>
    right
    simp only [bstep, tstep, tsendStep] at hs
    split at hs
    · rename_i i σ' hk
      split at hs
      · split at hs
        · simp only [Option.some.injEq] at hs; subst hs
          have hσ : σ' = σ := h.sigs (i, σ') (List.mem_of_getElem? hk)
          subst hσ
          have htr : σ' ∈ t.traps := h.trapped
          exact ⟨h.out, hpc, by simp [h.nosig, htr, firstTrapped], rfl⟩
        · simp at hs
      · simp at hs
    · simp at hs


theorem tsteps_frame {a b : TSys} (hab : TSteps a b) : b.job = a.job ∧ b.traps = a.traps ∧ b.single = a.single := by
  induction hab with
  | refl => exact ⟨rfl, rfl, rfl⟩
  | tail l _ hs ih =>
    have := tstep_frame l hs
    exact ⟨this.1.trans ih.1, this.2.1.trans ih.2.1, this.2.2.trans ih.2.2⟩

/-- what holds between the scheduling decisions of the executor once the shell is blocked waiting for the job:
    still waiting (blocked, job not recorded as finished), or the trapped signal has arrived and nothing has been
    handed out since, or the built-in has ended `Trapped` -/
def Race (j σ : Nat) (u : TSys) : Prop :=
  u.job = j ∧
  ((Waiting u σ ∧ u.sys.pc = .await) ∨
   (∃ log0, jobDone log0 j = none ∧ (Armed u σ log0 ∨ Fired u σ log0)))

theorem race_bstep {j σ : Nat} {u v : TSys} (l : TLabel) (h : Race j σ u) (hs : bstep u l = some v) :
    Race j σ v := by
  obtain ⟨hj, h⟩ := h
  have hjv : v.job = j := ((tsteps_frame (bstep_tsteps l hs)).1).trans hj
  refine ⟨hjv, ?_⟩
  rcases h with ⟨hw, hpc⟩ | ⟨log0, hopen, ha⟩
  · rcases waiting_bstep l hw hpc hs with ⟨h1, h2, _⟩ | h1
    · exact Or.inl ⟨h1, h2⟩
    · right
      refine ⟨v.sys.log, ?_, Or.inl h1⟩
      -- the log at the moment the signal arrives is the log of the waiting state: a sender's step does not touch it
      cases l with
      | send k =>
        simp only [bstep, tstep, tsendStep] at hs
        split at hs
        · split at hs
          · split at hs
            · simp only [Option.some.injEq] at hs; subst hs
              rw [← hj]; exact hw.open_
            · simp at hs
          · simp at hs
        · simp at hs
      | parent =>
        have hw' := waiting_bstep .parent hw hpc hs
        rcases hw' with ⟨_, _, h3⟩ | h3
        · rw [← hjv]; exact h3
        · -- a turn of the shell from a waiting state stays waiting (no signal can arrive during it)
          simp only [bstep] at hs
          cases hp : tparentStep u with
          | none => simp [hp] at hs
          | some w =>
            simp [hp] at hs; subst hs
            have := (waiting_burst (tmeasure u) hw).open_
            rw [← hjv]; exact this
      | child i =>
        have hw' := waiting_bstep (.child i) hw hpc hs
        rcases hw' with ⟨_, _, h3⟩ | h3
        · rw [← hjv]; exact h3
        · have := h3.1
          simp only [bstep, tstep, tchildStep] at hs
          split at hs
          · split at hs
            · simp at hs
            · cases hcs : childStep u.sys i with
              | none => simp [hcs] at hs
              | some s =>
                simp [hcs] at hs; subst hs
                obtain ⟨_, f2, _, _, _⟩ := childStep_frame hcs
                simp only [f2]; rw [← hj]; exact hw.open_
          · simp at hs
  · right
    refine ⟨log0, hopen, ?_⟩
    cases l with
    | parent =>
      simp only [bstep] at hs
      cases hp : tparentStep u with
      | none => simp [hp] at hs
      | some w => simp [hp] at hs; subst hs; exact armed_burst _ ha
    | child i => exact armed_step (.child i) ha hs
    | send k => exact armed_step (.send k) ha hs

theorem race_bsteps {j σ : Nat} {t u : TSys} (h : BSteps t u) (hr : Race j σ t) : Race j σ u := by
  induction h with
  | refl => exact hr
  | tail l _ hs ih => exact race_bstep l ih hs

/-- the executable scheduler of the driver makes the executor's scheduling decisions -/
theorem trun_bsteps (fuel : Nat) (choices : List Nat) (t : TSys) : BSteps t (trun fuel choices t) := by
  induction fuel generalizing choices t with
  | zero => exact .refl t
  | succ n ih =>
    unfold trun
    split
    · exact .refl t
    · split
      · exact .refl t
      · simp only
        split
        · rename_i t' ht'
          exact BSteps.trans (.tail _ (.refl t) ht') (ih choices.tail t')
        · exact .refl t

/-- the state `St.newJob` + the start of `wait $!` + the shell's first turn produce: blocked, waiting for the new
    child, whatever the other children are -/
theorem start_waiting {s : Sys} (hI : Inv s) (f n σ : Nat) (hσ : σ ≠ SIGCHLD_NO) :
    let s' : Sys := { s with children := s.children ++ [{ state := .running f (.exited n) }] }
    let t := parentTurn (TSys.start s' s.children.length [σ] [(s.children.length, σ)])
    Waiting t σ ∧ t.sys.pc = .await ∧ t.job = s.children.length := by
  intro s' t
  have hopen : jobDone s'.log s.children.length = none := by
    cases hjd : jobDone s'.log s.children.length with
    | none => rfl
    | some r =>
      have hm : (s.children.length, r) ∈ s.log := jobDone_mem hjd
      obtain ⟨c, hc, _⟩ := hI.logged _ _ hm
      simp at hc
  have hstart : TSys.start s' s.children.length [σ] [(s.children.length, σ)] =
      { sys := { s' with target := .any, todo := [], pc := .enable }, job := s.children.length, traps := [σ],
        senders := [(s.children.length, σ)] } := by
    unfold TSys.start; rw [hopen]
  have hw0 : Waiting (TSys.start s' s.children.length [σ] [(s.children.length, σ)]) σ := by
    rw [hstart]
    refine ⟨rfl, Or.inl rfl, rfl, ⟨{ state := .running f (.exited n) }, by simp [s'], by simp [PState.isAlive], rfl⟩,
      hopen, ⟨(s.children.length, σ), by simp, rfl⟩, by simp, by simp, by simp; exact fun e => hσ e.symm, rfl⟩
  have hw := waiting_burst (tmeasure (TSys.start s' s.children.length [σ] [(s.children.length, σ)])) hw0
  refine ⟨hw, waiting_blocked hw (parentTurn_blocked _), ?_⟩
  have := (tsteps_frame (parentBurst_tsteps (tmeasure (TSys.start s' s.children.length [σ] [(s.children.length, σ)]))
    (TSys.start s' s.children.length [σ] [(s.children.length, σ)]))).1
  show (parentTurn _).job = _
  unfold parentTurn
  rw [this, hstart]

/-- the executable scheduler of the driver only takes steps of the system -/
theorem trun_tsteps (fuel : Nat) (choices : List Nat) (t : TSys) : TSteps t (trun fuel choices t) :=
  (trun_bsteps fuel choices t).tsteps


/-! ### the operand loop (`tawaitJobs`) and the operand-less form (`tawaitAll`) -/

theorem tinv_next {t : TSys} (h : TInv t) (j : Nat) : TInv (t.next j) := by
  have hI := h.inv
  unfold TSys.next
  split
  · rename_i r hr
    refine ⟨⟨hI.changed_halted, by intro h'; simp at h', by intro h'; simp at h', by intro h'; simp at h',
      hI.once, hI.logged⟩, rfl, by simp, h.pend, by simp, by simp, ?_, by simp⟩
    intro i r' h'
    simp at h'
    obtain ⟨rfl, rfl⟩ := h'
    exact ⟨rfl, jobDone_mem hr⟩
  · rename_i hr
    exact ⟨⟨hI.changed_halted, by intro h'; simp at h', by intro h'; simp at h', by intro h'; simp at h',
      hI.once, hI.logged⟩, rfl, by simp, h.pend, by simp, fun _ _ => hr, by simp, by simp⟩

theorem tinv_call {t : TSys} (h : TInv t) : TInv t.call := by
  have hI := h.inv
  exact ⟨⟨hI.changed_halted, by intro h'; simp [TSys.call] at h', by intro h'; simp [TSys.call] at h',
    by intro h'; simp [TSys.call] at h', hI.once, hI.logged⟩, rfl, by simp [TSys.call], h.pend,
    by simp [TSys.call], by intro _ h'; simp [TSys.call] at h', by simp [TSys.call], by simp [TSys.call]⟩

theorem next_traps (t : TSys) (j : Nat) : (t.next j).traps = t.traps := by
  unfold TSys.next; split <;> rfl

/-- the job table after the operands `ops` have all been dealt with: every operand naming a job in the table
    removes it (`job_status` → `jobs.remove`) -/
def eraseOps : List Nat → List (Option Nat) → List Nat
  | jobs, [] => jobs
  | jobs, none :: t => eraseOps jobs t
  | jobs, some i :: t => eraseOps (jobs.erase i) t

theorem eraseOps_sub {jobs : List Nat} {ops : List (Option Nat)} {j : Nat} (h : j ∈ eraseOps jobs ops) :
    j ∈ jobs := by
  induction ops generalizing jobs with
  | nil => exact h
  | cons o t ih =>
    cases o with
    | none => exact ih h
    | some i => exact List.mem_of_mem_erase (ih h)

/-- what `tawaitJobs` guarantees whatever the scheduler `run` does (it only has to take steps of the system) -/
structure OpsSound (traps : List Nat) (jobs : List Nat) (ops : List (Option Nat))
    (res : List Nat × TSys × OpsOut) : Prop where
  inv : TInv res.2.1
  traps_eq : res.2.1.traps = traps
  done_ : ∀ sts, res.2.2 = .done sts → sts.length = ops.length ∧ res.1 = eraseOps jobs ops
  trapped_ : ∀ σ sts, res.2.2 = .trapped σ sts → σ ∈ traps ∧
    ∃ pre i rest, ops = pre ++ some i :: rest ∧ sts.length = pre.length ∧ res.1 = eraseOps jobs pre ∧ i ∈ res.1
  failed_ : ∀ sts, res.2.2 = .failed sts →
    ∃ pre i rest, ops = pre ++ some i :: rest ∧ sts.length = pre.length ∧ res.1 = eraseOps jobs pre

theorem push_done {o : OpsOut} {st : Nat} {sts : List Nat} (h : o.push st = .done sts) :
    ∃ sts0, o = .done sts0 ∧ sts = st :: sts0 := by
  cases o <;> simp [OpsOut.push] at h
  exact ⟨_, rfl, h.symm⟩

theorem push_trapped {o : OpsOut} {st σ : Nat} {sts : List Nat} (h : o.push st = .trapped σ sts) :
    ∃ sts0, o = .trapped σ sts0 ∧ sts = st :: sts0 := by
  cases o <;> simp [OpsOut.push] at h
  obtain ⟨rfl, rfl⟩ := h
  exact ⟨_, rfl, rfl⟩

theorem push_failed {o : OpsOut} {st : Nat} {sts : List Nat} (h : o.push st = .failed sts) :
    ∃ sts0, o = .failed sts0 ∧ sts = st :: sts0 := by
  cases o <;> simp [OpsOut.push] at h
  exact ⟨_, rfl, h.symm⟩

/-- an operand that is skipped (`NOT_FOUND`): the guarantees of the rest carry over -/
theorem opsSound_skip {traps jobs : List Nat} {o : Option Nat} {ops : List (Option Nat)}
    {res : List Nat × TSys × OpsOut} (h : OpsSound traps jobs ops res)
    (hskip : eraseOps jobs [o] = jobs) (st : Nat) :
    OpsSound traps jobs (o :: ops) (res.1, res.2.1, res.2.2.push st) := by
  have herase : ∀ l, eraseOps jobs (o :: l) = eraseOps jobs l := by
    intro l
    cases o with
    | none => rfl
    | some i => simp only [eraseOps] at hskip ⊢; rw [hskip]
  refine ⟨h.inv, h.traps_eq, ?_, ?_, ?_⟩
  · intro sts hs
    obtain ⟨sts0, h0, rfl⟩ := push_done hs
    obtain ⟨h1, h2⟩ := h.done_ sts0 h0
    exact ⟨by simp [h1], by rw [herase]; exact h2⟩
  · intro σ sts hs
    obtain ⟨sts0, h0, rfl⟩ := push_trapped hs
    obtain ⟨h1, pre, i, rest, h2, h3, h4, h5⟩ := h.trapped_ σ sts0 h0
    exact ⟨h1, o :: pre, i, rest, by simp [h2], by simp [h3], by rw [herase]; exact h4, h5⟩
  · intro sts hs
    obtain ⟨sts0, h0, rfl⟩ := push_failed hs
    obtain ⟨pre, i, rest, h2, h3, h4⟩ := h.failed_ sts0 h0
    exact ⟨o :: pre, i, rest, by simp [h2], by simp [h3], by rw [herase]; exact h4⟩

theorem tawaitJobs_sound (run : TSys → TSys) (hrun : ∀ x, TSteps x (run x)) (jobs : List Nat) (t : TSys)
    (ops : List (Option Nat)) (h : TInv t) : OpsSound t.traps jobs ops (tawaitJobs run jobs t ops) := by
  induction ops generalizing jobs t with
  | nil =>
    refine ⟨h, rfl, ?_, ?_, ?_⟩
    · intro sts hs; simp [tawaitJobs] at hs; subst hs; exact ⟨rfl, rfl⟩
    · intro σ sts hs; simp [tawaitJobs] at hs
    · intro sts hs; simp [tawaitJobs] at hs
  | cons o ops ih =>
    cases o with
    | none =>
      simp only [tawaitJobs]
      exact opsSound_skip (ih jobs t h) rfl _
    | some i =>
      simp only [tawaitJobs]
      split
      · rename_i hmem
        have hu : TInv (run (t.next i)) := tinv_steps (hrun _) (tinv_next h i)
        have htr : (run (t.next i)).traps = t.traps :=
          ((tsteps_frame (hrun (t.next i))).2.1).trans (next_traps t i)
        split
        · rename_i j r hout
          have hrec := ih (jobs.erase i) (run (t.next i)) hu
          rw [htr] at hrec
          refine ⟨hrec.inv, hrec.traps_eq, ?_, ?_, ?_⟩
          · intro sts hs
            obtain ⟨sts0, h0, rfl⟩ := push_done hs
            obtain ⟨h1, h2⟩ := hrec.done_ sts0 h0
            exact ⟨by simp [h1], h2⟩
          · intro σ sts hs
            obtain ⟨sts0, h0, rfl⟩ := push_trapped hs
            obtain ⟨h1, pre, i', rest, h2, h3, h4, h5⟩ := hrec.trapped_ σ sts0 h0
            exact ⟨h1, some i :: pre, i', rest, by simp [h2], by simp [h3], h4, h5⟩
          · intro sts hs
            obtain ⟨sts0, h0, rfl⟩ := push_failed hs
            obtain ⟨pre, i', rest, h2, h3, h4⟩ := hrec.failed_ sts0 h0
            exact ⟨some i :: pre, i', rest, by simp [h2], by simp [h3], h4⟩
        · rename_i σ hout
          refine ⟨hu, htr, ?_, ?_, ?_⟩
          · intro sts hs; simp at hs
          · intro σ' sts hs
            simp at hs
            obtain ⟨rfl, rfl⟩ := hs
            exact ⟨by rw [← htr]; exact hu.trap_ok σ hout, [], i, ops, rfl, rfl, rfl, hmem⟩
          · intro sts hs; simp at hs
        · refine ⟨hu, htr, ?_, ?_, ?_⟩
          · intro sts hs; simp at hs
          · intro σ' sts hs; simp at hs
          · intro sts hs
            simp at hs; subst hs
            exact ⟨[], i, ops, rfl, rfl, rfl⟩
      · rename_i hmem
        exact opsSound_skip (ih jobs t h) (by simp [eraseOps, List.erase_of_not_mem hmem]) _

/-! ### `wait` without operands -/

theorem tstep_log_suffix {t t' : TSys} (l : TLabel) (hs : tstep t l = some t') :
    ∃ l0, t'.sys.log = l0 ++ t.sys.log := by
  cases l with
  | parent =>
    simp only [tstep, tparentStep] at hs
    split at hs
    · simp at hs
    · split at hs
      · simp at hs; subst hs; exact ⟨[], rfl⟩
      · split at hs
        · split at hs
          · simp at hs; subst hs; exact ⟨_, rfl⟩
          · split at hs <;> (simp at hs; subst hs; exact ⟨_, rfl⟩)
        · simp at hs; subst hs; exact ⟨[], rfl⟩
        · simp at hs; subst hs; exact ⟨[], rfl⟩
      · split at hs
        · split at hs <;> (simp at hs; subst hs; exact ⟨[], rfl⟩)
        · simp at hs
      · simp at hs
  | child i =>
    simp only [tstep, tchildStep] at hs
    split at hs
    · split at hs
      · simp at hs
      · cases hcs : childStep t.sys i with
        | none => simp [hcs] at hs
        | some s' =>
          simp [hcs] at hs; subst hs
          exact ⟨[], by simp [(childStep_frame hcs).2.1]⟩
    · simp at hs
  | send k =>
    simp only [tstep, tsendStep] at hs
    split at hs
    · split at hs
      · split at hs
        · simp at hs; subst hs; exact ⟨[], rfl⟩
        · simp at hs
      · simp at hs
    · simp at hs

theorem jobDone_append {l0 log : List (Nat × Result)} {j : Nat} (h : (jobDone log j).isSome = true) :
    (jobDone (l0 ++ log) j).isSome = true := by
  unfold jobDone at h ⊢
  rw [List.find?_append]
  cases hf : List.find? (fun e => e.1 == j) l0 with
  | some e => simp
  | none => simpa using h

/-- a recorded final state stays recorded -/
theorem jobDone_steps {t u : TSys} {j : Nat} (h : TSteps t u) (hd : (jobDone t.sys.log j).isSome = true) :
    (jobDone u.sys.log j).isSome = true := by
  induction h with
  | refl => exact hd
  | tail l _ hs ih =>
    obtain ⟨l0, hl⟩ := tstep_log_suffix l hs
    rw [hl]; exact jobDone_append ih

theorem call_traps (t : TSys) : t.call.traps = t.traps := rfl

/-- what a `wait` without operands guarantees whatever the scheduler does: the state stays invariant; `Ok` means
    exit status 0, an empty job table and every job recorded as finished; `Trapped(σ)` means σ has a trap action,
    and NO JOB IS FORGOTTEN: every job of the table is still in the table (it is not recorded as finished: a later
    `wait` will wait for it) or has been recorded as finished (this `wait` has consumed its status, as a `wait`
    without operands does) -/
structure AllSound (traps jobs : List Nat) (res : List Nat × TSys × OpsOut) : Prop where
  inv : TInv res.2.1
  traps_eq : res.2.1.traps = traps
  sub : ∀ j, j ∈ res.1 → j ∈ jobs
  kept : ∀ j, j ∈ jobs → j ∈ res.1 ∨ (jobDone res.2.1.sys.log j).isSome = true
  done_ : ∀ sts, res.2.2 = .done sts → sts = [YashModel.Generated.ProcConsts.EXIT_SUCCESS] ∧ res.1 = []
  trapped_ : ∀ σ sts, res.2.2 = .trapped σ sts → σ ∈ traps ∧ sts = [] ∧ res.1 ≠ []

theorem mem_unfinished {jobs : List Nat} {log : List (Nat × Result)} {j : Nat} :
    j ∈ unfinished jobs log ↔ j ∈ jobs ∧ jobDone log j = none := by
  simp [unfinished, List.mem_filter]

theorem kept0 (jobs : List Nat) (log : List (Nat × Result)) :
    ∀ j, j ∈ jobs → j ∈ unfinished jobs log ∨ (jobDone log j).isSome = true := by
  intro j hj
  cases hd : jobDone log j with
  | none => exact Or.inl (mem_unfinished.mpr ⟨hj, hd⟩)
  | some r => exact Or.inr rfl

theorem tawaitAll_log_mono (run : TSys → TSys) (hrun : ∀ x, TSteps x (run x)) (k : Nat) (jobs : List Nat)
    (t : TSys) (j : Nat) (hd : (jobDone t.sys.log j).isSome = true) :
    (jobDone (tawaitAll run k jobs t).2.1.sys.log j).isSome = true := by
  induction k generalizing jobs t with
  | zero => simpa [tawaitAll] using hd
  | succ k ih =>
    simp only [tawaitAll]
    have hu : (jobDone (run t.call).sys.log j).isSome = true :=
      jobDone_steps (hrun t.call) (by simpa [TSys.call] using hd)
    split
    · exact hd
    · split
      · exact ih _ _ hu
      · exact hu
      · exact hu

theorem tawaitAll_sound (run : TSys → TSys) (hrun : ∀ x, TSteps x (run x)) (k : Nat) (jobs : List Nat) (t : TSys)
    (h : TInv t) : AllSound t.traps jobs (tawaitAll run k jobs t) := by
  induction k generalizing jobs t with
  | zero =>
    have hkept0 := kept0 jobs t.sys.log
    simp only [tawaitAll]
    exact ⟨h, rfl, fun j hj => (mem_unfinished.mp hj).1, hkept0, by intro sts hs; simp at hs,
      by intro σ sts hs; simp at hs⟩
  | succ k ih =>
    have hkept0 := kept0 jobs t.sys.log
    simp only [tawaitAll]
    split
    · rename_i hnil
      refine ⟨h, rfl, by intro j hj; simp at hj, ?_, by intro sts hs; simp at hs; exact ⟨hs.symm, rfl⟩,
        by intro σ sts hs; simp at hs⟩
      intro j hj
      rcases hkept0 j hj with h1 | h1
      · rw [hnil] at h1; simp at h1
      · exact Or.inr h1
    · rename_i j0 js hcons
      have hu : TInv (run t.call) := tinv_steps (hrun _) (tinv_call h)
      have htr : (run t.call).traps = t.traps := ((tsteps_frame (hrun t.call)).2.1).trans (call_traps t)
      have hlogmono : ∀ j, (jobDone t.sys.log j).isSome = true → (jobDone (run t.call).sys.log j).isSome = true :=
        fun j hd => jobDone_steps (hrun t.call) (by simpa [TSys.call] using hd)
      have hsub : ∀ j, j ∈ j0 :: js → j ∈ jobs := by
        intro j hj; rw [← hcons] at hj; exact (mem_unfinished.mp hj).1
      have hkept : ∀ j, j ∈ jobs → j ∈ j0 :: js ∨ (jobDone (run t.call).sys.log j).isSome = true := by
        intro j hj
        rcases hkept0 j hj with h1 | h1
        · left; rw [← hcons]; exact h1
        · exact Or.inr (hlogmono j h1)
      split
      · -- `Ok(())`: look at the job list again
        have hrec := ih (j0 :: js) (run t.call) hu
        rw [htr] at hrec
        refine ⟨hrec.inv, hrec.traps_eq, fun j hj => hsub j (hrec.sub j hj), ?_, hrec.done_, hrec.trapped_⟩
        intro j hj
        rcases hkept j hj with h1 | h1
        · exact hrec.kept j h1
        · exact Or.inr (tawaitAll_log_mono run hrun k (j0 :: js) (run t.call) j h1)
      · rename_i σ hout
        refine ⟨hu, htr, hsub, hkept, by intro sts hs; simp at hs, ?_⟩
        intro σ' sts hs
        simp at hs
        obtain ⟨rfl, rfl⟩ := hs
        exact ⟨by rw [← htr]; exact hu.trap_ok σ hout, rfl, by simp⟩
      · exact ⟨hu, htr, hsub, hkept, by intro sts hs; simp at hs, by intro σ sts hs; simp at hs⟩


end YashModel.Proc
