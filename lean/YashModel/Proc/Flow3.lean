/-
  C13 — the three-stage flow pipeline `spew n | cat | consumer`: byte accounting over two pipes and the buffer of
  `cat` as an invariant of the pipeline model, for `flow3_statuses_exact`.
-/
import YashModel.Proc.Flow2
namespace YashModel.Proc

/-- the regime-specific part of the invariant of `spew n | cat | consumer`: `m` = bytes the producer still has
    to write, `buf` = bytes `cat` holds, `c0` / `c1` = contents of the two pipes, `ae` / `be` / `de` = exit
    states, `room` = what the consumer still wants -/
def Flow3Reg (c : PCfg) (fail : Bool) (m buf c0 c1 : Nat) (ae be de : Option Nat) (room : Option Nat) : Prop :=
  if fail then
    (ae = none → 0 < m ∧ (be = none → ∃ k, room = some k ∧
        (c.cap - c0) + (c.chunk - buf) + (c.cap - c1) + k < m)) ∧
    (ae ≠ none → be ≠ none) ∧ c0 ≤ c.cap ∧ c1 ≤ c.cap ∧ buf ≤ c.chunk
  else
    (de = none → ∀ k, room = some k → m + c0 + buf + c1 ≤ k) ∧
    (de ≠ none → m = 0 ∧ c0 = 0 ∧ buf = 0 ∧ c1 = 0) ∧
    (be ≠ none → ae ≠ none ∧ c0 = 0) ∧ (ae ≠ none → m = 0) ∧ (be ≠ none → buf = 0)

structure Flow3 (c : PCfg) (fin : Nat) (fail : Bool) (a b d : Stage) (p0 p1 : Pipe) : Prop where
  rd0 : p0.readers = [1]
  wr0 : p0.writers = [0]
  rd1 : p1.readers = [2]
  wr1 : p1.writers = [1]
  cons : consFin d.prog = some fin
  consExit : d.exit = none ∨ d.exit = some fin
  prodExit : a.exit = none ∨ a.exit = some (if fail then 1 else 0)
  catExit : b.exit = none ∨ b.exit = some (if fail then 1 else 0)
  reg : ∃ m buf, a.prog = .spew m ∧ b.prog = .cat buf ∧
    Flow3Reg c fail m buf p0.content p1.content a.exit b.exit d.exit (consRoom d.prog)

theorem live3_0 (a b d : Stage) (ps : List Pipe) :
    PSys.live { stages := [a, b, d], pipes := ps } [0] = if a.exit.isNone then 1 else 0 := by
  simp [PSys.live, PSys.alive]

theorem live3_1 (a b d : Stage) (ps : List Pipe) :
    PSys.live { stages := [a, b, d], pipes := ps } [1] = if b.exit.isNone then 1 else 0 := by
  simp [PSys.live, PSys.alive]

theorem live3_2 (a b d : Stage) (ps : List Pipe) :
    PSys.live { stages := [a, b, d], pipes := ps } [2] = if d.exit.isNone then 1 else 0 := by
  simp [PSys.live, PSys.alive]

theorem flow3_step0 {c : PCfg} {fin : Nat} {fail : Bool} {a b d : Stage} {p0 p1 : Pipe} {t : PSys}
    (h : Flow3 c fin fail a b d p0 p1)
    (hs : stageStep c { stages := [a, b, d], pipes := [p0, p1] } 0 = some t) :
    ∃ a' b' d' p0' p1', t = { stages := [a', b', d'], pipes := [p0', p1'] } ∧ Flow3 c fin fail a' b' d' p0' p1' := by
  obtain ⟨hrd0, hwr0, hrd1, hwr1, hcons, hce, hpe, hbe, m, buf, hprog, hbprog, hreg⟩ := h
  obtain ⟨ap, ae⟩ := a
  obtain ⟨bp, be⟩ := b
  obtain ⟨c0, r0, w0⟩ := p0
  simp only at hrd0 hwr0 hprog hbprog hreg hpe hbe
  subst hrd0 hwr0 hprog hbprog
  cases ae with
  | some x => simp [stageStep] at hs
  | none =>
    cases m with
    | zero =>
      simp [stageStep, exitStage] at hs
      subst hs
      refine ⟨_, _, _, _, _, rfl, ⟨rfl, rfl, hrd1, hwr1, hcons, hce, ?_, hbe, 0, buf, rfl, rfl, ?_⟩⟩
      · cases fail with
        | true => simp [Flow3Reg] at hreg
        | false => simp
      · cases fail with
        | true => simp [Flow3Reg] at hreg
        | false =>
          simp only [Flow3Reg, Bool.false_eq_true, if_false] at hreg ⊢
          obtain ⟨h1, h2, h3, h4, h5⟩ := hreg
          exact ⟨h1, h2, fun hb => ⟨by simp, (h3 hb).2⟩, fun _ => trivial, h5⟩
    | succ m =>
      simp only [stageStep, List.getElem?_cons_zero, Option.isSome_none, Bool.false_eq_true, if_false,
        sysWrite, live3_1] at hs
      cases be with
      | some y =>
        simp [exitStage] at hs
        subst hs
        refine ⟨_, _, _, _, _, rfl, ⟨rfl, rfl, hrd1, hwr1, hcons, hce, ?_, hbe, 0, buf, rfl, rfl, ?_⟩⟩
        · cases fail with
          | true => simp
          | false => simp [Flow3Reg] at hreg
        · cases fail with
          | true =>
            simp only [Flow3Reg, if_true] at hreg ⊢
            obtain ⟨_, _, h3, h4, h5⟩ := hreg
            exact ⟨by simp, by simp, h3, h4, h5⟩
          | false => simp [Flow3Reg] at hreg
      | none =>
        simp only [Option.isNone_none, if_true, Nat.one_ne_zero, if_false] at hs
        by_cases h1 : c.cap - c0 < m + 1
        · simp only [h1, if_true] at hs
          by_cases h2 : c.cap - c0 = 0 ∨ m + 1 ≤ c.pbuf
          · simp [h2] at hs
          · simp only [h2, if_false] at hs
            simp [addContent, setProg] at hs
            subst hs
            refine ⟨_, _, _, _, _, rfl, ⟨rfl, rfl, hrd1, hwr1, hcons, hce, hpe, hbe, _, buf, rfl, rfl, ?_⟩⟩
            cases fail with
            | true =>
              simp only [Flow3Reg, if_true] at hreg ⊢
              obtain ⟨h1', h2', h3, h4, h5⟩ := hreg
              obtain ⟨hm, hk⟩ := h1' trivial
              obtain ⟨k, hk1, hk2⟩ := hk trivial
              refine ⟨fun _ => ⟨by omega, fun _ => ⟨k, hk1, by omega⟩⟩, by simp, by omega, h4, h5⟩
            | false =>
              simp only [Flow3Reg, Bool.false_eq_true, if_false] at hreg ⊢
              obtain ⟨h1', h2', h3, h4, h5⟩ := hreg
              refine ⟨fun hd k hk => ?_, fun hd => ?_, by simp, by simp, by simp⟩
              · have := h1' hd k hk; omega
              · have := h2' hd; omega
        · simp only [h1, if_false] at hs
          simp [addContent, setProg] at hs
          subst hs
          refine ⟨_, _, _, _, _, rfl, ⟨rfl, rfl, hrd1, hwr1, hcons, hce, hpe, hbe, _, buf, rfl, rfl, ?_⟩⟩
          cases fail with
          | true =>
            simp only [Flow3Reg, if_true] at hreg ⊢
            obtain ⟨h1', h2', h3, h4, h5⟩ := hreg
            obtain ⟨hm, hk⟩ := h1' trivial
            obtain ⟨k, hk1, hk2⟩ := hk trivial
            omega
          | false =>
            simp only [Flow3Reg, Bool.false_eq_true, if_false] at hreg ⊢
            obtain ⟨h1', h2', h3, h4, h5⟩ := hreg
            refine ⟨fun hd k hk => ?_, fun hd => ?_, by simp, by simp, by simp⟩
            · have := h1' hd k hk; omega
            · have := h2' hd; omega

theorem flow3_step1 {c : PCfg} {fin : Nat} {fail : Bool} {a b d : Stage} {p0 p1 : Pipe} {t : PSys}
    (h : Flow3 c fin fail a b d p0 p1)
    (hs : stageStep c { stages := [a, b, d], pipes := [p0, p1] } 1 = some t) :
    ∃ a' b' d' p0' p1', t = { stages := [a', b', d'], pipes := [p0', p1'] } ∧ Flow3 c fin fail a' b' d' p0' p1' := by
  obtain ⟨hrd0, hwr0, hrd1, hwr1, hcons, hce, hpe, hbe, m, buf, hprog, hbprog, hreg⟩ := h
  obtain ⟨ap, ae⟩ := a
  obtain ⟨bp, be⟩ := b
  obtain ⟨dp, de⟩ := d
  obtain ⟨c0, r0, w0⟩ := p0
  obtain ⟨c1, r1, w1⟩ := p1
  simp only at hrd0 hwr0 hrd1 hwr1 hprog hbprog hreg hpe hbe hcons hce
  subst hrd0 hwr0 hrd1 hwr1 hprog hbprog
  cases be with
  | some x => simp [stageStep] at hs
  | none =>
    cases buf with
    | zero =>
      simp only [stageStep, List.getElem?_cons_succ, List.getElem?_cons_zero, Option.isSome_none,
        Bool.false_eq_true, if_false, sysRead, live3_0] at hs
      by_cases hpc : c0 = 0
      · subst hpc
        simp only [if_true] at hs
        cases ae with
        | none => simp at hs
        | some y =>
          simp [exitStage] at hs
          subst hs
          refine ⟨_, _, _, _, _, rfl, ⟨rfl, rfl, rfl, rfl, hcons, hce, hpe, ?_, m, 0, rfl, rfl, ?_⟩⟩
          · cases fail with
            | true => simp [Flow3Reg] at hreg
            | false => simp
          · cases fail with
            | true => simp [Flow3Reg] at hreg
            | false =>
              simp only [Flow3Reg, Bool.false_eq_true, if_false] at hreg ⊢
              obtain ⟨h1', h2', h3, h4, h5⟩ := hreg
              exact ⟨h1', h2', by simp, h4, by simp⟩
      · simp only [hpc, if_false] at hs
        simp [subContent, setProg] at hs
        subst hs
        refine ⟨_, _, _, _, _, rfl, ⟨rfl, rfl, rfl, rfl, hcons, hce, hpe, hbe, m, _, rfl, rfl, ?_⟩⟩
        cases fail with
        | true =>
          simp only [Flow3Reg, if_true] at hreg ⊢
          obtain ⟨h1', h2', h3, h4, h5⟩ := hreg
          refine ⟨fun ha => ?_, h2', by omega, h4, by omega⟩
          obtain ⟨hm, hk⟩ := h1' ha
          refine ⟨hm, fun _ => ?_⟩
          obtain ⟨k, hk1, hk2⟩ := hk trivial
          exact ⟨k, hk1, by omega⟩
        | false =>
          simp only [Flow3Reg, Bool.false_eq_true, if_false] at hreg ⊢
          obtain ⟨h1', h2', h3, h4, h5⟩ := hreg
          refine ⟨fun hd k hk => ?_, fun hd => ?_, by simp, h4, by simp⟩
          · have := h1' hd k hk; omega
          · have := h2' hd; omega
    | succ buf =>
      simp only [stageStep, List.getElem?_cons_succ, List.getElem?_cons_zero, Option.isSome_none,
        Bool.false_eq_true, if_false, sysWrite, live3_2] at hs
      cases de with
      | some y =>
        simp [exitStage] at hs
        subst hs
        refine ⟨_, _, _, _, _, rfl, ⟨rfl, rfl, rfl, rfl, hcons, hce, hpe, ?_, m, 0, rfl, rfl, ?_⟩⟩
        · cases fail with
          | true => simp
          | false => simp [Flow3Reg] at hreg
        · cases fail with
          | true =>
            simp only [Flow3Reg, if_true] at hreg ⊢
            obtain ⟨h1', h2', h3, h4, h5⟩ := hreg
            exact ⟨fun ha => ⟨(h1' ha).1, by simp⟩, by simp, h3, h4, by omega⟩
          | false => simp [Flow3Reg] at hreg
      | none =>
        simp only [Option.isNone_none, if_true, Nat.one_ne_zero, if_false] at hs
        by_cases h1 : c.cap - c1 < buf + 1
        · simp only [h1, if_true] at hs
          by_cases h2 : c.cap - c1 = 0 ∨ buf + 1 ≤ c.pbuf
          · simp [h2] at hs
          · simp only [h2, if_false] at hs
            simp [addContent, setProg] at hs
            subst hs
            refine ⟨_, _, _, _, _, rfl, ⟨rfl, rfl, rfl, rfl, hcons, hce, hpe, hbe, m, _, rfl, rfl, ?_⟩⟩
            cases fail with
            | true =>
              simp only [Flow3Reg, if_true] at hreg ⊢
              obtain ⟨h1', h2', h3, h4, h5⟩ := hreg
              refine ⟨fun ha => ?_, h2', h3, by omega, by omega⟩
              obtain ⟨hm, hk⟩ := h1' ha
              refine ⟨hm, fun _ => ?_⟩
              obtain ⟨k, hk1, hk2⟩ := hk trivial
              exact ⟨k, hk1, by omega⟩
            | false =>
              simp only [Flow3Reg, Bool.false_eq_true, if_false] at hreg ⊢
              obtain ⟨h1', h2', h3, h4, h5⟩ := hreg
              refine ⟨fun hd k hk => ?_, by simp, by simp, h4, by simp⟩
              have := h1' trivial k hk; omega
        · simp only [h1, if_false] at hs
          simp [addContent, setProg] at hs
          subst hs
          refine ⟨_, _, _, _, _, rfl, ⟨rfl, rfl, rfl, rfl, hcons, hce, hpe, hbe, m, _, rfl, rfl, ?_⟩⟩
          cases fail with
          | true =>
            simp only [Flow3Reg, if_true] at hreg ⊢
            obtain ⟨h1', h2', h3, h4, h5⟩ := hreg
            refine ⟨fun ha => ?_, h2', h3, by omega, by omega⟩
            obtain ⟨hm, hk⟩ := h1' ha
            refine ⟨hm, fun _ => ?_⟩
            obtain ⟨k, hk1, hk2⟩ := hk trivial
            exact ⟨k, hk1, by omega⟩
          | false =>
            simp only [Flow3Reg, Bool.false_eq_true, if_false] at hreg ⊢
            obtain ⟨h1', h2', h3, h4, h5⟩ := hreg
            refine ⟨fun hd k hk => ?_, by simp, by simp, h4, by simp⟩
            have := h1' trivial k hk; omega

theorem flow3_step2 {c : PCfg} {fin : Nat} {fail : Bool} {a b d : Stage} {p0 p1 : Pipe} {t : PSys}
    (h : Flow3 c fin fail a b d p0 p1)
    (hs : stageStep c { stages := [a, b, d], pipes := [p0, p1] } 2 = some t) :
    ∃ a' b' d' p0' p1', t = { stages := [a', b', d'], pipes := [p0', p1'] } ∧ Flow3 c fin fail a' b' d' p0' p1' := by
  obtain ⟨hrd0, hwr0, hrd1, hwr1, hcons, hce, hpe, hbe, m, buf, hprog, hbprog, hreg⟩ := h
  obtain ⟨ap, ae⟩ := a
  obtain ⟨bp, be⟩ := b
  obtain ⟨dp, de⟩ := d
  obtain ⟨c0, r0, w0⟩ := p0
  obtain ⟨c1, r1, w1⟩ := p1
  simp only at hrd0 hwr0 hrd1 hwr1 hprog hbprog hreg hpe hbe hcons hce
  subst hrd0 hwr0 hrd1 hwr1 hprog hbprog
  cases de with
  | some x => simp [stageStep] at hs
  | none =>
    cases dp with
    | spew n => simp [consFin] at hcons
    | cat n => simp [consFin] at hcons
    | idle st =>
      simp [consFin] at hcons
      subst hcons
      simp [stageStep, exitStage] at hs
      subst hs
      refine ⟨_, _, _, _, _, rfl, ⟨rfl, rfl, rfl, rfl, rfl, Or.inr rfl, hpe, hbe, m, buf, rfl, rfl, ?_⟩⟩
      cases fail with
      | true => simpa [Flow3Reg] using hreg
      | false =>
        simp only [Flow3Reg, Bool.false_eq_true, if_false] at hreg ⊢
        obtain ⟨h1', h2', h3, h4, h5⟩ := hreg
        refine ⟨by simp, fun _ => ?_, h3, h4, h5⟩
        have := h1' trivial 0 rfl
        omega
    | drain =>
      simp [consFin] at hcons
      subst hcons
      simp only [stageStep, List.getElem?_cons_succ, List.getElem?_cons_zero, Option.isSome_none,
        Bool.false_eq_true, if_false, sysRead, live3_1] at hs
      by_cases hpc : c1 = 0
      · subst hpc
        simp only [if_true] at hs
        cases be with
        | none => simp at hs
        | some y =>
          simp [exitStage] at hs
          subst hs
          refine ⟨_, _, _, _, _, rfl, ⟨rfl, rfl, rfl, rfl, rfl, Or.inr rfl, hpe, hbe, m, buf, rfl, rfl, ?_⟩⟩
          cases fail with
          | true => simpa [Flow3Reg] using hreg
          | false =>
            simp only [Flow3Reg, Bool.false_eq_true, if_false] at hreg ⊢
            obtain ⟨h1', h2', h3, h4, h5⟩ := hreg
            have hb := h3 (by simp)
            refine ⟨by simp, fun _ => ⟨h4 hb.1, hb.2, h5 (by simp), trivial⟩, h3, h4, h5⟩
      · simp only [hpc, if_false] at hs
        simp [subContent] at hs
        subst hs
        refine ⟨_, _, _, _, _, rfl, ⟨rfl, rfl, rfl, rfl, rfl, Or.inl rfl, hpe, hbe, m, buf, rfl, rfl, ?_⟩⟩
        cases fail with
        | true =>
          simp only [Flow3Reg, if_true, consRoom] at hreg ⊢
          obtain ⟨h1', h2', h3, h4, h5⟩ := hreg
          refine ⟨fun ha => ⟨(h1' ha).1, fun hb => ?_⟩, h2', h3, by omega, h5⟩
          obtain ⟨k, hk, _⟩ := (h1' ha).2 hb
          simp at hk
        | false =>
          simp only [Flow3Reg, Bool.false_eq_true, if_false, consRoom] at hreg ⊢
          obtain ⟨h1', h2', h3, h4, h5⟩ := hreg
          exact ⟨by simp, by simp, h3, h4, h5⟩
    | take k st =>
      simp [consFin] at hcons
      subst hcons
      cases k with
      | zero =>
        simp [stageStep, exitStage] at hs
        subst hs
        refine ⟨_, _, _, _, _, rfl, ⟨rfl, rfl, rfl, rfl, rfl, Or.inr rfl, hpe, hbe, m, buf, rfl, rfl, ?_⟩⟩
        cases fail with
        | true => simpa [Flow3Reg] using hreg
        | false =>
          simp only [Flow3Reg, Bool.false_eq_true, if_false] at hreg ⊢
          obtain ⟨h1', h2', h3, h4, h5⟩ := hreg
          refine ⟨by simp, fun _ => ?_, h3, h4, h5⟩
          have := h1' trivial 0 rfl
          omega
      | succ k =>
        simp only [stageStep, List.getElem?_cons_succ, List.getElem?_cons_zero, Option.isSome_none,
          Bool.false_eq_true, if_false, sysRead, live3_1] at hs
        by_cases hpc : c1 = 0
        · subst hpc
          simp only [if_true] at hs
          cases be with
          | none => simp at hs
          | some y =>
            simp [exitStage] at hs
            subst hs
            refine ⟨_, _, _, _, _, rfl, ⟨rfl, rfl, rfl, rfl, rfl, Or.inr rfl, hpe, hbe, m, buf, rfl, rfl, ?_⟩⟩
            cases fail with
            | true =>
              simp only [Flow3Reg, if_true] at hreg ⊢
              obtain ⟨h1', h2', h3, h4, h5⟩ := hreg
              exact ⟨fun ha => ⟨(h1' ha).1, by simp⟩, h2', h3, h4, h5⟩
            | false =>
              simp only [Flow3Reg, Bool.false_eq_true, if_false] at hreg ⊢
              obtain ⟨h1', h2', h3, h4, h5⟩ := hreg
              have hb := h3 (by simp)
              refine ⟨by simp, fun _ => ⟨h4 hb.1, hb.2, h5 (by simp), trivial⟩, h3, h4, h5⟩
        · simp only [hpc, if_false] at hs
          simp [subContent, setProg] at hs
          subst hs
          refine ⟨_, _, _, _, _, rfl, ⟨rfl, rfl, rfl, rfl, rfl, Or.inl rfl, hpe, hbe, m, buf, rfl, rfl, ?_⟩⟩
          cases fail with
          | true =>
            simp only [Flow3Reg, if_true, consRoom, Option.some.injEq, exists_eq_left'] at hreg ⊢
            obtain ⟨h1', h2', h3, h4, h5⟩ := hreg
            refine ⟨fun ha => ⟨(h1' ha).1, fun hb => ?_⟩, h2', h3, by omega, h5⟩
            have := (h1' ha).2 hb
            omega
          | false =>
            simp only [Flow3Reg, Bool.false_eq_true, if_false, consRoom, Option.some.injEq, forall_eq'] at hreg ⊢
            obtain ⟨h1', h2', h3, h4, h5⟩ := hreg
            refine ⟨fun _ => ?_, by simp, h3, h4, h5⟩
            have := h1' trivial
            omega

theorem flow3_step {c : PCfg} {fin : Nat} {fail : Bool} {a b d : Stage} {p0 p1 : Pipe} {i : Nat} {t : PSys}
    (h : Flow3 c fin fail a b d p0 p1)
    (hs : stageStep c { stages := [a, b, d], pipes := [p0, p1] } i = some t) :
    ∃ a' b' d' p0' p1', t = { stages := [a', b', d'], pipes := [p0', p1'] } ∧ Flow3 c fin fail a' b' d' p0' p1' := by
  match i with
  | 0 => exact flow3_step0 h hs
  | 1 => exact flow3_step1 h hs
  | 2 => exact flow3_step2 h hs
  | k + 3 => simp [stageStep] at hs

theorem flow3_reach {c : PCfg} {fin : Nat} {fail : Bool} {a b d : Stage} {p0 p1 : Pipe} {t : PSys}
    (h : Flow3 c fin fail a b d p0 p1) (hs : PSteps c { stages := [a, b, d], pipes := [p0, p1] } t) :
    ∃ a' b' d' p0' p1', t = { stages := [a', b', d'], pipes := [p0', p1'] } ∧ Flow3 c fin fail a' b' d' p0' p1' := by
  induction hs with
  | refl => exact ⟨a, b, d, p0, p1, rfl, h⟩
  | tail i _ hstep ih =>
    obtain ⟨a1, b1, d1, q0, q1, rfl, h1⟩ := ih
    exact flow3_step h1 hstep

theorem flow3_final {c : PCfg} {fin : Nat} {fail : Bool} {a b d : Stage} {p0 p1 : Pipe}
    (h : Flow3 c fin fail a b d p0 p1) (hd : PSys.done { stages := [a, b, d], pipes := [p0, p1] } = true) :
    PSys.statuses { stages := [a, b, d], pipes := [p0, p1] } =
      [if fail then 1 else 0, if fail then 1 else 0, fin] := by
  simp [PSys.done] at hd
  obtain ⟨ha, hb, hdd⟩ := hd
  rcases h.prodExit with h1 | h1
  · rw [h1] at ha; simp at ha
  · rcases h.catExit with h2 | h2
    · rw [h2] at hb; simp at hb
    · rcases h.consExit with h3 | h3
      · rw [h3] at hdd; simp at hdd
      · simp [PSys.statuses, h1, h2, h3]
end YashModel.Proc
