/-
  C13 — the parent waits for distinct children one after the other (what `execute_multi_command_pipeline`,
  subshells and command substitutions do): the results come out in the order of the requests, each the
  child's own final state, under every schedule.  Helper lemmas for `waits_report_in_order` and the
  end-to-end theorems about what the driver computes.
-/
import YashModel.Proc.Ops
import YashModel.Proc.RunLemmas
import YashModel.Proc.Prog
namespace YashModel.Proc

def waitReqs (ts : List Nat) : List Req := ts.map fun t => Req.wait (.pid t)

/-- what `wait(pid t)` must hand out: child `t`'s own final state -/
def expected (F : List Result) (t : Nat) : WaitRes := .got t (F.getD t (.exited 0))

structure Ord (F : List Result) (ts : List Nat) (s : Sys) : Prop where
  ex : ∃ done cur rest, ts = done ++ cur ++ rest ∧ s.todo = waitReqs rest ∧
    ((cur = [] ∧ s.pc = .done) ∨
     (∃ t, cur = [t] ∧ (s.pc = .enable ∨ s.pc = .poll ∨ s.pc = .await) ∧ s.target = .pid t)) ∧
    s.results.reverse = done.map (expected F) ∧
    (∀ i, reaped s.children i = true → i ∈ done)

theorem ord_init (spec : List (Nat × Result)) (ts : List Nat) :
    Ord (spec.map (·.2)) ts (init spec (waitReqs ts)) := by
  refine ⟨[], [], ts, by simp, rfl, Or.inl ⟨rfl, rfl⟩, by simp [init], ?_⟩
  intro i hr
  exfalso
  unfold reaped at hr
  simp only [init, List.getElem?_map] at hr
  cases hs : spec[i]? with
  | none => simp [hs] at hr
  | some p => simp [hs, PState.isAlive] at hr

theorem reaped_child_rev {s s' : Sys} {i : Nat} (j : Nat) (hs : childStep s j = some s')
    (h : reaped s'.children i = true) : reaped s.children i = true := by
  unfold childStep at hs
  split at hs
  · rename_i c hc
    have hrs : ∀ t : Sys, (raiseSigchld t).children = t.children := by
      intro t; unfold raiseSigchld; split <;> rfl
    split at hs
    · simp only [Option.some.injEq] at hs; subst hs
      by_cases hij : i = j
      · subst hij; rw [reaped_set_self hc] at h; simp [PState.isAlive] at h
      · rw [reaped_set_other hc hij] at h; exact h
    · simp only [Option.some.injEq] at hs; subst hs
      rw [hrs] at h
      by_cases hij : i = j
      · subst hij; rw [reaped_set_self hc] at h; simp at h
      · rw [reaped_set_other hc hij] at h; exact h
    · simp at hs
  · simp at hs

theorem reaped_take_rev {cs : List Child} {i j : Nat} (h : reaped (take cs j) i = true) (hij : i ≠ j) :
    reaped cs i = true := by
  unfold take at h
  split at h
  · rename_i c hc; rw [reaped_set_other hc hij] at h; exact h
  · exact h

theorem ord_step {F : List Result} {ts : List Nat} {s s' : Sys} (l : Label) (hinv : Inv s)
    (hF : fins s = F) (hnd : ts.Nodup) (hlt : ∀ t ∈ ts, t < s.children.length)
    (h : Ord F ts s) (hs : step s l = some s') : Ord F ts s' := by
  obtain ⟨done, cur, rest, hts, htodo, hpc, hres, hreap⟩ := h.ex
  cases l with
  | child j =>
    obtain ⟨_, f2, f3, f4, f5⟩ := child_frame j hs
    refine ⟨done, cur, rest, hts, by rw [f4]; exact htodo, ?_, by rw [f2]; exact hres,
      fun i hi => hreap i (reaped_child_rev j hs hi)⟩
    rw [f3, f5]; exact hpc
  | parent =>
    simp only [step] at hs
    rcases hpc with ⟨hcur, hpcd⟩ | ⟨t, hcur, hpc3, htgt⟩
    · -- between requests: take the next one
      subst hcur
      unfold parentStep at hs
      simp only [hpcd] at hs
      cases rest with
      | nil => simp [htodo, waitReqs] at hs
      | cons t rest' =>
        simp only [htodo, waitReqs, List.map_cons, Option.some.injEq] at hs
        subst hs
        exact ⟨done, [t], rest', by simp [hts], rfl, Or.inr ⟨t, rfl, Or.inl rfl, rfl⟩, hres, hreap⟩
    · subst hcur
      have htmem : t ∈ ts := by rw [hts]; simp
      have htlt := hlt t htmem
      have htnd : t ∉ done := by
        intro hd
        rw [hts] at hnd
        have := (List.nodup_append.mp (List.nodup_append.mp hnd).1).2.2 t hd t (by simp)
        exact this rfl
      rcases hpc3 with hpc | hpc | hpc
      · -- enable
        simp only [parentStep, hpc, Option.some.injEq] at hs; subst hs
        exact ⟨done, [t], rest, hts, htodo, Or.inr ⟨t, rfl, Or.inr (Or.inl rfl), htgt⟩, hres, hreap⟩
      · -- poll
        simp only [parentStep, hpc, htgt] at hs
        split at hs
        · rename_i j r hw
          simp only [Option.some.injEq] at hs; subst hs
          obtain ⟨c, hc, hch, hst, hm⟩ := sysWait_state hw
          simp only [Target.matches] at hm; subst hm
          have hr : r = F.getD j (.exited 0) := by
            rw [← hF]
            simp [fins, List.getD_eq_getElem?_getD, List.getElem?_map, hc, hst, PState.fin]
          refine ⟨done ++ [j], [], rest, by simp [hts], htodo, Or.inl ⟨rfl, rfl⟩, ?_, ?_⟩
          · simp [hres, expected, hr]
          · intro i hi
            by_cases hij : i = j
            · subst hij; simp
            · simp only [List.mem_append, List.mem_singleton]
              exact Or.inl (hreap i (reaped_take_rev hi hij))
        · rename_i j f r hw
          simp only [Option.some.injEq] at hs; subst hs
          obtain ⟨c, hc, hch, hst, hm⟩ := sysWait_state hw
          simp only [Target.matches] at hm; subst hm
          refine ⟨done, [j], rest, hts, htodo, Or.inr ⟨j, rfl, Or.inl rfl, rfl⟩, hres, ?_⟩
          intro i hi
          by_cases hij : i = j
          · subst hij
            rw [take_eq_set hc, reaped_set_self hc] at hi
            simp [hst, PState.isAlive] at hi
          · exact hreap i (reaped_take_rev hi hij)
        · simp only [Option.some.injEq] at hs; subst hs
          exact ⟨done, [t], rest, hts, htodo, Or.inr ⟨t, rfl, Or.inr (Or.inr rfl), rfl⟩, hres, hreap⟩
        · -- ECHILD is impossible: child `t` exists and has not been reaped (its request is this one)
          rename_i hw
          exfalso
          have hget : s.children[t]? = some s.children[t] := List.getElem?_eq_getElem htlt
          unfold sysWait childToWaitFor at hw
          simp only [htlt, if_true, hget] at hw
          have hnr : reaped s.children t = false := by
            cases hr : reaped s.children t with
            | false => rfl
            | true => exact absurd (hreap t hr) htnd
          rw [reaped_self hget] at hnr
          split at hw
          · simp at hw
          · rename_i hch
            split at hw
            · simp at hw
            · rename_i hal
              simp at hch hal
              simp [hch, hal] at hnr
      · -- await
        simp only [parentStep, hpc] at hs
        split at hs
        · simp only [Option.some.injEq] at hs; subst hs
          exact ⟨done, [t], rest, hts, htodo, Or.inr ⟨t, rfl, Or.inr (Or.inl rfl), htgt⟩, hres, hreap⟩
        · simp at hs

theorem ord_steps {F : List Result} {ts : List Nat} {s t : Sys} (h : Steps s t) (hinv : Inv s)
    (hF : fins s = F) (hnd : ts.Nodup) (hlt : ∀ x ∈ ts, x < s.children.length) (ho : Ord F ts s) :
    Ord F ts t := by
  induction h with
  | refl => exact ho
  | @tail u _ l hst hs ih =>
    have hF' : fins u = F := by unfold fins; rw [fin_steps hst]; exact hF
    exact ord_step l (inv_steps hst hinv) hF' hnd
      (by intro x hx; rw [length_steps hst]; exact hlt x hx) ih hs

/-! ### what the driver builds (`Prog.lean`) is an initial state of the model -/

/-- the children `mkChildren` makes, as a `spec` -/
def specOf (digits : List Nat) : Nat → List Nat → List (Nat × Result)
  | _, [] => []
  | base, s :: t => (fuelOf digits base, .exited s) :: specOf digits (base + 1) t

theorem mkChildren_eq (digits : List Nat) : ∀ (base : Nat) (sts : List Nat),
    mkChildren digits base sts = (specOf digits base sts).map fun (f, r) => { state := .running f r } := by
  intro base sts
  induction sts generalizing base with
  | nil => rfl
  | cons s t ih => simp [mkChildren, specOf, ih]

theorem specOf_snd (digits : List Nat) : ∀ (base : Nat) (sts : List Nat),
    (specOf digits base sts).map (·.2) = sts.map Result.exited := by
  intro base sts
  induction sts generalizing base with
  | nil => rfl
  | cons s t ih => simp [specOf, ih]

theorem specOf_length (digits : List Nat) : ∀ (base : Nat) (sts : List Nat),
    (specOf digits base sts).length = sts.length := by
  intro base sts
  induction sts generalizing base with
  | nil => rfl
  | cons s t ih => simp [specOf, ih]

theorem childrenW_mkChildren (digits : List Nat) : ∀ (base : Nat) (sts : List Nat),
    childrenW (mkChildren digits base sts) ≤ 18 * sts.length := by
  intro base sts
  induction sts generalizing base with
  | nil => simp [mkChildren, childrenW]
  | cons s t ih =>
    have := ih (base + 1)
    have hf : fuelOf digits base < 3 := by unfold fuelOf; exact Nat.mod_lt _ (by omega)
    simp only [mkChildren, childrenW, childW, List.length_cons]
    simp
    omega

theorem waitAll_eq (n : Nat) : waitAll 0 n = waitReqs (List.range n) := by
  simp [waitAll, waitReqs]

theorem range_map_getD (l : List Nat) (d : Nat) : (List.range l.length).map (fun t => l.getD t d) = l := by
  apply List.ext_getElem?
  intro i
  simp only [List.getElem?_map]
  rcases Nat.lt_or_ge i l.length with h | h
  · simp [List.getElem?_range h, List.getD_eq_getElem?_getD, List.getElem?_eq_getElem h]
  · simp [List.getElem?_eq_none h, List.getElem?_eq_none (by simpa using h : (List.range l.length).length ≤ i)]

end YashModel.Proc
