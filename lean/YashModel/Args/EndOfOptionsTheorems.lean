/-
  C20 — property theorems ONLY: "`--` ends option parsing" stated for every argument parser of the area at full
  strength — after the first separator in option position EVERYTHING is an operand, verbatim, another `--` included
  (the clause the round-7 seeded change `skip_while(== "--")` violates: a model that dropped a second `--` could not
  satisfy any of these statements, each quantifies over an arbitrary tail `xs`).
-/
import YashModel.Args.Theorems
import YashModel.Args.SetLemmas
import YashModel.Args.SetTheorems
import YashModel.Args.GetoptsLemmas
import YashModel.Args.EndOfOptionsLemmas
namespace YashModel.Args

/-- ★ `parse_arguments`: exactly ONE separator is skipped; a second `--` right behind it is the first operand -/
theorem second_dashdash_is_operand (specs : List OptionSpec) (mode : Mode) (pre : List Str) (os : List Occurrence)
    (xs : List Str) (hpre : OptionsOnly specs mode pre os) :
    parseArguments specs mode (pre ++ dashdash :: dashdash :: xs) = .ok (os, dashdash :: xs) :=
  dashdash_ends specs mode pre os (dashdash :: xs) hpre

/-- ★ the operands are a suffix of the vector, verbatim: whatever is accepted, `operands = args.drop k` for some `k` -/
example : parseArguments exT Mode.withExtensions [['-','a'], dashdash, dashdash, ['-','a']] =
    .ok ([⟨⟨some 'a', none, false, false⟩, .short 1, none⟩], [dashdash, ['-','a']]) := by rfl

namespace Bespoke

/-- ★ `set`: behind any options-only prefix the separator (`--` or `-`) ends the options, and the new positional
    parameters are everything after it, verbatim (`set -e -- -- x` sets `--`, `x`) -/
theorem set_separator_ends (nm : Names) {p : Bool} {pre : List Str} {os : List (Str × Bool)} {p' : Bool}
    (h : SetOptionsOnly nm p pre os p') (sep : Str) (hsep : sep = ['-', '-'] ∨ sep = ['-']) (xs : List Str) :
    setParse nm p (pre ++ sep :: xs) = .ok (.modify os (some xs)) := by
  have hstep : ∀ q next, setStep nm q sep next = .stop := by
    intro q next
    rcases hsep with rfl | rfl <;> rfl
  have hne1 : pre ++ sep :: xs ≠ [] := by simp
  have hne2 : pre ++ sep :: xs ≠ [['-', 'o']] := by
    intro heq
    cases pre with
    | nil => simp at heq; rcases hsep with rfl | rfl <;> simp at heq
    | cons a l => cases l <;> simp at heq
  have hne3 : pre ++ sep :: xs ≠ [['+', 'o']] := by
    intro heq
    cases pre with
    | nil => simp at heq; rcases hsep with rfl | rfl <;> simp at heq
    | cons a l => cases l <;> simp at heq
  unfold setParse
  rw [if_neg hne1, if_neg hne2, if_neg hne3, setLoop_optionsOnly_append nm h, setLoop_cons, hstep]
  simp only [prependO, List.append_nil, finishSet]
  rcases hsep with rfl | rfl <;> simp

example : setParse exNames false [['-','e'], ['-','-'], ['-','-'], ['x']] =
    .ok (.modify [("errexit".toList, true)] (some [['-','-'], ['x']])) :=
  set_separator_ends exNames ex_optionsOnly_e _ (Or.inl rfl) _

/-- ★ the shell's own command line: at any point of the option loop (any `portable` state, any `Run` so far) the
    separator stops the loop with everything from it on left over … -/
theorem sh_separator_stops_loop (nm : Names) (p : Bool) (r : Run) (sep : Str) (hsep : sep = ['-', '-'] ∨ sep = ['-'])
    (xs : List Str) : shLoop nm p r (sep :: xs) = .ok (.inr (r, sep :: xs)) := by
  rw [shLoop_cons]
  have : shStep nm p sep xs.head? = .stop := by rcases hsep with rfl | rfl <;> rfl
  rw [this]

/-- what is done with the operands once the separator is dropped -/
def shInterpret (r : Run) (rem : List Str) : Except ShErr ShParse :=
  if r.options.contains (cmdlineOpt, true) then
    if r.options.contains (stdinOpt, true) then .error .conflictingSources
    else match rem with
      | [] => .error .missingCommandString
      | cmd :: rest =>
        match rest with
        | [] => .ok (.run { r with source := .string cmd, params := [] })
        | name :: params => .ok (.run { r with source := .string cmd, arg0 := name, params := params })
  else if r.options.contains (stdinOpt, true) then .ok (.run { r with source := .stdin, params := rem })
  else match rem with
    | [] => .ok (.run { r with params := [] })
    | file :: params => .ok (.run { r with source := .file file, arg0 := file, params := params })

/-- ★ … and exactly ONE separator is dropped: command string / script file / `arg0` / positional parameters are read
    from the arguments behind it, verbatim — a second `--` is the script file (or command string) -/
theorem sh_operands_after_separator (r : Run) (sep : Str) (hsep : sep = ['-', '-'] ∨ sep = ['-']) (xs : List Str) :
    shOperands r (sep :: xs) = shInterpret r xs := by
  rcases hsep with rfl | rfl <;> rfl

/-- ★ `kill`: at any point of the option loop `--` ends the options; the targets (or the operands of `-l`) are
    everything behind it, verbatim -/
theorem kill_dashdash_ends (nm : Names) (portable : Bool) (st : KillState) (xs : List Str) :
    killLoop nm portable st (['-', '-'] :: xs) = .ok (st, xs) := by
  rw [killLoop]; simp [killIsOption]

/-- ★ the shell's own command line: behind ANY accepted options-only prefix the separator (`--` or `-`) ends the
    options; command string / script file / `arg0` / positional parameters are read from everything behind it,
    verbatim (`sh -e -- -- x` runs the script `--` with the parameter `x`) -/
theorem sh_separator_ends (nm : Names) (arg0 : Str) {pre : List Str} {p' : Bool} {r' : Run}
    (h : ShOptionsOnly nm false { options := arg0Options arg0, arg0 := arg0 } pre p' r')
    (sep : Str) (hsep : sep = ['-', '-'] ∨ sep = ['-']) (xs : List Str) :
    shParse nm (arg0 :: (pre ++ sep :: xs)) = shInterpret r' xs := by
  unfold shParse
  simp only []
  rw [shLoop_after_options h, sh_separator_stops_loop nm p' r' sep hsep xs]
  exact sh_operands_after_separator r' sep hsep xs

/-- `yash -e -- -- x`: the script is `--`, its parameter `x` -/
example : shParse exNames ["yash".toList, ['-','e'], ['-','-'], ['-','-'], ['x']] =
    .ok (.run { options := [("errexit".toList, true)], arg0 := ['-','-'], source := .file ['-','-'], params := [['x']] }) :=
  sh_separator_ends exNames "yash".toList (pre := [['-','e']])
    (ShOptionsOnly.one false _ ['-','e'] (pushOptions [("errexit".toList, true)]) false [] false _ (fun next => by rfl)
      (ShOptionsOnly.nil false _)) ['-','-'] (Or.inl rfl) [['-','-'], ['x']]

/-- ★ `kill`: behind ANY accepted options-only prefix `--` ends the options: the loop ends in the state the prefix
    produced, with everything behind the `--` as operands, verbatim (`kill -s INT -- -1`: target `-1`) -/
theorem kill_dashdash_ends_anywhere (nm : Names) (portable : Bool) {st : KillState} {pre : List Str} {st' : KillState}
    (h : KillOptionsOnly nm portable st pre st') (xs : List Str) :
    killLoop nm portable st (pre ++ ['-', '-'] :: xs) = .ok (st', xs) := by
  rw [killLoop_after_options h, kill_dashdash_ends]

/-- ★ … so a signal sent is sent to exactly those targets: with a prefix that names a signal and neither `-l` nor
    `-v`, `kill <prefix> -- <targets>` is `Send` of that signal to `<targets>` (negative process ids included) -/
theorem kill_send_targets_after_dashdash (nm : Names) (portable : Bool) (sigterm : Int) {pre : List Str} {st' : KillState}
    (h : KillOptionsOnly nm portable { signal := sigterm } pre st') (hl : st'.list = false) (hv : st'.verbose = false)
    (xs : List Str) (hxs : xs ≠ []) :
    killParse nm portable sigterm (pre ++ ['-', '-'] :: xs) = .ok (.send st'.signal st'.hasOrigin xs) := by
  unfold killParse
  rw [kill_dashdash_ends_anywhere nm portable h]
  cases xs with
  | nil => exact absurd rfl hxs
  | cons x xs => simp [hl, hv]

def exSig2 : Names := { sig := [("INT".toList, 2)] }

/-- `kill -s INT -- -1 --`: signal 2 to the targets `-1`, `--` -/
example : killParse exSig2 false 15 [['-','s'], "INT".toList, ['-','-'], ['-','1'], ['-','-']] =
    .ok (.send 2 true [['-','1'], ['-','-']]) :=
  kill_send_targets_after_dashdash exSig2 false 15 (pre := [['-','s'], "INT".toList])
    (KillOptionsOnly.two _ ['-','s'] "INT".toList { signal := 2, hasOrigin := true } [] _ rfl (by decide) (by rfl)
      (KillOptionsOnly.nil _)) rfl rfl [['-','1'], ['-','-']] (by simp)

end Bespoke

namespace Getopts

/-- ★ `getopts`: `--` in option position ends the options and is skipped; the operands a script is left with are
    everything behind it, verbatim -/
theorem getopts_dashdash_ends (spec : Str) (xs : List Str) :
    obsOf (['-', '-'] :: xs) (walkAll spec (['-', '-'] :: xs)) = ([], some xs) := by
  rw [walkAll_eq_W]
  simp [W]

/-- ★ `getopts`: behind ANY prefix of option groups (with their option-arguments), `--` ends the options and is
    skipped; the script sees the events of the prefix and is left with everything behind the `--`, verbatim -/
theorem getopts_dashdash_ends_anywhere (spec : Str) {pre : List Str} {evs : List EvV}
    (h : GOptionsOnly spec (isColon spec) pre evs) (xs : List Str) :
    obsOf (pre ++ ['-', '-'] :: xs) (walkAll spec (pre ++ ['-', '-'] :: xs)) = (evs, some xs) := by
  rw [walkAll_eq_W, W_after_options h]
  simp [W, prependE]

/-- ★ … and so does the first operand (an argument that is not `-x…`), which stays -/
theorem getopts_first_operand_ends_anywhere (spec : Str) {pre : List Str} {evs : List EvV}
    (h : GOptionsOnly spec (isColon spec) pre evs) (x : Str) (hx : ∀ c cs, x ≠ '-' :: c :: cs) (xs : List Str) :
    obsOf (pre ++ x :: xs) (walkAll spec (pre ++ x :: xs)) = (evs, some (x :: xs)) := by
  rw [walkAll_eq_W, W_after_options h]
  have : W spec (isColon spec) (x :: xs) = ([], x :: xs) := by
    rw [W]
    exact fun c cs heq => hx c cs heq
  simp [this, prependE]

/-- optstring `ab:` — `-a -b Y -- -- -a`: `a`, `b` with argument `Y`; operands `--`, `-a` -/
example : obsOf [['-','a'], ['-','b'], ['Y'], ['-','-'], ['-','-'], ['-','a']]
      (walkAll ['a','b',':'] [['-','a'], ['-','b'], ['Y'], ['-','-'], ['-','-'], ['-','a']]) =
    ([('a', none, false), ('b', some ['Y'], false)], some [['-','-'], ['-','a']]) :=
  getopts_dashdash_ends_anywhere ['a','b',':'] (pre := [['-','a'], ['-','b'], ['Y']])
    (GOptionsOnly.one 'a' [] [('a', none, false)] [['-','b'], ['Y']] [('b', some ['Y'], false)] (by decide)
      (fun next => by cases next <;> rfl)
      (GOptionsOnly.two 'b' [] ['Y'] [('b', some ['Y'], false)] [] [] (by decide) rfl GOptionsOnly.nil))
    [['-','-'], ['-','a']]

end Getopts
end YashModel.Args
