/-
  C20 — lemmas for EndOfOptionsTheorems.lean: what an options-only prefix is for getopts, the shell's command line and
  kill (one inductive predicate each, mirroring `SetOptionsOnly`), and that the respective loop continues behind it.
-/
import YashModel.Args.SetLemmas
import YashModel.Args.GetoptsLemmas
namespace YashModel.Args

namespace Getopts

/-- a prefix of the vector that consists of option groups (with the option-arguments they take) only: no `--`, no
    operand, nothing pending at its end -/
inductive GOptionsOnly (spec : Str) (colon : Bool) : List Str → List EvV → Prop
  | nil : GOptionsOnly spec colon [] []
  | one (c : Char) (cs : Str) (l : List EvV) (rest : List Str) (evs : List EvV) :
      (c :: cs) ≠ ['-'] → (∀ next, letters spec colon next (c :: cs) = (l, false)) →
      GOptionsOnly spec colon rest evs → GOptionsOnly spec colon (('-' :: c :: cs) :: rest) (l ++ evs)
  | two (c : Char) (cs : Str) (x : Str) (l : List EvV) (rest : List Str) (evs : List EvV) :
      (c :: cs) ≠ ['-'] → letters spec colon (some x) (c :: cs) = (l, true) →
      GOptionsOnly spec colon rest evs → GOptionsOnly spec colon (('-' :: c :: cs) :: x :: rest) (l ++ evs)

theorem W_after_options {spec : Str} {colon : Bool} {pre : List Str} {evs : List EvV}
    (h : GOptionsOnly spec colon pre evs) (ys : List Str) :
    W spec colon (pre ++ ys) = prependE evs (W spec colon ys) := by
  induction h with
  | nil => simp [prependE]
  | one c cs l rest evs hne hl _ ih =>
    rw [List.cons_append, W_group _ _ _ _ _ hne, hl]
    simp [ih, prependE, List.append_assoc]
  | two c cs x l rest evs hne hl _ ih =>
    rw [List.cons_append, List.cons_append, W_group _ _ _ _ _ hne]
    simp only [List.head?_cons, hl, if_true, List.tail_cons]
    simp [ih, prependE, List.append_assoc]

end Getopts

namespace Bespoke

/-- a prefix of the command line that the option loop consumes entirely as options (with the arguments they take),
    from `portable` state `p` and `Run` `r` to `p'`, `r'` -/
inductive ShOptionsOnly (nm : Names) : Bool → Run → List Str → Bool → Run → Prop
  | nil (p : Bool) (r : Run) : ShOptionsOnly nm p r [] p r
  | one (p : Bool) (r : Run) (a : Str) (f : Run → Run) (p' : Bool) (rest : List Str) (p'' : Bool) (r'' : Run) :
      (∀ next, shStep nm p a next = .go f false p') → ShOptionsOnly nm p' (f r) rest p'' r'' →
      ShOptionsOnly nm p r (a :: rest) p'' r''
  | two (p : Bool) (r : Run) (a x : Str) (f : Run → Run) (p' : Bool) (rest : List Str) (p'' : Bool) (r'' : Run) :
      shStep nm p a (some x) = .go f true p' → ShOptionsOnly nm p' (f r) rest p'' r'' →
      ShOptionsOnly nm p r (a :: x :: rest) p'' r''

theorem shLoop_after_options {nm : Names} {p : Bool} {r : Run} {pre : List Str} {p' : Bool} {r' : Run}
    (h : ShOptionsOnly nm p r pre p' r') (ys : List Str) :
    shLoop nm p r (pre ++ ys) = shLoop nm p' r' ys := by
  induction h with
  | nil p r => rfl
  | one p r a f p' rest p'' r'' hstep _ ih =>
    rw [List.cons_append, shLoop_cons, hstep]
    simpa using ih
  | two p r a x f p' rest p'' r'' hstep _ ih =>
    rw [List.cons_append, List.cons_append, shLoop_cons]
    simp only [List.head?_cons, hstep]
    simpa using ih

/-- a prefix that kill's option loop consumes entirely as options (with the signal arguments `-s` / `-n` take) -/
inductive KillOptionsOnly (nm : Names) (portable : Bool) : KillState → List Str → KillState → Prop
  | nil (st : KillState) : KillOptionsOnly nm portable st [] st
  | one (st : KillState) (a : Str) (st' : KillState) (rest : List Str) (st'' : KillState) :
      killIsOption a = true → a ≠ ['-', '-'] →
      (∀ next, killChars nm portable (a.drop 1) next st (a.drop 1) = .ok (st', false)) →
      KillOptionsOnly nm portable st' rest st'' → KillOptionsOnly nm portable st (a :: rest) st''
  | two (st : KillState) (a x : Str) (st' : KillState) (rest : List Str) (st'' : KillState) :
      killIsOption a = true → a ≠ ['-', '-'] →
      killChars nm portable (a.drop 1) (some x) st (a.drop 1) = .ok (st', true) →
      KillOptionsOnly nm portable st' rest st'' → KillOptionsOnly nm portable st (a :: x :: rest) st''

theorem killLoop_after_options {nm : Names} {portable : Bool} {st : KillState} {pre : List Str} {st' : KillState}
    (h : KillOptionsOnly nm portable st pre st') (ys : List Str) :
    killLoop nm portable st (pre ++ ys) = killLoop nm portable st' ys := by
  induction h with
  | nil st => rfl
  | one st a st' rest st'' hopt hne hch _ ih =>
    rw [List.cons_append, killLoop]
    simp only [hopt, hne, hch, Bool.not_true, Bool.false_eq_true, if_false]
    exact ih
  | two st a x st' rest st'' hopt hne hch _ ih =>
    rw [List.cons_append, List.cons_append, killLoop]
    simp only [hopt, hne, List.head?_cons, hch, Bool.not_true, Bool.false_eq_true, if_false]
    exact ih

end Bespoke
end YashModel.Args
