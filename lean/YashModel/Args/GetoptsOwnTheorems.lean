/-
  C20 — the getopts built-in's OWN argument handling (getopts.rs `main`, before the walker): `parse_arguments(&[], …)`
  (no option of its own: any `-x` is an unknown option), at least two operands (optstring, variable name), and the
  rule "more than two operands = an explicit argument vector, otherwise the positional parameters".  The optstring is not
  validated (any text; `judge` gives every character a meaning) and the variable name is only checked when it is
  assigned (report.rs: E cases).  Model + property theorems; the tie of `parse_arguments` on the empty table is the P leg
  (`P <mode> _ …`), the explicit / implicit vector rule is observed by the J leg (`callArgs`).
-/
import YashModel.Args.Theorems
namespace YashModel.Args.Getopts
open YashModel.Args

inductive OwnErr where
  | common (e : ParseError)
  | insufficientOperands (given : Nat)
  deriving DecidableEq, Repr

/-- optstring, variable name, and the explicit argument vector if there is one (`operands.len() > 2`) -/
structure Own where
  optstring : Str
  var : Str
  explicit : Option (List Str)
  deriving DecidableEq, Repr

def ownPost (operands : List Str) : Except OwnErr Own :=
  match operands with
  | spec :: var :: rest => .ok ⟨spec, var, if rest.isEmpty then none else some rest⟩
  | _ => .error (.insufficientOperands operands.length)

/-- the first lines of getopts.rs `main` -/
def ownParse (mode : Mode) (args : List Str) : Except OwnErr Own :=
  match parseArguments [] mode args with
  | .error e => .error (.common e)
  | .ok (_, operands) => ownPost operands

/-- ★ the argument vector handed to getopts is taken VERBATIM: once the optstring (an operand) is reached, nothing behind
    it is examined as an option of getopts itself — `getopts ab v -a -- -b` walks the vector `-a -- -b` -/
theorem getopts_explicit_vector_verbatim (mode : Mode) (spec var : Str) (x : Str) (xs : List Str) (hs : IsOperand spec) :
    ownParse mode (spec :: var :: x :: xs) = .ok ⟨spec, var, some (x :: xs)⟩ := by
  unfold ownParse
  have := first_operand_ends [] mode [] [] spec (var :: x :: xs) rfl hs
  simp only [List.nil_append] at this
  rw [this]; rfl

/-- ★ with exactly two operands the positional parameters are walked (no explicit vector) … -/
theorem getopts_implicit_vector (mode : Mode) (spec var : Str) (hs : IsOperand spec) :
    ownParse mode [spec, var] = .ok ⟨spec, var, none⟩ := by
  unfold ownParse
  have := first_operand_ends [] mode [] [] spec [var] rfl hs
  simp only [List.nil_append] at this
  rw [this]; rfl

/-- ★ … a leading `--` is skipped once — it is how an optstring that starts with `-` is passed (`getopts -- -a v`) -/
theorem getopts_own_dashdash (mode : Mode) (operands : List Str) :
    ownParse mode (dashdash :: operands) = ownPost operands := by
  unfold ownParse
  have := dashdash_ends [] mode [] [] operands rfl
  simp only [List.nil_append] at this
  rw [this]

/-- ★ fewer than two operands are rejected, with the number given -/
theorem getopts_insufficient_operands (mode : Mode) (spec : Str) (hs : IsOperand spec) :
    ownParse mode [spec] = .error (.insufficientOperands 1) ∧ ownParse mode [] = .error (.insufficientOperands 0) := by
  constructor
  · unfold ownParse
    have := first_operand_ends [] mode [] [] spec [] rfl hs
    simp only [List.nil_append] at this
    rw [this]; rfl
  · rfl

example : ownParse Mode.withExtensions [['a','b'], ['v'], ['-','a'], dashdash, ['-','b']] =
    .ok ⟨['a','b'], ['v'], some [['-','a'], dashdash, ['-','b']]⟩ :=
  getopts_explicit_vector_verbatim _ _ _ _ _ (Or.inl (by decide))
example : ownParse Mode.withExtensions [['-','a'], ['v']] = .error (.common (.unknownShort 'a')) := by rfl
example : ownParse Mode.withExtensions [dashdash, ['-','a'], ['v']] = .ok ⟨['-','a'], ['v'], none⟩ := by
  rw [getopts_own_dashdash]; rfl

end YashModel.Args.Getopts
