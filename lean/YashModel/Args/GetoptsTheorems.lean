/-
  C20, getopts leg — property theorems (and non-vacuity examples) ONLY.

  `getopts` has its own option walker (yash-builtin/src/getopts/model.rs `next`), driven by the script
  through `$OPTIND` over several calls.  Clause of the property: "grouped short options mean the same
  as separate ones … an option-argument attached to its option or given as the next argument is the
  same … Equivalent spellings of an invocation have identical output, exit status and effect".
-/
import YashModel.Args.GetoptsLemmas
namespace YashModel.Args.Getopts

/-- ★ For every optstring (known letters, letters with `:`, leading `:`, unknown letters, `:` and `-`
    as letters) and every argument vector: running `getopts` to the end on the vector and on its
    fully separated spelling (every group split into one argument per letter, attached
    option-arguments moved to the next argument) yields the same sequence of (option variable,
    `$OPTARG`, diagnostic printed) and leaves the same operands.  In particular an unknown letter or a
    missing argument inside a group is reported exactly as when written separately, and the letters
    behind it are still examined. -/
theorem getopts_grouping_invariant (spec : Str) (args : List Str) :
    obsOf args (walkAll spec args) = specObs spec args :=
  (walk_separate spec args).symm

/-- ☆ The loop of calls of `next`, with `$OPTIND = arg[:char]` carried between them and the fuel
    `fuelFor`, always terminates with the call that returns non-zero, and observes exactly what a
    one-pass structural walk of the vector observes. -/
theorem getopts_loop_is_structural_walk (spec : Str) (args : List Str) :
    obsOf args (walkAll spec args) = ((W spec (isColon spec) args).1, some (W spec (isColon spec) args).2) :=
  walkAll_eq_W spec args

/-! ## non-vacuity -/

/-- optstring `ab:` — `-axb Y Z`: `a`, unknown `x` (diagnostic), `b` with argument `Y`; operand `Z` -/
example : separate ['a','b',':'] [['-','a','x','b'], ['Y'], ['Z']] = [['-','a'], ['-','x'], ['-','b'], ['Y'], ['Z']] := rfl
example : obsOf [['-','a','x','b'], ['Y'], ['Z']] (walkAll ['a','b',':'] [['-','a','x','b'], ['Y'], ['Z']]) =
    ([('a', none, false), ('?', none, true), ('b', some ['Y'], false)], some [['Z']]) := by decide
example : specObs ['a','b',':'] [['-','a','x','b'], ['Y'], ['Z']] =
    ([('a', none, false), ('?', none, true), ('b', some ['Y'], false)], some [['Z']]) := by decide
/-- the `$OPTIND` values a script sees differ between the spellings (`1:2`, `1:3`, `3` vs `2`, `3`, `5`) -/
example : (walkAll ['a','b',':'] [['-','a','x','b'], ['Y'], ['Z']]).1.map (·.optind) = [(1,2), (1,3), (3,1)] := by decide
example : (walkAll ['a','b',':'] [['-','a'], ['-','x'], ['-','b'], ['Y'], ['Z']]).1.map (·.optind) = [(2,1), (3,1), (5,1)] := by decide
/-- leading `:` — unknown letter and missing argument are reported through the variable and `$OPTARG` -/
example : obsOf [['-','x','a','b']] (walkAll [':','a','b',':'] [['-','x','a','b']]) =
    ([('?', some ['x'], false), ('a', none, false), (':', some ['b'], false)], some []) := by decide
/-- attached argument, `--`, a group with the letter `-` (kept whole by `separate`) -/
example : separate ['a','b',':'] [['-','a','b','X'], ['-','-'], ['-','a']] = [['-','a'], ['-','b'], ['X'], ['-','-'], ['-','a']] := rfl
example : separate ['a'] [['-','a','-']] = [['-','a','-']] := rfl
example : obsOf [['-','a','b','X'], ['-','-'], ['-','a']] (walkAll ['a','b',':'] [['-','a','b','X'], ['-','-'], ['-','a']]) =
    ([('a', none, false), ('b', some ['X'], false)], some [['-','a']]) := by decide

end YashModel.Args.Getopts
