/-
  C20, getopts leg — property theorems (and non-vacuity examples) ONLY.

  `getopts` has its own option walker (yash-builtin/src/getopts/model.rs `next`), driven by the script
  through `$OPTIND` over several calls.  Clause of the property: "grouped short options mean the same
  as separate ones … an option-argument attached to its option or given as the next argument is the
  same … Equivalent spellings of an invocation have identical output, exit status and effect".
-/
import YashModel.Args.GetoptsLemmas
import YashModel.Args.GetoptsHistoryLemmas
namespace YashModel.Args.Getopts

/-- ★ For every optstring (known letters, letters with `:`, leading `:`, unknown letters, `:` and `-`
    as letters) and every argument vector: running `getopts` to the end on the vector and on its
    fully separated spelling (every group split into one argument per letter, attached
    option-arguments moved to the next argument) yields the same sequence of (option variable,
    `$OPTARG`, diagnostic printed) and leaves the same operands.  In particular an unknown letter or a
    missing argument inside a group is reported exactly as when written separately, and the letters
    behind it are still examined. -/
theorem getopts_grouping_invariant (spec : Str) (args : List Str) :
    obsOf args (walkAll spec args) = specObs spec args :=
  (walk_separate spec args).symm

/-- ★ The Spec function `separate` meets its description: in its output every group in option position is
    a single letter (or contains the letter `-`, which cannot be split off) and every option-argument is
    an argument of its own — so `getopts_grouping_invariant` really compares a vector with a *fully
    separated* spelling (it would be empty if `separate` did nothing). -/
theorem separate_is_separated (spec : Str) (args : List Str) : isSeparated spec (separate spec args) = true :=
  separate_isSeparated spec args.length args (Nat.le_refl _)

/-- ☆ The loop of calls of `next`, with `$OPTIND = arg[:char]` carried between them and the fuel
    `fuelFor`, always terminates with the call that returns non-zero, and observes exactly what a
    one-pass structural walk of the vector observes. -/
theorem getopts_loop_is_structural_walk (spec : Str) (args : List Str) :
    obsOf args (walkAll spec args) = ((W spec (isColon spec) args).1, some (W spec (isColon spec) args).2) :=
  walkAll_eq_W spec args

/-! ## several sessions in one shell (getopts.rs `main`, verify.rs) -/

/-- ★ Whatever happened before in the shell — any remembered getopts state (other arguments, other
    `Origin`, any position), any values of the option variable and `$OPTARG`, any positional
    parameters — a session that starts with `OPTIND=1` and is run to completion is observed exactly
    like the same session in a fresh shell: the same (variable, `$OPTARG`, `$OPTIND`, diagnostic) per
    call, the same final status and the same final values.  For every spelling, optstring and vector. -/
theorem getopts_reset_restarts (env : GEnv) (sp : Spelling) (spec : Str) (vec : List Str) (h : WellFormed sp vec) :
    (runSession { env with optind := ['1'] } sp spec vec none).1 = freshObs sp spec vec :=
  runSession_reset { env with optind := ['1'] } rfl sp spec vec h

/-- ★ `getopts spec v` (positional parameters), `getopts spec v "$@"` and `getopts spec v args…` are
    indistinguishable: in a fresh shell, hence by `getopts_reset_restarts` after any history that ends
    with `OPTIND=1`. -/
theorem getopts_spelling_invariant (env : GEnv) (sp sp' : Spelling) (spec : Str) (vec : List Str)
    (h : WellFormed sp vec) (h' : WellFormed sp' vec) :
    (runSession { env with optind := ['1'] } sp spec vec none).1 =
      (runSession { env with optind := ['1'] } sp' spec vec none).1 := by
  rw [getopts_reset_restarts env sp spec vec h, getopts_reset_restarts env sp' spec vec h',
    freshObs_spelling sp spec vec h, freshObs_spelling sp' spec vec h']

/-- ☆ a whole history of complete sessions, each preceded by `OPTIND=1`, from any environment: every
    session is observed as in a fresh shell with the implicit spelling -/
theorem getopts_history_of_resets (sessions : List (Spelling × Str × List Str))
    (hw : ∀ s ∈ sessions, WellFormed s.1 s.2.2) (env : GEnv) :
    runHistory env (sessions.flatMap fun s => [.assign ['1'], .session s.1 s.2.1 s.2.2 none]) =
      sessions.flatMap fun s => [none, some (freshObs .implicit s.2.1 s.2.2)] := by
  induction sessions generalizing env with
  | nil => rfl
  | cons s rest ih =>
    have hs := hw s (by simp)
    have ih' := fun env => ih (fun t ht => hw t (by simp [ht])) env
    simp only [List.flatMap_cons, List.cons_append, List.nil_append, runHistory]
    rw [ih']
    have := getopts_reset_restarts env s.1 s.2.1 s.2.2 hs
    rw [this, freshObs_spelling s.1 s.2.1 s.2.2 hs]

/-! ## non-vacuity -/

/-- optstring `ab:` — `-axb Y Z`: `a`, unknown `x` (diagnostic), `b` with argument `Y`; operand `Z` -/
example : separate ['a','b',':'] [['-','a','x','b'], ['Y'], ['Z']] = [['-','a'], ['-','x'], ['-','b'], ['Y'], ['Z']] := rfl
example : obsOf [['-','a','x','b'], ['Y'], ['Z']] (walkAll ['a','b',':'] [['-','a','x','b'], ['Y'], ['Z']]) =
    ([('a', none, false), ('?', none, true), ('b', some ['Y'], false)], some [['Z']]) := by decide
example : specObs ['a','b',':'] [['-','a','x','b'], ['Y'], ['Z']] =
    ([('a', none, false), ('?', none, true), ('b', some ['Y'], false)], some [['Z']]) := by decide
/-- the `$OPTIND` values a script sees differ between the spellings (`1:2`, `1:3`, `3` vs `2`, `3`, `5`) -/
example : (walkAll ['a','b',':'] [['-','a','x','b'], ['Y'], ['Z']]).1.map (·.optind) = [(1,2), (1,3), (3,1)] := by decide
example : (walkAll ['a','b',':'] [['-','a'], ['-','x'], ['-','b'], ['Y'], ['Z']]).1.map (·.optind) = [(2,1), (3,1), (5,1)] := by decide
/-- leading `:` — unknown letter and missing argument are reported through the variable and `$OPTARG` -/
example : obsOf [['-','x','a','b']] (walkAll [':','a','b',':'] [['-','x','a','b']]) =
    ([('?', some ['x'], false), ('a', none, false), (':', some ['b'], false)], some []) := by decide
/-- attached argument, `--`, a group with the letter `-` (kept whole by `separate`) -/
example : separate ['a','b',':'] [['-','a','b','X'], ['-','-'], ['-','a']] = [['-','a'], ['-','b'], ['X'], ['-','-'], ['-','a']] := rfl
example : separate ['a'] [['-','a','-']] = [['-','a','-']] := rfl
example : obsOf [['-','a','b','X'], ['-','-'], ['-','a']] (walkAll ['a','b',':'] [['-','a','b','X'], ['-','-'], ['-','a']]) =
    ([('a', none, false), ('b', some ['X'], false)], some [['-','a']]) := by decide

/-- a session with positional parameters, then `OPTIND=1`, then the same vector written literally -/
example : runHistory freshEnv [.session .implicit ['a','b'] [['-','a','b']] none, .assign ['1'],
      .session .literal ['a','b'] [['-','a','b']] none] =
    [some (freshObs .implicit ['a','b'] [['-','a','b']]), none, some (freshObs .implicit ['a','b'] [['-','a','b']])] := by
  decide
example : (freshObs .implicit ['a','b'] [['-','a','b']]).calls =
    [⟨'a', none, ['1',':','2'], false⟩, ⟨'b', none, ['2'], false⟩] := by decide
/-- the documented misuse: no reset between two sessions -> the second is refused (status 2) -/
example : (runHistory freshEnv [.session .literal ['a','b'] [['-','a']] none,
      .session .literal ['a','b'] [['-','b']] none]).map (·.map (·.fin)) = [some (some 1), some (some 2)] := by decide
/-- garbage in `$OPTIND` with no remembered state is refused as well -/
example : (runHistory freshEnv [.assign ['x'], .session .implicit ['a'] [['-','a']] none]).map (·.map (·.fin)) =
    [none, some (some 2)] := by decide

/-- `-axbY Z` with `b:` is not separated; its separated spelling is -/
example : isSeparated ['a','b',':'] [['-','a','x','b','Y'], ['Z']] = false := by decide
example : isSeparated ['a','b',':'] (separate ['a','b',':'] [['-','a','x','b','Y'], ['Z']]) = true := by decide

end YashModel.Args.Getopts
