/-
  C20 — Spec of equivalent spellings for the bespoke parsers (`set`, the shell's command line,
  `kill`): the fully separated spelling of a vector.  The property says that a vector and its
  separated spelling mean the same; the driver evaluates this on every case, `BespokeTheorems.lean`
  proves it for all vectors.  (Under the `portable` option the attached and long forms are rejected
  by design, so the equivalence is only claimed while `portable` is off.)
-/
import YashModel.Args.Bespoke
namespace YashModel.Args.Bespoke

/-- the letters of one `-…` / `+…` cluster as separate arguments; `true` = the cluster ends with
    `o`, whose argument is the next command-line argument -/
def splitCluster (sign : Char) : Str → List Str × Bool
  | [] => ([], false)
  | c :: rest =>
    if c = 'o' then
      (if rest.isEmpty then ([[sign, 'o']], true) else ([[sign, 'o'], rest], false))
    else
      let (l, p) := splitCluster sign rest
      ([sign, c] :: l, p)

def signChar (negate : Bool) : Char := if negate then '+' else '-'

/-- `--NAME` (non-empty) / `++NAME`: `some (negate, NAME)` -/
def longForm : Str → Option (Bool × Str)
  | '-' :: '-' :: name => if name.isEmpty then none else some (false, name)
  | '+' :: '+' :: name => some (true, name)
  | _ => none

/-- Separated spelling for `set` (`long = true`: `--name` / `++name` are also rewritten to
    `-o name` / `+o name`) and for the shell's command line (`long = false`: its long options include
    `--profile=…` etc., which have no `-o` form).  A cluster containing its own sign as a letter is
    kept whole (`-a-` cannot be written `-a --`).  Everything from the first non-option on is kept. -/
def separateSO (long : Bool) : List Str → List Str
  | [] => []
  | a :: rest =>
    match shortSign a with
    | some negate =>
      let cs := a.drop 1
      let (parts, pending) :=
        if cs.contains (signChar negate) then ([a], (splitCluster (signChar negate) cs).2)
        else splitCluster (signChar negate) cs
      if pending then
        match rest with
        | [] => parts
        | x :: rest' => parts ++ x :: separateSO long rest'
      else parts ++ separateSO long rest
    | none =>
      if long then
        match longForm a with
        | some (negate, name) => [signChar negate, 'o'] :: name :: separateSO long rest
        | none => a :: rest
      else
        -- a long option of the command line may take the next argument (`--profile x`); it is not
        -- rewritten, and neither is what follows it
        a :: rest

/-- the option letters of `kill` that take no argument -/
def killFlag (c : Char) : Bool := c = 'l' ∨ c = 'v'

/-- Separated spelling for `kill` while `portable` is off: `-lv` → `-l -v`; `-sX` / `-nX` → `-s X` /
    `-n X` when `X` is a signal specification; `-X` → `-s X` when `X` is one.  Anything else
    (a cluster that only makes sense as a whole, like `-stop`) is kept. -/
def separateKill (nm : Names) : List Str → List Str
  | [] => []
  | a :: rest =>
    if !killIsOption a ∨ a = ['-', '-'] then a :: rest
    else
      let options := a.drop 1
      let pre := options.takeWhile killFlag
      let tl := options.dropWhile killFlag
      let flags := pre.map fun c => ['-', c]
      match tl with
      | [] => flags ++ separateKill nm rest
      | c :: remainder =>
        if c = 's' ∨ c = 'n' then
          if remainder.isEmpty then
            (match rest with
             | [] => flags ++ [['-', c]]
             | x :: rest' => flags ++ ['-', c] :: x :: separateKill nm rest')
          else if (parseSignal nm remainder true).isSome then
            flags ++ ['-', c] :: remainder :: separateKill nm rest
          else a :: separateKill nm rest
        else if pre.isEmpty ∧ (parseSignal nm options true).isSome then
          ['-', 's'] :: options :: separateKill nm rest
        else a :: separateKill nm rest

end YashModel.Args.Bespoke
