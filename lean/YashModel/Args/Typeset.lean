/-
  C20 — Impl model of the bespoke argument parser of the `typeset` built-in family
  (`typeset`, `export`, `readonly`): `yash-builtin/src/typeset/syntax.rs`

  * `try_parse_short`  (`shortSign` = its prologue, `shortLoop` = its `for c in … .skip(1)` loop)
  * `try_parse_long`   (`longPrefix`, `tryParseLong`: every option whose long name STARTS WITH the given
                        name is a candidate — unlike `common/syntax.rs` an exactly named option gets no
                        preference)
  * `parse`            (`parseLoop`: the `loop` with `next_if(== "--")`, `try_parse_short`, `try_parse_long`)
  * `interpret`        (`interpret`: the `for (index, option)` loop = `scan`, the `portable` operand checks,
                        the `-f` / `-g` clash, `Attr → FunctionAttr` conversion, the four `Command`s)
  * `export.rs` / `readonly.rs` `main`: what they add to the interpreted command (`exportAdjust`,
    `readonlyAdjust`)

  Import-free and executable.  Strings are lists of characters (`strip_prefix`, `chars().skip(1)`,
  `starts_with` are all character-boundary operations).  `Field::origin` / `Location` are dropped: an
  `OptionOccurrence` is its spec and its state (it carries NO spelling, so equivalent spellings give equal
  occurrences, not only equal views); an error keeps its class and the option character it names.
  `State::On` is `true`.
-/
namespace YashModel.Args.Typeset

abbrev Str := List Char

/-- `enum Attr` -/
inductive Attr where
  | readOnly
  | export
  deriving DecidableEq, Repr

/-- typeset's own `struct OptionSpec { short, long, attr }` -/
structure TSpec where
  short : Char
  long : Str
  attr : Option Attr
  deriving DecidableEq, Repr

/-- `struct OptionOccurrence { spec, state, location }` without the location -/
structure Occ where
  spec : TSpec
  state : Bool
  deriving DecidableEq, Repr

/-- `enum ParseError` (the `Field` payload dropped) -/
inductive PErr where
  | unknownShort (c : Char)
  | unknownLong
  | ambiguousLong
  | nonPortableLong
  | uncancelableShort (c : Char)
  | uncancelableLong
  deriving DecidableEq, Repr

/-- The prologue of `try_parse_short`: the first character is the sign (`-` → `negate = false`, `+` →
    `negate = true`), the second one exists and is not the same sign again.  `none` = `return Ok(false)`. -/
def shortSign (a : Str) : Option Bool :=
  match a with
  | [] => none
  | c0 :: rest =>
    let negate : Option Bool := if c0 = '-' then some false else if c0 = '+' then some true else none
    match negate with
    | none => none
    | some negate =>
      match rest with
      | [] => none
      | c1 :: _ =>
        if c1 = '-' ∧ negate = false then none
        else if c1 = '+' ∧ negate = true then none
        else some negate

/-- `option_specs.iter().find(|spec| spec.short == c)` -/
def findShort (specs : List TSpec) (c : Char) : Option TSpec :=
  specs.find? (fun s => s.short == c)

/-- the `for c in field.value.chars().skip(1)` loop of `try_parse_short` (the occurrences pushed before an
    error are discarded with the whole result by `?` in `parse`) -/
def shortLoop (specs : List TSpec) (negate : Bool) : Str → Except PErr (List Occ)
  | [] => .ok []
  | c :: cs =>
    match findShort specs c with
    | none => .error (.unknownShort c)
    | some spec =>
      if negate ∧ spec.attr = none then .error (.uncancelableShort c)
      else
        match shortLoop specs negate cs with
        | .error e => .error e
        | .ok os => .ok ({ spec := spec, state := !negate } :: os)

/-- `strip_prefix("--")` / `strip_prefix("++")`: `some (name, negate)` -/
def longPrefix : Str → Option (Str × Bool)
  | '-' :: '-' :: name => some (name, false)
  | '+' :: '+' :: name => some (name, true)
  | _ => none

/-- `spec.long.starts_with(name)` -/
def startsWith (long name : Str) : Bool := name.isPrefixOf long

/-- `option_specs.iter().filter(|spec| spec.long.starts_with(name))` -/
def longCandidates (specs : List TSpec) (name : Str) : List TSpec :=
  specs.filter (fun s => startsWith s.long name)

/-- the `match spec { … }` of `try_parse_long` on the first two candidates (in this order: unknown, ambiguous,
    uncancelable — before the portability check —, non-portable, accepted) -/
def longResolve (cands : List TSpec) (negate longNames : Bool) : Except PErr Occ :=
  match cands with
  | [] => .error .unknownLong
  | spec :: more =>
    if more ≠ [] then .error .ambiguousLong
    else if negate ∧ spec.attr = none then .error .uncancelableLong
    else if !longNames then .error .nonPortableLong
    else .ok { spec := spec, state := !negate }

/-- `try_parse_long`; `none` = `Ok(None)` (not a long option, nothing consumed) -/
def tryParseLong (specs : List TSpec) (longNames : Bool) (a : Str) : Option (Except PErr Occ) :=
  match longPrefix a with
  | none => none
  | some (name, negate) => some (longResolve (longCandidates specs name) negate longNames)

def dashdash : Str := ['-', '-']

/-- put the occurrences of one argument in front of the result for the remaining arguments -/
def prepend (os : List Occ) : Except PErr (List Occ × List Str) → Except PErr (List Occ × List Str)
  | .ok (os', ops) => .ok (os ++ os', ops)
  | .error e => .error e

/-- the `loop` of `parse` (`longNames` = `mode.long_option_names`, the only field of `Mode` it reads) -/
def parseLoop (specs : List TSpec) (longNames : Bool) : List Str → Except PErr (List Occ × List Str)
  | [] => .ok ([], [])
  | a :: rest =>
    if a = dashdash then .ok ([], rest)
    else
      match shortSign a with
      | some negate =>
        (match shortLoop specs negate (a.drop 1) with
         | .error e => .error e
         | .ok os => prepend os (parseLoop specs longNames rest))
      | none =>
        match tryParseLong specs longNames a with
        | some (.error e) => .error e
        | some (.ok o) => prepend [o] (parseLoop specs longNames rest)
        | none => .ok ([], a :: rest)

/-- `parse` -/
def parse (specs : List TSpec) (longNames : Bool) (args : List Str) : Except PErr (List Occ × List Str) :=
  parseLoop specs longNames args

/-! ## `interpret` -/

/-- `enum FunctionAttr` has the single member `ReadOnly`; `TryFrom<Attr> for FunctionAttr` -/
def toFunctionAttr : Attr → Bool
  | .readOnly => true
  | .export => false

/-- `enum Command`: variables / functions, the attribute list, `Scope::Global` -/
inductive Cmd where
  | setVariables (variables : List Str) (attrs : List (Attr × Bool)) (global : Bool)
  | printVariables (variables : List Str) (attrs : List (Attr × Bool)) (global : Bool)
  | setFunctions (functions : List Str) (attrs : List (Attr × Bool))
  | printFunctions (functions : List Str) (attrs : List (Attr × Bool))
  deriving DecidableEq, Repr

/-- `enum InterpretError` (locations dropped; `clashing` / `function` are the occurrences) -/
inductive IErr where
  | inapplicable (clashing function : Occ)
  | missingOperand
  | unexpectedOperands (operands : List Str)
  /-- `option.spec.attr.unwrap()` on a spec that is none of `f g p X` and has no attribute: the documented
      panic for a table that is not a subset of `ALL_OPTIONS` (never produced for the real tables:
      `real_tables_interpretable`) -/
  | foreignSpec (c : Char)
  deriving DecidableEq, Repr

/-- the mutable variables of the `for (index, option) in options.iter().enumerate()` loop -/
structure Scan where
  functions : Option Nat := none
  global : Option Nat := none
  print : Option Nat := none
  attrs : List (Nat × Attr × Bool) := []
  foreign : Option Char := none
  deriving DecidableEq, Repr

/-- one iteration of that loop: `match option.spec.short { 'f' … 'g' … 'p' … 'X' … _ … }` -/
def scanStep (sc : Scan) (index : Nat) (o : Occ) : Scan :=
  if o.spec.short = 'f' then { sc with functions := some index }
  else if o.spec.short = 'g' then { sc with global := some index }
  else if o.spec.short = 'p' then { sc with print := some index }
  else if o.spec.short = 'X' then { sc with attrs := sc.attrs ++ [(index, .export, !o.state)] }
  else
    match o.spec.attr with
    | some a => { sc with attrs := sc.attrs ++ [(index, a, o.state)] }
    | none => { sc with foreign := sc.foreign.or (some o.spec.short) }

def scanFrom (sc : Scan) (index : Nat) : List Occ → Scan
  | [] => sc
  | o :: os => scanFrom (scanStep sc index o) (index + 1) os

def scan (options : List Occ) : Scan := scanFrom {} 0 options

/-- the first attribute `try_into::<FunctionAttr>` refuses: its option index -/
def firstNonFunctionAttr : List (Nat × Attr × Bool) → Option Nat
  | [] => none
  | (i, a, _) :: rest => if toFunctionAttr a then firstNonFunctionAttr rest else some i

def dummyOcc : Occ := { spec := { short := '?', long := [], attr := none }, state := true }

/-- `interpret(options, operands, portable)` -/
def interpret (options : List Occ) (operands : List Str) (portable : Bool) : Except IErr Cmd :=
  let sc := scan options
  match sc.foreign with
  | some c => .error (.foreignSpec c)
  | none =>
    let print := operands.isEmpty || sc.print.isSome
    if portable ∧ sc.print.isNone ∧ operands.isEmpty then .error .missingOperand
    else if portable ∧ sc.print.isSome ∧ !operands.isEmpty then .error (.unexpectedOperands operands)
    else
      let attrs := sc.attrs.map (fun e => (e.2.1, e.2.2))
      match sc.functions with
      | some fi =>
        (match sc.global with
         | some gi => .error (.inapplicable (options.getD gi dummyOcc) (options.getD fi dummyOcc))
         | none =>
           match firstNonFunctionAttr sc.attrs with
           | some ai => .error (.inapplicable (options.getD ai dummyOcc) (options.getD fi dummyOcc))
           | none => if print then .ok (.printFunctions operands attrs) else .ok (.setFunctions operands attrs))
      | none =>
        if print then .ok (.printVariables operands attrs sc.global.isSome)
        else .ok (.setVariables operands attrs sc.global.isSome)

/-- what a whole invocation comes to: the command, or one of the two kinds of error -/
inductive Outcome where
  | cmd (c : Cmd)
  | parseError (e : PErr)
  | interpretError (e : IErr)
  deriving DecidableEq, Repr

/-- `parse` then `interpret`, as `typeset.rs` / `export.rs` / `readonly.rs` `main` chain them
    (`Mode::with_env(env)`: `long_option_names = !portable`) -/
def run (specs : List TSpec) (longNames portable : Bool) (args : List Str) : Outcome :=
  match parse specs longNames args with
  | .error e => .parseError e
  | .ok (os, ops) =>
    match interpret os ops portable with
    | .error e => .interpretError e
    | .ok c => .cmd c

/-- `export.rs` `main`: `attrs.push((Export, On)); scope = Global` (functions: `unreachable!` — `-f` is not in
    export's table) -/
def exportAdjust : Cmd → Cmd
  | .setVariables v a _ => .setVariables v (a ++ [(.export, true)]) true
  | .printVariables v a _ => .printVariables v (a ++ [(.export, true)]) true
  | c => c

/-- `readonly.rs` `main`: `attrs.push((ReadOnly, On))`, variables also `scope = Global` -/
def readonlyAdjust : Cmd → Cmd
  | .setVariables v a _ => .setVariables v (a ++ [(.readOnly, true)]) true
  | .printVariables v a _ => .printVariables v (a ++ [(.readOnly, true)]) true
  | .setFunctions f a => .setFunctions f (a ++ [(.readOnly, true)])
  | .printFunctions f a => .printFunctions f (a ++ [(.readOnly, true)])

end YashModel.Args.Typeset
