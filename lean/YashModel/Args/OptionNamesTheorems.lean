/-
  C20 — property theorems (and non-vacuity examples) ONLY: how an option *name* is read
  (`set -o NAME`, `-oNAME`, `--NAME`, `++NAME`, the shell's command line).  Documented rule: "only
  alphanumeric characters matter in long option names, and they are case-insensitive" (Unicode
  alphanumerics; ASCII case).  Clauses: equivalent spellings parse alike; malformed ones are rejected.
-/
import YashModel.Args.OptionNamesLemmas
namespace YashModel.Args.OptionNames

/-- ★ `canonicalize` has one meaning on both of its paths: keep the (Unicode) alphanumerics, fold ASCII
    case.  (A name that takes the fast path is returned unchanged, and that is what the slow path would
    have produced.) -/
theorem canonicalize_paths_agree (extra : List (Char × Bool)) (name : Str) :
    canonicalize extra name = strip extra name :=
  canonicalize_eq_strip extra name

/-- ★ inserting an ignorable character (anything that is not alphanumeric) anywhere in a name does not change
    what it names — whatever else the name contains, non-ASCII letters included -/
theorem name_insert_ignorable (table : List Str) (extra : List (Char × Bool)) (pre post : Str) (c : Char)
    (h : isAlnum extra c = false) :
    resolve table extra (pre ++ c :: post) = resolve table extra (pre ++ post) := by
  unfold resolve
  rw [canonicalize_eq_strip, canonicalize_eq_strip, strip_insert_ignorable extra pre post c h]

/-- ★ changing the case of an ASCII letter anywhere in a name does not change what it names -/
theorem name_ascii_case (table : List Str) (extra : List (Char × Bool)) (pre post : Str) (c : Char)
    (h : isAsciiUpper c = true) :
    resolve table extra (pre ++ c :: post) = resolve table extra (pre ++ lowerAscii c :: post) := by
  unfold resolve
  rw [canonicalize_eq_strip, canonicalize_eq_strip, strip_ascii_case extra pre post c h]

/-- ★ a canonical name with a character that occurs in no option name never matches (not exactly, not as an
    abbreviation, not after removing `no`) -/
theorem foreign_character_never_matches (table : List Str) (name : Str) (c : Char) (hc : c ∈ name)
    (ht : ∀ t ∈ table, c ∉ t) (hn : c ≠ 'n') (ho : c ≠ 'o') : parseLong table name = .noSuch :=
  parseLong_foreign table name c hc ht hn ho

/-- ★ for the shell's real option table: a name containing a non-ASCII alphanumeric character is unknown in
    every spelling (`errexité`, `err-exité`, `ERREXITé`, `Err_Exité`, `x-é` …) -/
theorem non_ascii_alphanumeric_name_is_unknown (extra : List (Char × Bool)) (raw : Str) (c : Char) (hc : c ∈ raw)
    (hna : 128 ≤ c.toNat) (ha : isAlnum extra c = true) :
    resolve Generated.OptionNames.optionNames extra raw = .noSuch :=
  non_ascii_name_unknown extra raw c hc hna ha

/-! ## non-vacuity -/

def exExtra : List (Char × Bool) := [('é', true), ('–', false)]
def T := Generated.OptionNames.optionNames

example : resolve T exExtra "errexit".toList = .ok "errexit".toList true := by decide
example : resolve T exExtra "Err-Exit".toList = .ok "errexit".toList true := by decide
example : resolve T exExtra "no_CLOBBER".toList = .ok "clobber".toList false := by decide
example : resolve T exExtra "err–exit".toList = .ok "errexit".toList true := by decide
example : resolve T exExtra "x".toList = .ok "xtrace".toList true := by decide
example : resolve T exExtra "e".toList = .ambiguous := by decide
/-- the two paths: `errexité` (fast path) and `err-exité` (slow path) are the same unknown name -/
example : canonicalize exExtra "errexité".toList = "errexité".toList := by decide
example : canonicalize exExtra "Err-Exité".toList = "errexité".toList := by decide
example : resolve T exExtra "errexité".toList = .noSuch := by decide
example : resolve T exExtra "err-exité".toList = .noSuch :=
  non_ascii_alphanumeric_name_is_unknown exExtra _ 'é' (by decide) (by decide) (by decide)
example : resolve T exExtra "x-é".toList = .noSuch :=
  non_ascii_alphanumeric_name_is_unknown exExtra _ 'é' (by decide) (by decide) (by decide)
example : resolve T exExtra "err-exité".toList = resolve T exExtra "errexité".toList :=
  name_insert_ignorable T exExtra "err".toList "exité".toList '-' (by decide)
example : resolve T exExtra "Errexité".toList = resolve T exExtra "errexité".toList :=
  name_ascii_case T exExtra [] "rrexité".toList 'E' (by decide)

end YashModel.Args.OptionNames
