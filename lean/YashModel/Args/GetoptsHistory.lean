/-
  C20, getopts leg, histories — Impl model of what the `getopts` built-in remembers between calls
  (`yash-builtin/src/getopts.rs` `main`: how the arguments and their `Origin` are chosen,
  `indexes_from_optind`, the `env.any` state; `getopts/verify.rs` `GetoptsStateRef::verify`;
  `getopts/report.rs`: the variable assignments and `state.optind = optind`), driven through several
  *sessions* in ONE shell environment, and the Spec: a session started with `OPTIND=1` behaves like the
  same session in a fresh shell, whichever spelling (`getopts s v`, `getopts s v "$@"`, `getopts s v
  args…`) is used.  Import-free apart from `Getopts.lean`; executable.
-/
import YashModel.Args.Getopts
namespace YashModel.Args.Getopts

/-- `verify::GetoptsState`: arguments, `Origin` (`true` = `DirectArgs`), the `$OPTIND` string -/
structure GState where
  args : List Str
  direct : Bool
  optind : Str
  deriving DecidableEq, Repr

/-- the part of the shell environment `getopts` reads and writes -/
structure GEnv where
  /-- `env.any.get::<GetoptsState>()` -/
  state : Option GState := none
  /-- `$OPTIND` (a string: scripts may assign anything) -/
  optind : Str := ['1']
  /-- the option variable (`v` in the harness), `none` = unset -/
  var : Option Char := none
  /-- `$OPTARG` -/
  optarg : Option Str := none
  /-- positional parameters -/
  params : List Str := []
  deriving DecidableEq, Repr

/-- how the script passes the arguments -/
inductive Spelling where
  /-- `getopts spec v` after `set -- vec` -/
  | implicit
  /-- `getopts spec v "$@"` after `set -- vec` -/
  | dollarAt
  /-- `getopts spec v vec…` -/
  | literal
  deriving DecidableEq, Repr

def digitsNat : Str → Nat → Option Nat
  | [], acc => some acc
  | c :: rest, acc => if c.isDigit then digitsNat rest (acc * 10 + (c.toNat - 48)) else none

/-- `s.parse::<NonZeroUsize>().ok()` (an optional `+`, at least one digit, not zero) -/
def parseNonZero (s : Str) : Option Nat :=
  let ds := match s with
    | '+' :: ds => ds
    | ds => ds
  if ds.isEmpty then none
  else match digitsNat ds 0 with
    | some 0 => none
    | r => r

def splitColon (s : Str) : List Str :=
  let rec go : Str → Str → List Str
    | [], cur => [cur.reverse]
    | c :: rest, cur => if c = ':' then cur.reverse :: go rest [] else go rest (c :: cur)
  go s []

/-- `indexes_from_optind` -/
def optindIndexes (s : Str) : Nat × Nat :=
  match splitColon s with
  | [a] => ((parseNonZero a).getD 1, 1)
  | a :: c :: _ => ((parseNonZero a).getD 1, (parseNonZero c).getD 1)
  | [] => (1, 1)

/-- `indexes_to_optind` -/
def optindString (a c : Nat) : Str :=
  if c = 1 then (Nat.repr a).toList else (Nat.repr a).toList ++ ':' :: (Nat.repr c).toList

/-- which arguments a call parses and their `Origin`: explicit operands if there are any, else the
    positional parameters (`operands.len() > 2`) -/
def callArgs (env : GEnv) (sp : Spelling) (vec : List Str) : List Str × Bool :=
  match sp with
  | .implicit => (env.params, false)
  | .dollarAt => if env.params.isEmpty then (env.params, false) else (env.params, true)
  | .literal => if vec.isEmpty then (env.params, false) else (vec, true)

inductive CallOutcome where
  /-- exit status 0: an option (or an option error reported through the variable) -/
  | option (e : Ev)
  /-- exit status 1: end of options -/
  | finished
  /-- exit status 2 with a diagnostic: `verify` failed or `$OPTIND` is unexpected -/
  | misuse
  deriving DecidableEq, Repr

/-- `GetoptsStateRef::verify` (+ the no-state branch of `main`): `none` = error, `some st` = the state to go on with -/
def verifyState (env : GEnv) (args : List Str) (direct : Bool) : Option GState :=
  let current : GState := ⟨args, direct, env.optind⟩
  match env.state with
  | none => if env.optind = ['1'] then some current else none
  | some prev =>
    if env.optind = ['1'] then some current
    else if direct ≠ prev.direct then none
    else if args ≠ prev.args then none
    else if env.optind ≠ prev.optind then none
    else some prev

/-- one call of the built-in -/
def call (env : GEnv) (spec : Str) (args : List Str) (direct : Bool) : CallOutcome × GEnv :=
  match verifyState env args direct with
  | none => (.misuse, env)
  | some st =>
    let (ai, ci) := optindIndexes env.optind
    let r := next args spec ai ci
    let oi := optindString r.nextArg r.nextChar
    match r.occ with
    | none =>
      (.finished, { env with state := some { st with optind := oi }, optind := oi, var := some '?', optarg := none })
    | some o =>
      let e := reportOcc (isColon spec) o (r.nextArg, r.nextChar)
      (.option e, { env with state := some { st with optind := oi }, optind := oi, var := some e.var, optarg := e.optarg })

/-- what a script sees of one call that returned 0: variable, `$OPTARG`, `$OPTIND` (as a string), diagnostic -/
structure CallObs where
  var : Char
  optarg : Option Str
  optind : Str
  diag : Bool
  deriving DecidableEq, Repr

/-- `while getopts …; do …; done` limited to `fuel` calls: the calls that returned 0, the status that
    ended the loop (`none` = the limit was reached), the environment afterwards -/
def runCalls (spec : Str) (args : List Str) (direct : Bool) : Nat → GEnv → List CallObs × Option Nat × GEnv
  | 0, env => ([], none, env)
  | fuel + 1, env =>
    match call env spec args direct with
    | (.misuse, env') => ([], some 2, env')
    | (.finished, env') => ([], some 1, env')
    | (.option e, env') =>
      let (evs, fin, env'') := runCalls spec args direct fuel env'
      (⟨e.var, e.optarg, env'.optind, e.diag⟩ :: evs, fin, env'')

/-- a step of a history -/
inductive HStep where
  /-- a session run until `getopts` returns non-zero (`limit = none`) or for at most `k` calls -/
  | session (sp : Spelling) (spec : Str) (vec : List Str) (limit : Option Nat)
  /-- `OPTIND=value` -/
  | assign (value : Str)
  deriving DecidableEq, Repr

structure StepObs where
  calls : List CallObs
  fin : Option Nat
  /-- variable, `$OPTARG`, `$OPTIND` after the step -/
  var : Option Char
  optarg : Option Str
  optind : Str
  deriving DecidableEq, Repr

/-- the environment a session starts from: `set -- vec` for the two spellings that read `$@` -/
def prepare (env : GEnv) (sp : Spelling) (vec : List Str) : GEnv :=
  match sp with
  | .literal => env
  | _ => { env with params := vec }

def runSession (env : GEnv) (sp : Spelling) (spec : Str) (vec : List Str) (limit : Option Nat) : StepObs × GEnv :=
  let env := prepare env sp vec
  let (args, direct) := callArgs env sp vec
  let (calls, fin, env') := runCalls spec args direct (limit.getD (fuelFor args + 1)) env
  (⟨calls, fin, env'.var, env'.optarg, env'.optind⟩, env')

def runHistory : GEnv → List HStep → List (Option StepObs)
  | _, [] => []
  | env, .assign v :: rest => none :: runHistory { env with optind := v } rest
  | env, .session sp spec vec limit :: rest =>
    let (o, env') := runSession env sp spec vec limit
    some o :: runHistory env' rest

/-- a fresh shell -/
def freshEnv : GEnv := {}

/-- the Spec's prediction for a complete session: what it does in a fresh shell -/
def freshObs (sp : Spelling) (spec : Str) (vec : List Str) : StepObs :=
  (runSession freshEnv sp spec vec none).1

end YashModel.Args.Getopts
