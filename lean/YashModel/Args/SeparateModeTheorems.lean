/-
  C20 — property theorems ONLY: equivalent spellings of `set` in EVERY `portable` state, the option named or not.
-/
import YashModel.Args.SeparateModeLemmas
import YashModel.Args.BespokeTheorems
namespace YashModel.Args.Bespoke

/-- ★ `set`'s option loop, for every answer table (the `portable` option may be named anywhere), every initial
    `portable` state and every vector: the separated spelling `separateM` — full separation while `portable` is off,
    letters only from the argument that turns it on — leaves the same options in the same order, the same remaining
    arguments, or fails with the same error.  (`set_separated_same` needed "`portable` is never named" and `p = false`.) -/
theorem set_loop_separated_same_any_portable (nm : Names) (p : Bool) (args : List Str) :
    setLoop nm p (separateM nm p args) = setLoop nm p args :=
  setLoop_separateM nm args.length args p (Nat.le_refl _)

/-- the three print forms of `set` (no argument, a lone `-o`, a lone `+o`) -/
def printForm (l : List Str) : Prop := l = [] ∨ l = [['-', 'o']] ∨ l = [['+', 'o']]

instance (l : List Str) : Decidable (printForm l) := by unfold printForm; infer_instance

/-- ★ … hence the same command or error from `parse`, unless one of the two vectors is a print form -/
theorem set_separated_same_any_portable (nm : Names) (p : Bool) (args : List Str)
    (h : ¬ printForm args) (h' : ¬ printForm (separateM nm p args)) :
    setParse nm p (separateM nm p args) = setParse nm p args := by
  simp only [printForm, not_or] at h h'
  rw [setParse_loop nm p _ h'.1 h'.2.1 h'.2.2, setParse_loop nm p _ h.1 h.2.1 h.2.2,
    set_loop_separated_same_any_portable]

/-! ## non-vacuity: a vector that NAMES `portable` -/

def exP : Names where
  short := [('e', "errexit".toList, true), ('u', "unset".toList, false)]
  long := [("errexit".toList, .ok "errexit".toList true), ("portable".toList, .ok portableOpt true)]
  info := [("errexit".toList, { portShort := some ('e', true), portLong := some ("errexit".toList, true) }),
    ("unset".toList, { portShort := some ('u', false) })]

/-- before `-o portable` everything is separated (`-oerrexit` → `-o errexit`, `--errexit` → `-o errexit`); behind it
    only the letters are (`-euoerrexit` → `-e -u -oerrexit`, `--errexit` kept) -/
example : separateM exP false [['-','e','o','x'], ['-','-','x']] = [['-','e'], ['-','o'], ['x'], ['-','o'], ['x']] := by decide
example : separateM exP false [['-','u','o'], "portable".toList, ['-','e','u','o','x'], ['-','-','x']] =
    [['-','u'], ['-','o'], "portable".toList, ['-','e'], ['-','u'], ['-','o','x'], ['-','-','x']] := by decide
example : setParse exP false [['-','e','u','o'], "portable".toList, ['-','e','u'], ['x']] =
    .ok (.modify [("errexit".toList, true), ("unset".toList, false), (portableOpt, true), ("errexit".toList, true), ("unset".toList, false)]
      (some [['x']])) := by rfl
example : setParse exP false [['-','e'], ['-','u'], ['-','o'], "portable".toList, ['-','e'], ['-','u'], ['x']] =
    setParse exP false [['-','e','u','o'], "portable".toList, ['-','e','u'], ['x']] :=
  set_separated_same_any_portable exP false [['-','e','u','o'], "portable".toList, ['-','e','u'], ['x']] (by decide) (by decide)
/-- behind `-o portable` the attached name is rejected in both spellings, with the same error -/
example : setParse exP false [['-','o'], "portable".toList, '-' :: 'e' :: 'o' :: "errexit".toList] = .error .unseparated := by rfl
example : setParse exP false [['-','o'], "portable".toList, ['-','e'], '-' :: 'o' :: "errexit".toList] = .error .unseparated := by rfl

/-! ## the shell's own command line -/

/-- ★ the command line's option loop, for every answer table (`-o portable` may be named), every `portable` state and
    `Run` so far, every vector: the mode-following separated spelling `separateMsh` leaves the same result -/
theorem sh_loop_separated_same_any_portable (nm : Names) (p : Bool) (r : Run) (args : List Str) :
    shLoop nm p r (separateMsh nm p args) = shLoop nm p r args :=
  shLoop_separateM nm args.length args p r (Nat.le_refl _)

/-- ★ … hence the same `Run` / `Help` / `Version` / error from `parse` (`sh_separated_same` needed "`portable` never named") -/
theorem sh_separated_same_any_portable (nm : Names) (arg0 : Str) (args : List Str) :
    shParse nm (arg0 :: separateMsh nm false args) = shParse nm (arg0 :: args) := by
  simp only [shParse]
  rw [sh_loop_separated_same_any_portable]

example : separateMsh exP false [['-','e','o'], "portable".toList, ['-','e','u','o','x'], ['f']] =
    [['-','e'], ['-','o'], "portable".toList, ['-','e'], ['-','u'], ['-','o','x'], ['f']] := by decide

end YashModel.Args.Bespoke
