/-
  C20 — property theorems (and non-vacuity examples) ONLY, for the `set` built-in
  (yash-builtin/src/set/syntax.rs `try_parse_short` / `try_parse_long` / `parse`, set.rs `main` / `modify`).

  Clause of the property: "malformed ones (unknown or ambiguous option, missing option-argument) are
  rejected with a diagnostic, a non-zero status and no effect" — for the one built-in whose effect IS its
  argument vector (options and positional parameters).
-/
import YashModel.Args.SetLemmas
import YashModel.Args.BespokeTheorems
namespace YashModel.Args.Bespoke

/-! ## what an argument in option position is -/

/-- ★ An argument is an option *group* exactly when it is a sign followed by at least one character and
    the first of them is not the same sign again — nothing else about that character matters.  In
    particular a sign followed by the OTHER sign (`-+…`, `+-…`) is a group (whose first letter is a sign). -/
theorem shape_group_characterised (a : Str) (neg : Bool) (ls : Str) :
    shape a = .group neg ls ↔ a = signChar neg :: ls ∧ ls ≠ [] ∧ ls.head? ≠ some (signChar neg) :=
  shape_group_iff a neg ls

/-- a long option is a doubled sign followed by the name (`--` alone is not one; `++` alone is) -/
theorem shape_long_characterised (a : Str) (neg : Bool) (name : Str) :
    shape a = .long neg name ↔ a = signChar neg :: signChar neg :: name ∧ (neg = false → name ≠ []) :=
  shape_long_iff a neg name

/-- the separators are `-` and `--` -/
theorem shape_separator_characterised (a : Str) : shape a = .separator ↔ a = ['-'] ∨ a = ['-', '-'] :=
  shape_separator_iff a

/-- ★ The prologues of `try_parse_short` / `try_parse_long` decide the shape as the documentation does:
    the code examines an argument as a cluster of short options iff it is a group, with the same sign and
    the same letters. -/
theorem try_parse_short_examines_groups (a : Str) (neg : Bool) :
    shortSign a = some neg ↔ shape a = .group neg (a.drop 1) :=
  ⟨shape_of_shortSign a neg, fun h => (shortSign_of_shape a neg _ h).1⟩

/-! ## refinement: the code's parser is the argument-at-a-time reference reader -/

/-- ☆ For every table of option names, both `portable` states and every argument vector, set's `parse`
    (cluster loop consuming the next argument, `try_parse_short` then `try_parse_long`, separator handling)
    returns exactly what the reference reader returns: the same command (options with their states in
    order, positional parameters or none) or the same error. -/
theorem set_parse_refines_reader (nm : Names) (p : Bool) (args : List Str) :
    setParse nm p args = specParse nm p args :=
  setParse_eq_specParse nm p args

/-- ☆ … and the whole built-in (`main`: parse, then `modify` or print or report) leaves behind exactly
    what the Spec expects: environment (every option state, positional parameters), exit status,
    diagnostic, output. -/
theorem set_main_meets_expectation (nm : Names) (env : SetEnv) (args : List Str) :
    setMain nm env args = expect nm env args := by
  unfold setMain expect
  rw [setParse_eq_specParse]
  cases specParse nm (getOpt env.options portableOpt) args with
  | error e => rfl
  | ok c =>
    cases c with
    | printVariables => rfl
    | printHuman => rfl
    | printMachine => rfl
    | modify os ps =>
      simp only [modify, applyOptions_eq_specOptions]
      cases ps <;> rfl

/-- ★ malformed ⇒ diagnostic, non-zero status, nothing printed, NO effect: whenever the reference reader
    finds the invocation malformed (in the `portable` state of the environment), the built-in leaves every
    option and the positional parameters exactly as they were. -/
theorem set_malformed_rejected_without_effect (nm : Names) (env : SetEnv) (args : List Str)
    (h : malformed nm (getOpt env.options portableOpt) args = true) :
    setMain nm env args = rejected env := by
  rw [set_main_meets_expectation]
  unfold expect
  unfold malformed at h
  cases hsp : specParse nm (getOpt env.options portableOpt) args with
  | error e => rfl
  | ok c => rw [hsp] at h; cases h

/-- ★ "and only those": a well-formed invocation succeeds silently (status 0, no diagnostic). -/
theorem set_wellformed_accepted (nm : Names) (env : SetEnv) (args : List Str)
    (h : malformed nm (getOpt env.options portableOpt) args = false) :
    (setMain nm env args).status = 0 ∧ (setMain nm env args).diag = false := by
  rw [set_main_meets_expectation]
  unfold expect
  unfold malformed at h
  cases hsp : specParse nm (getOpt env.options portableOpt) args with
  | error e => rw [hsp] at h; cases h
  | ok c => cases c <;> exact ⟨rfl, rfl⟩

/-! ## the malformed groups, stated on the code's parser directly -/

/-- ★ rejected ⇔ some argument, reached through options only, is itself defective (the malformed clause in both
    directions, on the code's parser): `set` reports error `e` exactly when the vector is not one of the two
    print forms and splits into a prefix consumed entirely as options (with the names `-o` / `+o` take, leaving
    `portable` in state `p'`), then an argument on which the option step fails with `e` in that state — so no
    vector is rejected for any other reason, and nothing behind the defective argument matters beyond the one
    argument a trailing `-o` would take. -/
theorem set_rejected_iff_defective_argument (nm : Names) (p : Bool) (args : List Str) (e : SetErr) :
    setParse nm p args = .error e ↔
      args ≠ [['-', 'o']] ∧ args ≠ [['+', 'o']] ∧
      ∃ pre a rest os p', args = pre ++ a :: rest ∧ SetOptionsOnly nm p pre os p' ∧
        setStep nm p' a rest.head? = .fail e := by
  unfold setParse
  by_cases h1 : args = []
  · subst h1; simp
  by_cases h2 : args = [['-', 'o']]
  · subst h2; simp
  by_cases h3 : args = [['+', 'o']]
  · subst h3; simp
  simp only [h1, h2, h3, if_false, ne_eq, not_false_eq_true, true_and]
  rw [finishSet_error_iff]
  constructor
  · exact setLoop_error_locates nm args.length args p e (Nat.le_refl _)
  · rintro ⟨pre, a, rest, os, p', rfl, hpre, hfail⟩
    exact setLoop_error_of_defect nm hpre a rest e hfail

/-- ★ A group with a letter that is no option is rejected, wherever it stands: after any prefix consumed as
    options, behind any letters of the same group that are options (`good`), whatever follows in the group
    (`tl`) and in the vector (`rest`) — exactly the error naming that letter, in both `portable` states. -/
theorem set_unknown_letter_rejected (nm : Names) (p : Bool) (pre : List Str) (os : List (Str × Bool)) (p' : Bool)
    (hpre : SetOptionsOnly nm p pre os p') (neg : Bool) (good : Str) (c : Char) (tl : Str) (rest : List Str)
    (hgood : ∀ g ∈ good, g ≠ 'o' ∧ ∃ o, setLetter nm neg p' g = .ok o)
    (hc : c ≠ 'o') (hunknown : nm.parseShort c = none)
    (hfirst : (good ++ c :: tl).head? ≠ some (signChar neg)) :
    setParse nm p (pre ++ (signChar neg :: (good ++ c :: tl)) :: rest) = .error (.unknownShort c) := by
  apply setParse_of_loop_error _ _ _ _ _ (by intro h; cases h)
  rw [setLoop_optionsOnly_append nm hpre]
  have hs : shortSign (signChar neg :: (good ++ c :: tl)) = some neg := by
    cases hl : good ++ c :: tl with
    | nil => simp at hl
    | cons x xs =>
      rw [hl] at hfirst
      exact shortSign_single neg x xs (by simpa using hfirst)
  rw [setLoop_short nm p' _ rest neg hs]
  simp only [List.drop_succ_cons, List.drop_zero]
  rw [setShortLoop_bad_letter nm neg _ p' c tl _ hc (setLetter_unknown nm neg p' c hunknown) good hgood]
  simp [contS]

/-- ★ The mixed-sign arguments: if no option is called `+` or `-` (true of the shell's table:
    `real_table_has_no_sign_letter`), then an argument whose first two characters are DIFFERENT signs —
    `-+`, `+-`, `-+e`, `+-o`, `-+o errexit` … — is rejected as the unknown option named by its second
    character, at every argument position behind options, whatever follows.  (It is not an operand, not a
    long option and not a separator.) -/
theorem set_mixed_sign_rejected (nm : Names) (p : Bool) (pre : List Str) (os : List (Str × Bool)) (p' : Bool)
    (hpre : SetOptionsOnly nm p pre os p') (neg : Bool) (cs : Str) (rest : List Str)
    (hsign : nm.parseShort (signChar (!neg)) = none) :
    setParse nm p (pre ++ (signChar neg :: signChar (!neg) :: cs) :: rest) = .error (.unknownShort (signChar (!neg))) := by
  have := set_unknown_letter_rejected nm p pre os p' hpre neg [] (signChar (!neg)) cs rest (by simp)
    (by cases neg <;> decide) hsign (by cases neg <;> simp [signChar])
  simpa using this

/-- ★ … with no effect: options given BEFORE the malformed argument in the same command are not applied and
    the positional parameters are not replaced. -/
theorem set_mixed_sign_no_effect (nm : Names) (env : SetEnv) (pre : List Str) (os : List (Str × Bool)) (p' : Bool)
    (hpre : SetOptionsOnly nm (getOpt env.options portableOpt) pre os p') (neg : Bool) (cs : Str) (rest : List Str)
    (hsign : nm.parseShort (signChar (!neg)) = none) :
    setMain nm env (pre ++ (signChar neg :: signChar (!neg) :: cs) :: rest) = rejected env := by
  unfold setMain
  rw [set_mixed_sign_rejected nm _ pre os p' hpre neg cs rest hsign]
  rfl

/-- ★ same for any unknown letter anywhere in a group -/
theorem set_unknown_letter_no_effect (nm : Names) (env : SetEnv) (pre : List Str) (os : List (Str × Bool)) (p' : Bool)
    (hpre : SetOptionsOnly nm (getOpt env.options portableOpt) pre os p') (neg : Bool) (good : Str) (c : Char) (tl : Str)
    (rest : List Str) (hgood : ∀ g ∈ good, g ≠ 'o' ∧ ∃ o, setLetter nm neg p' g = .ok o)
    (hc : c ≠ 'o') (hunknown : nm.parseShort c = none)
    (hfirst : (good ++ c :: tl).head? ≠ some (signChar neg)) :
    setMain nm env (pre ++ (signChar neg :: (good ++ c :: tl)) :: rest) = rejected env := by
  unfold setMain
  rw [set_unknown_letter_rejected nm _ pre os p' hpre neg good c tl rest hgood hc hunknown hfirst]
  rfl

/-- ☆ The table `parse_short` of yash-env/src/option.rs (re-extracted on every run) has no letter `-`, `+`
    or `o`, whatever the long names resolve to: the hypothesis of `set_mixed_sign_rejected` holds for the
    shell, and `o` is never shadowed by an option letter. -/
theorem real_table_has_no_sign_letter (long : List (Str × LongRes)) :
    (tableNames long).parseShort '-' = none ∧ (tableNames long).parseShort '+' = none ∧
    (tableNames long).parseShort 'o' = none := by
  refine ⟨?_, ?_, ?_⟩ <;> simp only [Names.parseShort, tableNames] <;> decide

/-- ★ for the shell's own table: `set … -+… …` / `set … +-… …` is rejected without effect -/
theorem set_mixed_sign_no_effect_real (long : List (Str × LongRes)) (env : SetEnv) (pre : List Str)
    (os : List (Str × Bool)) (p' : Bool)
    (hpre : SetOptionsOnly (tableNames long) (getOpt env.options portableOpt) pre os p') (neg : Bool) (cs : Str)
    (rest : List Str) :
    setMain (tableNames long) env (pre ++ (signChar neg :: signChar (!neg) :: cs) :: rest) = rejected env :=
  set_mixed_sign_no_effect _ env pre os p' hpre neg cs rest
    (by cases neg
        · exact (real_table_has_no_sign_letter long).2.1
        · exact (real_table_has_no_sign_letter long).1)

/-- ★ Equivalent spellings have the same EFFECT, status and output (not only the same parse): while
    `portable` is off and never named, `set` run on the separated spelling leaves behind exactly what it
    leaves on the original vector. -/
theorem set_main_separated_same (nm : Names) (h : NoPortable nm) (env : SetEnv) (args : List Str)
    (hp : getOpt env.options portableOpt = false) :
    setMain nm env (separateSO true args) = setMain nm env args := by
  unfold setMain
  rw [hp, set_separated_same nm h args]

/-- ★ The shell's own command line (yash-cli startup/args.rs `is_short_option` / `try_parse_short`) reads a
    mixed-sign first argument the same way: `sh -+e`, `sh +-` … are the unknown option named by the second
    character (not a script name). -/
theorem sh_mixed_sign_rejected (nm : Names) (arg0 : Str) (neg : Bool) (cs : Str) (rest : List Str)
    (hsign : nm.parseShort (signChar (!neg)) = none) :
    shParse nm (arg0 :: (signChar neg :: signChar (!neg) :: cs) :: rest) = .error (.unknownShort (signChar (!neg))) := by
  cases neg <;>
    simp_all [shParse, shLoop, shStep, shortSign, signChar, shShortLoop, shLetter, thenConsV, ShStep.ofShort]

/-! ## non-vacuity -/

/-- `-e` is consumed as an option whatever follows -/
theorem ex_optionsOnly_e : SetOptionsOnly exNames false [['-', 'e']] [("errexit".toList, true)] false := by
  have := SetOptionsOnly.one (nm := exNames) false ['-', 'e'] [("errexit".toList, true)] false [] [] false
    (fun next => by rfl) (SetOptionsOnly.nil false)
  simpa using this

/-- `-o errexit` (two arguments) is consumed as an option -/
theorem ex_optionsOnly_o : SetOptionsOnly exNames false [['-', 'o'], "errexit".toList] [("errexit".toList, true)] false := by
  have := SetOptionsOnly.two (nm := exNames) false ['-', 'o'] "errexit".toList [("errexit".toList, true)] false [] [] false
    (by rfl) (SetOptionsOnly.nil false)
  simpa using this

/-- `set -e -+u`: rejected as the unknown option `+`; `set +-e`, `set -+o errexit`, `set -+`, `set +-` alike -/
example : setParse exNames false [['-', 'e'], ['-', '+', 'u']] = .error (.unknownShort '+') :=
  set_mixed_sign_rejected exNames false _ _ _ ex_optionsOnly_e false ['u'] [] (by decide)
example : setParse exNames false [['+', '-', 'e']] = .error (.unknownShort '-') :=
  set_mixed_sign_rejected exNames false [] [] false (.nil false) true ['e'] [] (by decide)
example : setParse exNames false [['-', 'o'], "errexit".toList, ['-', '+', 'o'], "errexit".toList] = .error (.unknownShort '+') :=
  set_mixed_sign_rejected exNames false _ _ _ ex_optionsOnly_o false ['o'] ["errexit".toList] (by decide)
example : setParse exNames false [['-', '+']] = .error (.unknownShort '+') := by rfl
example : setParse exNames false [['+', '-']] = .error (.unknownShort '-') := by rfl
/-- `set -e -o nosuch X`: the defective argument is `-o` (with the name it takes), reached through `-e` -/
example : setParse exNames false [['-', 'e'], ['-', 'o'], "nosuch".toList, ['X']] = .error .unknownLong :=
  (set_rejected_iff_defective_argument exNames false _ _).2
    ⟨by decide, by decide, [['-', 'e']], ['-', 'o'], ["nosuch".toList, ['X']], _, _, rfl, ex_optionsOnly_e, by rfl⟩
/-- the same unknown letter later in a group, and well-formed neighbours -/
example : setParse exNames false [['-', 'e', '+', 'u']] = .error (.unknownShort '+') :=
  set_unknown_letter_rejected exNames false [] [] false (.nil false) false ['e'] '+' ['u'] []
    (by intro g hg; simp at hg; subst hg; exact ⟨by decide, _, rfl⟩) (by decide) (by decide) (by decide)
example : setParse exNames false [['-', '-'], ['-', '+', 'e']] = .ok (.modify [] (some [['-', '+', 'e']])) := by rfl
example : setParse exNames false [['+', '+', 'e', 'r', 'r']] = .ok (.modify [("errexit".toList, false)] none) := by rfl
/-- no effect: `set -e -+u` in an environment where errexit is off and `$@` = (p q) -/
example : setMain exNames { options := [("errexit".toList, false), ("unset".toList, true)], params := [['p'], ['q']] }
      [['-', 'e'], ['-', '+', 'u']] =
    rejected { options := [("errexit".toList, false), ("unset".toList, true)], params := [['p'], ['q']] } := by rfl
/-- … whereas `set -e -u` changes both options and keeps the parameters -/
example : setMain exNames { options := [("errexit".toList, false), ("unset".toList, true)], params := [['p'], ['q']] }
      [['-', 'e'], ['-', 'u']] =
    { env := { options := [("errexit".toList, true), ("unset".toList, false)], params := [['p'], ['q']] },
      status := 0, diag := false, out := .nothing } := by rfl
example : shParse exShNames [['s', 'h'], ['-', '+', 'e'], ['x']] = .error (.unknownShort '+') :=
  sh_mixed_sign_rejected exShNames ['s', 'h'] false ['e'] [['x']] (by decide)
example : shParse exShNames [['s', 'h'], ['+', '-']] = .error (.unknownShort '-') := by rfl
/-- the two halves of the malformed clause, instantiated -/
example : setMain exNames { options := [("errexit".toList, false)], params := [['p']] } [['-', 'e', 'Z']] =
    rejected { options := [("errexit".toList, false)], params := [['p']] } :=
  set_malformed_rejected_without_effect exNames _ _ (by rfl)
example : (setMain exNames { options := [("errexit".toList, false)], params := [['p']] } [['-', 'e'], ['-', '-']]).status = 0 :=
  (set_wellformed_accepted exNames _ _ (by rfl)).1
example : setMain exNames { options := [("errexit".toList, false)], params := [['p']] } [['-', 'e'], ['-', '-']] =
    { env := { options := [("errexit".toList, true)], params := [] }, status := 0, diag := false, out := .nothing } := by rfl
example : setMain exNames { options := [("errexit".toList, false)], params := [['p']] } [['-', 'e', 'u'], ['X']] =
    setMain exNames { options := [("errexit".toList, false)], params := [['p']] } [['-', 'e'], ['-', 'u'], ['X']] :=
  (set_main_separated_same exNames exNames_noPortable _ [['-', 'e', 'u'], ['X']] (by rfl)).symm
example : malformed exNames false [['-', 'e'], ['-', '+', 'u']] = true := by rfl
example : malformed exNames false [['-', 'e'], ['-', 'u'], ['X']] = false := by rfl
example : shape ['-', '+', 'e'] = .group false ['+', 'e'] := by rfl
example : shape ['+', '-'] = .group true ['-'] := by rfl
example : shape ['-', '-'] = .separator := by rfl
example : shape ['+', '+'] = .long true [] := by rfl
example : shape ['+'] = .operand := by rfl
/-- the reader agrees with the code on a vector using every shape -/
example : specParse exNames false [['-', 'e', 'o'], "nounset".toList, '+' :: '+' :: "err".toList, ['-'], ['-', 'u']] =
    .ok (.modify [("errexit".toList, true), ("unset".toList, false), ("errexit".toList, false)] (some [['-', 'u']])) := by rfl

end YashModel.Args.Bespoke
