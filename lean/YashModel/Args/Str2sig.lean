/-
  C20 (kill) — Impl model of `Signals::str2sig` (yash-env/src/system/signal.rs, default method of `trait Signals`) for
  the virtual system the harness runs on: binary search in `NAMED_SIGNALS` (a strictly ascending table: `find?` is the
  same search — `namedSignals_ascending`), then the real-time names `RTMIN[+n]` / `RTMAX[-n]`.  Everything it depends on
  is re-extracted: the table and the prefixes (`Generated.SignalNames`, tools/tables/signames.py), the constants
  `impl Signals for VirtualSystem` binds, and their numbers (C11's `Generated.TrapTables.signalConsts`).
  Before wave 3 the answers of `str2sig` were a parameter supplied by the harness with every `K` case.
-/
import YashModel.Args.Bespoke
import YashModel.Generated.SignalNames
import YashModel.Generated.TrapTables
namespace YashModel.Args.Bespoke
open YashModel.Generated

/-- the number of a `pub const SIG…` of the virtual `signal` module -/
def constNumber (c : String) : Option Nat :=
  (TrapTables.signalConsts.find? (fun e => e.1 == c)).map (·.2)

/-- `Self::NAMED_SIGNALS[index].1` for `VirtualSystem` -/
def namedNumber (const : String) : Option Nat :=
  if const = "" then none
  else match SignalNames.virtualConsts.find? (fun e => e.1 == const) with
    | some e => if e.2 = "" then none else constNumber e.2
    | none => none

/-- `str::strip_prefix` -/
def stripPrefixS (pre s : Str) : Option Str := if pre.isPrefixOf s then some (s.drop pre.length) else none

/-- `str2sig` (the name without `SIG`, case-sensitive) -/
def str2sig (name : Str) : Option Int :=
  match SignalNames.namedSignals.find? (fun e => e.1.toList == name) with
  | some e => (namedNumber e.2).map Int.ofNat
  | none =>
    let rt : Option (Bool × Str) :=
      match stripPrefixS "RTMIN".toList name with
      | some s => some (true, s)
      | none =>
        match stripPrefixS "RTMAX".toList name with
        | some s => some (false, s)
        | none => none
    match rt with
    | none => none
    | some (isMin, suffix) =>
      if !suffix.isEmpty && !(suffix.head? == some '+' || suffix.head? == some '-') then none
      else
        match constNumber SignalNames.rtRange.1, constNumber SignalNames.rtRange.2 with
        | some lo, some hi =>
          let base : Int := if isMin then lo else hi
          let raw : Option Int := if suffix.isEmpty then some base else (parseI32 suffix).map (base + ·)
          (match raw with
           | none => none
           | some raw => if raw ≠ 0 ∧ (lo : Int) ≤ raw ∧ raw ≤ (hi : Int) then some raw else none)
        | _, _ => none

/-- the answers of `str2sig` for every name kill's parser can ask about on this vector: the upper-cased suffixes of the
    arguments, with and without `SIG` -/
def sigAnswers (args : List Str) : List (Str × Int) :=
  let sufs := (args.flatMap fun a => (List.range (a.length + 1)).map fun i => upper (a.drop i)).eraseDups
  let keys := (sufs ++ sufs.filterMap stripSIG).eraseDups
  keys.filterMap fun k => (str2sig k).map fun n => (k, n)

end YashModel.Args.Bespoke
