/-
  C20 — `kill`: the Spec function `separateKill` characterised.  `KillShape` / `killShape` say what one argument in option
  position is (decided against `str2sig` through `parseSignal`); the theorems say that `separateKill` is exactly the rewrite
  this classification defines, and pin the boundary tokens.
-/
import YashModel.Args.KillTheorems
import YashModel.Args.BespokeSpec
namespace YashModel.Args.Bespoke

/-- what ONE argument in option position is to kill's syntax, decided against `str2sig` (through `parseSignal`):
    * `operand`   not `-x…` (a process / job id, `-` alone, the empty string): the options end, it stays
    * `separator` `--`
    * `flags`     `-` followed by letters `l` / `v` only
    * `sigOption` `-[lv]*s` / `-[lv]*n`, bare (takes the next argument) or with an attached text that is a signal specification
    * `sigSpec`   `-X` where the whole `X` is a signal specification (a number — so `-1`, `-9` are SIGNALS, never
                  negative process ids — or a name `str2sig` knows, any case, optional `SIG`) and does not start with `l` / `v`
    * `opaque`    anything else (`-stop`: `-s` with `top`, then the whole `stop`; `-x`; `-sFOO`): no separated spelling -/
inductive KillShape where
  | operand
  | separator
  | flags (pre : Str)
  | sigOption (pre : Str) (c : Char) (attached : Str)
  | sigSpec (spec : Str)
  | opaque
  deriving DecidableEq, Repr

def killShape (nm : Names) (a : Str) : KillShape :=
  if !killIsOption a then .operand
  else if a = ['-', '-'] then .separator
  else
    let options := a.drop 1
    let pre := options.takeWhile killFlag
    match options.dropWhile killFlag with
    | [] => .flags pre
    | c :: remainder =>
      if c = 's' ∨ c = 'n' then
        (if remainder.isEmpty ∨ (parseSignal nm remainder true).isSome then .sigOption pre c remainder else .opaque)
      else if pre.isEmpty ∧ (parseSignal nm options true).isSome then .sigSpec options
      else .opaque

/-- ★ `separateKill` is the rewrite this classification defines — nothing else: flags are split, a signal option gets its
    argument as the next argument, a whole signal specification becomes `-s SPEC`, an operand / `--` ends the rewriting,
    an opaque argument is kept -/
theorem separateKill_by_shape (nm : Names) (a : Str) (rest : List Str) :
    separateKill nm (a :: rest) =
      match killShape nm a with
      | .operand => a :: rest
      | .separator => a :: rest
      | .flags pre => pre.map (fun c => ['-', c]) ++ separateKill nm rest
      | .sigOption pre c attached =>
        if attached.isEmpty then
          (match rest with
           | [] => pre.map (fun c => ['-', c]) ++ [['-', c]]
           | x :: rest' => pre.map (fun c => ['-', c]) ++ ['-', c] :: x :: separateKill nm rest')
        else pre.map (fun c => ['-', c]) ++ ['-', c] :: attached :: separateKill nm rest
      | .sigSpec spec => ['-', 's'] :: spec :: separateKill nm rest
      | .opaque => a :: separateKill nm rest := by
  rw [separateKill]
  unfold killShape
  by_cases h1 : killIsOption a = true
  · by_cases h2 : a = ['-', '-']
    · subst h2; rfl
    · simp only [h1, h2, Bool.not_true, Bool.false_eq_true, false_or, if_false]
      cases hd : List.dropWhile killFlag (List.drop 1 a) with
      | nil => simp
      | cons c remainder =>
        simp only []
        by_cases hc : c = 's' ∨ c = 'n'
        · simp only [hc, if_true]
          by_cases hr : remainder.isEmpty = true
          · simp only [hr, true_or, if_true]
            cases rest <;> rfl
          · by_cases hp : (parseSignal nm remainder true).isSome = true
            · simp [hr, hp]
            · simp [hr, hp]
        · simp only [hc, if_false]
          split <;> rename_i hw <;> simp [hw]
  · simp [h1]

/-- ★ the spelling rewrite changes nothing exactly on the arguments it is not defined for: an operand, `--` and an
    opaque argument are kept verbatim (the first two with everything behind them) -/
theorem separateKill_keeps (nm : Names) (a : Str) (rest : List Str)
    (h : killShape nm a = .operand ∨ killShape nm a = .separator) : separateKill nm (a :: rest) = a :: rest := by
  rw [separateKill_by_shape]
  rcases h with h | h <;> simp [h]

/-! ## boundary tokens (table `str2sig` restricted to three names; consistent with the model of `str2sig`) -/

def nmB : Names := { sig := [("INT".toList, 2), ("KILL".toList, 9), ("STOP".toList, 116)] }

theorem nmB_is_str2sig : ∀ e ∈ nmB.sig, str2sig e.1 = some e.2 := by decide

def kout : Except KillErr KillCmd → KillCmd ⊕ KillErr
  | .ok c => .inl c
  | .error e => .inr e

def W (l : List String) : List Str := l.map String.toList

/-- ☆ signal specification, option cluster or negative process id — the boundary cases, each with its shape and what `parse`
    makes of it -/
theorem kill_boundary_table :
    ([["-0","1"], ["-9","1"], ["-KILL","1"], ["-sKILL","1"], ["-s","KILL","1"], ["-n9","1"], ["-l"], ["-ln"], ["-lv","9"],
      ["--","1"], ["-1"], ["--","-1"], ["-INT","-5"], ["-INT","--","-5"], ["-stop","1"], ["-x","1"], ["-sFOO","1"]].map fun v =>
        (killShape nmB ((W v).headD []), kout (killParse nmB false 15 (W v)))) =
    [(.sigSpec ['0'], .inl (.send 0 true (W ["1"]))),
     (.sigSpec ['9'], .inl (.send 9 true (W ["1"]))),
     (.sigSpec "KILL".toList, .inl (.send 9 true (W ["1"]))),
     (.sigOption [] 's' "KILL".toList, .inl (.send 9 true (W ["1"]))),
     (.sigOption [] 's' [], .inl (.send 9 true (W ["1"]))),
     (.sigOption [] 'n' ['9'], .inl (.send 9 true (W ["1"]))),
     (.flags ['l'], .inl (.print [] false)),
     (.sigOption ['l'] 'n' [], .inr (.missingSignal 'n')),
     (.flags ['l','v'], .inl (.print (W ["9"]) true)),
     (.separator, .inl (.send 15 false (W ["1"]))),
     (.sigSpec ['1'], .inr .missingTarget),
     (.separator, .inl (.send 15 false (W ["-1"]))),
     (.sigSpec "INT".toList, .inr .multipleSignals),
     (.sigSpec "INT".toList, .inl (.send 2 true (W ["-5"]))),
     (.opaque, .inl (.send 116 true (W ["1"]))),
     (.opaque, .inr .unknownOption),
     (.opaque, .inr .invalidSignal)] := by decide

/-- ☆ … and its separated spelling, which `parse` reads alike (`kill_separated_same`) -/
theorem kill_boundary_separated :
    ∀ p ∈ ([(["-0","1"], ["-s","0","1"]), (["-9","1"], ["-s","9","1"]), (["-KILL","1"], ["-s","KILL","1"]), (["-sKILL","1"], ["-s","KILL","1"]), (["-s","KILL","1"], ["-s","KILL","1"]), (["-n9","1"], ["-n","9","1"]), (["-l"], ["-l"]), (["-ln"], ["-l","-n"]), (["-lv","9"], ["-l","-v","9"]), (["--","1"], ["--","1"]), (["-1"], ["-s","1"]), (["--","-1"], ["--","-1"]), (["-INT","-5"], ["-s","INT","-s","5"]), (["-INT","--","-5"], ["-s","INT","--","-5"]), (["-stop","1"], ["-stop","1"]), (["-x","1"], ["-x","1"]), (["-sFOO","1"], ["-sFOO","1"])] : List (List String × List String)),
      separateKill nmB (W p.1) = W p.2 := by
  intro p hp
  simp only [List.mem_cons, List.mem_nil_iff, or_false] at hp
  rcases hp with rfl | rfl | rfl | rfl | rfl | rfl | rfl | rfl | rfl | rfl | rfl | rfl | rfl | rfl | rfl | rfl | rfl <;>
    simp [W, separateKill_by_shape, killShape, killIsOption, killFlag, separateKill] <;> decide

end YashModel.Args.Bespoke
