/-
  C20 — helper lemmas for the bespoke parsers (`set`; the property theorems are in
  `BespokeTheorems.lean`): the loops of set's `parse` (`setLoop_separate`, `setParse_separate`), of the shell's
  command-line parser (`shLoop_separate`, `shParse_separate`) and of kill's `parse` (`killLoop_separate`) do not
  distinguish a vector from its separated spelling, while the `portable` option is off and not named.
-/
import YashModel.Args.BespokeSpec
namespace YashModel.Args.Bespoke

/-- the `portable` option is never named: the parsers then stay in the mode in which all spellings are
    accepted (under `portable` the attached and long forms are rejected by design) -/
def NoPortable (nm : Names) : Prop := ∀ raw st, nm.parseLong raw ≠ .ok portableOpt st

@[simp] theorem prependO_nil (r : Looped ε) : prependO [] r = r := by
  cases r with
  | error e => rfl
  | ok p => cases p; rfl

@[simp] theorem prependO_prependO (a b : List (Str × Bool)) (r : Looped ε) :
    prependO a (prependO b r) = prependO (a ++ b) r := by
  cases r with
  | error e => rfl
  | ok p => cases p; simp [prependO]

theorem setLoop_cons (nm : Names) (p : Bool) (a : Str) (rest : List Str) :
    setLoop nm p (a :: rest) =
      match setStep nm p a rest.head? with
      | .fail e => .error e
      | .stop => .ok ([], a :: rest)
      | .opts os took p' => prependO os (setLoop nm p' (if took then rest.tail else rest)) := by
  rw [setLoop]
  cases h : setStep nm p a rest.head? with
  | fail e => rfl
  | stop => rfl
  | opts os took p' =>
    cases took with
    | false => simp
    | true =>
      cases rest with
      | nil => simp [setLoop, prependO]
      | cons b rest' => simp

/-- continue the loop after a cluster -/
def contS (nm : Names) (x : Except SetErr ShortOut) (tail : List Str) : Looped SetErr :=
  match x with
  | .error e => .error e
  | .ok (os, took, p') => prependO os (setLoop nm p' (if took then tail.tail else tail))

theorem setLoop_short (nm : Names) (p : Bool) (a : Str) (rest : List Str) (neg : Bool)
    (h : shortSign a = some neg) :
    setLoop nm p (a :: rest) = contS nm (setShortLoop nm neg rest.head? p (a.drop 1)) rest := by
  rw [setLoop_cons]
  simp only [setStep, h]
  cases setShortLoop nm neg rest.head? p (List.drop 1 a) with
  | error e => rfl
  | ok q => obtain ⟨os, took, p'⟩ := q; rfl

theorem contS_consOpt (nm : Names) (o : Str × Bool) (x : Except SetErr ShortOut) (tail : List Str) :
    contS nm (consOpt o x) tail = prependO [o] (contS nm x tail) := by
  cases x with
  | error e => rfl
  | ok q => obtain ⟨os, took, p'⟩ := q; simp [consOpt, contS]

theorem shortSign_single (neg : Bool) (c : Char) (cs : Str) (h : c ≠ signChar neg) :
    shortSign (signChar neg :: c :: cs) = some neg := by
  cases neg <;> simp [signChar, shortSign] at h ⊢ <;> exact h

theorem setShortLoop_cons (nm : Names) (neg : Bool) (next : Option Str) (p : Bool) (c : Char) (rest : Str) :
    setShortLoop nm neg next p (c :: rest) =
      if c = 'o' then
        oArm nm neg p rest next .missingArgument .unknownLong .ambiguousLong .unmodifiableLong
          .nonPortableLong .unseparated true
      else thenCons (setLetter nm neg p c) (setShortLoop nm neg next p rest) := by
  rw [setShortLoop]

theorem contS_thenCons (nm : Names) (l : Except SetErr (Str × Bool)) (x : Except SetErr ShortOut) (tail : List Str) :
    contS nm (thenCons l x) tail =
      match l with
      | .error e => .error e
      | .ok o => prependO [o] (contS nm x tail) := by
  cases l with
  | error e => rfl
  | ok o => simp [thenCons, contS_consOpt]

/-- with `portable` off and never named, the o-arm leaves it off -/
theorem oArm_noPortable (nm : Names) (h : NoPortable nm) (neg : Bool) (rest : Str) (next : Option Str)
    (os : List (Str × Bool)) (took p' : Bool)
    (hr : oArm nm neg false rest next SetErr.missingArgument .unknownLong .ambiguousLong .unmodifiableLong
      .nonPortableLong .unseparated true = .ok (os, took, p')) : p' = false := by
  unfold oArm at hr
  simp only [Bool.false_and, Bool.false_eq_true, if_false] at hr
  split at hr
  · cases hr
  · rename_i raw _
    cases hl : nm.parseLong raw with
    | noSuch => simp [hl] at hr
    | ambiguous => simp [hl] at hr
    | ok opt st =>
      simp only [hl] at hr
      split at hr
      · cases hr
      · simp at hr
        have : opt ≠ portableOpt := fun he => h raw st (by rw [hl, he])
        simp [this] at hr
        exact hr.2.2

theorem setShortLoop_noPortable (nm : Names) (h : NoPortable nm) (neg : Bool) (next : Option Str) :
    ∀ (cs : Str) (os : List (Str × Bool)) (took p' : Bool),
      setShortLoop nm neg next false cs = .ok (os, took, p') → p' = false := by
  intro cs
  induction cs with
  | nil => intro os took p' hr; simp [setShortLoop] at hr; exact hr.2.2
  | cons c rest ih =>
    intro os took p' hr
    rw [setShortLoop_cons] at hr
    split at hr
    · exact oArm_noPortable nm h neg rest next os took p' hr
    · cases hl : setLetter nm neg false c with
      | error e => simp [hl, thenCons] at hr
      | ok o =>
        cases hx : setShortLoop nm neg next false rest with
        | error e => simp [hl, hx, thenCons, consOpt] at hr
        | ok q =>
          obtain ⟨os', t, p''⟩ := q
          simp [hl, hx, thenCons, consOpt] at hr
          have := ih os' t p'' hx
          rw [← hr.2.2]; exact this

theorem signChar_ne_o (neg : Bool) : 'o' ≠ signChar neg := by cases neg <;> decide

/-- `-oNAME` and `-o NAME` while `portable` is off -/
theorem oArm_attached_eq_next (nm : Names) (neg : Bool) (raw : Str) (next : Option Str) (hraw : raw ≠ [])
    (tail : List Str) :
    contS nm (oArm nm neg false [] (some raw) SetErr.missingArgument .unknownLong .ambiguousLong .unmodifiableLong
        .nonPortableLong .unseparated true) (raw :: tail) =
      contS nm (oArm nm neg false raw next SetErr.missingArgument .unknownLong .ambiguousLong .unmodifiableLong
        .nonPortableLong .unseparated true) tail := by
  cases raw with
  | nil => exact absurd rfl hraw
  | cons r0 raw' =>
    unfold oArm
    simp only [List.isEmpty_nil, Bool.not_true, Bool.false_eq_true, if_false, List.isEmpty_cons, Bool.not_false,
      if_true, Bool.false_and]
    cases nm.parseLong (r0 :: raw') with
    | noSuch => rfl
    | ambiguous => rfl
    | ok opt st =>
      simp only []
      split
      · rfl
      · simp [contS]

theorem setLoop_parts (nm : Names) (neg : Bool) : ∀ (cs : Str) (tail : List Str), signChar neg ∉ cs →
    setLoop nm false ((splitCluster (signChar neg) cs).1 ++ tail) =
      contS nm (setShortLoop nm neg tail.head? false cs) tail := by
  intro cs
  induction cs with
  | nil => intro tail _; simp [splitCluster, setShortLoop, contS]
  | cons c rest ih =>
    intro tail hd
    have hc : c ≠ signChar neg := fun h => hd (by simp [h])
    have hrest : signChar neg ∉ rest := fun h => hd (by simp [h])
    rw [splitCluster]
    by_cases ho : c = 'o'
    · subst ho
      simp only [if_true]
      cases rest with
      | nil =>
        simp only [List.isEmpty_nil, if_true, List.singleton_append]
        rw [setLoop_short nm false _ tail neg (shortSign_single neg 'o' [] hc)]
        rfl
      | cons r0 rest' =>
        simp only [List.isEmpty_cons, Bool.false_eq_true, if_false, List.cons_append, List.nil_append]
        rw [setLoop_short nm false _ _ neg (shortSign_single neg 'o' [] hc)]
        simp only [List.drop_succ_cons, List.drop_zero, List.head?_cons]
        rw [setShortLoop_cons, setShortLoop_cons]
        simp only [if_true]
        exact oArm_attached_eq_next nm neg (r0 :: rest') tail.head? (by simp) tail
    · simp only [ho, if_false, List.cons_append]
      rw [setLoop_short nm false _ _ neg (shortSign_single neg c [] hc)]
      simp only [List.drop_succ_cons, List.drop_zero]
      rw [setShortLoop_cons, setShortLoop_cons]
      simp only [ho, if_false]
      rw [contS_thenCons, contS_thenCons]
      cases setLetter nm neg false c with
      | error e => rfl
      | ok o =>
        simp only [setShortLoop, contS, Bool.false_eq_true, if_false, prependO_nil]
        rw [ih tail hrest]
        rfl

theorem splitCluster_cons (sign c : Char) (rest : Str) :
    splitCluster sign (c :: rest) =
      if c = 'o' then (if rest.isEmpty then ([[sign, 'o']], true) else ([[sign, 'o'], rest], false))
      else ([sign, c] :: (splitCluster sign rest).1, (splitCluster sign rest).2) := by
  rw [splitCluster]

/-- a cluster that does not end in a pending `o` does not look at the next argument -/
theorem setShort_not_pending (nm : Names) (neg : Bool) (sign : Char) (n1 n2 : Option Str) (p : Bool) :
    ∀ cs : Str, (splitCluster sign cs).2 = false →
      setShortLoop nm neg n1 p cs = setShortLoop nm neg n2 p cs ∧
      ∀ os took p', setShortLoop nm neg n1 p cs = .ok (os, took, p') → took = false := by
  intro cs
  induction cs with
  | nil => intro _; exact ⟨rfl, by intro os took p' h; simp [setShortLoop] at h; exact h.2.1⟩
  | cons c rest ih =>
    intro hp
    rw [splitCluster_cons] at hp
    rw [setShortLoop_cons, setShortLoop_cons]
    by_cases ho : c = 'o'
    · subst ho
      simp only [if_true] at hp ⊢
      cases rest with
      | nil => simp at hp
      | cons r0 rest' =>
        refine ⟨by simp [oArm], ?_⟩
        intro os took p' h
        unfold oArm at h
        simp only [List.isEmpty_cons, Bool.not_false, if_true] at h
        cases hl : nm.parseLong (r0 :: rest') with
        | noSuch => simp [hl] at h
        | ambiguous => simp [hl] at h
        | ok opt st =>
          simp only [hl] at h
          split at h
          · cases h
          · split at h
            · cases h
            · split at h
              · cases h
              · simp at h; exact h.2.1
    · simp only [ho, if_false] at hp ⊢
      obtain ⟨h1, h2⟩ := ih hp
      refine ⟨by rw [h1], ?_⟩
      intro os took p' h
      cases hl : setLetter nm neg p c with
      | error e => simp [hl, thenCons] at h
      | ok o =>
        cases hx : setShortLoop nm neg n1 p rest with
        | error e => simp [hl, hx, thenCons, consOpt] at h
        | ok q =>
          obtain ⟨os', t, p''⟩ := q
          simp [hl, hx, thenCons, consOpt] at h
          rw [← h.2.1]; exact h2 os' t p'' hx

/-- a cluster ending in a pending `o` takes the next argument -/
theorem setShort_pending (nm : Names) (neg : Bool) (sign : Char) (x : Str) (p : Bool) :
    ∀ cs : Str, (splitCluster sign cs).2 = true →
      ∀ os took p', setShortLoop nm neg (some x) p cs = .ok (os, took, p') → took = true := by
  intro cs
  induction cs with
  | nil => intro hp; simp [splitCluster] at hp
  | cons c rest ih =>
    intro hp os took p' h
    rw [splitCluster_cons] at hp
    rw [setShortLoop_cons] at h
    by_cases ho : c = 'o'
    · subst ho
      simp only [if_true] at hp h
      cases rest with
      | cons r0 rest' => simp at hp
      | nil =>
        unfold oArm at h
        simp only [List.isEmpty_nil, Bool.not_true, Bool.false_eq_true, if_false] at h
        cases hl : nm.parseLong x with
        | noSuch => simp [hl] at h
        | ambiguous => simp [hl] at h
        | ok opt st =>
          simp only [hl] at h
          split at h
          · cases h
          · split at h
            · cases h
            · simp at h; exact h.2.1
    · simp only [ho, if_false] at hp h
      cases hl : setLetter nm neg p c with
      | error e => simp [hl, thenCons] at h
      | ok o =>
        cases hx : setShortLoop nm neg (some x) p rest with
        | error e => simp [hl, hx, thenCons, consOpt] at h
        | ok q =>
          obtain ⟨os', t, p''⟩ := q
          simp [hl, hx, thenCons, consOpt] at h
          rw [← h.2.1]; exact ih hp os' t p'' hx

/-- what `-o NAME` / `--NAME` (`+o NAME` / `++NAME`) does while `portable` is off and never named,
    `k` = the rest of the loop -/
def longCont (nm : Names) (neg : Bool) (name : Str) (k : Looped SetErr) : Looped SetErr :=
  match nm.parseLong name with
  | .ok opt st => if !(nm.infoOf opt).modifiable then .error .unmodifiableLong
                  else prependO [(opt, if neg then !st else st)] k
  | .noSuch => .error .unknownLong
  | .ambiguous => .error .ambiguousLong

theorem setLoop_o_next (nm : Names) (h : NoPortable nm) (neg : Bool) (name : Str) (tl : List Str) :
    setLoop nm false ([signChar neg, 'o'] :: name :: tl) = longCont nm neg name (setLoop nm false tl) := by
  rw [setLoop_short nm false _ _ neg (shortSign_single neg 'o' [] (signChar_ne_o neg))]
  simp only [List.drop_succ_cons, List.drop_zero, List.head?_cons]
  rw [setShortLoop_cons]
  simp only [if_true, oArm, longCont, List.isEmpty_nil, Bool.not_true, Bool.false_eq_true, if_false, Bool.false_and]
  cases hl : nm.parseLong name with
  | noSuch => rfl
  | ambiguous => rfl
  | ok opt st =>
    have : opt ≠ portableOpt := fun he => h name st (by rw [hl, he])
    simp only [Bool.true_and]
    split
    · rfl
    · simp [contS, this]

theorem setLoop_long (nm : Names) (h : NoPortable nm) (neg : Bool) (name : Str) (tl : List Str)
    (hn : neg = false → name ≠ []) :
    setLoop nm false ((signChar neg :: signChar neg :: name) :: tl) = longCont nm neg name (setLoop nm false tl) := by
  rw [setLoop_cons]
  have hs : shortSign (signChar neg :: signChar neg :: name) = none := by cases neg <;> simp [signChar, shortSign]
  have hl : setLong nm false (signChar neg :: signChar neg :: name) =
      some (match nm.parseLong name with
        | .ok opt st =>
          if !(nm.infoOf opt).modifiable then .error .unmodifiableLong
          else .ok ((opt, if neg then !st else st), if opt = portableOpt then (if neg then !st else st) else false)
        | .noSuch => .error .unknownLong
        | .ambiguous => .error .ambiguousLong) := by
    cases neg with
    | false =>
      have := hn rfl
      cases name with
      | nil => exact absurd rfl this
      | cons n0 name' =>
        simp only [signChar, setLong, Bool.false_eq_true, if_false, List.isEmpty_cons]
        cases nm.parseLong (n0 :: name') <;> rfl
    | true =>
      simp only [signChar, setLong, if_true]
      cases nm.parseLong name <;> rfl
  simp only [setStep, hs, hl, longCont]
  cases hp : nm.parseLong name with
  | noSuch => rfl
  | ambiguous => rfl
  | ok opt st =>
    have : opt ≠ portableOpt := fun he => h name st (by rw [hp, he])
    simp only []
    by_cases hmod : (!(nm.infoOf opt).modifiable) = true
    · simp [hmod, Step.ofLong]
    · simp [hmod, Step.ofLong, this]

theorem shortSign_cases (a : Str) (neg : Bool) (h : shortSign a = some neg) :
    ∃ c cs, a = signChar neg :: c :: cs ∧ c ≠ signChar neg := by
  unfold shortSign at h
  split at h
  · rename_i c cs
    split at h
    · cases h
    · cases h; exact ⟨c, cs, rfl, by simpa [signChar] using ‹¬c = '-'›⟩
  · rename_i c cs
    split at h
    · cases h
    · cases h; exact ⟨c, cs, rfl, by simpa [signChar] using ‹¬c = '+'›⟩
  · cases h

theorem longForm_some (a : Str) (neg : Bool) (name : Str) (h : longForm a = some (neg, name)) :
    a = signChar neg :: signChar neg :: name ∧ (neg = false → name ≠ []) := by
  unfold longForm at h
  split at h
  · rename_i nm'
    split at h
    · cases h
    · rename_i hne
      cases h
      exact ⟨rfl, fun _ => by simpa using hne⟩
  · cases h; exact ⟨rfl, fun hh => by cases hh⟩
  · cases h

theorem setLoop_separate (nm : Names) (h : NoPortable nm) : ∀ (n : Nat) (args : List Str), args.length ≤ n →
    setLoop nm false (separateSO true args) = setLoop nm false args := by
  intro n
  induction n with
  | zero =>
    intro args hl
    have : args = [] := List.eq_nil_of_length_eq_zero (Nat.le_zero.mp hl)
    subst this; rfl
  | succ n ih =>
    intro args hl
    cases args with
    | nil => rfl
    | cons a rest =>
      have ihr : ∀ l : List Str, l.length ≤ rest.length → setLoop nm false (separateSO true l) = setLoop nm false l :=
        fun l hl' => ih l (by simp at hl; omega)
      unfold separateSO
      cases hs : shortSign a with
      | some neg =>
        simp only []
        obtain ⟨c, cs, rfl, hc⟩ := shortSign_cases a neg hs
        simp only [List.drop_succ_cons, List.drop_zero]
        -- the arguments written for this cluster, and what the loop does with them
        have key : ∀ tail : List Str,
            setLoop nm false ((if (c :: cs).contains (signChar neg) then
                ([signChar neg :: c :: cs], (splitCluster (signChar neg) (c :: cs)).2)
              else splitCluster (signChar neg) (c :: cs)).1 ++ tail) =
              contS nm (setShortLoop nm neg tail.head? false (c :: cs)) tail := by
          intro tail
          by_cases hk : (c :: cs).contains (signChar neg) = true
          · simp only [hk, if_true, List.singleton_append]
            rw [setLoop_short nm false _ tail neg hs]; rfl
          · simp only [hk]
            exact setLoop_parts nm neg (c :: cs) tail (by simpa using hk)
        have hpend : (if (c :: cs).contains (signChar neg) then
                ([signChar neg :: c :: cs], (splitCluster (signChar neg) (c :: cs)).2)
              else splitCluster (signChar neg) (c :: cs)).2 = (splitCluster (signChar neg) (c :: cs)).2 := by
          split <;> rfl
        rw [setLoop_short nm false _ rest neg hs]
        simp only [List.drop_succ_cons, List.drop_zero]
        generalize hX : (if (c :: cs).contains (signChar neg) then
                ([signChar neg :: c :: cs], (splitCluster (signChar neg) (c :: cs)).2)
              else splitCluster (signChar neg) (c :: cs)) = X at key hpend
        obtain ⟨parts, pending⟩ := X
        simp only at key hpend
        subst hpend
        cases hp : (splitCluster (signChar neg) (c :: cs)).2 with
        | true =>
          simp only [if_true]
          cases rest with
          | nil =>
            have := key []
            simp only [List.append_nil] at this
            rw [this]
          | cons x rest' =>
            simp only []
            rw [key (x :: separateSO true rest')]
            simp only [List.head?_cons]
            cases hx : setShortLoop nm neg (some x) false (c :: cs) with
            | error e => rfl
            | ok q =>
              obtain ⟨os, took, p'⟩ := q
              have ht := setShort_pending nm neg (signChar neg) x false (c :: cs) hp os took p' hx
              have hp' := setShortLoop_noPortable nm h neg (some x) (c :: cs) os took p' hx
              subst ht; subst hp'
              simp only [contS, if_true, List.tail_cons]
              rw [ihr rest' (by simp)]
        | false =>
          simp only [Bool.false_eq_true, if_false]
          rw [key (separateSO true rest)]
          obtain ⟨he, ht⟩ := setShort_not_pending nm neg (signChar neg) (separateSO true rest).head? rest.head? false (c :: cs) hp
          rw [he]
          cases hx : setShortLoop nm neg rest.head? false (c :: cs) with
          | error e => rfl
          | ok q =>
            obtain ⟨os, took, p'⟩ := q
            have ht' := (setShort_not_pending nm neg (signChar neg) rest.head? rest.head? false (c :: cs) hp).2 os took p' hx
            have hp' := setShortLoop_noPortable nm h neg rest.head? (c :: cs) os took p' hx
            subst ht'; subst hp'
            simp only [contS, Bool.false_eq_true, if_false]
            rw [ihr rest (Nat.le_refl _)]
      | none =>
        simp only [if_true]
        cases hlf : longForm a with
        | none => rfl
        | some q =>
          obtain ⟨neg, name⟩ := q
          obtain ⟨rfl, hne⟩ := longForm_some a neg name hlf
          simp only []
          rw [setLoop_o_next nm h neg name (separateSO true rest), setLoop_long nm h neg name rest hne,
            ihr rest (Nat.le_refl _)]

theorem splitCluster_length (sign : Char) (c : Char) (cs : Str) : 1 ≤ (splitCluster sign (c :: cs)).1.length := by
  rw [splitCluster_cons]
  split
  · split <;> simp
  · simp

theorem separateSO_length (long : Bool) : ∀ (n : Nat) (args : List Str), args.length ≤ n →
    args.length ≤ (separateSO long args).length := by
  intro n
  induction n with
  | zero => intro args hl; have : args = [] := List.eq_nil_of_length_eq_zero (Nat.le_zero.mp hl); subst this; simp [separateSO]
  | succ n ih =>
    intro args hl
    cases args with
    | nil => simp [separateSO]
    | cons a rest =>
      unfold separateSO
      cases hs : shortSign a with
      | some neg =>
        obtain ⟨c, cs, rfl, hc⟩ := shortSign_cases a neg hs
        simp only [List.drop_succ_cons, List.drop_zero]
        have hparts : 1 ≤ (if (c :: cs).contains (signChar neg) then
                ([signChar neg :: c :: cs], (splitCluster (signChar neg) (c :: cs)).2)
              else splitCluster (signChar neg) (c :: cs)).1.length := by
          split
          · simp
          · exact splitCluster_length _ c cs
        generalize (if (c :: cs).contains (signChar neg) then
                ([signChar neg :: c :: cs], (splitCluster (signChar neg) (c :: cs)).2)
              else splitCluster (signChar neg) (c :: cs)) = X at hparts
        obtain ⟨parts, pending⟩ := X
        simp only at hparts ⊢
        cases pending with
        | true =>
          simp only [if_true]
          cases rest with
          | nil => simpa using hparts
          | cons x rest' =>
            have := ih rest' (by simp at hl; omega)
            simp only [List.length_append, List.length_cons]; omega
        | false =>
          have := ih rest (by simp at hl; omega)
          simp only [Bool.false_eq_true, if_false, List.length_append, List.length_cons]; omega
      | none =>
        simp only []
        cases long with
        | false => simp
        | true =>
          simp only [if_true]
          cases longForm a with
          | none => simp
          | some q =>
            have := ih rest (by simp at hl; omega)
            simp only [List.length_cons]; omega

theorem setParse_loop (nm : Names) (p : Bool) (l : List Str) (h1 : l ≠ []) (h2 : l ≠ [['-', 'o']])
    (h3 : l ≠ [['+', 'o']]) : setParse nm p l = finishSet (setLoop nm p l) := by
  simp [setParse, h1, h2, h3]

theorem setParse_long (nm : Names) (p : Bool) (l : List Str) (h : 2 ≤ l.length) :
    setParse nm p l = finishSet (setLoop nm p l) := by
  apply setParse_loop
  · intro he; subst he; simp at h
  · intro he; subst he; simp at h
  · intro he; subst he; simp at h

theorem separateSO_single_short (long : Bool) (neg : Bool) (c : Char) (cs : Str)
    (hs : shortSign (signChar neg :: c :: cs) = some neg) :
    separateSO long [signChar neg :: c :: cs] =
      if (c :: cs).contains (signChar neg) then [signChar neg :: c :: cs]
      else (splitCluster (signChar neg) (c :: cs)).1 := by
  unfold separateSO
  simp only [hs, List.drop_succ_cons, List.drop_zero]
  by_cases hk : (c :: cs).contains (signChar neg) = true
  · simp only [hk, if_true]
    cases (splitCluster (signChar neg) (c :: cs)).2 <;> simp [separateSO]
  · simp only [hk]
    cases (splitCluster (signChar neg) (c :: cs)).2 <;> simp [separateSO]

/-- the separated spelling of a single argument is a print form (`-o` / `+o`) only if the argument is -/
theorem separate_single (a : Str) (h2 : a ≠ ['-', 'o']) (h3 : a ≠ ['+', 'o']) :
    separateSO true [a] ≠ [] ∧ separateSO true [a] ≠ [['-', 'o']] ∧ separateSO true [a] ≠ [['+', 'o']] := by
  cases hs : shortSign a with
  | some neg =>
    obtain ⟨c, cs, rfl, hc⟩ := shortSign_cases a neg hs
    rw [separateSO_single_short true neg c cs hs]
    by_cases hk : (c :: cs).contains (signChar neg) = true
    · simp only [hk, if_true]
      exact ⟨by simp, by simpa using h2, by simpa using h3⟩
    · simp only [hk]
      rw [splitCluster_cons]
      by_cases ho : c = 'o'
      · subst ho
        simp only [if_true]
        cases cs with
        | nil =>
          cases neg with
          | false => exact absurd rfl h2
          | true => exact absurd rfl h3
        | cons r0 rest' => simp
      · simp only [ho, if_false]
        refine ⟨by simp, ?_, ?_⟩
        · intro he; simp at he; exact ho he.1.2
        · intro he; simp at he; exact ho he.1.2
  | none =>
    unfold separateSO
    simp only [hs, if_true]
    cases hlf : longForm a with
    | none => exact ⟨by simp, by simpa using h2, by simpa using h3⟩
    | some q => obtain ⟨neg, name⟩ := q; simp

/-- set: the separated spelling parses to the same command (for every vector, as long as the
    `portable` option is off and is not named) -/
theorem setParse_separate (nm : Names) (h : NoPortable nm) (args : List Str) :
    setParse nm false (separateSO true args) = setParse nm false args := by
  have hloop := setLoop_separate nm h args.length args (Nat.le_refl _)
  match args with
  | [] => rfl
  | [a] =>
    by_cases h2 : a = ['-', 'o']
    · subst h2; rfl
    · by_cases h3 : a = ['+', 'o']
      · subst h3; rfl
      · obtain ⟨s1, s2, s3⟩ := separate_single a h2 h3
        rw [setParse_loop nm false _ s1 s2 s3, setParse_loop nm false [a] (by simp) (by simpa using h2) (by simpa using h3), hloop]
  | a :: b :: rest =>
    have hlen := separateSO_length true (a :: b :: rest).length (a :: b :: rest) (Nat.le_refl _)
    rw [setParse_long nm false _ (by simp at hlen ⊢; omega), setParse_long nm false (a :: b :: rest) (by simp), hloop]
/-- a checkable sufficient condition for `NoPortable` -/
theorem noPortable_of_table (nm : Names)
    (h : (nm.long.all fun e => match e.2 with | .ok o _ => o != portableOpt | _ => true) = true) :
    NoPortable nm := by
  intro raw st hp
  unfold Names.parseLong at hp
  cases hf : nm.long.find? (fun e => e.1 == raw) with
  | none => simp [hf] at hp
  | some e =>
    simp only [hf] at hp
    have hm := List.mem_of_find?_eq_some hf
    have := List.all_eq_true.mp h e hm
    rw [hp] at this
    simp at this

/-! ### the shell's command line: clusters -/

abbrev ShLooped := Except ShErr (ShParse ⊕ (Run × List Str))

theorem shLoop_cons (nm : Names) (p : Bool) (r : Run) (a : Str) (rest : List Str) :
    shLoop nm p r (a :: rest) =
      match shStep nm p a rest.head? with
      | .fail e => .error e
      | .finish x => .ok (.inl x)
      | .stop => .ok (.inr (r, a :: rest))
      | .go f took p' => shLoop nm p' (f r) (if took then rest.tail else rest) := by
  rw [shLoop]
  cases h : shStep nm p a rest.head? with
  | fail e => rfl
  | finish x => rfl
  | stop => rfl
  | go f took p' =>
    cases took with
    | false => simp
    | true =>
      cases rest with
      | nil => simp [shLoop]
      | cons b rest' => simp

def contH (nm : Names) (x : Except ShErr (ShortOut × Bool)) (r : Run) (tail : List Str) : ShLooped :=
  match x with
  | .error e => .error e
  | .ok ((os, took, p'), v) =>
    if v then .ok (.inl .version) else shLoop nm p' (pushOptions os r) (if took then tail.tail else tail)

theorem shLoop_short (nm : Names) (p : Bool) (r : Run) (a : Str) (rest : List Str) (neg : Bool)
    (h : shortSign a = some neg) :
    shLoop nm p r (a :: rest) = contH nm (shShortLoop nm neg rest.head? p (a.drop 1)) r rest := by
  rw [shLoop_cons]
  simp only [shStep, h]
  cases shShortLoop nm neg rest.head? p (List.drop 1 a) with
  | error e => rfl
  | ok q =>
    obtain ⟨⟨os, took, p'⟩, v⟩ := q
    cases v <;> simp [ShStep.ofShort, contH]

theorem shShortLoop_cons (nm : Names) (neg : Bool) (next : Option Str) (p : Bool) (c : Char) (rest : Str) :
    shShortLoop nm neg next p (c :: rest) =
      if c = 'V' then
        (if neg then .error (.unnegatableShort 'V')
         else if p then .error (.nonPortableShort 'V')
         else .ok (([], false, p), true))
      else if c = 'o' then
        noVersion (oArm nm neg p rest next ShErr.missingArgument .unknownLong .ambiguousLong .unknownLong
            .nonPortableLong .unseparated false)
      else thenConsV (shLetter nm neg p c) (shShortLoop nm neg next p rest) := by
  rw [shShortLoop]

theorem pushOptions_nil (r : Run) : pushOptions [] r = r := by simp [pushOptions]

theorem pushOptions_push (o : Str × Bool) (os : List (Str × Bool)) (r : Run) :
    pushOptions os (pushOptions [o] r) = pushOptions (o :: os) r := by
  simp [pushOptions]

theorem contH_thenConsV (nm : Names) (l : Except ShErr (Str × Bool)) (x : Except ShErr (ShortOut × Bool))
    (r : Run) (tail : List Str) :
    contH nm (thenConsV l x) r tail =
      match l with
      | .error e => .error e
      | .ok o => contH nm x (pushOptions [o] r) tail := by
  cases l with
  | error e => rfl
  | ok o =>
    cases x with
    | error e => rfl
    | ok q =>
      obtain ⟨⟨os, took, p'⟩, v⟩ := q
      cases v <;> simp [thenConsV, contH, pushOptions_push]

theorem shOArm_attached_eq_next (nm : Names) (neg : Bool) (raw : Str) (next : Option Str) (hraw : raw ≠ [])
    (r : Run) (tail : List Str) :
    contH nm (noVersion (oArm nm neg false [] (some raw) ShErr.missingArgument .unknownLong .ambiguousLong .unknownLong
        .nonPortableLong .unseparated false)) r (raw :: tail) =
      contH nm (noVersion (oArm nm neg false raw next ShErr.missingArgument .unknownLong .ambiguousLong .unknownLong
        .nonPortableLong .unseparated false)) r tail := by
  cases raw with
  | nil => exact absurd rfl hraw
  | cons r0 raw' =>
    unfold oArm
    simp only [List.isEmpty_nil, Bool.not_true, Bool.false_eq_true, if_false, List.isEmpty_cons, Bool.not_false,
      if_true, Bool.false_and]
    cases nm.parseLong (r0 :: raw') with
    | noSuch => rfl
    | ambiguous => rfl
    | ok opt st => simp [noVersion, contH]

theorem shLoop_parts (nm : Names) (neg : Bool) : ∀ (cs : Str) (r : Run) (tail : List Str), signChar neg ∉ cs →
    shLoop nm false r ((splitCluster (signChar neg) cs).1 ++ tail) =
      contH nm (shShortLoop nm neg tail.head? false cs) r tail := by
  intro cs
  induction cs with
  | nil => intro r tail _; simp [splitCluster, shShortLoop, contH, pushOptions_nil]
  | cons c rest ih =>
    intro r tail hd
    have hc : c ≠ signChar neg := fun h => hd (by simp [h])
    have hrest : signChar neg ∉ rest := fun h => hd (by simp [h])
    rw [splitCluster]
    by_cases ho : c = 'o'
    · subst ho
      simp only [if_true]
      cases rest with
      | nil =>
        simp only [List.isEmpty_nil, if_true, List.singleton_append]
        rw [shLoop_short nm false r _ tail neg (shortSign_single neg 'o' [] hc)]
        rfl
      | cons r0 rest' =>
        simp only [List.isEmpty_cons, Bool.false_eq_true, if_false, List.cons_append, List.nil_append]
        rw [shLoop_short nm false r _ _ neg (shortSign_single neg 'o' [] hc)]
        simp only [List.drop_succ_cons, List.drop_zero, List.head?_cons]
        rw [shShortLoop_cons, shShortLoop_cons]
        have hv : ('o' : Char) ≠ 'V' := by decide
        simp only [hv, if_false, if_true]
        exact shOArm_attached_eq_next nm neg (r0 :: rest') tail.head? (by simp) r tail
    · simp only [ho, if_false, List.cons_append]
      rw [shLoop_short nm false r _ _ neg (shortSign_single neg c [] hc)]
      simp only [List.drop_succ_cons, List.drop_zero]
      rw [shShortLoop_cons, shShortLoop_cons]
      by_cases hv : c = 'V'
      · subst hv
        simp only [if_true]
        cases neg <;> simp [contH]
      · simp only [hv, ho, if_false]
        rw [contH_thenConsV, contH_thenConsV]
        cases shLetter nm neg false c with
        | error e => rfl
        | ok o =>
          simp only [shShortLoop, contH, Bool.false_eq_true, if_false, pushOptions_nil]
          rw [ih (pushOptions [o] r) tail hrest]
          rfl

theorem shOArm_noPortable (nm : Names) (h : NoPortable nm) (neg : Bool) (rest : Str) (next : Option Str)
    (os : List (Str × Bool)) (took p' : Bool)
    (hr : oArm nm neg false rest next ShErr.missingArgument .unknownLong .ambiguousLong .unknownLong
      .nonPortableLong .unseparated false = .ok (os, took, p')) : p' = false := by
  unfold oArm at hr
  simp only [Bool.false_and, Bool.false_eq_true, if_false] at hr
  split at hr
  · cases hr
  · rename_i raw _
    cases hl : nm.parseLong raw with
    | noSuch => simp [hl] at hr
    | ambiguous => simp [hl] at hr
    | ok opt st =>
      simp only [hl] at hr
      simp at hr
      have : opt ≠ portableOpt := fun he => h raw st (by rw [hl, he])
      simp [this] at hr
      exact hr.2.2

theorem thenConsV_ok (l : Except ShErr (Str × Bool)) (x : Except ShErr (ShortOut × Bool))
    (os : List (Str × Bool)) (took p' v : Bool) (h : thenConsV l x = .ok ((os, took, p'), v)) :
    ∃ o os', l = .ok o ∧ x = .ok ((os', took, p'), v) ∧ os = o :: os' := by
  cases l with
  | error e => simp [thenConsV] at h
  | ok o =>
    cases x with
    | error e => simp [thenConsV] at h
    | ok q =>
      obtain ⟨⟨os', t, p''⟩, v'⟩ := q
      simp [thenConsV] at h
      obtain ⟨⟨h1, h2, h3⟩, h4⟩ := h
      subst h2; subst h3; subst h4
      exact ⟨o, os', rfl, rfl, h1.symm⟩

theorem shShortLoop_noPortable (nm : Names) (h : NoPortable nm) (neg : Bool) (next : Option Str) :
    ∀ (cs : Str) (os : List (Str × Bool)) (took p' v : Bool),
      shShortLoop nm neg next false cs = .ok ((os, took, p'), v) → p' = false := by
  intro cs
  induction cs with
  | nil => intro os took p' v hr; simp [shShortLoop] at hr; exact hr.1.2.2
  | cons c rest ih =>
    intro os took p' v hr
    rw [shShortLoop_cons] at hr
    split at hr
    · cases neg <;> simp at hr
      exact hr.1.2.2
    · split at hr
      · cases ho : oArm nm neg false rest next ShErr.missingArgument .unknownLong .ambiguousLong .unknownLong
            .nonPortableLong .unseparated false with
        | error e => simp [ho, noVersion] at hr
        | ok q =>
          obtain ⟨os', t, p''⟩ := q
          simp [ho, noVersion] at hr
          have := shOArm_noPortable nm h neg rest next os' t p'' ho
          rw [← hr.1.2.2]; exact this
      · obtain ⟨o, os', _, hx, _⟩ := thenConsV_ok _ _ _ _ _ _ hr
        exact ih os' took p' v hx

theorem shShort_not_pending (nm : Names) (neg : Bool) (sign : Char) (n1 n2 : Option Str) (p : Bool) :
    ∀ cs : Str, (splitCluster sign cs).2 = false →
      shShortLoop nm neg n1 p cs = shShortLoop nm neg n2 p cs ∧
      ∀ os took p' v, shShortLoop nm neg n1 p cs = .ok ((os, took, p'), v) → took = false := by
  intro cs
  induction cs with
  | nil => intro _; exact ⟨rfl, by intro os took p' v h; simp [shShortLoop] at h; exact h.1.2.1⟩
  | cons c rest ih =>
    intro hp
    rw [splitCluster_cons] at hp
    rw [shShortLoop_cons, shShortLoop_cons]
    by_cases hv : c = 'V'
    · subst hv
      simp only [if_true]
      refine ⟨trivial, ?_⟩
      intro os took p' v h
      cases neg <;> cases p <;> simp at h
      exact h.1.2.1
    · simp only [hv, if_false]
      by_cases ho : c = 'o'
      · subst ho
        simp only [if_true] at hp ⊢
        cases rest with
        | nil => simp at hp
        | cons r0 rest' =>
          refine ⟨by simp [oArm], ?_⟩
          intro os took p' v h
          cases hoa : oArm nm neg p (r0 :: rest') n1 ShErr.missingArgument .unknownLong .ambiguousLong .unknownLong
              .nonPortableLong .unseparated false with
          | error e => simp [hoa, noVersion] at h
          | ok q =>
            obtain ⟨os', t, p''⟩ := q
            simp [hoa, noVersion] at h
            unfold oArm at hoa
            simp only [List.isEmpty_cons, Bool.not_false, if_true] at hoa
            cases hl : nm.parseLong (r0 :: rest') with
            | noSuch => simp [hl] at hoa
            | ambiguous => simp [hl] at hoa
            | ok opt st =>
              simp only [hl] at hoa
              simp at hoa
              split at hoa
              · cases hoa
              · split at hoa
                · cases hoa
                · simp at hoa; rw [← h.1.2.1]; exact hoa.2.1
      · simp only [ho, if_false] at hp ⊢
        obtain ⟨h1, h2⟩ := ih hp
        refine ⟨by rw [h1], ?_⟩
        intro os took p' v h
        obtain ⟨o, os', _, hx, _⟩ := thenConsV_ok _ _ _ _ _ _ h
        exact h2 os' took p' v hx

theorem shShort_pending (nm : Names) (neg : Bool) (sign : Char) (x : Str) (p : Bool) :
    ∀ cs : Str, (splitCluster sign cs).2 = true →
      ∀ os took p' v, shShortLoop nm neg (some x) p cs = .ok ((os, took, p'), v) → v = true ∨ took = true := by
  intro cs
  induction cs with
  | nil => intro hp; simp [splitCluster] at hp
  | cons c rest ih =>
    intro hp os took p' v h
    rw [splitCluster_cons] at hp
    rw [shShortLoop_cons] at h
    by_cases hv : c = 'V'
    · subst hv
      simp only [if_true] at h
      cases neg <;> cases p <;> simp at h
      exact Or.inl h.2
    · simp only [hv, if_false] at h
      by_cases ho : c = 'o'
      · subst ho
        simp only [if_true] at hp h
        cases rest with
        | cons r0 rest' => simp at hp
        | nil =>
          right
          cases hoa : oArm nm neg p [] (some x) ShErr.missingArgument .unknownLong .ambiguousLong .unknownLong
              .nonPortableLong .unseparated false with
          | error e => simp [hoa, noVersion] at h
          | ok q =>
            obtain ⟨os', t, p''⟩ := q
            simp [hoa, noVersion] at h
            unfold oArm at hoa
            simp only [List.isEmpty_nil, Bool.not_true, Bool.false_eq_true, if_false] at hoa
            cases hl : nm.parseLong x with
            | noSuch => simp [hl] at hoa
            | ambiguous => simp [hl] at hoa
            | ok opt st =>
              simp only [hl] at hoa
              simp at hoa
              split at hoa
              · cases hoa
              · simp at hoa; rw [← h.1.2.1]; exact hoa.2.1
      · simp only [ho, if_false] at hp h
        obtain ⟨o, os', _, hx, _⟩ := thenConsV_ok _ _ _ _ _ _ h
        exact ih hp os' took p' v hx

theorem shLoop_separate (nm : Names) (h : NoPortable nm) : ∀ (n : Nat) (args : List Str) (r : Run), args.length ≤ n →
    shLoop nm false r (separateSO false args) = shLoop nm false r args := by
  intro n
  induction n with
  | zero =>
    intro args r hl
    have : args = [] := List.eq_nil_of_length_eq_zero (Nat.le_zero.mp hl)
    subst this; rfl
  | succ n ih =>
    intro args r hl
    cases args with
    | nil => rfl
    | cons a rest =>
      have ihr : ∀ (l : List Str) (r : Run), l.length ≤ rest.length →
          shLoop nm false r (separateSO false l) = shLoop nm false r l :=
        fun l r hl' => ih l r (by simp at hl; omega)
      unfold separateSO
      cases hs : shortSign a with
      | none => simp
      | some neg =>
        simp only []
        obtain ⟨c, cs, rfl, hc⟩ := shortSign_cases a neg hs
        simp only [List.drop_succ_cons, List.drop_zero]
        have key : ∀ (r : Run) (tail : List Str),
            shLoop nm false r ((if (c :: cs).contains (signChar neg) then
                ([signChar neg :: c :: cs], (splitCluster (signChar neg) (c :: cs)).2)
              else splitCluster (signChar neg) (c :: cs)).1 ++ tail) =
              contH nm (shShortLoop nm neg tail.head? false (c :: cs)) r tail := by
          intro r tail
          by_cases hk : (c :: cs).contains (signChar neg) = true
          · simp only [hk, if_true, List.singleton_append]
            rw [shLoop_short nm false r _ tail neg hs]; rfl
          · simp only [hk]
            exact shLoop_parts nm neg (c :: cs) r tail (by simpa using hk)
        have hpend : (if (c :: cs).contains (signChar neg) then
                ([signChar neg :: c :: cs], (splitCluster (signChar neg) (c :: cs)).2)
              else splitCluster (signChar neg) (c :: cs)).2 = (splitCluster (signChar neg) (c :: cs)).2 := by
          split <;> rfl
        rw [shLoop_short nm false r _ rest neg hs]
        simp only [List.drop_succ_cons, List.drop_zero]
        generalize hX : (if (c :: cs).contains (signChar neg) then
                ([signChar neg :: c :: cs], (splitCluster (signChar neg) (c :: cs)).2)
              else splitCluster (signChar neg) (c :: cs)) = X at key hpend
        obtain ⟨parts, pending⟩ := X
        simp only at key hpend
        subst hpend
        cases hp : (splitCluster (signChar neg) (c :: cs)).2 with
        | true =>
          simp only [if_true]
          cases rest with
          | nil =>
            have := key r []
            simp only [List.append_nil] at this
            rw [this]
          | cons x rest' =>
            simp only []
            rw [key r (x :: separateSO false rest')]
            simp only [List.head?_cons]
            cases hx : shShortLoop nm neg (some x) false (c :: cs) with
            | error e => rfl
            | ok q =>
              obtain ⟨⟨os, took, p'⟩, v⟩ := q
              have hp' := shShortLoop_noPortable nm h neg (some x) (c :: cs) os took p' v hx
              subst hp'
              rcases shShort_pending nm neg (signChar neg) x false (c :: cs) hp os took false v hx with hv | ht
              · subst hv; simp [contH]
              · subst ht
                cases v with
                | true => simp [contH]
                | false =>
                  simp only [contH, Bool.false_eq_true, if_false, if_true, List.tail_cons]
                  rw [ihr rest' _ (by simp)]
        | false =>
          simp only [Bool.false_eq_true, if_false]
          rw [key r (separateSO false rest)]
          obtain ⟨he, ht⟩ := shShort_not_pending nm neg (signChar neg) (separateSO false rest).head? rest.head? false (c :: cs) hp
          rw [he]
          cases hx : shShortLoop nm neg rest.head? false (c :: cs) with
          | error e => rfl
          | ok q =>
            obtain ⟨⟨os, took, p'⟩, v⟩ := q
            have ht' := (shShort_not_pending nm neg (signChar neg) rest.head? rest.head? false (c :: cs) hp).2 os took p' v hx
            have hp' := shShortLoop_noPortable nm h neg rest.head? (c :: cs) os took p' v hx
            subst ht'; subst hp'
            cases v with
            | true => simp [contH]
            | false =>
              simp only [contH, Bool.false_eq_true, if_false]
              rw [ihr rest _ (Nat.le_refl _)]

/-- the shell's command line: the separated spelling of the arguments behind `argv[0]` parses alike -/
theorem shParse_separate (nm : Names) (h : NoPortable nm) (arg0 : Str) (args : List Str) :
    shParse nm (arg0 :: separateSO false args) = shParse nm (arg0 :: args) := by
  simp only [shParse]
  rw [shLoop_separate nm h args.length args _ (Nat.le_refl _)]

/-! ### kill -/

abbrev KLooped := Except KillErr (KillState × List Str)

def contK (nm : Names) (x : Except KillErr (KillState × Bool)) (tail : List Str) : KLooped :=
  match x with
  | .error e => .error e
  | .ok (st', took) => killLoop nm false st' (if took then tail.tail else tail)

theorem killLoop_option (nm : Names) (st : KillState) (opts : Str) (rest : List Str)
    (h1 : opts ≠ []) (h2 : opts ≠ ['-']) :
    killLoop nm false st (('-' :: opts) :: rest) = contK nm (killChars nm false opts rest.head? st opts) rest := by
  rw [killLoop]
  have hk : killIsOption ('-' :: opts) = true := by
    cases opts with
    | nil => exact absurd rfl h1
    | cons c t => rfl
  have hd : ('-' :: opts) ≠ ['-', '-'] := by intro h; apply h2; simpa using h
  simp only [hk, Bool.not_true, Bool.false_eq_true, if_false, hd, List.drop_succ_cons, List.drop_zero]
  cases hx : killChars nm false opts rest.head? st opts with
  | error e => rfl
  | ok q =>
    obtain ⟨st', took⟩ := q
    cases took with
    | false => simp [contK]
    | true =>
      cases rest with
      | nil => simp [contK, killLoop]
      | cons b rest' => simp [contK]

theorem killLoop_operand (nm : Names) (st : KillState) (a : Str) (rest : List Str)
    (h : killIsOption a = false ∨ a = ['-', '-']) :
    separateKill nm (a :: rest) = a :: rest := by
  rw [separateKill]
  rcases h with h | h
  · simp [h]
  · simp [h]

def applyFlags (st : KillState) : Str → KillState
  | [] => st
  | c :: cs => applyFlags (if c = 'l' then { st with list := true } else { st with verbose := true }) cs

/-- non-portable `killChars`, one step -/
theorem killChars_cons (nm : Names) (opts : Str) (next : Option Str) (st : KillState) (c : Char) (remainder : Str) :
    killChars nm false opts next st (c :: remainder) =
      if c = 's' ∨ c = 'n' then
        (if remainder.isEmpty then
          (match next with
           | none => .error (.missingSignal c)
           | some arg => withTook true (setSignal st (parseSignal nm arg true)))
         else withTook false (setSignal st ((parseSignal nm remainder true).orElse fun _ => parseSignal nm opts true)))
      else if c = 'l' then killChars nm false opts next { st with list := true } remainder
      else if c = 'v' then killChars nm false opts next { st with verbose := true } remainder
      else withTook false (invalidToUnknown (setSignal st (parseSignal nm opts true))) := by
  conv => lhs; unfold killChars
  simp only [Bool.false_eq_true, and_false, false_and, if_false, Bool.not_false]
  split
  · split
    · cases next <;> rfl
    · rfl
  · rfl

theorem killChars_flags (nm : Names) (opts : Str) (next : Option Str) :
    ∀ (pre : Str) (st : KillState) (tl : Str), (∀ c ∈ pre, killFlag c = true) →
      killChars nm false opts next st (pre ++ tl) = killChars nm false opts next (applyFlags st pre) tl := by
  intro pre
  induction pre with
  | nil => intro st tl _; rfl
  | cons c pre ih =>
    intro st tl h
    have hc := h c (by simp)
    have ih' := fun st => ih st tl (fun d hd => h d (by simp [hd]))
    rw [List.cons_append, killChars_cons]
    simp only [killFlag, decide_eq_true_eq] at hc
    rcases hc with rfl | rfl
    · simp [applyFlags, ih']
    · simp [applyFlags, ih']

theorem killLoop_flags (nm : Names) : ∀ (pre : Str) (st : KillState) (tail : List Str),
    (∀ c ∈ pre, killFlag c = true) →
      killLoop nm false st (pre.map (fun c => ['-', c]) ++ tail) = killLoop nm false (applyFlags st pre) tail := by
  intro pre
  induction pre with
  | nil => intro st tail _; rfl
  | cons c pre ih =>
    intro st tail h
    have hc := h c (by simp)
    simp only [killFlag, decide_eq_true_eq] at hc
    simp only [List.map_cons, List.cons_append]
    rw [killLoop_option nm st [c] _ (by simp) (by rcases hc with rfl | rfl <;> decide), killChars_cons]
    rcases hc with rfl | rfl
    · simp [contK, killChars, applyFlags, ih _ tail (fun d hd => h d (by simp [hd]))]
    · simp [contK, killChars, applyFlags, ih _ tail (fun d hd => h d (by simp [hd]))]

theorem dropWhile_head (p : Char → Bool) : ∀ (l : Str) (c : Char) (t : Str), l.dropWhile p = c :: t → p c = false := by
  intro l
  induction l with
  | nil => intro c t h; simp at h
  | cons a l ih =>
    intro c t h
    rw [List.dropWhile_cons] at h
    split at h
    · exact ih c t h
    · rename_i hp; cases h; simpa using hp

theorem mem_takeWhile_true (p : Char → Bool) : ∀ (l : Str) (c : Char), c ∈ l.takeWhile p → p c = true := by
  intro l
  induction l with
  | nil => intro c h; simp at h
  | cons a l ih =>
    intro c h
    rw [List.takeWhile_cons] at h
    split at h
    · rename_i hp
      simp at h
      rcases h with rfl | h
      · exact hp
      · exact ih c h
    · simp at h

theorem withTook_cases (b : Bool) (x : Except KillErr KillState) :
    (∃ e, x = .error e ∧ withTook b x = .error e) ∨ (∃ st, x = .ok st ∧ withTook b x = .ok (st, b)) := by
  cases x with
  | error e => exact Or.inl ⟨e, rfl, rfl⟩
  | ok st => exact Or.inr ⟨st, rfl, rfl⟩

theorem invalidToUnknown_setSignal_some (st : KillState) (n : Int) :
    invalidToUnknown (setSignal st (some n)) = setSignal st (some n) := by
  by_cases h : st.hasOrigin = true <;> simp [setSignal, h, invalidToUnknown]

theorem killLoop_separate (nm : Names) : ∀ (n : Nat) (args : List Str) (st : KillState), args.length ≤ n →
    killLoop nm false st (separateKill nm args) = killLoop nm false st args := by
  intro n
  induction n with
  | zero =>
    intro args st hl
    have : args = [] := List.eq_nil_of_length_eq_zero (Nat.le_zero.mp hl)
    subst this; rfl
  | succ n ih =>
    intro args st hl
    cases args with
    | nil => rfl
    | cons a rest =>
      have ihr : ∀ (l : List Str) (st : KillState), l.length ≤ rest.length →
          killLoop nm false st (separateKill nm l) = killLoop nm false st l :=
        fun l st hl' => ih l st (by simp at hl; omega)
      by_cases hop : killIsOption a = false ∨ a = ['-', '-']
      · rw [killLoop_operand nm st a rest hop]
      · have hk : killIsOption a = true := by
          cases hk : killIsOption a with
          | true => rfl
          | false => exact absurd (Or.inl hk) hop
        have hdd : a ≠ ['-', '-'] := fun h => hop (Or.inr h)
        obtain ⟨opts, rfl, h1, h2⟩ : ∃ opts, a = '-' :: opts ∧ opts ≠ [] ∧ opts ≠ ['-'] := by
          unfold killIsOption at hk
          split at hk
          · rename_i c t; exact ⟨c :: t, rfl, by simp, fun h => hdd (by rw [h])⟩
          · cases hk
        have hsplit : opts = opts.takeWhile killFlag ++ opts.dropWhile killFlag := (List.takeWhile_append_dropWhile).symm
        have hpre : ∀ c ∈ opts.takeWhile killFlag, killFlag c = true := fun c hc => mem_takeWhile_true killFlag opts c hc
        rw [killLoop_option nm st opts rest h1 h2]
        have hflags : ∀ next, killChars nm false opts next st opts =
            killChars nm false opts next (applyFlags st (opts.takeWhile killFlag)) (opts.dropWhile killFlag) := by
          intro next
          have := killChars_flags nm opts next (opts.takeWhile killFlag) st (opts.dropWhile killFlag) hpre
          rw [← hsplit] at this
          exact this
        rw [hflags]
        rw [separateKill]
        simp only [hk, hdd, Bool.not_true, Bool.false_eq_true, false_or, if_false, List.drop_succ_cons, List.drop_zero]
        -- abbreviations
        generalize hpreq : opts.takeWhile killFlag = pre at hpre hflags hsplit ⊢
        generalize hst : applyFlags st pre = st'
        cases htl : opts.dropWhile killFlag with
        | nil =>
          simp only []
          rw [killLoop_flags nm pre st _ hpre, hst, ihr rest st' (Nat.le_refl _)]
          simp [killChars, contK]
        | cons c remainder =>
          have hcf : killFlag c = false := dropWhile_head killFlag opts c remainder htl
          have hcl : c ≠ 'l' := by intro h; subst h; simp [killFlag] at hcf
          have hcv : c ≠ 'v' := by intro h; subst h; simp [killFlag] at hcf
          simp only []
          rw [killChars_cons]
          by_cases hsn : c = 's' ∨ c = 'n'
          · simp only [hsn, if_true]
            cases remainder with
            | nil =>
              simp only [List.isEmpty_nil, if_true]
              cases rest with
              | nil =>
                simp only []
                rw [killLoop_flags nm pre st _ hpre, hst,
                  killLoop_option nm st' [c] [] (by simp) (by rcases hsn with rfl | rfl <;> decide), killChars_cons]
                simp [hsn, contK]
              | cons x rest' =>
                simp only [List.head?_cons]
                rw [killLoop_flags nm pre st _ hpre, hst,
                  killLoop_option nm st' [c] _ (by simp) (by rcases hsn with rfl | rfl <;> decide), killChars_cons]
                simp only [hsn, if_true, List.isEmpty_nil, List.head?_cons]
                rcases withTook_cases true (setSignal st' (parseSignal nm x true)) with ⟨e, _, hw⟩ | ⟨st'', _, hw⟩
                · rw [hw]; rfl
                · rw [hw]; simp only [contK, if_true, List.tail_cons]; rw [ihr rest' st'' (by simp)]
            | cons r0 rem' =>
              simp only [List.isEmpty_cons, Bool.false_eq_true, if_false]
              by_cases hsig : (parseSignal nm (r0 :: rem') true).isSome = true
              · simp only [hsig, if_true]
                rw [killLoop_flags nm pre st _ hpre, hst,
                  killLoop_option nm st' [c] _ (by simp) (by rcases hsn with rfl | rfl <;> decide), killChars_cons]
                simp only [hsn, if_true, List.isEmpty_nil, List.head?_cons]
                obtain ⟨n', hn'⟩ := Option.isSome_iff_exists.mp hsig
                simp only [hn', Option.orElse]
                rcases withTook_cases true (setSignal st' (some n')) with ⟨e, he, hw⟩ | ⟨st'', he, hw⟩
                · rw [hw]; simp [withTook, he, contK]
                · rw [hw]; simp only [withTook, he, contK, if_true, List.tail_cons, Bool.false_eq_true, if_false]
                  rw [ihr rest st'' (Nat.le_refl _)]
              · simp only [hsig, Bool.false_eq_true, if_false]
                rw [killLoop_option nm st opts _ h1 h2, hflags, hst, htl, killChars_cons]
                simp only [hsn, if_true, List.isEmpty_cons, Bool.false_eq_true, if_false]
                rcases withTook_cases false (setSignal st' ((parseSignal nm (r0 :: rem') true).orElse fun _ => parseSignal nm opts true))
                  with ⟨e, _, hw⟩ | ⟨st'', _, hw⟩
                · rw [hw]; rfl
                · rw [hw]; simp only [contK, Bool.false_eq_true, if_false]; rw [ihr rest st'' (Nat.le_refl _)]
          · simp only [hsn, hcl, hcv, if_false]
            by_cases hname : pre.isEmpty = true ∧ (parseSignal nm opts true).isSome = true
            · obtain ⟨hpe, hsig⟩ := hname
              have hpnil : pre = [] := by simpa using hpe
              subst hpnil
              simp only [applyFlags] at hst
              subst hst
              simp only [hpe, hsig, and_self, if_true]
              rw [killLoop_option nm st ['s'] _ (by simp) (by decide), killChars_cons]
              simp only [true_or, if_true, List.isEmpty_nil, List.head?_cons]
              obtain ⟨n', hn'⟩ := Option.isSome_iff_exists.mp hsig
              rw [hn', invalidToUnknown_setSignal_some]
              rcases withTook_cases true (setSignal st (some n')) with ⟨e, he, hw⟩ | ⟨st'', he, hw⟩
              · rw [hw]; simp [withTook, he, contK]
              · rw [hw]; simp only [withTook, he, contK, if_true, List.tail_cons, Bool.false_eq_true, if_false]
                rw [ihr rest st'' (Nat.le_refl _)]
            · simp only [hname, Bool.false_eq_true, if_false]
              rw [killLoop_option nm st opts _ h1 h2, hflags, hst, htl, killChars_cons]
              simp only [hsn, hcl, hcv, if_false]
              rcases withTook_cases false (invalidToUnknown (setSignal st' (parseSignal nm opts true)))
                with ⟨e, _, hw⟩ | ⟨st'', _, hw⟩
              · rw [hw]; rfl
              · rw [hw]; simp only [contK, Bool.false_eq_true, if_false]; rw [ihr rest st'' (Nat.le_refl _)]

/-! ### `separateSO` really separates -/

/-- after one cluster: skip the name of a pending `-o` -/
def afterSO (next : List Str → Bool) (pending : Bool) (tail : List Str) : Bool :=
  if pending then
    (match tail with
     | [] => true
     | _ :: t' => next t')
  else next tail

/-- In option position every cluster is a single letter (or contains its own sign as a letter, which
    cannot be split off); `-o` / `+o` is followed by its name as an argument of its own; and, where
    long options are rewritten (`long = true`: set), no `--name` / `++name` is left. -/
def isSeparatedSO (long : Bool) : List Str → Bool
  | [] => true
  | a :: rest =>
    match shortSign a with
    | some neg =>
      if (a.drop 1).contains (signChar neg) then
        (if (splitCluster (signChar neg) (a.drop 1)).2 then
          (match rest with
           | [] => true
           | _ :: rest' => isSeparatedSO long rest')
         else isSeparatedSO long rest)
      else if (a.drop 2).isEmpty then
        (if a.drop 1 = ['o'] then
          (match rest with
           | [] => true
           | _ :: rest' => isSeparatedSO long rest')
         else isSeparatedSO long rest)
      else false
    | none => if long then (longForm a).isNone else true

theorem isSeparatedSO_single (long : Bool) (neg : Bool) (c : Char) (rest : List Str) (hc : c ≠ signChar neg) :
    isSeparatedSO long ([signChar neg, c] :: rest) =
      afterSO (isSeparatedSO long) (c == 'o') rest := by
  conv => lhs; unfold isSeparatedSO
  have hs := shortSign_single neg c [] hc
  have h2 : ([c] : Str).contains (signChar neg) = false := by simp; exact fun h => hc h.symm
  simp only [hs, List.drop_succ_cons, List.drop_zero, h2, Bool.false_eq_true, if_false, List.isEmpty_nil, if_true,
    afterSO]
  by_cases ho : c = 'o'
  · subst ho; simp
  · have : ([c] : Str) ≠ ['o'] := by intro h; cases h; exact ho rfl
    simp [this, ho]

theorem splitCluster_parts_separated (long : Bool) (neg : Bool) : ∀ (cs : Str) (tail : List Str), signChar neg ∉ cs →
    isSeparatedSO long ((splitCluster (signChar neg) cs).1 ++ tail) =
      afterSO (isSeparatedSO long) (splitCluster (signChar neg) cs).2 tail := by
  intro cs
  induction cs with
  | nil => intro tail _; simp [splitCluster, afterSO]
  | cons c cs ih =>
    intro tail hd
    have hc : c ≠ signChar neg := fun h => hd (by simp [h])
    have hcs : signChar neg ∉ cs := fun h => hd (by simp [h])
    rw [splitCluster_cons]
    by_cases ho : c = 'o'
    · subst ho
      simp only [if_true]
      cases cs with
      | nil =>
        simp only [List.isEmpty_nil, if_true, List.singleton_append]
        rw [isSeparatedSO_single long neg 'o' tail hc]; simp
      | cons r0 cs' =>
        simp only [List.isEmpty_cons, Bool.false_eq_true, if_false, List.cons_append, List.nil_append]
        rw [isSeparatedSO_single long neg 'o' _ hc]; simp [afterSO]
    · simp only [ho, if_false, List.cons_append]
      rw [isSeparatedSO_single long neg c _ hc]
      have : (c == 'o') = false := by simp [ho]
      simp only [this, afterSO, Bool.false_eq_true, if_false]
      rw [ih tail hcs]; rfl

theorem separateSO_isSeparated (long : Bool) : ∀ (n : Nat) (args : List Str), args.length ≤ n →
    isSeparatedSO long (separateSO long args) = true := by
  intro n
  induction n with
  | zero =>
    intro args hl
    have : args = [] := List.eq_nil_of_length_eq_zero (Nat.le_zero.mp hl)
    subst this; rfl
  | succ n ih =>
    intro args hl
    cases args with
    | nil => rfl
    | cons a rest =>
      unfold separateSO
      cases hs : shortSign a with
      | some neg =>
        obtain ⟨c, cs, rfl, hc⟩ := shortSign_cases a neg hs
        simp only [List.drop_succ_cons, List.drop_zero]
        have key : ∀ tail, isSeparatedSO long ((if (c :: cs).contains (signChar neg) then
                ([signChar neg :: c :: cs], (splitCluster (signChar neg) (c :: cs)).2)
              else splitCluster (signChar neg) (c :: cs)).1 ++ tail) =
            afterSO (isSeparatedSO long) (splitCluster (signChar neg) (c :: cs)).2 tail := by
          intro tail
          by_cases hk : (c :: cs).contains (signChar neg) = true
          · simp only [hk, if_true, List.singleton_append]
            conv => lhs; unfold isSeparatedSO
            simp only [hs, List.drop_succ_cons, List.drop_zero, hk, if_true, afterSO]
          · simp only [hk]
            exact splitCluster_parts_separated long neg (c :: cs) tail (by simpa using hk)
        have hpend : (if (c :: cs).contains (signChar neg) then
                ([signChar neg :: c :: cs], (splitCluster (signChar neg) (c :: cs)).2)
              else splitCluster (signChar neg) (c :: cs)).2 = (splitCluster (signChar neg) (c :: cs)).2 := by
          split <;> rfl
        generalize (if (c :: cs).contains (signChar neg) then
                ([signChar neg :: c :: cs], (splitCluster (signChar neg) (c :: cs)).2)
              else splitCluster (signChar neg) (c :: cs)) = X at key hpend
        obtain ⟨parts, pending⟩ := X
        simp only at key hpend
        subst hpend
        cases hp : (splitCluster (signChar neg) (c :: cs)).2 with
        | true =>
          simp only [if_true]
          cases rest with
          | nil =>
            have := key []
            rw [List.append_nil] at this
            rw [this, hp]; rfl
          | cons x rest' =>
            simp only []
            rw [key, hp]
            simp only [afterSO, if_true]
            exact ih rest' (by simp at hl; omega)
        | false =>
          simp only [Bool.false_eq_true, if_false]
          rw [key, hp]
          simp only [afterSO, Bool.false_eq_true, if_false]
          exact ih rest (by simp at hl; omega)
      | none =>
        simp only []
        cases long with
        | false =>
          simp only [Bool.false_eq_true, if_false]
          conv => lhs; unfold isSeparatedSO
          simp [hs]
        | true =>
          simp only [if_true]
          cases hlf : longForm a with
          | none =>
            simp only []
            conv => lhs; unfold isSeparatedSO
            simp [hs, hlf]
          | some q =>
            obtain ⟨neg, name⟩ := q
            simp only []
            rw [isSeparatedSO_single true neg 'o' _ (signChar_ne_o neg)]
            simp only [beq_self_eq_true, afterSO, if_true]
            exact ih rest (by simp at hl; omega)

/-! ### the command line: `--name=ARG` and `--name ARG` -/

theorem nonShell_arg (name : Str) (ctor : Str → ShLong) (h : nonShell name = some (true, ctor)) :
    ctor = ShLong.profile ∨ ctor = ShLong.rcfile := by
  unfold nonShell at h
  split at h
  · simp at h; exact Or.inl h.symm
  · split at h
    · simp at h; exact Or.inr h.symm
    · split at h
      · simp at h
      · split at h
        · simp at h
        · split at h
          · simp at h
          · split at h
            · simp at h
            · cases h

theorem takeWhile_notEqC_append (n t : Str) (hn : '=' ∉ n) (ht : t = [] ∨ t.head? = some '=') :
    (n ++ t).takeWhile notEqC = n ∧ (n ++ t).dropWhile notEqC = t := by
  induction n with
  | nil =>
    rcases ht with rfl | ht
    · simp
    · cases t with
      | nil => simp
      | cons c t' => simp at ht; subst ht; simp [notEqC]
  | cons c n ih =>
    have hc : c ≠ '=' := fun h => hn (by simp [h])
    have hn' : '=' ∉ n := fun h => hn (by simp [h])
    obtain ⟨h1, h2⟩ := ih hn'
    have : notEqC c = true := by simp [notEqC, hc]
    simp [this, h1, h2]

/-- one step of the option loop: `--name=ARG` consumes one argument, `--name ARG` two, to the same effect -/
theorem shStep_long_eq_arg (nm : Names) (p : Bool) (name arg : Str) (ctor : Str → ShLong) (next : Option Str)
    (hname : name ≠ []) (heq : '=' ∉ name) (hctor : nonShell name = some (true, ctor))
    (h1 : nm.parseLong (name ++ '=' :: arg) = .noSuch) (h2 : nm.parseLong name = .noSuch) :
    shStep nm p ('-' :: '-' :: (name ++ '=' :: arg)) next =
      (if p then ShStep.fail .nonPortableLong else ShStep.go (applyLong (ctor arg)) false p) ∧
    shStep nm p ('-' :: '-' :: name) (some arg) =
      (if p then ShStep.fail .nonPortableLong else ShStep.go (applyLong (ctor arg)) true p) := by
  obtain ⟨c, name', rfl⟩ : ∃ c name', name = c :: name' := by
    cases name with
    | nil => exact absurd rfl hname
    | cons c n => exact ⟨c, n, rfl⟩
  have hgo : ∀ t p', ShStep.ofLong (.ok (ctor arg, t, p')) = ShStep.go (applyLong (ctor arg)) t p' := by
    intro t p'
    rcases nonShell_arg _ ctor hctor with rfl | rfl <;> rfl
  obtain ⟨ta, da⟩ := takeWhile_notEqC_append (c :: name') ('=' :: arg) heq (Or.inr rfl)
  obtain ⟨tb, db⟩ := takeWhile_notEqC_append (c :: name') [] heq (Or.inl rfl)
  rw [List.append_nil] at tb db
  constructor
  · have hs : shortSign ('-' :: '-' :: (c :: name' ++ '=' :: arg)) = none := by simp [shortSign]
    have hl : isLongArg ('-' :: '-' :: (c :: name' ++ '=' :: arg)) = some false := by simp [isLongArg]
    simp only [shStep, hs, hl, List.drop_succ_cons, List.drop_zero, shLong, ta, da, hctor, h1]
    cases p with
    | true => simp [ShStep.ofLong]
    | false => simp only [Bool.false_eq_true, if_false, List.isEmpty_cons, Bool.not_false, if_true, List.drop_succ_cons,
        List.drop_zero]; exact hgo false false
  · have hs : shortSign ('-' :: '-' :: c :: name') = none := by simp [shortSign]
    have hl : isLongArg ('-' :: '-' :: c :: name') = some false := by simp [isLongArg]
    simp only [shStep, hs, hl, List.drop_succ_cons, List.drop_zero, shLong, tb, db, hctor, h2]
    cases p with
    | true => simp [ShStep.ofLong]
    | false => simp only [Bool.false_eq_true, if_false, List.isEmpty_nil, Bool.not_true, if_true]; exact hgo true false

theorem shLoop_long_eq_arg (nm : Names) (p : Bool) (r : Run) (name arg : Str) (ctor : Str → ShLong) (rest : List Str)
    (hname : name ≠ []) (heq : '=' ∉ name) (hctor : nonShell name = some (true, ctor))
    (h1 : nm.parseLong (name ++ '=' :: arg) = .noSuch) (h2 : nm.parseLong name = .noSuch) :
    shLoop nm p r (('-' :: '-' :: (name ++ '=' :: arg)) :: rest) =
      shLoop nm p r (('-' :: '-' :: name) :: arg :: rest) := by
  obtain ⟨ha, hb⟩ := shStep_long_eq_arg nm p name arg ctor rest.head? hname heq hctor h1 h2
  rw [shLoop_cons, shLoop_cons, ha]
  simp only [List.head?_cons]
  rw [hb]
  cases p <;> simp

end YashModel.Args.Bespoke
