/-
  C20 — lemmas about the canonical spelling (`Canon.lean`): it is read like the original
  (`run_canon`), it is canonical when the vector is well formed (`canon_isCanonical`), and canonical
  vectors are read by the ten-line reader (`run_eq_readCanon`).  Property theorems: `Theorems.lean`.
-/
import YashModel.Args.Refine
import YashModel.Args.Canon
namespace YashModel.Args
open Spec

/-! ### the reference parser by kind of argument -/

def runKind (specs : List OptionSpec) (mode : Mode) (a : Str) (rest : List Str) : ArgKind → View
  | .stop => if a = ['-', '-'] then .ok ([], rest) else .ok ([], a :: rest)
  | .long body => contV specs mode (Spec.longOpt specs mode body) rest
  | .cluster cs => contV specs mode (Spec.cluster specs mode cs) rest

theorem run_kind (specs : List OptionSpec) (mode : Mode) (a : Str) (rest : List Str) :
    Spec.run specs mode none (a :: rest) = runKind specs mode a rest (argKind a) := by
  match a with
  | [] => rw [run_operand_nil]; rfl
  | c0 :: t =>
    by_cases h0 : c0 = '-'
    · subst h0
      match t with
      | [] => rw [run_lone]; rfl
      | c1 :: t1 =>
        by_cases h1 : c1 = '-'
        · subst h1
          match t1 with
          | [] => rw [run_dashdash]; rfl
          | c2 :: t2 => rw [run_long]; simp [argKind, runKind]
        · rw [run_cluster _ _ _ _ _ h1]; simp [argKind, runKind, h1]
    · rw [run_operand _ _ _ _ _ h0]
      have : argKind (c0 :: t) = .stop := by
        unfold argKind; split
        · rename_i h; cases h; exact absurd rfl h0
        · rfl
      rw [this]
      simp only [runKind]
      have : (c0 :: t) ≠ ['-', '-'] := by intro h; cases h; exact h0 rfl
      simp [this]

theorem argKind_cluster (a : Str) (cs : Str) (h : argKind a = .cluster cs) :
    ∃ c cs', cs = c :: cs' ∧ a = '-' :: c :: cs' ∧ c ≠ '-' := by
  unfold argKind at h
  split at h
  · rename_i c cs'
    split at h
    · split at h <;> cases h
    · rename_i hc; cases h; exact ⟨c, cs', rfl, rfl, hc⟩
  · cases h

theorem argKind_long (a : Str) (body : Str) (h : argKind a = .long body) :
    ∃ c b, body = c :: b ∧ a = '-' :: '-' :: c :: b := by
  unfold argKind at h
  split at h
  · rename_i c cs'
    split at h
    · rename_i hc
      split at h
      · cases h
      · rename_i hne
        cases h
        cases body with
        | nil => simp at hne
        | cons c b => exact ⟨c, b, rfl, by rw [hc]⟩
    · cases h
  · cases h

theorem argKind_shortTok (c : Char) (hc : c ≠ '-') : argKind (shortTok c) = .cluster [c] := by
  simp [argKind, shortTok, hc]

theorem argKind_longTok (c : Char) (b : Str) : argKind (longTok (c :: b)) = .long (c :: b) := by
  simp [argKind, longTok]

/-! ### clusters -/

theorem cluster_cons (specs : List OptionSpec) (mode : Mode) (c : Char) (cs : Str) :
    Spec.cluster specs mode (c :: cs) =
      match specs.find? (fun s => s.short == some c) with
      | none => .error (.unknownShort c)
      | some s =>
        if s.extension = true ∧ ¬ mode.extensionOptions = true then .error (.nonPortableShort c s)
        else if s.takesArg = true then
          (if cs = [] then .ok ([], some s)
           else if mode.optionArgumentsInSameField = true then .ok ([(s, some cs)], none)
           else .error (.unseparatedArgument s))
        else consC s (Spec.cluster specs mode cs) := by
  rw [Spec.cluster]
  cases specs.find? (fun s => s.short == some c) with
  | none => rfl
  | some s =>
    simp only []
    split
    · rfl
    · split
      · rfl
      · cases Spec.cluster specs mode cs with
        | error e => rfl
        | ok q => cases q; rfl

theorem contV_consC (specs : List OptionSpec) (mode : Mode) (s : OptionSpec) (R) (tail : List Str) :
    contV specs mode (consC s R) tail = prependV [(s, none)] (contV specs mode R tail) := by
  cases R with
  | error e => rfl
  | ok q => obtain ⟨os, p⟩ := q; simp [consC, contV, cons_eq_prependV]

/-- the letters of a cluster written one per argument are read like the cluster
    (attached option-arguments must be enabled) -/
theorem run_canonCluster (specs : List OptionSpec) (mode : Mode) (hm : mode.optionArgumentsInSameField = true) :
    ∀ (cs : Str) (tail : List Str), cs.head? ≠ some '-' →
      Spec.run specs mode none (canonCluster specs cs ++ tail) =
        contV specs mode (Spec.cluster specs mode cs) tail := by
  intro cs
  induction cs with
  | nil => intro tail _; simp [canonCluster, Spec.cluster, contV, cons_eq_prependV]
  | cons c cs ih =>
    intro tail hd
    have hc : c ≠ '-' := fun h => hd (by simp [h])
    have whole : Spec.run specs mode none (['-' :: c :: cs] ++ tail) =
        contV specs mode (Spec.cluster specs mode (c :: cs)) tail := by
      rw [List.singleton_append, run_kind, show argKind ('-' :: c :: cs) = .cluster (c :: cs) by simp [argKind, hc]]
      rfl
    rw [canonCluster]
    cases hf : specs.find? (fun s => s.short == some c) with
    | none => exact whole
    | some s =>
      simp only []
      rw [cluster_cons, hf]
      simp only []
      by_cases ha : s.takesArg = true
      · simp only [ha, if_true]
        cases cs with
        | nil =>
          simp only [List.isEmpty_nil, if_true, List.singleton_append]
          rw [run_kind, argKind_shortTok c hc]
          simp only [runKind]
          rw [cluster_cons, hf]
          simp [ha]
        | cons r0 cs' =>
          simp only [List.isEmpty_cons, Bool.false_eq_true, if_false, List.cons_append, List.nil_append]
          rw [run_kind, argKind_shortTok c hc]
          simp only [runKind]
          rw [cluster_cons, hf]
          simp only [ha, if_true]
          by_cases hx : s.extension = true ∧ ¬ mode.extensionOptions = true
          · rw [if_pos hx, if_pos hx]; rfl
          · rw [if_neg hx, if_neg hx]
            simp [hm, contV, run_pending_cons, cons_eq_prependV]
      · have ha' : s.takesArg = false := by simpa using ha
        simp only [ha', Bool.false_eq_true, if_false]
        by_cases hnext : cs.head? = some '-'
        · simp only [hnext, if_true]
          rw [whole, cluster_cons, hf]
          simp only [ha', Bool.false_eq_true, if_false]
        · simp only [hnext, if_false, List.cons_append]
          rw [run_kind, argKind_shortTok c hc]
          simp only [runKind]
          rw [cluster_cons, hf]
          simp only [ha', Bool.false_eq_true, if_false]
          by_cases hx : s.extension = true ∧ ¬ mode.extensionOptions = true
          · rw [if_pos hx, if_pos hx]; rfl
          · rw [if_neg hx, if_neg hx]
            have e0 : Spec.cluster specs mode [] = .ok ([], none) := by simp [Spec.cluster]
            rw [e0, contV_consC, contV_consC]
            simp only [contV, cons_eq_prependV, prependV_nil]
            rw [ih tail hnext]
            rfl

theorem cluster_pending (specs : List OptionSpec) (mode : Mode) : ∀ (cs : Str) (os : List Spec.Opt) (p : Option OptionSpec),
    Spec.cluster specs mode cs = .ok (os, p) → p.isSome = pendingOf specs cs := by
  intro cs
  induction cs with
  | nil => intro os p h; simp [Spec.cluster] at h; simp [pendingOf, ← h.2]
  | cons c cs ih =>
    intro os p h
    rw [cluster_cons] at h
    rw [pendingOf]
    cases hf : specs.find? (fun s => s.short == some c) with
    | none => simp [hf] at h
    | some s =>
      simp only [hf] at h ⊢
      split at h
      · cases h
      · by_cases ha : s.takesArg = true
        · simp only [ha, if_true] at h ⊢
          cases cs with
          | nil => simp at h; simp [← h.2]
          | cons r0 cs' =>
            simp only [List.isEmpty_cons]
            have hne : (r0 :: cs') ≠ [] := by simp
            rw [if_neg hne] at h
            split at h
            · simp at h; simp [← h.2]
            · cases h
        · have ha' : s.takesArg = false := by simpa using ha
          simp only [ha', Bool.false_eq_true, if_false] at h ⊢
          cases hr : Spec.cluster specs mode cs with
          | error e => simp [hr, consC] at h
          | ok q =>
            obtain ⟨os', p'⟩ := q
            simp [hr, consC] at h
            rw [← h.2]; exact ih os' p' hr

/-! ### long options -/

theorem longOpt_full (specs : List OptionSpec) (mode : Mode) (l : Str) (s : OptionSpec)
    (hc : candidates specs l = [s]) (hne : '=' ∉ l) :
    Spec.longOpt specs mode l = Spec.longOne mode s false [] := by
  have := longOpt_split specs mode l [] hne (Or.inl rfl)
  rw [List.append_nil, hc] at this
  exact this

theorem longOpt_one (specs : List OptionSpec) (mode : Mode) (body : Str) (s : OptionSpec)
    (hc : candidates specs (body.takeWhile (fun x => decide (x ≠ '='))) = [s]) :
    Spec.longOpt specs mode body =
      Spec.longOne mode s (body.contains '=') ((body.dropWhile (fun x => decide (x ≠ '='))).drop 1) := by
  simp only [Spec.longOpt, hc]

theorem longOne_false_arg (mode : Mode) (s : OptionSpec) (a a' : Str) :
    Spec.longOne mode s false a = Spec.longOne mode s false a' := by
  unfold Spec.longOne
  split
  · rfl
  · cases s.takesArg <;> rfl

theorem longOne_tt (mode : Mode) (s : OptionSpec)
    (hx : ¬ (¬ mode.longOptionNames = true ∨ (s.extension = true ∧ ¬ mode.extensionOptions = true)))
    (ha : s.takesArg = true) (a : Str) : Spec.longOne mode s true a = .ok ([(s, some a)], none) := by
  unfold Spec.longOne; rw [if_neg hx]; simp [ha]

theorem longOne_tf (mode : Mode) (s : OptionSpec)
    (hx : ¬ (¬ mode.longOptionNames = true ∨ (s.extension = true ∧ ¬ mode.extensionOptions = true)))
    (ha : s.takesArg = true) (a : Str) : Spec.longOne mode s false a = .ok ([], some s) := by
  unfold Spec.longOne; rw [if_neg hx]; simp [ha]

theorem run_canonLong (specs : List OptionSpec) (mode : Mode) (c : Char) (b : Str) (tail : List Str) :
    Spec.run specs mode none ((canonLong specs (c :: b)).1 ++ tail) =
      contV specs mode (Spec.longOpt specs mode (c :: b)) tail := by
  have keep : Spec.run specs mode none ([longTok (c :: b)] ++ tail) =
      contV specs mode (Spec.longOpt specs mode (c :: b)) tail := by
    rw [List.singleton_append, run_kind, argKind_longTok]; rfl
  unfold canonLong
  simp only []
  match hc : candidates specs ((c :: b).takeWhile (fun x => decide (x ≠ '='))) with
  | [] => exact keep
  | _ :: _ :: _ => exact keep
  | [s] =>
    simp only []
    cases hl : s.long with
    | none => exact keep
    | some l =>
      simp only []
      by_cases hbad : (l.isEmpty || l.contains '=') = true
      · simp only [hbad, if_true]; exact keep
      · simp only [hbad, Bool.false_eq_true, if_false]
        have hlne : l ≠ [] := by intro h; subst h; simp at hbad
        have hleq : '=' ∉ l := by intro h; apply hbad; simp [h]
        obtain ⟨l0, l', rfl⟩ : ∃ l0 l', l = l0 :: l' := by
          cases l with
          | nil => exact absurd rfl hlne
          | cons l0 l' => exact ⟨l0, l', rfl⟩
        have hfull : candidates specs (l0 :: l') = [s] := candidates_full specs _ (l0 :: l') s hc hl
        have hLO := longOpt_full specs mode (l0 :: l') s hfull hleq
        rw [longOpt_one specs mode (c :: b) s hc]
        have hfullrun : ∀ t, Spec.run specs mode none (longTok (l0 :: l') :: t) =
            contV specs mode (Spec.longOne mode s false []) t := by
          intro t; rw [run_kind, argKind_longTok]; simp only [runKind]; rw [hLO]
        by_cases hx : ¬ mode.longOptionNames = true ∨ (s.extension = true ∧ ¬ mode.extensionOptions = true)
        · have hblk : ∀ he a, Spec.longOne mode s he a = .error (.nonPortableLong s) := by
            intro he a; unfold Spec.longOne; rw [if_pos hx]
          by_cases ha : s.takesArg = true <;> by_cases he : (c :: b).contains '=' = true
          · simp only [ha, he, if_true, List.cons_append, List.nil_append]
            rw [hfullrun, hblk, hblk]; rfl
          · simp only [ha, he, if_true, Bool.false_eq_true, if_false, List.singleton_append]
            rw [hfullrun, hblk, hblk]
          · simp only [ha, he, Bool.false_eq_true, if_false, if_true]
            rw [keep, longOpt_one specs mode (c :: b) s hc, he]
          · simp only [ha, he, Bool.false_eq_true, if_false, List.singleton_append]
            rw [hfullrun, hblk, hblk]
        · by_cases ha : s.takesArg = true <;> by_cases he : (c :: b).contains '=' = true
          · simp only [ha, he, if_true, List.cons_append, List.nil_append]
            rw [hfullrun, longOne_tf mode s hx ha, longOne_tt mode s hx ha]
            simp [contV, run_pending_cons, cons_eq_prependV]
          · have he' : (c :: b).contains '=' = false := by simpa using he
            simp only [ha, he', if_true, Bool.false_eq_true, if_false, List.singleton_append]
            rw [hfullrun, longOne_false_arg mode s [] _]
          · simp only [ha, he, Bool.false_eq_true, if_false, if_true]
            rw [keep, longOpt_one specs mode (c :: b) s hc, he]
          · have ha' : s.takesArg = false := by simpa using ha
            have he' : (c :: b).contains '=' = false := by simpa using he
            simp only [ha', he', Bool.false_eq_true, if_false, List.singleton_append]
            rw [hfullrun, longOne_false_arg mode s [] _]

theorem longOne_pending (mode : Mode) (s : OptionSpec) (he : Bool) (a : Str) (os : List Spec.Opt)
    (p : Option OptionSpec) (h : Spec.longOne mode s he a = .ok (os, p)) : p.isSome = (s.takesArg && !he) := by
  unfold Spec.longOne at h
  split at h
  · cases h
  · cases ha : s.takesArg <;> cases he <;> simp [ha] at h <;> simp [← h.2]

theorem long_pending (specs : List OptionSpec) (mode : Mode) (body : Str) (os : List Spec.Opt)
    (p : Option OptionSpec) (h : Spec.longOpt specs mode body = .ok (os, p)) :
    p.isSome = (canonLong specs body).2 := by
  unfold canonLong
  simp only []
  match hc : candidates specs (body.takeWhile (fun x => decide (x ≠ '='))) with
  | [] => simp only [Spec.longOpt, hc] at h; cases h
  | _ :: _ :: _ => simp only [Spec.longOpt, hc] at h; cases h
  | [s] =>
    rw [longOpt_one specs mode body s hc] at h
    have hp := longOne_pending mode s _ _ os p h
    simp only []
    cases hl : s.long with
    | none =>
      -- impossible: a candidate has a long name
      have := (candidates_mem specs _ s hc).2
      simp [Spec.abbreviates, hl] at this
    | some l =>
      simp only []
      by_cases hbad : (l.isEmpty || l.contains '=') = true
      · simp only [hbad, if_true]; exact hp
      · simp only [hbad, Bool.false_eq_true, if_false]
        rw [hp]
        cases s.takesArg <;> cases (body.contains '=') <;> rfl

theorem parts_run (specs : List OptionSpec) (mode : Mode) (hm : mode.optionArgumentsInSameField = true)
    (a : Str) (tail : List Str) (hk : argKind a ≠ .stop) :
    Spec.run specs mode none ((canonParts specs a (argKind a)).1 ++ tail) =
      runKind specs mode a tail (argKind a) := by
  cases hka : argKind a with
  | stop => exact absurd hka hk
  | long body =>
    obtain ⟨c, b, rfl, rfl⟩ := argKind_long a body hka
    simp only [canonParts, runKind]
    exact run_canonLong specs mode c b tail
  | cluster cs =>
    obtain ⟨c, cs', rfl, rfl, hc⟩ := argKind_cluster a cs hka
    simp only [canonParts, runKind]
    exact run_canonCluster specs mode hm (c :: cs') tail (by simpa using hc)

theorem parts_pending (specs : List OptionSpec) (mode : Mode) (a : Str) (hk : argKind a ≠ .stop) :
    ∃ R, (∀ tail, runKind specs mode a tail (argKind a) = contV specs mode R tail) ∧
      ∀ os p, R = .ok (os, p) → p.isSome = (canonParts specs a (argKind a)).2 := by
  cases hka : argKind a with
  | stop => exact absurd hka hk
  | long body =>
    exact ⟨Spec.longOpt specs mode body, fun _ => rfl, fun os p h => long_pending specs mode body os p h⟩
  | cluster cs =>
    refine ⟨Spec.cluster specs mode cs, fun _ => rfl, fun os p h => ?_⟩
    simp only [canonParts]
    exact cluster_pending specs mode cs os p h

theorem run_canon (specs : List OptionSpec) (mode : Mode) (hm : mode.optionArgumentsInSameField = true) :
    ∀ (n : Nat) (args : List Str), args.length ≤ n →
      Spec.run specs mode none (canon specs args) = Spec.run specs mode none args := by
  intro n
  induction n with
  | zero =>
    intro args hl
    have : args = [] := List.eq_nil_of_length_eq_zero (Nat.le_zero.mp hl)
    subst this; rfl
  | succ n ih =>
    intro args hl
    cases args with
    | nil => rfl
    | cons a rest =>
      unfold canon
      by_cases hk : argKind a = .stop
      · simp only [hk, if_true]
      · simp only [hk, if_false]
        obtain ⟨R, hR', hpend⟩ := parts_pending specs mode a hk
        have hrun := fun tail => parts_run specs mode hm a tail hk
        rw [run_kind specs mode a rest, hR' rest]
        cases hpd : (canonParts specs a (argKind a)).2 with
        | true =>
          simp only [if_true]
          cases rest with
          | nil =>
            have := hrun []
            rw [List.append_nil] at this
            rw [this, hR' []]
          | cons x rest' =>
            simp only []
            rw [hrun, hR']
            cases hRv : R with
            | error e => rfl
            | ok q =>
              obtain ⟨os, p⟩ := q
              have := hpend os p hRv
              rw [hpd] at this
              cases p with
              | none => simp at this
              | some s =>
                simp only [contV, run_pending_cons]
                rw [ih rest' (by simp at hl; omega)]
        | false =>
          simp only [Bool.false_eq_true, if_false]
          rw [hrun, hR']
          cases hRv : R with
          | error e => rfl
          | ok q =>
            obtain ⟨os, p⟩ := q
            have := hpend os p hRv
            rw [hpd] at this
            cases p with
            | some s => simp at this
            | none =>
              simp only [contV]
              rw [ih rest (by simp at hl; omega)]

/-! ### canonical vectors and their reader -/

theorem takeWhile_no_eq (body : Str) (h : body.contains '=' = false) :
    body.takeWhile (fun x => decide (x ≠ '=')) = body := by
  induction body with
  | nil => rfl
  | cons c b ih =>
    have hc : c ≠ '=' := by intro he; subst he; simp at h
    have hb : b.contains '=' = false := by
      cases hb : b.contains '=' with
      | false => rfl
      | true => simp at hb; simp [hb] at h
    rw [List.takeWhile_cons]
    have : decide (c ≠ '=') = true := by simp [hc]
    rw [this, if_pos rfl, ih hb]

theorem candidates_of_find (specs : List OptionSpec) (name : Str) (s : OptionSpec)
    (h : specs.find? (fun s => s.long == some name) = some s) : candidates specs name = [s] := by
  simp [candidates, h]

theorem longOpt_exact (specs : List OptionSpec) (mode : Mode) (body : Str) (s : OptionSpec)
    (hne : body.contains '=' = false) (h : specs.find? (fun s => s.long == some body) = some s) :
    Spec.longOpt specs mode body = Spec.longOne mode s false [] := by
  have hc : candidates specs (body.takeWhile (fun x => decide (x ≠ '='))) = [s] := by
    rw [takeWhile_no_eq body hne]; exact candidates_of_find specs body s h
  rw [longOpt_one specs mode body s hc, hne]
  exact longOne_false_arg mode s _ _

theorem isCanonical_stop (specs : List OptionSpec) (a : Str) (rest : List Str) (h : tokOf specs a = .stop) :
    isCanonical specs false (a :: rest) = true := by rw [isCanonical]; simp only [h]
theorem isCanonical_bad (specs : List OptionSpec) (a : Str) (rest : List Str) (e : ParseError)
    (h : tokOf specs a = .bad e) : isCanonical specs false (a :: rest) = false := by rw [isCanonical]; simp only [h]
theorem isCanonical_opt (specs : List OptionSpec) (a : Str) (rest : List Str) (s : OptionSpec) (l : Bool) (c : Char)
    (h : tokOf specs a = .opt s l c) : isCanonical specs false (a :: rest) = isCanonical specs s.takesArg rest := by
  rw [isCanonical]; simp only [h]
theorem isCanonical_pending (specs : List OptionSpec) (x : Str) (rest : List Str) :
    isCanonical specs true (x :: rest) = isCanonical specs false rest := by
  rw [isCanonical]

theorem readCanon_stop (specs : List OptionSpec) (mode : Mode) (a : Str) (rest : List Str) (h : tokOf specs a = .stop) :
    readCanon specs mode (a :: rest) = if a = ['-', '-'] then .ok ([], rest) else .ok ([], a :: rest) := by
  rw [readCanon]; simp only [h]
theorem readCanon_blocked (specs : List OptionSpec) (mode : Mode) (a : Str) (rest : List Str) (s : OptionSpec) (l : Bool)
    (c : Char) (h : tokOf specs a = .opt s l c) (hb : blocked mode s l = true) :
    readCanon specs mode (a :: rest) = .error (blockedError s l c) := by
  rw [readCanon]; simp only [h, hb, if_true]
theorem readCanon_flag (specs : List OptionSpec) (mode : Mode) (a : Str) (rest : List Str) (s : OptionSpec) (l : Bool)
    (c : Char) (h : tokOf specs a = .opt s l c) (hb : blocked mode s l = false) (ha : s.takesArg = false) :
    readCanon specs mode (a :: rest) = Spec.cons [(s, none)] (readCanon specs mode rest) := by
  rw [readCanon]; simp only [h, hb, ha, Bool.false_eq_true, if_false]
theorem readCanon_arg_nil (specs : List OptionSpec) (mode : Mode) (a : Str) (s : OptionSpec) (l : Bool)
    (c : Char) (h : tokOf specs a = .opt s l c) (hb : blocked mode s l = false) (ha : s.takesArg = true) :
    readCanon specs mode [a] = .error (.missingArgument s) := by
  rw [readCanon]; simp only [h, hb, ha, Bool.false_eq_true, if_false, if_true]
theorem readCanon_arg_cons (specs : List OptionSpec) (mode : Mode) (a x : Str) (rest : List Str) (s : OptionSpec) (l : Bool)
    (c : Char) (h : tokOf specs a = .opt s l c) (hb : blocked mode s l = false) (ha : s.takesArg = true) :
    readCanon specs mode (a :: x :: rest) = Spec.cons [(s, some x)] (readCanon specs mode rest) := by
  rw [readCanon]; simp only [h, hb, ha, Bool.false_eq_true, if_false, if_true]

/-- what the reference parser does with a canonical option token -/
theorem run_opt_token (specs : List OptionSpec) (mode : Mode) (a : Str) (rest : List Str) (s : OptionSpec) (l : Bool)
    (c : Char) (h : tokOf specs a = .opt s l c) :
    Spec.run specs mode none (a :: rest) =
      if blocked mode s l then .error (blockedError s l c)
      else contV specs mode (.ok (if s.takesArg then [] else [(s, none)], if s.takesArg then some s else none)) rest := by
  rw [run_kind]
  unfold tokOf at h
  cases hk : argKind a with
  | stop => rw [hk] at h; cases h
  | long body =>
    rw [hk] at h
    simp only [] at h
    by_cases he : body.contains '=' = true
    · rw [if_pos he] at h; cases h
    · have he' : body.contains '=' = false := by simpa using he
      rw [if_neg he] at h
      cases hf : specs.find? (fun s => s.long == some body) with
      | none => simp [hf] at h
      | some s' =>
        simp only [hf] at h
        cases h
        simp only [runKind]
        rw [longOpt_exact specs mode body s he' hf]
        by_cases hx : ¬ mode.longOptionNames = true ∨ (s.extension = true ∧ ¬ mode.extensionOptions = true)
        · have hb : blocked mode s true = true := by
            unfold blocked
            cases h1 : mode.longOptionNames <;> cases h2 : mode.extensionOptions <;> cases h3 : s.extension <;> simp_all
          rw [if_pos hb]
          unfold Spec.longOne; rw [if_pos hx]; rfl
        · have hb : ¬ blocked mode s true = true := by
            unfold blocked
            cases h1 : mode.longOptionNames <;> cases h2 : mode.extensionOptions <;> cases h3 : s.extension <;> simp_all
          rw [if_neg hb]
          unfold Spec.longOne; rw [if_neg hx]
          cases s.takesArg <;> rfl
  | cluster cs =>
    rw [hk] at h
    simp only [] at h
    match cs, h with
    | [], h => cases h
    | _ :: _ :: _, h => cases h
    | [c'], h =>
      simp only [] at h
      cases hf : specs.find? (fun s => s.short == some c') with
      | none => simp [hf] at h
      | some s' =>
        simp only [hf] at h
        cases h
        simp only [runKind]
        rw [cluster_cons, hf]
        simp only []
        have e0 : Spec.cluster specs mode [] = .ok ([], none) := by simp [Spec.cluster]
        by_cases hx : s.extension = true ∧ ¬ mode.extensionOptions = true
        · have hb : blocked mode s false = true := by unfold blocked; simp [hx.1, hx.2]
          rw [if_pos hx, if_pos hb]; rfl
        · have hb : ¬ blocked mode s false = true := by
            unfold blocked; intro h; apply hx; simpa using h
          rw [if_neg hx, if_neg hb, e0]
          cases s.takesArg <;> rfl

/-- on canonical vectors the reference parser is the ten-line reader -/
theorem run_eq_readCanon (specs : List OptionSpec) (mode : Mode) : ∀ (n : Nat) (v : List Str), v.length ≤ n →
    isCanonical specs false v = true → Spec.run specs mode none v = readCanon specs mode v := by
  intro n
  induction n with
  | zero =>
    intro v hl _
    have : v = [] := List.eq_nil_of_length_eq_zero (Nat.le_zero.mp hl)
    subst this; simp [run_nil, readCanon]
  | succ n ih =>
    intro v hl hcan
    cases v with
    | nil => simp [run_nil, readCanon]
    | cons a rest =>
      cases ht : tokOf specs a with
      | stop =>
        rw [readCanon_stop specs mode a rest ht, run_kind]
        have : argKind a = .stop := by
          unfold tokOf at ht
          cases hk : argKind a with
          | stop => rfl
          | long body => rw [hk] at ht; simp only [] at ht; split at ht <;> (try cases ht); split at ht <;> cases ht
          | cluster cs =>
            rw [hk] at ht; simp only [] at ht
            match cs, ht with
            | [], ht => cases ht
            | _ :: _ :: _, ht => cases ht
            | [c], ht => simp only [] at ht; split at ht <;> cases ht
        rw [this]; rfl
      | bad e => rw [isCanonical_bad specs a rest e ht] at hcan; cases hcan
      | opt s l c =>
        rw [isCanonical_opt specs a rest s l c ht] at hcan
        rw [run_opt_token specs mode a rest s l c ht]
        cases hb : blocked mode s l with
        | true => rw [readCanon_blocked specs mode a rest s l c ht hb]; rfl
        | false =>
          simp only [Bool.false_eq_true, if_false]
          cases ha : s.takesArg with
          | false =>
            rw [ha] at hcan
            rw [readCanon_flag specs mode a rest s l c ht hb ha]
            simp only [contV, Bool.false_eq_true, if_false]
            rw [ih rest (by simp at hl; omega) hcan]
          | true =>
            rw [ha] at hcan
            simp only [contV, if_true]
            cases rest with
            | nil =>
              rw [readCanon_arg_nil specs mode a s l c ht hb ha, run_pending_nil]; rfl
            | cons x rest' =>
              rw [isCanonical_pending] at hcan
              rw [readCanon_arg_cons specs mode a x rest' s l c ht hb ha, run_pending_cons,
                ih rest' (by simp at hl; omega) hcan]
              cases readCanon specs mode rest' with
              | error e => rfl
              | ok q => cases q; rfl

/-! ### the canonical spelling of a well-formed vector is canonical -/

/-- the documented requirements on option names: the short name is not `-`; the long name is not empty
    and contains no `=` -/
def WellNamed (specs : List OptionSpec) : Prop :=
  ∀ s ∈ specs, s.short ≠ some '-' ∧ ∀ l, s.long = some l → l ≠ [] ∧ '=' ∉ l

theorem tokOf_shortTok (specs : List OptionSpec) (c : Char) (s : OptionSpec) (hc : c ≠ '-')
    (hf : specs.find? (fun s => s.short == some c) = some s) : tokOf specs (shortTok c) = .opt s false c := by
  unfold tokOf; rw [argKind_shortTok c hc]; simp only [hf]

theorem find_dash_none (specs : List OptionSpec) (hw : WellNamed specs) :
    specs.find? (fun s => s.short == some '-') = none := by
  apply List.find?_eq_none.mpr
  intro s hs
  have := (hw s hs).1
  simpa using this

theorem cons_ok {os : List VOpt} {X : View} {r} (h : Spec.cons os X = .ok r) : ∃ r', X = .ok r' := by
  cases X with
  | error e => cases h
  | ok r' => exact ⟨r', rfl⟩

theorem cluster_canonical (specs : List OptionSpec) (mode : Mode) (hw : WellNamed specs) :
    ∀ (cs : Str) (os : List Spec.Opt) (p : Option OptionSpec), cs.head? ≠ some '-' →
      Spec.cluster specs mode cs = .ok (os, p) →
      ∀ tail, isCanonical specs false (canonCluster specs cs ++ tail) = isCanonical specs p.isSome tail := by
  intro cs
  induction cs with
  | nil => intro os p _ h tail; simp [Spec.cluster] at h; simp [canonCluster, ← h.2]
  | cons c cs ih =>
    intro os p hd h tail
    have hc : c ≠ '-' := fun he => hd (by simp [he])
    rw [cluster_cons] at h
    rw [canonCluster]
    cases hf : specs.find? (fun s => s.short == some c) with
    | none => simp [hf] at h
    | some s =>
      simp only [hf] at h ⊢
      have htok := tokOf_shortTok specs c s hc hf
      split at h
      · cases h
      · by_cases ha : s.takesArg = true
        · simp only [ha, if_true] at h ⊢
          cases cs with
          | nil =>
            simp at h
            simp only [List.isEmpty_nil, if_true, List.singleton_append]
            rw [isCanonical_opt specs _ tail s false c htok, ha, ← h.2]; rfl
          | cons r0 cs' =>
            have hne : (r0 :: cs') ≠ [] := by simp
            rw [if_neg hne] at h
            split at h
            · simp at h
              simp only [List.isEmpty_cons, Bool.false_eq_true, if_false, List.cons_append, List.nil_append]
              rw [isCanonical_opt specs _ _ s false c htok, ha, isCanonical_pending, ← h.2]; rfl
            · cases h
        · have ha' : s.takesArg = false := by simpa using ha
          simp only [ha', Bool.false_eq_true, if_false] at h ⊢
          cases hr : Spec.cluster specs mode cs with
          | error e => simp [hr, consC] at h
          | ok q =>
            obtain ⟨os', p'⟩ := q
            simp [hr, consC] at h
            by_cases hnext : cs.head? = some '-'
            · -- the next letter is `-`, which no option is called: the cluster cannot have been accepted
              exfalso
              cases cs with
              | nil => simp at hnext
              | cons d cs' =>
                simp at hnext; subst hnext
                rw [cluster_cons, find_dash_none specs hw] at hr
                cases hr
            · simp only [hnext, if_false, List.cons_append]
              rw [isCanonical_opt specs _ _ s false c htok, ha', ih os' p' hnext hr tail, ← h.2]

theorem find_of_full (specs : List OptionSpec) (l : Str) (s : OptionSpec)
    (hc : candidates specs l = [s]) (hl : s.long = some l) : specs.find? (fun s => s.long == some l) = some s := by
  have hmem := (candidates_mem specs l s hc).1
  unfold candidates at hc
  cases hf : specs.find? (fun s => s.long == some l) with
  | some s' => simp [hf] at hc; rw [hc]
  | none =>
    have := List.find?_eq_none.mp hf s hmem
    simp [hl] at this

theorem tokOf_longTok (specs : List OptionSpec) (l0 : Char) (l' : Str) (s : OptionSpec)
    (hne : (l0 :: l').contains '=' = false)
    (hf : specs.find? (fun s => s.long == some (l0 :: l')) = some s) :
    tokOf specs (longTok (l0 :: l')) = .opt s true '-' := by
  unfold tokOf; rw [argKind_longTok]; simp only [hne, Bool.false_eq_true, if_false, hf]

theorem long_canonical (specs : List OptionSpec) (mode : Mode) (hw : WellNamed specs) (body : Str)
    (os : List Spec.Opt) (p : Option OptionSpec) (h : Spec.longOpt specs mode body = .ok (os, p)) :
    ∀ tail, isCanonical specs false ((canonLong specs body).1 ++ tail) = isCanonical specs p.isSome tail := by
  intro tail
  unfold canonLong
  simp only []
  match hc : candidates specs (body.takeWhile (fun x => decide (x ≠ '='))) with
  | [] => simp only [Spec.longOpt, hc] at h; cases h
  | _ :: _ :: _ => simp only [Spec.longOpt, hc] at h; cases h
  | [s] =>
    rw [longOpt_one specs mode body s hc] at h
    have hp := longOne_pending mode s _ _ os p h
    simp only []
    have hmem := (candidates_mem specs _ s hc).1
    cases hl : s.long with
    | none =>
      have := (candidates_mem specs _ s hc).2
      simp [Spec.abbreviates, hl] at this
    | some l =>
      obtain ⟨hlne, hleq⟩ := (hw s hmem).2 l hl
      have hbad : (l.isEmpty || l.contains '=') = false := by
        cases l with
        | nil => exact absurd rfl hlne
        | cons l0 l' => simp [hleq]
      simp only [hbad, Bool.false_eq_true, if_false]
      obtain ⟨l0, l', rfl⟩ : ∃ l0 l', l = l0 :: l' := by
        cases l with
        | nil => exact absurd rfl hlne
        | cons l0 l' => exact ⟨l0, l', rfl⟩
      have hfind := find_of_full specs (l0 :: l') s (candidates_full specs _ (l0 :: l') s hc hl) hl
      have hne' : (l0 :: l').contains '=' = false := by simpa using hleq
      have htok := tokOf_longTok specs l0 l' s hne' hfind
      -- the four cases of `longOne`
      cases ha : s.takesArg <;> cases he : body.contains '='
      · rw [ha, he] at hp
        simp only [ha, he, Bool.false_eq_true, if_false, List.singleton_append]
        rw [isCanonical_opt specs _ tail s true '-' htok, ha, hp]; rfl
      · exfalso
        rw [he] at h
        unfold Spec.longOne at h
        split at h
        · cases h
        · simp [ha] at h
      · rw [ha, he] at hp
        simp only [ha, he, if_true, Bool.false_eq_true, if_false, List.singleton_append]
        rw [isCanonical_opt specs _ tail s true '-' htok, ha, hp]; rfl
      · rw [ha, he] at hp
        simp only [ha, he, if_true, List.cons_append, List.nil_append]
        rw [isCanonical_opt specs _ _ s true '-' htok, ha, isCanonical_pending, hp]; rfl

theorem canon_isCanonical (specs : List OptionSpec) (mode : Mode) (hw : WellNamed specs) :
    ∀ (n : Nat) (args : List Str) (r), args.length ≤ n → Spec.run specs mode none args = .ok r →
      isCanonical specs false (canon specs args) = true := by
  intro n
  induction n with
  | zero =>
    intro args r hl _
    have : args = [] := List.eq_nil_of_length_eq_zero (Nat.le_zero.mp hl)
    subst this; rfl
  | succ n ih =>
    intro args r hl hrun
    cases args with
    | nil => rfl
    | cons a rest =>
      unfold canon
      by_cases hk : argKind a = .stop
      · simp only [hk, if_true]
        exact isCanonical_stop specs a rest (by unfold tokOf; rw [hk])
      · simp only [hk, if_false]
        rw [run_kind] at hrun
        -- the parts written for this argument are canonical, and say whether an argument is pending
        have key : ∃ (os : List Spec.Opt) (p : Option OptionSpec),
            runKind specs mode a rest (argKind a) = Spec.cons os (Spec.run specs mode p rest) ∧
            p.isSome = (canonParts specs a (argKind a)).2 ∧
            ∀ tail, isCanonical specs false ((canonParts specs a (argKind a)).1 ++ tail) = isCanonical specs p.isSome tail := by
          cases hka : argKind a with
          | stop => exact absurd hka hk
          | long body =>
            rw [hka] at hrun
            simp only [runKind, contV] at hrun
            cases hR : Spec.longOpt specs mode body with
            | error e => rw [hR] at hrun; cases hrun
            | ok q =>
              obtain ⟨os, p⟩ := q
              refine ⟨os, p, by simp only [runKind, contV, hR], long_pending specs mode body os p hR, ?_⟩
              simp only [canonParts]
              exact long_canonical specs mode hw body os p hR
          | cluster cs =>
            rw [hka] at hrun
            simp only [runKind, contV] at hrun
            obtain ⟨c, cs', rfl, _, hc⟩ := argKind_cluster a cs hka
            cases hR : Spec.cluster specs mode (c :: cs') with
            | error e => rw [hR] at hrun; cases hrun
            | ok q =>
              obtain ⟨os, p⟩ := q
              refine ⟨os, p, by simp only [runKind, contV, hR], cluster_pending specs mode _ os p hR, ?_⟩
              simp only [canonParts]
              exact cluster_canonical specs mode hw (c :: cs') os p (by simpa using hc) hR
        obtain ⟨os, p, hrk, hpd, hcanon⟩ := key
        rw [hrk] at hrun
        obtain ⟨r', hr'⟩ := cons_ok hrun
        rw [← hpd]
        cases p with
        | none =>
          simp only [Option.isSome_none, Bool.false_eq_true, if_false]
          rw [hcanon]
          exact ih rest r' (by simp at hl; omega) hr'
        | some s =>
          simp only [Option.isSome_some, if_true]
          cases rest with
          | nil =>
            have := hcanon []
            rw [List.append_nil] at this
            rw [this]; rfl
          | cons x rest' =>
            simp only []
            rw [hcanon, Option.isSome_some, isCanonical_pending]
            rw [run_pending_cons] at hr'
            obtain ⟨r'', hr''⟩ := cons_ok hr'
            exact ih rest' r'' (by simp at hl; omega) hr''
/-- a Boolean check of `WellNamed` (for `decide` on generated tables) -/
def namesOk (specs : List OptionSpec) : Bool :=
  specs.all fun s => s.short != some '-' && (match s.long with | some l => !l.isEmpty && !l.contains '=' | none => true)

theorem wellNamed_of_namesOk (specs : List OptionSpec) (h : namesOk specs = true) : WellNamed specs := by
  intro s hs
  have := (List.all_eq_true.1 h) s hs
  simp only [Bool.and_eq_true, bne_iff_ne, ne_eq] at this
  refine ⟨this.1, ?_⟩
  intro l hl
  rw [hl] at this
  simp only [Bool.and_eq_true, Bool.not_eq_true', List.isEmpty_eq_false_iff] at this
  refine ⟨this.2.1, ?_⟩
  intro hmem
  have := this.2.2
  simp [List.contains_iff_mem, hmem] at this

end YashModel.Args
