/-
  C20 — property theorems (and non-vacuity examples) ONLY, for the bespoke parser of the `typeset` family
  (yash-builtin/src/typeset/syntax.rs `try_parse_short` / `try_parse_long` / `parse` / `interpret`; used by
  `typeset`, `export`, `readonly`).  Lemmas: TypesetLemmas.lean.

  `optionsOnly specs ln pre = some os` (TypesetSpec.lean): `pre` consists of faultless option arguments only —
  groups `-…` / `+…` all of whose letters are options (cancellable ones behind `+`) and, when long names are on,
  long options denoting exactly one (cancellable) option; no `--`, no operand.
-/
import YashModel.Args.TypesetLemmas
import YashModel.Generated.ArgSpecs
namespace YashModel.Args.Typeset

theorem parseLoop_group {specs : List TSpec} {ln : Bool} {a : Str} {negate : Bool} {letters : Str}
    (h : shape a = .group negate letters) (rest : List Str) :
    parseLoop specs ln (a :: rest) =
      match shortLoop specs negate letters with
      | .error e => .error e
      | .ok os => prepend os (parseLoop specs ln rest) := by
  rw [parseLoop_cons, h]; rfl

theorem parseLoop_long {specs : List TSpec} {ln : Bool} {a : Str} {negate : Bool} {name : Str}
    (h : shape a = .long negate name) (rest : List Str) :
    parseLoop specs ln (a :: rest) =
      match longResolve (longCandidates specs name) negate ln with
      | .error e => .error e
      | .ok o => prepend [o] (parseLoop specs ln rest) := by
  rw [parseLoop_cons, h]; rfl

/-! ## the argument shapes -/

/-- ★ typeset, `set` and the shell's command line examine the same arguments as option groups: the prologue of
    typeset's `try_parse_short` is the function `Bespoke.shortSign` that `shape_group_characterised` describes -/
theorem typeset_examines_groups_like_set (a : Str) : shortSign a = Bespoke.shortSign a :=
  shortSign_eq_bespoke a

/-- ★ what the code's `parse` does with the first argument is decided by its Spec shape -/
theorem typeset_parse_by_shape (specs : List TSpec) (ln : Bool) (a : Str) (rest : List Str) :
    parse specs ln (a :: rest) =
      match shape a with
      | .separator => .ok ([], rest)
      | .operand => .ok ([], a :: rest)
      | .group negate letters =>
        (match shortLoop specs negate letters with
         | .error e => .error e
         | .ok os => prepend os (parse specs ln rest))
      | .long negate name =>
        (match longResolve (longCandidates specs name) negate ln with
         | .error e => .error e
         | .ok o => prepend [o] (parse specs ln rest)) :=
  parseLoop_cons specs ln a rest

/-! ## `--` and the first operand end option parsing -/

/-- ★ `--` ends option parsing: behind any options-only prefix, everything after the first `--` is an operand,
    verbatim — whatever it is (another `--`, `-f`, `++x` …).  All tables, both modes. -/
theorem typeset_dashdash_ends {specs : List TSpec} {ln : Bool} {pre : List Str} {os : List Occ}
    (h : optionsOnly specs ln pre = some os) (xs : List Str) :
    parse specs ln (pre ++ dashdash :: xs) = .ok (os, xs) := by
  unfold parse
  rw [parseLoop_after_options h]
  simp [parseLoop, prepend]

/-- the case the round-7 seeded change is about: a second `--` is an operand -/
theorem typeset_second_dashdash_is_operand {specs : List TSpec} {ln : Bool} {pre : List Str} {os : List Occ}
    (h : optionsOnly specs ln pre = some os) (xs : List Str) :
    parse specs ln (pre ++ dashdash :: dashdash :: xs) = .ok (os, dashdash :: xs) :=
  typeset_dashdash_ends h (dashdash :: xs)

/-- ★ the first operand ends option parsing, and stays -/
theorem typeset_first_operand_ends {specs : List TSpec} {ln : Bool} {pre : List Str} {os : List Occ}
    (h : optionsOnly specs ln pre = some os) (x : Str) (hx : shape x = .operand) (xs : List Str) :
    parse specs ln (pre ++ x :: xs) = .ok (os, x :: xs) := by
  unfold parse
  rw [parseLoop_after_options h, parseLoop_cons, hx]
  simp [prepend]

/-! ## equivalent spellings -/

/-- ★ grouped = separate, at any argument position, for every table and both modes: `-c<cs>` ≡ `-c -<cs>`
    (`+c<cs>` ≡ `+c +<cs>`) when `c` and the first of `cs` are not the sign itself -/
theorem typeset_group_eq_separate {specs : List TSpec} {ln : Bool} {pre : List Str} {os : List Occ}
    (h : optionsOnly specs ln pre = some os) (negate : Bool) (c : Char) (cs : Str) (xs : List Str)
    (hc : c ≠ signChar negate) (hcs : cs ≠ []) (hhd : cs.head? ≠ some (signChar negate)) :
    parse specs ln (pre ++ (signChar negate :: c :: cs) :: xs) =
      parse specs ln (pre ++ [signChar negate, c] :: (signChar negate :: cs) :: xs) := by
  unfold parse
  rw [parseLoop_after_options h, parseLoop_after_options h]
  congr 1
  obtain ⟨d, ds, rfl⟩ := List.exists_cons_of_ne_nil hcs
  have hd : d ≠ signChar negate := by simpa using hhd
  have s1 : shape (signChar negate :: c :: d :: ds) = .group negate (c :: d :: ds) := by
    cases negate <;> simp_all [shape, signChar]
  have s2 : shape [signChar negate, c] = .group negate [c] := single_shape hc
  have s3 : shape (signChar negate :: d :: ds) = .group negate (d :: ds) := by
    cases negate <;> simp_all [shape, signChar]
  rw [parseLoop_group s1, parseLoop_group s2]
  have := shortLoop_append specs negate [c] (d :: ds)
  simp only [List.singleton_append] at this
  rw [this]
  cases h1 : shortLoop specs negate [c] with
  | error e => rfl
  | ok o1 =>
    simp only []
    rw [parseLoop_group s3]
    cases h2 : shortLoop specs negate (d :: ds) with
    | error e => rfl
    | ok o2 => simp only []; rw [prepend_append]

/-- ★ a long option means its letter: if the (possibly abbreviated) name denotes exactly one option (one that may
    be cancelled, behind `++`), then `--name` ≡ `-c` and `++name` ≡ `+c` — exactly, the occurrences carry no
    spelling.  Well-formed tables, long names on. -/
theorem typeset_long_eq_short {specs : List TSpec} (wf : WellFormed specs) {pre : List Str} {os : List Occ}
    (h : optionsOnly specs true pre = some os) (negate : Bool) (name : Str) (s : TSpec)
    (hd : denotes specs negate name = some s) (hname : negate = false → name ≠ []) (xs : List Str) :
    parse specs true (pre ++ (signChar negate :: signChar negate :: name) :: xs) =
      parse specs true (pre ++ [signChar negate, s.short] :: xs) := by
  unfold parse
  rw [parseLoop_after_options h, parseLoop_after_options h]
  congr 1
  have hshape : shape (signChar negate :: signChar negate :: name) = .long negate name := by
    cases negate with
    | true => simp [shape, signChar]
    | false => simp [shape, signChar, hname rfl]
  have hoa : optionArg specs true (signChar negate :: signChar negate :: name) = some [{ spec := s, state := !negate }] := by
    simp [optionArg, hshape, hd]
  have hs := (singles_spec wf hoa).1
  have hso : singlesOf specs (signChar negate :: signChar negate :: name) = [[signChar negate, s.short]] := by
    simp [singlesOf, hshape, hd]
  rw [hso] at hs
  rw [parseLoop_optionArg hoa]
  exact (parseLoop_after_options hs xs).symm

/-- ★ one theorem for every mixture of the rewrites anywhere in the vector: the canonical spelling (every group
    split into letters, every long option that denotes one option replaced by its letter) parses alike -/
theorem typeset_canonical_same_parse {specs : List TSpec} (wf : WellFormed specs) (ln : Bool) (args : List Str) :
    parse specs ln (canon specs ln args) = parse specs ln args :=
  parseLoop_canon wf ln args

/-- ★ equivalent spellings (same canonical spelling) of an invocation come to the same command or the same error —
    through `interpret` as well, in every `portable` state -/
theorem typeset_equivalent_spellings_same_outcome {specs : List TSpec} (wf : WellFormed specs) (ln portable : Bool)
    (a b : List Str) (h : canon specs ln a = canon specs ln b) : run specs ln portable a = run specs ln portable b := by
  unfold run
  rw [← typeset_canonical_same_parse wf ln a, ← typeset_canonical_same_parse wf ln b, h]

/-- the canonical spelling of an accepted vector is canonical: single-letter options, then `--` / an operand -/
theorem typeset_canon_is_canonical {specs : List TSpec} (wf : WellFormed specs) (ln : Bool) (args : List Str)
    {r : List Occ × List Str} (h : parse specs ln args = .ok r) : isCanonical (canon specs ln args) = true :=
  canon_canonical wf ln args h

/-- ☆ what the code's parser accepts, it reads as the ten-line reference reader reads the canonical spelling -/
theorem typeset_parse_is_read_of_canonical {specs : List TSpec} (wf : WellFormed specs) (ln : Bool) (args : List Str)
    {r : List Occ × List Str} (h : parse specs ln args = .ok r) : read specs (canon specs ln args) = .ok r := by
  rw [read_eq_parseLoop specs ln _ (canon_canonical wf ln args h), parseLoop_canon wf ln args]
  exact h

/-- ★ a long option may be abbreviated to any prefix that denotes one option: `--p` ≡ `--<full name>` (same for
    `++`), every table, both modes, any position -/
theorem typeset_long_prefix {specs : List TSpec} {ln : Bool} {pre : List Str} {os : List Occ}
    (h : optionsOnly specs ln pre = some os) (negate : Bool) (p : Str) (s : TSpec)
    (hp : longCandidates specs p = [s]) (hne : p ≠ []) (xs : List Str) :
    parse specs ln (pre ++ (signChar negate :: signChar negate :: p) :: xs) =
      parse specs ln (pre ++ (signChar negate :: signChar negate :: s.long) :: xs) := by
  have hmem : s ∈ longCandidates specs p := by rw [hp]; simp
  have hpre : p.isPrefixOf s.long = true := by
    have := (List.mem_filter.1 hmem).2; simpa [startsWith] using this
  have hlne : s.long ≠ [] := by
    intro h0; rw [h0] at hpre; cases p with
    | nil => exact hne rfl
    | cons c cs => simp at hpre
  have hfull : longCandidates specs s.long = [s] := by
    unfold longCandidates at hp ⊢
    apply filter_refine _ _ specs s hp
    · intro t ht
      simp only [startsWith] at ht ⊢
      rw [List.isPrefixOf_iff_prefix] at ht hpre ⊢
      exact hpre.trans ht
    · simp [startsWith]
  have sh : ∀ n : Str, n ≠ [] → shape (signChar negate :: signChar negate :: n) = .long negate n := by
    intro n hn; cases negate <;> simp [shape, signChar, hn]
  unfold parse
  rw [parseLoop_after_options h, parseLoop_after_options h, parseLoop_long (sh p hne), parseLoop_long (sh s.long hlne), hp, hfull]

/-! ## malformed vectors are rejected, and only those -/

/-- ★ rejected ⇔ behind an options-only prefix stands an argument with a defect (a group with a letter that is no
    option or cannot be cancelled; a long name that denotes nothing / several options / an option that cannot be
    cancelled / is used while long names are off) — with exactly that error.  All tables, both modes. -/
theorem typeset_rejected_iff (specs : List TSpec) (ln : Bool) (args : List Str) (e : PErr) :
    parse specs ln args = .error e ↔
      ∃ pre os x post, args = pre ++ x :: post ∧ optionsOnly specs ln pre = some os ∧ argDefect specs ln x = some e := by
  unfold parse
  constructor
  · intro h
    rcases parseLoop_cases specs ln args with ⟨os, _, hp⟩ | ⟨pre, os, x, post, hargs, hpre, hx⟩
    · rw [hp] at h; simp at h
    · rcases hx with ⟨_, hp⟩ | ⟨_, hp⟩ | ⟨e', hd, hp⟩
      · rw [hp] at h; simp at h
      · rw [hp] at h; simp at h
      · rw [hp] at h; simp at h; subst h
        exact ⟨pre, os, x, post, hargs, hpre, hd⟩
  · rintro ⟨pre, os, x, post, rfl, hpre, hd⟩
    exact parseLoop_error_prefix hpre (parseLoop_defect hd post)

/-- ★ a group `sign good… c tl…` whose letters `good` are faultless and whose letter `c` is no option is rejected as
    `unknownShort c`, at every argument position, whatever follows -/
theorem typeset_unknown_letter_rejected {specs : List TSpec} {ln : Bool} {pre : List Str} {os : List Occ}
    (h : optionsOnly specs ln pre = some os) (negate : Bool) (good : Str) (c : Char) (tl : Str) (xs : List Str)
    (hgood : good.all (letterOk specs negate) = true) (hc : findShort specs c = none)
    (hhd : (good ++ c :: tl).head? ≠ some (signChar negate)) :
    parse specs ln (pre ++ (signChar negate :: (good ++ c :: tl)) :: xs) = .error (.unknownShort c) := by
  apply (typeset_rejected_iff specs ln _ _).2
  refine ⟨pre, os, _, xs, rfl, h, ?_⟩
  have hsh : shape (signChar negate :: (good ++ c :: tl)) = .group negate (good ++ c :: tl) := by
    cases hl : good ++ c :: tl with
    | nil => simp at hl
    | cons d ds =>
      rw [hl] at hhd
      have : d ≠ signChar negate := by simpa using hhd
      cases negate <;> simp_all [shape, signChar]
  simp only [argDefect, hsh, List.findSome?_append, (all_ok_iff_no_defect specs negate good).1 hgood]
  simp [letterDefect, hc]

/-- ★ `+…p…`: cancelling an option that is no attribute is rejected as `uncancelableShort`, same generality -/
theorem typeset_uncancelable_letter_rejected {specs : List TSpec} {ln : Bool} {pre : List Str} {os : List Occ}
    (h : optionsOnly specs ln pre = some os) (good : Str) (c : Char) (s : TSpec) (tl : Str) (xs : List Str)
    (hgood : good.all (letterOk specs true) = true) (hc : findShort specs c = some s) (hattr : s.attr = none)
    (hhd : (good ++ c :: tl).head? ≠ some '+') :
    parse specs ln (pre ++ ('+' :: (good ++ c :: tl)) :: xs) = .error (.uncancelableShort c) := by
  apply (typeset_rejected_iff specs ln _ _).2
  refine ⟨pre, os, _, xs, rfl, h, ?_⟩
  have hsh : shape ('+' :: (good ++ c :: tl)) = .group true (good ++ c :: tl) := by
    cases hl : good ++ c :: tl with
    | nil => simp at hl
    | cons d ds =>
      rw [hl] at hhd
      have : d ≠ '+' := by simpa using hhd
      simp_all [shape]
  simp only [argDefect, hsh, List.findSome?_append, (all_ok_iff_no_defect specs true good).1 hgood]
  simp [letterDefect, hc, hattr]

/-- ★ long options: no candidate → `unknownLong`; two or more → `ambiguousLong`; one that `++` cannot cancel →
    `uncancelableLong` even while long names are off; one, long names off → `nonPortableLong` -/
theorem typeset_long_rejected {specs : List TSpec} {ln : Bool} {pre : List Str} {os : List Occ}
    (h : optionsOnly specs ln pre = some os) (negate : Bool) (name : Str) (hname : negate = false → name ≠ [])
    (xs : List Str) (e : PErr) (hd : longDefect specs ln negate name = some e) :
    parse specs ln (pre ++ (signChar negate :: signChar negate :: name) :: xs) = .error e := by
  apply (typeset_rejected_iff specs ln _ _).2
  refine ⟨pre, os, _, xs, rfl, h, ?_⟩
  have hshape : shape (signChar negate :: signChar negate :: name) = .long negate name := by
    cases negate with
    | true => simp [shape, signChar]
    | false => simp [shape, signChar, hname rfl]
  simp [argDefect, hshape, hd]

/-- ★ whatever `parse` accepts, every occurrence it delivers carries a spec OF THE TABLE (found under its letter or as
    the single candidate of a long name) — what C16's `c20_parse_feeds_builtin_model` asks of the occurrences -/
theorem typeset_occurrences_from_table (specs : List TSpec) (ln : Bool) : ∀ (args : List Str) (os : List Occ) (ops : List Str),
    parse specs ln args = .ok (os, ops) → ∀ o ∈ os, o.spec ∈ specs := by
  unfold parse
  intro args
  induction args with
  | nil => intro os ops h; simp [parseLoop] at h; simp [h.1]
  | cons a rest ih =>
    intro os ops h
    rw [parseLoop_cons] at h
    cases hs : shape a with
    | separator => simp [hs] at h; simp [h.1]
    | operand => simp [hs] at h; simp [h.1]
    | group negate letters =>
      simp only [hs] at h
      cases h1 : shortLoop specs negate letters with
      | error e => simp [h1] at h
      | ok o1 =>
        simp only [h1] at h
        cases h2 : parseLoop specs ln rest with
        | error e => simp [h2, prepend] at h
        | ok q =>
          obtain ⟨o2, ops2⟩ := q
          simp [h2, prepend] at h
          obtain ⟨rfl, rfl⟩ := h
          intro o ho
          rcases List.mem_append.1 ho with ho | ho
          · exact (shortLoop_specs_mem specs negate letters o1 h1 o ho).1
          · exact ih o2 ops2 h2 o ho
    | long negate name =>
      simp only [hs] at h
      cases h1 : longResolve (longCandidates specs name) negate ln with
      | error e => simp [h1] at h
      | ok o1 =>
        simp only [h1] at h
        cases h2 : parseLoop specs ln rest with
        | error e => simp [h2, prepend] at h
        | ok q =>
          obtain ⟨o2, ops2⟩ := q
          simp [h2, prepend] at h
          obtain ⟨rfl, rfl⟩ := h
          intro o ho
          simp at ho
          rcases ho with rfl | ho
          · unfold longResolve at h1
            cases hc : longCandidates specs name with
            | nil => simp [hc] at h1
            | cons s more =>
              simp only [hc] at h1
              split at h1
              · simp at h1
              · split at h1
                · simp at h1
                · split at h1
                  · simp at h1
                  · simp at h1; subst h1
                    have : s ∈ longCandidates specs name := by rw [hc]; simp
                    exact (List.mem_filter.1 this).1
          · exact ih o2 ops2 h2 o ho

/-! ## the re-extracted tables -/

def ofRow (r : Char × List Char × Nat) : TSpec :=
  { short := r.1, long := r.2.1, attr := if r.2.2 = 1 then some .readOnly else if r.2.2 = 2 then some .export else none }

/-- the tables `typeset`, `export` and `readonly` hand to `parse`, as re-extracted from /repo on every run -/
def realTables : List (List TSpec) := Generated.ArgSpecs.typesetTables.map (fun t => t.2.map ofRow)

/-- ☆ every real table is well formed (no sign as a letter, no letter twice) and made of options `interpret` knows
    (its `attr.unwrap()` cannot panic) — so the theorems above apply to the three built-ins unconditionally -/
theorem real_tables_wellformed_interpretable : ∀ t ∈ realTables, WellFormed t ∧ Interpretable t := by decide

/-- ☆ in every real table every non-empty prefix of every long name denotes that option alone (no two names share a
    first letter): every abbreviation is unambiguous, and no name is a prefix of another -/
theorem real_tables_every_prefix_unambiguous :
    ∀ t ∈ realTables, ∀ s ∈ t, ∀ k ∈ List.range s.long.length, longCandidates t (s.long.take (k + 1)) = [s] := by decide

/-- ☆ the letters `interpret` tells apart are the ones `scanStep` tests, as re-extracted from its `match` arms -/
theorem interpret_letters_extracted :
    Generated.ArgSpecs.interpretLetters = [('X', "unexport"), ('f', "functions"), ('g', "global"), ('p', "print")] := by decide

/-! ## non-vacuity -/

def exT : List TSpec := realTables.getD 2 []

example : exT.map (·.short) = ['f', 'g', 'p', 'r', 'x', 'X'] := by decide
example : optionsOnly exT true [['-','r','x'], "++export".toList] =
    some [⟨ofRow ('r', "readonly".toList, 1), true⟩, ⟨ofRow ('x', "export".toList, 2), true⟩, ⟨ofRow ('x', "export".toList, 2), false⟩] := by decide
/-- `typeset -rx ++export -- -- -f`: the second `--` and `-f` are operands -/
example : parse exT true ([['-','r','x'], "++export".toList] ++ dashdash :: dashdash :: [['-','f']]) =
    .ok ([⟨ofRow ('r', "readonly".toList, 1), true⟩, ⟨ofRow ('x', "export".toList, 2), true⟩, ⟨ofRow ('x', "export".toList, 2), false⟩],
      [dashdash, ['-','f']]) :=
  typeset_second_dashdash_is_operand (by decide) _
example : canon exT true [['-','r','x'], "++ex".toList, "--p".toList, ['a'], ['-','f']] =
    [['-','r'], ['-','x'], ['+','x'], ['-','p'], ['a'], ['-','f']] := by decide
example : parse exT true [['+','r','p']] = .error (.uncancelableShort 'p') :=
  typeset_uncancelable_letter_rejected (pre := []) rfl ['r'] 'p' (ofRow ('p', "print".toList, 0)) [] [] (by decide) (by decide) (by decide) (by decide)
example : parse exT true [['-','r','-']] = .error (.unknownShort '-') :=
  typeset_unknown_letter_rejected (pre := []) rfl false ['r'] '-' [] [] (by decide) (by decide) (by decide)
example : parse exT false ["++print".toList] = .error .uncancelableLong :=
  typeset_long_rejected (pre := []) rfl true "print".toList (by simp) [] _ (by decide)
example : parse exT false ["--print".toList] = .error .nonPortableLong :=
  typeset_long_rejected (pre := []) rfl false "print".toList (by decide) [] _ (by decide)
example : parse exT true ["--re".toList, ['v']] = parse exT true ["--readonly".toList, ['v']] :=
  typeset_long_prefix (pre := []) rfl false "re".toList (ofRow ('r', "readonly".toList, 1)) (by decide) (by decide) [['v']]
example : run exT true false [['-','f','x']] =
    .interpretError (.inapplicable ⟨ofRow ('x', "export".toList, 2), true⟩ ⟨ofRow ('f', "functions".toList, 0), true⟩) := by decide
example : run exT true false [['-','g','r'], ['v','=','1']] = .cmd (.setVariables [['v','=','1']] [(.readOnly, true)] true) := by decide
/-- a table with nested names: typeset's parser gives the exactly named option no preference -/
example : parse [⟨'a', "re".toList, some .readOnly⟩, ⟨'b', "rex".toList, some .export⟩] true ["--re".toList] = .error .ambiguousLong := rfl

end YashModel.Args.Typeset
