/-
  C20 — property theorems ONLY: the audit of how EVERY built-in of yash-builtin parses its arguments (re-extracted by
  tools/tables/args.py from lib.rs and every module on every run; a built-in with a parser of its own that is not one of
  the modelled ones makes the extractor fail), and the generic theorems about `parse_arguments` instantiated for the
  re-extracted table of every built-in that goes through it.
-/
import YashModel.Args.Theorems
import YashModel.Args.CanonLemmas
import YashModel.Args.EndOfOptionsTheorems
import YashModel.Generated.ArgSpecs
namespace YashModel.Args
open YashModel.Generated

/-- ☆ the built-ins and their parsers, pinned: a new built-in, or one that changes the way it parses, has to be looked at -/
theorem builtin_parsers_audited :
    ArgSpecs.builtinParsers.map (fun e => (e.1, e.2.1)) =
      [("alias", "common"), ("bg", "common"), ("break", "common"), ("cd", "common"), ("colon", "ignores"),
       ("command", "common"), ("continue", "as:break"), ("eval", "common"), ("exec", "common"), ("exit", "common"),
       ("export", "typeset"), ("false", "noarg"), ("fg", "common"), ("getopts", "common+walker"), ("jobs", "common"),
       ("kill", "bespoke"), ("pwd", "common"), ("read", "common"), ("readonly", "typeset"), ("return", "common"),
       ("set", "bespoke"), ("shift", "common"), ("source", "common"), ("times", "common"), ("trap", "common"),
       ("true", "noarg"), ("type", "common"), ("typeset", "bespoke"), ("ulimit", "common"), ("umask", "common"),
       ("unalias", "common"), ("unset", "common"), ("wait", "common")] := by decide

/-- ☆ every built-in that hands a named table to `parse_arguments` has that table among the extracted ones (the others
    use the empty table `&[]`: every `-x` / `--x` is an unknown option) -/
theorem common_builtins_have_tables :
    ∀ e ∈ ArgSpecs.builtinParsers, e.2.1 = "common" →
      e.2.2 = ["[]"] ∨ (ArgSpecs.all.any fun t => t.1 == e.1) = true := by decide

/-- the option tables of the real built-ins as `OptionSpec`s (the empty table of the others included) -/
def builtinTables : List (List OptionSpec) := [] :: ArgSpecs.all.map (fun t => t.2.map rowSpec)

/-- ☆ every one of them respects the documented naming rules -/
theorem builtin_tables_well_named : ∀ t ∈ builtinTables, WellNamed t := by
  intro t ht
  apply wellNamed_of_namesOk
  revert t
  decide

/-- ★ so for every built-in that goes through `parse_arguments` (cd, command, exit, jobs, pwd, read, return, trap, type,
    ulimit, umask, unalias, unset, and the ones with the empty table), in the default mode: every accepted invocation is
    read as the ten-line reference reader reads its canonical spelling, equivalent spellings parse alike, and a second
    `--` is an operand — the generic theorems, their hypotheses discharged for the re-extracted tables -/
theorem builtin_parse_is_read_of_canonical : ∀ t ∈ builtinTables, ∀ (args : List Str) r,
    (parseArguments t Mode.withExtensions args).view = .ok r →
      Spec.readCanon t Mode.withExtensions (Spec.canon t args) = .ok r :=
  fun t ht args r h => parse_is_read_of_canonical t Mode.withExtensions rfl (builtin_tables_well_named t ht) args r h

theorem builtin_equivalent_spellings_same_parse : ∀ t ∈ builtinTables, ∀ (a b : List Str),
    Spec.canon t a = Spec.canon t b →
      (parseArguments t Mode.withExtensions a).view = (parseArguments t Mode.withExtensions b).view :=
  fun t _ a b h => equivalent_spellings_same_parse t Mode.withExtensions rfl a b h

/-- `cd -- --`: the operand is `--` (the invocation the round-7 seeded change sends home) -/
example : parseArguments ((ArgSpecs.specs_cd).map rowSpec) Mode.withExtensions [dashdash, dashdash] = .ok ([], [dashdash]) :=
  second_dashdash_is_operand _ _ [] [] [] rfl

end YashModel.Args
