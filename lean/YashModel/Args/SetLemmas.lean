/-
  C20 — helper lemmas for the `set` built-in (property theorems: `SetTheorems.lean`):
  * the shapes of an argument (`shape`) characterised, and tied to the prologue of `try_parse_short` /
    `try_parse_long` (`shortSign`, `setLong`);
  * the Impl loop of `parse` equals the argument-at-a-time reference reader (`setLoop_eq_readArgs`);
  * a prefix that is consumed as options (`SetOptionsOnly`) and what a group with a bad letter does.
-/
import YashModel.Args.BespokeLemmas
import YashModel.Args.SetSpec
namespace YashModel.Args.Bespoke

/-! ## shapes -/

theorem signChar_false : signChar false = '-' := rfl
theorem signChar_true : signChar true = '+' := rfl

theorem isSign_iff (c : Char) : isSign c = true ↔ c = '-' ∨ c = '+' := by
  simp [isSign]

theorem isSign_signChar (neg : Bool) : isSign (signChar neg) = true := by cases neg <;> rfl

theorem signChar_eq_plus (neg : Bool) : (signChar neg == '+') = neg := by cases neg <;> rfl

theorem shape_group_iff (a : Str) (neg : Bool) (ls : Str) :
    shape a = .group neg ls ↔ a = signChar neg :: ls ∧ ls ≠ [] ∧ ls.head? ≠ some (signChar neg) := by
  constructor
  · intro h
    match a, h with
    | [c], h => by_cases hc : c = '-' <;> simp [shape, hc] at h
    | s :: c :: cs, h =>
      by_cases hs : isSign s = true
      · rcases (isSign_iff s).1 hs with rfl | rfl
        · by_cases hc : c = '-'
          · subst hc; cases cs <;> simp [shape, isSign] at h
          · simp [shape, isSign, hc] at h
            obtain ⟨h1, h2⟩ := h
            subst h1 h2
            exact ⟨rfl, by simp, by simpa [signChar] using hc⟩
        · by_cases hc : c = '+'
          · subst hc; simp [shape, isSign] at h
          · simp [shape, isSign, hc] at h
            obtain ⟨h1, h2⟩ := h
            subst h1 h2
            exact ⟨rfl, by simp, by simpa [signChar] using hc⟩
      · simp [shape, hs] at h
  · rintro ⟨rfl, hne, hh⟩
    match ls, hne, hh with
    | c :: cs, _, hh =>
      have hc : c ≠ signChar neg := by simpa using hh
      simp [shape, isSign_signChar, hc, signChar_eq_plus]

theorem shape_long_iff (a : Str) (neg : Bool) (name : Str) :
    shape a = .long neg name ↔ a = signChar neg :: signChar neg :: name ∧ (neg = false → name ≠ []) := by
  constructor
  · intro h
    match a, h with
    | [c], h => by_cases hc : c = '-' <;> simp [shape, hc] at h
    | s :: c :: cs, h =>
      by_cases hs : isSign s = true
      · rcases (isSign_iff s).1 hs with rfl | rfl
        · by_cases hc : c = '-'
          · subst hc
            cases cs with
            | nil => simp [shape, isSign] at h
            | cons d ds =>
              simp [shape, isSign] at h
              obtain ⟨h1, h2⟩ := h
              subst h1 h2
              exact ⟨rfl, fun _ => by simp⟩
          · simp [shape, isSign, hc] at h
        · by_cases hc : c = '+'
          · subst hc
            simp [shape, isSign] at h
            obtain ⟨h1, h2⟩ := h
            subst h1 h2
            exact ⟨rfl, fun hf => by simp at hf⟩
          · simp [shape, isSign, hc] at h
      · simp [shape, hs] at h
  · rintro ⟨rfl, hne⟩
    cases neg with
    | false => simp [shape, isSign, signChar, hne rfl]
    | true => simp [shape, isSign, signChar]

theorem shape_separator_iff (a : Str) : shape a = .separator ↔ a = ['-'] ∨ a = ['-', '-'] := by
  constructor
  · intro h
    match a, h with
    | [c], h =>
      by_cases hc : c = '-'
      · left; rw [hc]
      · simp [shape, hc] at h
    | s :: c :: cs, h =>
      by_cases hs : isSign s = true
      · rcases (isSign_iff s).1 hs with rfl | rfl
        · by_cases hc : c = '-'
          · subst hc
            cases cs with
            | nil => right; rfl
            | cons d ds => simp [shape, isSign] at h
          · simp [shape, isSign, hc] at h
        · by_cases hc : c = '+'
          · subst hc; simp [shape, isSign] at h
          · simp [shape, isSign, hc] at h
      · simp [shape, hs] at h
  · rintro (rfl | rfl) <;> simp [shape, isSign]

/-- the prologue of `try_parse_short` is the `group` shape -/
theorem shape_of_shortSign (a : Str) (neg : Bool) (h : shortSign a = some neg) :
    shape a = .group neg (a.drop 1) := by
  obtain ⟨c, cs, rfl, hc⟩ := shortSign_cases a neg h
  exact (shape_group_iff _ _ _).2 ⟨rfl, by simp, by simpa using hc⟩

theorem shortSign_of_shape (a : Str) (neg : Bool) (ls : Str) (h : shape a = .group neg ls) :
    shortSign a = some neg ∧ a.drop 1 = ls := by
  obtain ⟨rfl, hne, hh⟩ := (shape_group_iff _ _ _).1 h
  match ls, hne, hh with
  | c :: cs, _, hh =>
    have hc : c ≠ signChar neg := by simpa using hh
    exact ⟨shortSign_single neg c cs hc, rfl⟩

theorem shortSign_none_of_shape (a : Str) (h : ∀ neg ls, shape a ≠ .group neg ls) : shortSign a = none := by
  cases hs : shortSign a with
  | none => rfl
  | some neg => exact absurd (shape_of_shortSign a neg hs) (h neg _)

/-! ## names and letters: Impl arms = Spec judgements -/

theorem oArm_eq_judge (nm : Names) (neg p : Bool) (rest : Str) (next : Option Str) :
    oArm nm neg p rest next SetErr.missingArgument .unknownLong .ambiguousLong .unmodifiableLong
        .nonPortableLong .unseparated true =
      if rest.isEmpty then
        (match next with
         | none => .error .missingArgument
         | some x => match judgeName nm p neg false x with
           | .error e => .error e
           | .ok (o, p') => .ok ([o], true, p'))
      else
        (match judgeName nm p neg true rest with
         | .error e => .error e
         | .ok (o, p') => .ok ([o], false, p')) := by
  cases rest with
  | nil =>
    cases next with
    | none => simp [oArm]
    | some x =>
      cases hpl : nm.parseLong x with
      | noSuch => simp [oArm, judgeName, hpl]
      | ambiguous => simp [oArm, judgeName, hpl]
      | ok opt st =>
        by_cases hm : (nm.infoOf opt).modifiable = true <;>
          cases p <;> cases hip : isPortableLongName nm x opt st <;>
          simp_all [oArm, judgeName]
  | cons c cs =>
    cases hpl : nm.parseLong (c :: cs) with
    | noSuch => simp [oArm, judgeName, hpl]
    | ambiguous => simp [oArm, judgeName, hpl]
    | ok opt st =>
      by_cases hm : (nm.infoOf opt).modifiable = true <;>
        cases p <;> cases hip : isPortableLongName nm (c :: cs) opt st <;>
        simp_all [oArm, judgeName]

/-- the cluster loop of `try_parse_short` in terms of the reader's `readLetters` -/
theorem setShortLoop_eq_readLetters (nm : Names) (neg : Bool) (next : Option Str) (p : Bool) :
    ∀ ls : Str, setShortLoop nm neg next p ls =
      match readLetters nm neg p ls with
      | .error e => .error e
      | .ok (os, p', false) => .ok (os, false, p')
      | .ok (os, p', true) =>
        (match next with
         | none => .error .missingArgument
         | some x => match judgeName nm p' neg false x with
           | .error e => .error e
           | .ok (o, p'') => .ok (os ++ [o], true, p'')) := by
  intro ls
  induction ls with
  | nil => simp [setShortLoop, readLetters]
  | cons c rest ih =>
    rw [setShortLoop_cons]
    by_cases hc : c = 'o'
    · subst hc
      rw [if_pos rfl, oArm_eq_judge]
      cases rest with
      | nil =>
        cases next with
        | none => simp [readLetters]
        | some x =>
          simp only [readLetters, List.isEmpty_nil, if_true]
          cases judgeName nm p neg false x with
          | error e => rfl
          | ok q => obtain ⟨o, p'⟩ := q; simp
      | cons d ds =>
        simp only [readLetters, List.isEmpty_cons, if_true]
        cases judgeName nm p neg true (d :: ds) with
        | error e => simp
        | ok q => obtain ⟨o, p'⟩ := q; simp
    · rw [if_neg hc, ih]
      simp only [readLetters, hc, if_false]
      cases setLetter nm neg p c with
      | error e => simp [thenCons]
      | ok o =>
        cases readLetters nm neg p rest with
        | error e => simp [thenCons, consOpt]
        | ok q =>
          obtain ⟨os, p', pend⟩ := q
          cases pend with
          | false => simp [thenCons, consOpt]
          | true =>
            cases next with
            | none => simp [thenCons, consOpt]
            | some x =>
              cases hj : judgeName nm p' neg false x with
              | error e => simp [thenCons, consOpt, hj]
              | ok r => obtain ⟨o2, p''⟩ := r; simp [thenCons, consOpt, hj]

theorem setLong_dash (nm : Names) (p : Bool) (d : Char) (ds : Str) :
    Step.ofLong (setLong nm p ('-' :: '-' :: d :: ds)) =
      match judgeLongForm nm p false (d :: ds) with
      | .error e => Step.fail e
      | .ok (o, p') => Step.opts [o] false p' := by
  cases hpl : nm.parseLong (d :: ds) with
  | noSuch => simp [setLong, judgeLongForm, hpl, Step.ofLong]
  | ambiguous => simp [setLong, judgeLongForm, hpl, Step.ofLong]
  | ok opt st =>
    by_cases hm : (nm.infoOf opt).modifiable = true <;> cases p <;>
      simp_all [setLong, judgeLongForm, Step.ofLong]

theorem setLong_plus (nm : Names) (p : Bool) (cs : Str) :
    Step.ofLong (setLong nm p ('+' :: '+' :: cs)) =
      match judgeLongForm nm p true cs with
      | .error e => Step.fail e
      | .ok (o, p') => Step.opts [o] false p' := by
  cases hpl : nm.parseLong cs with
  | noSuch => simp [setLong, judgeLongForm, hpl, Step.ofLong]
  | ambiguous => simp [setLong, judgeLongForm, hpl, Step.ofLong]
  | ok opt st =>
    by_cases hm : (nm.infoOf opt).modifiable = true <;> cases p <;>
      simp_all [setLong, judgeLongForm, Step.ofLong]

/-- `try_parse_long` in terms of the reader's shapes -/
theorem setLong_eq_shape (nm : Names) (p : Bool) (a : Str) (h : shortSign a = none) :
    Step.ofLong (setLong nm p a) =
      match shape a with
      | .long neg name =>
        (match judgeLongForm nm p neg name with
         | .error e => Step.fail e
         | .ok (o, p') => Step.opts [o] false p')
      | _ => Step.stop := by
  match a, h with
  | [], _ => simp [setLong, shape, Step.ofLong]
  | [c], _ => by_cases hc : c = '-' <;> simp [setLong, shape, Step.ofLong, hc]
  | s :: c :: cs, h =>
    by_cases hs : isSign s = true
    · rcases (isSign_iff s).1 hs with rfl | rfl
      · have hc : c = '-' := by
          by_cases hc : c = '-'
          · exact hc
          · simp [shortSign, hc] at h
        subst hc
        cases cs with
        | nil => simp [setLong, shape, isSign, Step.ofLong]
        | cons d ds => rw [setLong_dash]; simp [shape, isSign]
      · have hc : c = '+' := by
          by_cases hc : c = '+'
          · exact hc
          · simp [shortSign, hc] at h
        subst hc
        rw [setLong_plus]; simp [shape, isSign]
    · have h1 : s ≠ '-' := fun e => hs (by simp [e, isSign])
      have h2 : s ≠ '+' := fun e => hs (by simp [e, isSign])
      simp [setLong, shape, hs, h1, h2, Step.ofLong]

@[simp] theorem prependO_error (os : List (Str × Bool)) (e : ε) :
    prependO os (Except.error e : Looped ε) = .error e := rfl

/-! ## the loop of `parse` is the reference reader -/

theorem readArgs_pending_cons (nm : Names) (p neg : Bool) (a : Str) (rest : List Str) :
    readArgs nm p (some neg) (a :: rest) =
      match judgeName nm p neg false a with
      | .error e => .error e
      | .ok (o, p') => prependO [o] (readArgs nm p' none rest) := by
  rw [readArgs]
  cases judgeName nm p neg false a <;> rfl

theorem setLoop_eq_readArgs (nm : Names) : ∀ (n : Nat) (args : List Str) (p : Bool), args.length ≤ n →
    setLoop nm p args = readArgs nm p none args := by
  intro n
  induction n with
  | zero =>
    intro args p h
    have : args = [] := List.length_eq_zero_iff.mp (Nat.le_zero.mp h)
    subst this
    simp [setLoop, readArgs]
  | succ n ih =>
    intro args p h
    cases args with
    | nil => simp [setLoop, readArgs]
    | cons a rest =>
      have hr : rest.length ≤ n := by simp at h; omega
      cases hs : shortSign a with
      | some neg =>
        have hshape := shape_of_shortSign a neg hs
        rw [setLoop_short nm p a rest neg hs, setShortLoop_eq_readLetters]
        rw [readArgs]
        simp only [hshape]
        cases readLetters nm neg p (a.drop 1) with
        | error e => simp [contS]
        | ok q =>
          obtain ⟨os, p', pend⟩ := q
          cases pend with
          | false => simp [contS, ih rest p' hr]
          | true =>
            cases rest with
            | nil => simp [contS, readArgs]
            | cons x rest' =>
              have hr' : rest'.length ≤ n := by simp at hr; omega
              simp only [List.head?_cons, if_true]
              rw [readArgs_pending_cons]
              cases judgeName nm p' neg false x with
              | error e => simp [contS]
              | ok r =>
                obtain ⟨o, p''⟩ := r
                simp [contS, ih rest' p'' hr']
      | none =>
        rw [setLoop_cons]
        have hl := setLong_eq_shape nm p a hs
        simp only [setStep, hs]
        rw [hl, readArgs]
        have hng : ∀ neg ls, shape a ≠ .group neg ls := by
          intro neg ls hg
          have := (shortSign_of_shape a neg ls hg).1
          rw [hs] at this
          cases this
        cases hsh : shape a with
        | operand => simp
        | separator => simp
        | group neg ls => exact absurd hsh (hng neg ls)
        | long neg name =>
          simp only
          cases judgeLongForm nm p neg name with
          | error e => simp
          | ok r => obtain ⟨o, p'⟩ := r; simp [ih rest p' hr]

theorem applyOptions_eq_specOptions (s : OptStates) (os : List (Str × Bool)) :
    applyOptions s os = specOptions s os := by
  induction os generalizing s with
  | nil => rfl
  | cons o rest ih => obtain ⟨n, st⟩ := o; simp [applyOptions, specOptions, ih]

theorem setParse_eq_specParse (nm : Names) (p : Bool) (args : List Str) :
    setParse nm p args = specParse nm p args := by
  unfold setParse specParse
  by_cases h1 : args = []
  · simp [h1]
  by_cases h2 : args = [['-', 'o']]
  · simp [h2]
  by_cases h3 : args = [['+', 'o']]
  · simp [h3]
  simp only [h1, h2, h3, if_false]
  rw [setLoop_eq_readArgs nm args.length args p (Nat.le_refl _)]
  cases readArgs nm p none args with
  | error e => rfl
  | ok q =>
    obtain ⟨os, rem⟩ := q
    cases rem with
    | nil => rfl
    | cons a rest =>
      simp only [finishSet]
      by_cases hsep : a = ['-', '-'] ∨ a = ['-']
      · have : shape a = .separator := (shape_separator_iff a).2 (by rcases hsep with h | h <;> simp [h])
        simp [hsep, this]
      · have : shape a ≠ .separator := fun hh => hsep (by rcases (shape_separator_iff a).1 hh with h | h <;> simp [h])
        simp [hsep, this]

/-! ## prefixes consumed as options -/

/-- `pre` is consumed entirely as options (with the names `-o` / `+o` take): the options in order and the
    `portable` state afterwards -/
inductive SetOptionsOnly (nm : Names) : Bool → List Str → List (Str × Bool) → Bool → Prop
  | nil (p : Bool) : SetOptionsOnly nm p [] [] p
  /-- an argument that is a complete option group / long option by itself -/
  | one (p : Bool) (a : Str) (os : List (Str × Bool)) (p' : Bool) (rest : List Str) (os' : List (Str × Bool)) (p'' : Bool) :
      (∀ next, setStep nm p a next = .opts os false p') → SetOptionsOnly nm p' rest os' p'' →
      SetOptionsOnly nm p (a :: rest) (os ++ os') p''
  /-- a group ending in `o` together with the name that follows it -/
  | two (p : Bool) (a x : Str) (os : List (Str × Bool)) (p' : Bool) (rest : List Str) (os' : List (Str × Bool)) (p'' : Bool) :
      setStep nm p a (some x) = .opts os true p' → SetOptionsOnly nm p' rest os' p'' →
      SetOptionsOnly nm p (a :: x :: rest) (os ++ os') p''

theorem setLoop_optionsOnly_append (nm : Names) {p : Bool} {pre : List Str} {os : List (Str × Bool)} {p' : Bool}
    (h : SetOptionsOnly nm p pre os p') (tail : List Str) :
    setLoop nm p (pre ++ tail) = prependO os (setLoop nm p' tail) := by
  induction h with
  | nil p => simp
  | one p a os p' rest os' p'' hstep _ ih =>
    rw [List.cons_append, setLoop_cons, hstep]
    simp [ih]
  | two p a x os p' rest os' p'' hstep _ ih =>
    rw [List.cons_append, List.cons_append, setLoop_cons]
    simp only [List.head?_cons, hstep]
    simp [ih]

theorem setStep_short (nm : Names) (p : Bool) (a : Str) (next : Option Str) (neg : Bool) (hs : shortSign a = some neg) :
    setStep nm p a next = Step.ofShort (setShortLoop nm neg next p (a.drop 1)) := by
  unfold setStep; rw [hs]

theorem setStep_long (nm : Names) (p : Bool) (a : Str) (next : Option Str) (hs : shortSign a = none) :
    setStep nm p a next = Step.ofLong (setLong nm p a) := by
  unfold setStep; rw [hs]

theorem setShortLoop_false_indep (nm : Names) (neg p : Bool) (ls : Str) (n n' : Option Str) (os : List (Str × Bool)) (p' : Bool)
    (h : setShortLoop nm neg n p ls = .ok (os, false, p')) : setShortLoop nm neg n' p ls = .ok (os, false, p') := by
  rw [setShortLoop_eq_readLetters] at h ⊢
  cases hr : readLetters nm neg p ls with
  | error e => rw [hr] at h; cases h
  | ok q =>
    obtain ⟨os1, p1, pend⟩ := q
    rw [hr] at h
    cases pend with
    | false => simpa using h
    | true =>
      cases n with
      | none => simp at h
      | some x => cases hj : judgeName nm p1 neg false x <;> simp [hj] at h

/-- an argument that is complete by itself never looks at the next one -/
theorem setStep_opts_false_indep (nm : Names) (p : Bool) (a : Str) (n n' : Option Str) (os : List (Str × Bool)) (p' : Bool)
    (h : setStep nm p a n = .opts os false p') : setStep nm p a n' = .opts os false p' := by
  cases hs : shortSign a with
  | none => rw [setStep_long nm p a _ hs] at h ⊢; exact h
  | some neg =>
    rw [setStep_short nm p a _ neg hs] at h ⊢
    cases hx : setShortLoop nm neg n p (a.drop 1) with
    | error e => rw [hx] at h; cases h
    | ok q =>
      obtain ⟨os1, took, p1⟩ := q
      rw [hx] at h
      simp only [Step.ofShort] at h
      injection h with h1 h2 h3
      subst h1 h2 h3
      rw [setShortLoop_false_indep nm neg p _ n n' _ _ hx]
      rfl

theorem prependO_eq_error (os : List (Str × Bool)) (r : Looped ε) (e : ε) (h : prependO os r = .error e) :
    r = .error e := by
  cases r with
  | error e' => simpa using h
  | ok q => cases q; simp [prependO] at h

/-- an error of the loop is the error of one argument that is reached through options only -/
theorem setLoop_error_locates (nm : Names) : ∀ (n : Nat) (args : List Str) (p : Bool) (e : SetErr), args.length ≤ n →
    setLoop nm p args = .error e →
    ∃ pre a rest os p', args = pre ++ a :: rest ∧ SetOptionsOnly nm p pre os p' ∧ setStep nm p' a rest.head? = .fail e := by
  intro n
  induction n with
  | zero =>
    intro args p e h herr
    have : args = [] := List.length_eq_zero_iff.mp (Nat.le_zero.mp h)
    subst this
    simp [setLoop] at herr
  | succ n ih =>
    intro args p e h herr
    cases args with
    | nil => simp [setLoop] at herr
    | cons a rest =>
      have hr : rest.length ≤ n := by simp at h; omega
      rw [setLoop_cons] at herr
      cases hstep : setStep nm p a rest.head? with
      | fail e' =>
        rw [hstep] at herr
        injection herr with he
        subst he
        exact ⟨[], a, rest, [], p, rfl, .nil p, hstep⟩
      | stop => rw [hstep] at herr; cases herr
      | opts os took p1 =>
        rw [hstep] at herr
        have hin := prependO_eq_error _ _ _ herr
        cases took with
        | false =>
          simp only [Bool.false_eq_true, if_false] at hin
          obtain ⟨pre, b, rest', os', p', hsplit, hpre, hfail⟩ := ih rest p1 e hr hin
          refine ⟨a :: pre, b, rest', os ++ os', p', by rw [hsplit]; rfl, ?_, hfail⟩
          exact .one p a os p1 pre os' p' (fun next => setStep_opts_false_indep nm p a _ next os p1 hstep) hpre
        | true =>
          cases rest with
          | nil => simp [setLoop] at hin
          | cons x rest1 =>
            simp only [if_true, List.tail_cons] at hin
            have hr1 : rest1.length ≤ n := by simp at hr; omega
            obtain ⟨pre, b, rest', os', p', hsplit, hpre, hfail⟩ := ih rest1 p1 e hr1 hin
            refine ⟨a :: x :: pre, b, rest', os ++ os', p', by rw [hsplit]; rfl, ?_, hfail⟩
            exact .two p a x os p1 pre os' p' (by simpa using hstep) hpre

theorem setLoop_error_of_defect (nm : Names) {p : Bool} {pre : List Str} {os : List (Str × Bool)} {p' : Bool}
    (hpre : SetOptionsOnly nm p pre os p') (a : Str) (rest : List Str) (e : SetErr)
    (hfail : setStep nm p' a rest.head? = .fail e) : setLoop nm p (pre ++ a :: rest) = .error e := by
  rw [setLoop_optionsOnly_append nm hpre, setLoop_cons, hfail]
  simp

theorem finishSet_error_iff (r : Looped SetErr) (e : SetErr) : finishSet r = .error e ↔ r = .error e := by
  cases r with
  | error e' => simp [finishSet]
  | ok q =>
    obtain ⟨os, rem⟩ := q
    cases rem with
    | nil => simp [finishSet]
    | cons a rest => by_cases h : a = ['-', '-'] ∨ a = ['-'] <;> simp [finishSet, h]

/-- good letters in front of a bad one: the group is rejected with the bad letter's error -/
theorem setShortLoop_bad_letter (nm : Names) (neg : Bool) (next : Option Str) (p : Bool) (c : Char) (tl : Str) (e : SetErr)
    (hc : c ≠ 'o') (hbad : setLetter nm neg p c = .error e) :
    ∀ good : Str, (∀ g ∈ good, g ≠ 'o' ∧ ∃ o, setLetter nm neg p g = .ok o) →
      setShortLoop nm neg next p (good ++ c :: tl) = .error e := by
  intro good
  induction good with
  | nil => intro _; simp [setShortLoop_cons, hc, hbad, thenCons]
  | cons g gs ih =>
    intro hg
    obtain ⟨hgo, o, ho⟩ := hg g (by simp)
    rw [List.cons_append, setShortLoop_cons, if_neg hgo, ho, ih (fun x hx => hg x (by simp [hx]))]
    rfl

theorem setLetter_unknown (nm : Names) (neg p : Bool) (c : Char) (h : nm.parseShort c = none) :
    setLetter nm neg p c = .error (.unknownShort c) := by
  simp [setLetter, h]

theorem setLoop_single_o (nm : Names) (p neg : Bool) :
    setLoop nm p [[signChar neg, 'o']] = .error .missingArgument := by
  cases neg <;> simp [setLoop, setStep, shortSign, signChar, setShortLoop, oArm, Step.ofShort]

/-- an error of the loop other than "missing argument" is an error of `parse` (the two print forms `-o` /
    `+o` are the only vectors the loop is not run on, and on them it would report a missing argument) -/
theorem setParse_of_loop_error (nm : Names) (p : Bool) (args : List Str) (e : SetErr)
    (h : setLoop nm p args = .error e) (hne : e ≠ .missingArgument) : setParse nm p args = .error e := by
  unfold setParse
  by_cases h1 : args = []
  · subst h1; simp [setLoop] at h
  by_cases h2 : args = [['-', 'o']]
  · subst h2
    have := setLoop_single_o nm p false
    rw [signChar_false] at this
    rw [this] at h
    injection h with h
    exact absurd h.symm hne
  by_cases h3 : args = [['+', 'o']]
  · subst h3
    have := setLoop_single_o nm p true
    rw [signChar_true] at this
    rw [this] at h
    injection h with h
    exact absurd h.symm hne
  simp [h1, h2, h3, h, finishSet]

end YashModel.Args.Bespoke
