/-
  C20, getopts histories — helper lemmas (property theorems: `GetoptsTheorems.lean`).
-/
import YashModel.Args.GetoptsHistory
namespace YashModel.Args.Getopts

/-! ### getopts histories: the remembered state -/

theorem call_params (env : GEnv) (p : List Str) (spec : Str) (args : List Str) (d : Bool) :
    call { env with params := p } spec args d =
      ((call env spec args d).1, { (call env spec args d).2 with params := p }) := by
  obtain ⟨st, oi, v, oa, ps⟩ := env
  unfold call verifyState
  cases st with
  | none =>
    by_cases h1 : oi = ['1']
    · simp only [h1, if_true]
      cases (next args spec (optindIndexes ['1']).1 (optindIndexes ['1']).2).occ <;> rfl
    · simp only [h1, if_false]
  | some prev =>
    by_cases h1 : oi = ['1']
    · simp only [h1, if_true]
      cases (next args spec (optindIndexes ['1']).1 (optindIndexes ['1']).2).occ <;> rfl
    · simp only [h1, if_false]
      by_cases h2 : d ≠ prev.direct
      · rw [if_pos h2]
      · rw [if_neg h2]
        by_cases h3 : args ≠ prev.args
        · rw [if_pos h3]
        · rw [if_neg h3]
          by_cases h4 : oi ≠ prev.optind
          · rw [if_pos h4]
          · rw [if_neg h4]
            cases (next args spec (optindIndexes oi).1 (optindIndexes oi).2).occ <;> rfl

theorem runCalls_params (spec : Str) (args : List Str) (d : Bool) (p : List Str) :
    ∀ (fuel : Nat) (env : GEnv),
      runCalls spec args d fuel { env with params := p } =
        ((runCalls spec args d fuel env).1, (runCalls spec args d fuel env).2.1,
          { (runCalls spec args d fuel env).2.2 with params := p }) := by
  intro fuel
  induction fuel with
  | zero => intro env; rfl
  | succ n ih =>
    intro env
    simp only [runCalls]
    rw [call_params]
    cases hc : call env spec args d with
    | mk o env' =>
      cases o with
      | misuse => rfl
      | finished => rfl
      | option e =>
        simp only []
        rw [ih env']

/-- a call with `OPTIND=1` forgets everything but the positional parameters -/
theorem call_of_reset (env : GEnv) (h : env.optind = ['1']) (spec : Str) (args : List Str) (d : Bool) :
    call env spec args d =
      ((call freshEnv spec args d).1, { (call freshEnv spec args d).2 with params := env.params }) := by
  unfold call verifyState freshEnv
  simp only [h, if_true]
  cases env.state <;>
    (simp only []; cases (next args spec (optindIndexes ['1']).1 (optindIndexes ['1']).2).occ <;> rfl)

/-- a session is well formed if it really passes its vector: the literal spelling of the empty vector is
    `getopts spec v`, which reads whatever the positional parameters happen to be -/
def WellFormed (sp : Spelling) (vec : List Str) : Prop := sp = .literal → vec ≠ []

theorem callArgs_prepare (env : GEnv) (sp : Spelling) (vec : List Str) (h : WellFormed sp vec) :
    (callArgs (prepare env sp vec) sp vec).1 = vec := by
  cases sp with
  | implicit => rfl
  | dollarAt => simp only [callArgs, prepare]; cases vec <;> rfl
  | literal =>
    have := h rfl
    cases vec with
    | nil => exact absurd rfl this
    | cons a t => rfl

theorem callArgs_prepare_direct (env1 env2 : GEnv) (sp : Spelling) (vec : List Str) :
    (callArgs (prepare env1 sp vec) sp vec).2 = (callArgs (prepare env2 sp vec) sp vec).2 ∨ sp = .literal ∧ vec = [] := by
  cases sp with
  | implicit => exact Or.inl rfl
  | dollarAt => exact Or.inl rfl
  | literal =>
    cases vec with
    | nil => exact Or.inr ⟨rfl, rfl⟩
    | cons a t => exact Or.inl rfl

theorem fuelFor_pos (args : List Str) : ∃ n, fuelFor args + 1 = n + 1 + 1 := ⟨(args.map (·.length + 1)).sum, rfl⟩

theorem runCalls_succ (spec : Str) (args : List Str) (d : Bool) (fuel : Nat) (env : GEnv) :
    runCalls spec args d (fuel + 1) env =
      match call env spec args d with
      | (.misuse, env') => ([], some 2, env')
      | (.finished, env') => ([], some 1, env')
      | (.option e, env') =>
        (⟨e.var, e.optarg, env'.optind, e.diag⟩ :: (runCalls spec args d fuel env').1,
          (runCalls spec args d fuel env').2.1, (runCalls spec args d fuel env').2.2) := by
  rw [runCalls]
  cases call env spec args d with
  | mk o env' => cases o <;> rfl

theorem runSession_eq (env : GEnv) (sp : Spelling) (spec : Str) (vec a : List Str) (d : Bool)
    (hc : callArgs (prepare env sp vec) sp vec = (a, d)) :
    runSession env sp spec vec none =
      (⟨(runCalls spec a d (fuelFor a + 1) (prepare env sp vec)).1,
        (runCalls spec a d (fuelFor a + 1) (prepare env sp vec)).2.1,
        (runCalls spec a d (fuelFor a + 1) (prepare env sp vec)).2.2.var,
        (runCalls spec a d (fuelFor a + 1) (prepare env sp vec)).2.2.optarg,
        (runCalls spec a d (fuelFor a + 1) (prepare env sp vec)).2.2.optind⟩,
       (runCalls spec a d (fuelFor a + 1) (prepare env sp vec)).2.2) := by
  unfold runSession
  simp only [hc, Option.getD_none]

theorem runSession_reset (env : GEnv) (h0 : env.optind = ['1']) (sp : Spelling) (spec : Str) (vec : List Str)
    (h : WellFormed sp vec) :
    (runSession env sp spec vec none).1 = freshObs sp spec vec := by
  unfold freshObs
  have ha1 := callArgs_prepare env sp vec h
  have ha2 := callArgs_prepare freshEnv sp vec h
  have hd : (callArgs (prepare env sp vec) sp vec).2 = (callArgs (prepare freshEnv sp vec) sp vec).2 := by
    rcases callArgs_prepare_direct env freshEnv sp vec with hd | ⟨h1, h2⟩
    · exact hd
    · exact absurd h2 (h h1)
  have hc1 : callArgs (prepare env sp vec) sp vec = (vec, (callArgs (prepare freshEnv sp vec) sp vec).2) :=
    Prod.ext ha1 hd
  have hc2 : callArgs (prepare freshEnv sp vec) sp vec = (vec, (callArgs (prepare freshEnv sp vec) sp vec).2) :=
    Prod.ext ha2 rfl
  rw [runSession_eq env sp spec vec vec _ hc1, runSession_eq freshEnv sp spec vec vec _ hc2]
  generalize (callArgs (prepare freshEnv sp vec) sp vec).2 = d
  have ho1 : (prepare env sp vec).optind = ['1'] := by cases sp <;> exact h0
  have ho2 : (prepare freshEnv sp vec).optind = ['1'] := by cases sp <;> rfl
  rw [runCalls_succ, runCalls_succ, call_of_reset _ ho1, call_of_reset _ ho2]
  cases hcall : call freshEnv spec vec d with
  | mk o env' =>
    cases o with
    | misuse => rfl
    | finished => rfl
    | option e =>
      simp only []
      have h1 := runCalls_params spec vec d (prepare env sp vec).params (fuelFor vec) env'
      have h2 := runCalls_params spec vec d (prepare freshEnv sp vec).params (fuelFor vec) env'
      simp only [h1, h2]

/-! ### the `Origin` is invisible within a session -/

def flipOrigin (d : Bool) (env : GEnv) : GEnv :=
  { env with state := env.state.map fun s => { s with direct := d } }

def OriginIs (d : Bool) (env : GEnv) : Prop := ∀ s, env.state = some s → s.direct = d

theorem call_flip (env : GEnv) (d1 d2 : Bool) (spec : Str) (a : List Str) (hinv : OriginIs d1 env) :
    call (flipOrigin d2 env) spec a d2 = ((call env spec a d1).1, flipOrigin d2 (call env spec a d1).2) ∧
      OriginIs d1 (call env spec a d1).2 := by
  obtain ⟨st, oi, v, oa, ps⟩ := env
  unfold call verifyState flipOrigin OriginIs
  cases st with
  | none =>
    by_cases h1 : oi = ['1']
    · simp only [Option.map_none, h1, if_true]
      cases (next a spec (optindIndexes ['1']).1 (optindIndexes ['1']).2).occ <;>
        exact ⟨rfl, by intro s hs; cases hs; rfl⟩
    · simp only [Option.map_none, h1, if_false]
      exact ⟨trivial, by intro s hs; cases hs⟩
  | some prev =>
    have hp : prev.direct = d1 := hinv prev rfl
    by_cases h1 : oi = ['1']
    · simp only [Option.map_some, h1, if_true]
      cases (next a spec (optindIndexes ['1']).1 (optindIndexes ['1']).2).occ <;>
        exact ⟨rfl, by intro s hs; cases hs; rfl⟩
    · simp only [Option.map_some, h1, if_false]
      have e1 : ¬ (d2 ≠ d2) := by simp
      have e2 : ¬ (d1 ≠ prev.direct) := by simp [hp]
      rw [if_neg e1, if_neg e2]
      by_cases h3 : a ≠ prev.args
      · rw [if_pos h3, if_pos h3]
        exact ⟨rfl, by intro s hs; cases hs; exact hp⟩
      · rw [if_neg h3, if_neg h3]
        by_cases h4 : oi ≠ prev.optind
        · rw [if_pos h4, if_pos h4]
          exact ⟨rfl, by intro s hs; cases hs; exact hp⟩
        · rw [if_neg h4, if_neg h4]
          cases (next a spec (optindIndexes oi).1 (optindIndexes oi).2).occ <;>
            exact ⟨rfl, by intro s hs; cases hs; exact hp⟩

theorem runCalls_flip (d1 d2 : Bool) (spec : Str) (a : List Str) : ∀ (fuel : Nat) (env : GEnv), OriginIs d1 env →
    runCalls spec a d2 fuel (flipOrigin d2 env) =
      ((runCalls spec a d1 fuel env).1, (runCalls spec a d1 fuel env).2.1,
        flipOrigin d2 (runCalls spec a d1 fuel env).2.2) := by
  intro fuel
  induction fuel with
  | zero => intro env _; rfl
  | succ n ih =>
    intro env hinv
    obtain ⟨hc, hinv'⟩ := call_flip env d1 d2 spec a hinv
    rw [runCalls_succ, runCalls_succ, hc]
    cases hcall : call env spec a d1 with
    | mk o env' =>
      rw [hcall] at hinv'
      cases o with
      | misuse => rfl
      | finished => rfl
      | option e =>
        simp only []
        rw [ih env' hinv']
        rfl

theorem flipOrigin_fresh (d : Bool) (p : List Str) : flipOrigin d { freshEnv with params := p } = { freshEnv with params := p } := rfl

/-- in a fresh shell the three spellings of one vector are indistinguishable -/
theorem freshObs_spelling (sp : Spelling) (spec : Str) (vec : List Str) (h : WellFormed sp vec) :
    freshObs sp spec vec = freshObs .implicit spec vec := by
  unfold freshObs
  have hc2 : callArgs (prepare freshEnv .implicit vec) .implicit vec = (vec, false) := rfl
  have hc1 : callArgs (prepare freshEnv sp vec) sp vec = (vec, (callArgs (prepare freshEnv sp vec) sp vec).2) :=
    Prod.ext (callArgs_prepare freshEnv sp vec h) rfl
  rw [runSession_eq freshEnv sp spec vec vec _ hc1, runSession_eq freshEnv .implicit spec vec vec false hc2]
  generalize (callArgs (prepare freshEnv sp vec) sp vec).2 = d
  have hprep : prepare freshEnv sp vec = { freshEnv with params := (prepare freshEnv sp vec).params } := by
    cases sp <;> rfl
  have hprep2 : prepare freshEnv .implicit vec = { freshEnv with params := vec } := rfl
  rw [hprep, hprep2]
  have hf := runCalls_flip false d spec vec (fuelFor vec + 1) freshEnv (by intro s hs; cases hs)
  have hfe : flipOrigin d freshEnv = freshEnv := rfl
  rw [hfe] at hf
  have h1 := runCalls_params spec vec d (prepare freshEnv sp vec).params (fuelFor vec + 1) freshEnv
  have h2 := runCalls_params spec vec false vec (fuelFor vec + 1) freshEnv
  simp only [h1, h2, hf]
  rfl
end YashModel.Args.Getopts
