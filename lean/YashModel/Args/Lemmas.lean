/-
  C20 — helper lemmas (no property theorems here; those are in `Theorems.lean`).
-/
import YashModel.Args.Model
import YashModel.Args.Spec
namespace YashModel.Args

abbrev VOpt := OptionSpec × Option Str

/-! ### predicates used in the statements of `Theorems.lean` -/

/-- `pre` is consumed entirely as options and their arguments: nothing is pending, and option
    parsing has not ended (so `pre` contains neither an operand nor the `--` separator). -/
def OptionsOnly (specs : List OptionSpec) (mode : Mode) (pre : List Str) (os : List Occurrence) : Prop :=
  optLoop specs mode pre = .ok (os, [])

/-- an argument that is not examined as an option: it does not start with `-`, or is exactly `-` -/
def IsOperand (x : Str) : Prop := x.head? ≠ some '-' ∨ x = ['-']

/-- the name `p` denotes exactly the option `s`: `s` is named `p` (the first such option wins), or no
    option is named `p` and `s` is the only one whose long name `p` abbreviates.
    (`Spec.candidates` is the declarative resolution; `longMatch_resolves` ties the code to it.) -/
def Denotes (specs : List OptionSpec) (p : Str) (s : OptionSpec) : Prop := Spec.candidates specs p = [s]

instance (specs : List OptionSpec) (p : Str) (s : OptionSpec) : Decidable (Denotes specs p s) :=
  inferInstanceAs (Decidable (Spec.candidates specs p = [s]))

/-- the mode lets the long option `s` through -/
def LongAllowed (mode : Mode) (s : OptionSpec) : Prop :=
  mode.longOptionNames = true ∧ (s.extension = true → mode.extensionOptions = true)

/-- accepted flag: known, takes no argument, allowed by the mode -/
def IsFlag (specs : List OptionSpec) (mode : Mode) (c : Char) : Prop :=
  ∃ s, findShort specs c = some s ∧ s.takesArg = false ∧ (s.extension = true → mode.extensionOptions = true)

/-- an option character that, if it is known at all, takes no argument -/
def NoArg (specs : List OptionSpec) (c : Char) : Prop := ∀ s, findShort specs c = some s → s.takesArg = false

theorem longAllowed_bool {mode : Mode} {s : OptionSpec} (h : LongAllowed mode s) :
    (!(mode.longOptionNames && (mode.extensionOptions || !s.extension))) = false := by
  obtain ⟨h1, h2⟩ := h
  cases hx : s.extension <;> simp_all

theorem not_longAllowed_bool {mode : Mode} {s : OptionSpec} (h : ¬ LongAllowed mode s) :
    (!(mode.longOptionNames && (mode.extensionOptions || !s.extension))) = true := by
  unfold LongAllowed at h
  cases h1 : mode.longOptionNames <;> cases h2 : mode.extensionOptions <;> cases h3 : s.extension <;> simp_all


/-! ### well-formedness of a generated option table (rows as written by tools/tables/args.py) -/

/-- one row of a generated table: short name, long name, takes an argument, is an extension -/
abbrev Row := Option Char × Option (List Char) × Bool × Bool

def rowSpec (r : Row) : OptionSpec :=
  { short := r.1, long := r.2.1, takesArg := r.2.2.1, extension := r.2.2.2 }

/-- the option has a name; the short name is not `-`; the long name is non-empty, has no `=` and
    does not start with `-` (what the documentation of `OptionSpec::short` / `long` asks for) -/
def rowOk (r : Row) : Bool :=
  (r.1.isSome || r.2.1.isSome) && r.1 != some '-' &&
  (match r.2.1 with
   | some l => !l.isEmpty && !l.contains '=' && l.head? != some '-'
   | none => true)

def nodupB {α : Type} [DecidableEq α] : List α → Bool
  | [] => true
  | a :: t => !t.contains a && nodupB t

/-- no two options of the table share a short name or a long name, and every row is well formed -/
def tableOk (t : List Row) : Bool :=
  nodupB (t.filterMap (·.1)) && nodupB (t.filterMap (·.2.1)) && t.all rowOk

/-- every option of the table is reachable by its own names: `-c` finds it and `--long` denotes it -/
def tableReachable (t : List Row) : Bool :=
  let specs := t.map rowSpec
  specs.all fun s =>
    (match s.short with | some c => findShort specs c == some s | none => true) &&
    (match s.long with | some l => Spec.candidates specs l == [s] | none => true)

/-! ### views -/

/-- view of a `shortLoop` / `parseLong` result -/
def viewS : Except ParseError (List Occurrence × Bool) → Except ParseError (List VOpt × Bool)
  | .ok (os, took) => .ok (os.map Occurrence.view, took)
  | .error e => .error e

def prependV (vs : List VOpt) : View → View
  | .ok (vs', ops) => .ok (vs ++ vs', ops)
  | .error e => .error e

def finishV : View → View
  | .ok (vs, rem) => .ok (vs, skipSeparator rem)
  | .error e => .error e

def consV (v : VOpt) : Except ParseError (List VOpt × Bool) → Except ParseError (List VOpt × Bool)
  | .ok (vs, took) => .ok (v :: vs, took)
  | .error e => .error e

/-- continue the loop after a cluster / long option whose view is `x` -/
def bindV (specs : List OptionSpec) (mode : Mode) (x : Except ParseError (List VOpt × Bool)) (rest : List Str) : View :=
  match x with
  | .error e => .error e
  | .ok (vs, took) => prependV vs (optLoop specs mode (if took then rest.tail else rest)).view

@[simp] theorem prepend_nil (r : Parsed) : prepend [] r = r := by
  cases r with
  | error e => rfl
  | ok p => cases p; rfl

@[simp] theorem prepend_prepend (a b : List Occurrence) (r : Parsed) :
    prepend a (prepend b r) = prepend (a ++ b) r := by
  cases r with
  | error e => rfl
  | ok p => cases p; simp [prepend]

@[simp] theorem prepend_error (a : List Occurrence) (e : ParseError) : prepend a (.error e) = .error e := rfl

@[simp] theorem prependV_nil (r : View) : prependV [] r = r := by
  cases r with
  | error e => rfl
  | ok p => cases p; rfl

@[simp] theorem prependV_prependV (a b : List VOpt) (r : View) :
    prependV a (prependV b r) = prependV (a ++ b) r := by
  cases r with
  | error e => rfl
  | ok p => cases p; simp [prependV]

@[simp] theorem view_prepend (os : List Occurrence) (r : Parsed) :
    (prepend os r).view = prependV (os.map Occurrence.view) r.view := by
  cases r with
  | error e => rfl
  | ok p => cases p; simp [prepend, Parsed.view, prependV]

@[simp] theorem view_finish (r : Parsed) : (finish r).view = finishV r.view := by
  cases r with
  | error e => rfl
  | ok p => cases p; rfl

@[simp] theorem finish_prepend (os : List Occurrence) (r : Parsed) :
    finish (prepend os r) = prepend os (finish r) := by
  cases r with
  | error e => rfl
  | ok p => cases p; rfl

@[simp] theorem viewS_consOcc (o : Occurrence) (x) : viewS (consOcc o x) = consV o.view (viewS x) := by
  cases x with
  | error e => rfl
  | ok p => cases p; rfl

theorem bindV_consV (specs mode) (v : VOpt) (x) (rest : List Str) :
    bindV specs mode (consV v x) rest = prependV [v] (bindV specs mode x rest) := by
  cases x with
  | error e => rfl
  | ok p => cases p; simp [consV, bindV]

/-! ### one unfolding of the loop -/

theorem optLoop_cons (specs : List OptionSpec) (mode : Mode) (a : Str) (rest : List Str) :
    optLoop specs mode (a :: rest) =
      match step specs mode a rest.head? with
      | .fail e => .error e
      | .stop => .ok ([], a :: rest)
      | .opts os took => prepend os (optLoop specs mode (if took then rest.tail else rest)) := by
  rw [optLoop]
  cases h : step specs mode a rest.head? with
  | fail e => rfl
  | stop => rfl
  | opts os took =>
    cases took with
    | false => simp
    | true =>
      cases rest with
      | nil => simp [optLoop, prepend]
      | cons b rest' => simp

theorem step_short (specs mode) (a : Str) (next : Option Str) (h : startsWithSingleHyphen a = true) :
    step specs mode a next = Step.ofShort (shortLoop specs mode next 1 (a.drop 1)) := by
  simp [step, h]

theorem step_long (specs mode) (a : Str) (next : Option Str) (h1 : startsWithSingleHyphen a = false)
    (h2 : startsWithDoubleHyphen a = true) :
    step specs mode a next = Step.ofLong (parseLong specs mode a next) := by
  simp [step, h1, h2]

theorem step_stop (specs mode) (a : Str) (next : Option Str) (h1 : startsWithSingleHyphen a = false)
    (h2 : startsWithDoubleHyphen a = false) : step specs mode a next = .stop := by
  simp [step, h1, h2]

/-- the loop on a cluster of short options, through views -/
theorem optLoop_short_view (specs mode) (a : Str) (rest : List Str) (h : startsWithSingleHyphen a = true) :
    (optLoop specs mode (a :: rest)).view =
      bindV specs mode (viewS (shortLoop specs mode rest.head? 1 (a.drop 1))) rest := by
  rw [optLoop_cons, step_short _ _ _ _ h]
  cases shortLoop specs mode rest.head? 1 (a.drop 1) with
  | error e => rfl
  | ok p => cases p; simp [viewS, bindV, Step.ofShort]

def viewL : Except ParseError (Occurrence × Bool) → Except ParseError (List VOpt × Bool)
  | .ok (o, took) => .ok ([o.view], took)
  | .error e => .error e

theorem optLoop_long_view (specs mode) (a : Str) (rest : List Str) (h1 : startsWithSingleHyphen a = false)
    (h2 : startsWithDoubleHyphen a = true) :
    (optLoop specs mode (a :: rest)).view =
      bindV specs mode (viewL (parseLong specs mode a rest.head?)) rest := by
  rw [optLoop_cons, step_long _ _ _ _ h1 h2]
  cases parseLong specs mode a rest.head? with
  | error e => rfl
  | ok p => cases p; simp [viewL, bindV, Step.ofLong]

/-! ### the cluster loop -/

theorem shortLoop_view_idx (specs mode next) (cs : Str) (i j : Nat) :
    viewS (shortLoop specs mode next i cs) = viewS (shortLoop specs mode next j cs) := by
  induction cs generalizing i j with
  | nil => simp [shortLoop]
  | cons c rest ih =>
    simp only [shortLoop]
    cases hf : findShort specs c with
    | none => rfl
    | some s =>
      simp only []
      split
      · rfl
      · split
        · simp only [viewS_consOcc, Occurrence.view]; rw [ih]
        · split
          · cases next <;> simp [viewS, Occurrence.view]
          · split <;> simp [viewS, Occurrence.view]

def appV : Except ParseError (List VOpt × Bool) → Except ParseError (List VOpt × Bool) → Except ParseError (List VOpt × Bool)
  | .error e, _ => .error e
  | .ok _, .error e => .error e
  | .ok (vs, _), .ok (ws, t) => .ok (vs ++ ws, t)

theorem appV_nil (b : Bool) (x) : appV (.ok ([], b)) x = x := by
  cases x with
  | error e => rfl
  | ok p => cases p; simp [appV]

theorem appV_consV (v : VOpt) (x y) : appV (consV v x) y = consV v (appV x y) := by
  cases x with
  | error e => rfl
  | ok p =>
    cases p
    cases y with
    | error e => rfl
    | ok q => cases q; simp [appV, consV]

theorem shortLoop_append_noarg (specs mode next next') (pre cs : Str) (i j : Nat)
    (h : ∀ c ∈ pre, NoArg specs c) :
    viewS (shortLoop specs mode next i (pre ++ cs)) =
      appV (viewS (shortLoop specs mode next' i pre)) (viewS (shortLoop specs mode next j cs)) := by
  induction pre generalizing i with
  | nil => simp only [List.nil_append, shortLoop, viewS, List.map_nil, appV_nil]; exact shortLoop_view_idx ..
  | cons c pre ih =>
    have hc := h c (by simp)
    have ih' := fun i => ih i (fun d hd => h d (by simp [hd]))
    simp only [List.cons_append, shortLoop]
    cases hf : findShort specs c with
    | none => rfl
    | some s =>
      have hs := hc s hf
      simp only [hs]
      split
      · rfl
      · simp [appV_consV, ih']

theorem shortLoop_flags_error (specs mode next) (g tail : Str) (e : ParseError) (i : Nat)
    (hg : ∀ c ∈ g, IsFlag specs mode c)
    (ht : ∀ i, shortLoop specs mode next i tail = .error e) :
    shortLoop specs mode next i (g ++ tail) = .error e := by
  induction g generalizing i with
  | nil => exact ht i
  | cons c g ih =>
    obtain ⟨s, hf, ha, he⟩ := hg c (by simp)
    have ih' := fun i => ih i (fun d hd => hg d (by simp [hd]))
    simp only [List.cons_append, shortLoop, hf, ha]
    have : (s.extension && !mode.extensionOptions) = false := by
      cases hx : s.extension <;> simp_all
    simp [this, ih', consOcc]

theorem shortLoop_none (specs mode) (cs : Str) (i : Nat) (os : List Occurrence) (took : Bool)
    (h : shortLoop specs mode none i cs = .ok (os, took)) :
    took = false ∧ ∀ nx, shortLoop specs mode nx i cs = .ok (os, false) := by
  induction cs generalizing i os took with
  | nil => simp [shortLoop] at h; simp [shortLoop, h]
  | cons c rest ih =>
    simp only [shortLoop] at h ⊢
    cases hf : findShort specs c with
    | none => simp [hf] at h
    | some s =>
      simp only [hf] at h ⊢
      split at h
      · simp at h
      · rename_i h1
        simp only [h1]
        split at h
        · rename_i h2
          simp only [h2]
          cases hr : shortLoop specs mode none (i + c.utf8Size) rest with
          | error e => simp [hr, consOcc] at h
          | ok p =>
            obtain ⟨os', t'⟩ := p
            obtain ⟨ht, hall⟩ := ih _ _ _ hr
            simp [hr, consOcc] at h
            subst ht
            refine ⟨h.2.symm, fun nx => ?_⟩
            simp [hall nx, consOcc, h.1]
        · rename_i h2
          simp only [h2]
          split at h
          · simp at h
          · rename_i h3
            simp only [h3]
            split at h
            · simp at h
            · rename_i h4
              simp only [h4]
              simp at h
              exact ⟨h.2, fun _ => by simp [h.1]⟩
theorem shortLoop_attached (specs mode next) (pre x : Str) (o : Char) (s : OptionSpec) (r : List Str) (i : Nat)
    (hpre : ∀ c ∈ pre, NoArg specs c) (hf : findShort specs o = some s) (ha : s.takesArg = true)
    (hx : x ≠ []) (hm : mode.optionArgumentsInSameField = true) :
    bindV specs mode (viewS (shortLoop specs mode next i (pre ++ o :: x))) r =
      bindV specs mode (viewS (shortLoop specs mode (some x) i (pre ++ [o]))) (x :: r) := by
  induction pre generalizing i with
  | nil =>
    simp only [List.nil_append, shortLoop, hf, ha]
    split
    · rfl
    · cases x with
      | nil => exact absurd rfl hx
      | cons x0 xs => simp [hm, viewS, bindV]
  | cons c pre ih =>
    have hc := hpre c (by simp)
    have ih' := fun i => ih i (fun d hd => hpre d (by simp [hd]))
    simp only [List.cons_append, shortLoop]
    cases hfc : findShort specs c with
    | none => rfl
    | some sc =>
      simp only [hc sc hfc]
      split
      · rfl
      · simp [bindV_consV, ih']

theorem parseLong_none (specs mode) (a : Str) (o : Occurrence) (took : Bool)
    (h : parseLong specs mode a none = .ok (o, took)) :
    took = false ∧ ∀ nx, parseLong specs mode a nx = .ok (o, false) := by
  simp only [parseLong] at h ⊢
  cases hm : longMatch specs (List.takeWhile notEq (List.drop 2 a)) with
  | error ms => simp [hm] at h
  | ok s =>
    simp only [hm] at h ⊢
    split at h
    · simp at h
    · rename_i h1
      simp only [h1]
      split at h
      · rename_i h2
        simp only [h2]
        split at h
        · rename_i h3
          simp only [h3]
          simp at h
          exact ⟨h.2, fun _ => by simp [h.1]⟩
        · simp at h
      · rename_i h2
        simp only [h2]
        split at h
        · simp at h
        · rename_i h3
          simp only [h3]
          simp at h
          exact ⟨h.2, fun _ => by simp [h.1]⟩

theorem step_none (specs mode) (a : Str) (os : List Occurrence) (took : Bool)
    (h : step specs mode a none = .opts os took) :
    took = false ∧ ∀ nx, step specs mode a nx = .opts os false := by
  by_cases h1 : startsWithSingleHyphen a = true
  · rw [step_short _ _ _ _ h1] at h
    cases hs : shortLoop specs mode none 1 (a.drop 1) with
    | error e => rw [hs] at h; simp [Step.ofShort] at h
    | ok p =>
      obtain ⟨os', t⟩ := p
      rw [hs] at h; simp [Step.ofShort] at h
      obtain ⟨ht, hall⟩ := shortLoop_none _ _ _ _ _ _ hs
      refine ⟨h.2 ▸ ht, fun nx => ?_⟩
      rw [step_short _ _ _ _ h1, hall nx]; simp [Step.ofShort, h.1]
  · have h1' : startsWithSingleHyphen a = false := by simpa using h1
    by_cases h2 : startsWithDoubleHyphen a = true
    · rw [step_long _ _ _ _ h1' h2] at h
      cases hs : parseLong specs mode a none with
      | error e => rw [hs] at h; simp [Step.ofLong] at h
      | ok p =>
        obtain ⟨o, t⟩ := p
        rw [hs] at h; simp [Step.ofLong] at h
        obtain ⟨ht, hall⟩ := parseLong_none _ _ _ _ _ hs
        refine ⟨h.2 ▸ ht, fun nx => ?_⟩
        rw [step_long _ _ _ _ h1' h2, hall nx]; simp [Step.ofLong, h.1]
    · rw [step_stop _ _ _ _ h1' (by simpa using h2)] at h; cases h

theorem prepend_eq_ok (os1 : List Occurrence) (r : Parsed) (os : List Occurrence) (rem : List Str)
    (h : prepend os1 r = .ok (os, rem)) : ∃ os2, r = .ok (os2, rem) ∧ os = os1 ++ os2 := by
  cases r with
  | error e => simp [prepend] at h
  | ok p =>
    obtain ⟨os2, rem2⟩ := p
    simp [prepend] at h
    exact ⟨os2, by simp [h.2], h.1.symm⟩

theorem optLoop_append_aux (specs mode) (n : Nat) : ∀ (pre ys : List Str) (os : List Occurrence),
    pre.length ≤ n → optLoop specs mode pre = .ok (os, []) →
    optLoop specs mode (pre ++ ys) = prepend os (optLoop specs mode ys) := by
  induction n with
  | zero =>
    intro pre ys os hl h
    have : pre = [] := List.eq_nil_of_length_eq_zero (Nat.le_zero.mp hl)
    subst this
    simp [optLoop] at h
    simp [h]
  | succ n ih =>
    intro pre ys os hl h
    cases pre with
    | nil => simp [optLoop] at h; simp [h]
    | cons a rest =>
      rw [optLoop_cons] at h
      rw [List.cons_append, optLoop_cons]
      cases hs : step specs mode a rest.head? with
      | fail e => simp [hs] at h
      | stop => simp [hs] at h
      | opts os1 took =>
        simp only [hs] at h
        obtain ⟨os2, h2, hos⟩ := prepend_eq_ok _ _ _ _ h
        cases rest with
        | nil =>
          simp only [List.head?_nil] at hs
          obtain ⟨ht, hall⟩ := step_none _ _ _ _ _ hs
          subst ht
          simp only [List.nil_append, hall]
          simp [optLoop] at h2
          simp [hos, h2]
        | cons b rest' =>
          simp only [List.cons_append, List.head?_cons] at hs ⊢
          simp only [hs]
          cases took with
          | false =>
            simp only [Bool.false_eq_true, if_false] at h2 ⊢
            have := ih (b :: rest') ys os2 (by simp at hl ⊢; omega) h2
            simp only [List.cons_append] at this
            rw [this, hos]; simp
          | true =>
            simp only [if_true, List.tail_cons] at h2 ⊢
            have := ih rest' ys os2 (by simp at hl ⊢; omega) h2
            rw [this, hos]; simp
/-! ### long options -/

theorem takeWhile_notEq_append (n t : Str) (hn : '=' ∉ n) (ht : t = [] ∨ t.head? = some '=') :
    (n ++ t).takeWhile notEq = n ∧ (n ++ t).dropWhile notEq = t := by
  induction n with
  | nil =>
    rcases ht with rfl | ht
    · simp
    · cases t with
      | nil => simp
      | cons c t' =>
        simp at ht; subst ht
        simp [notEq]
  | cons c n ih =>
    have hc : c ≠ '=' := fun h => hn (by simp [h])
    have hn' : '=' ∉ n := fun h => hn (by simp [h])
    obtain ⟨h1, h2⟩ := ih hn'
    have : notEq c = true := by simp [notEq, hc]
    simp [this, h1, h2]

def isExact (name : Str) (s : OptionSpec) : Bool :=
  match s.longMatch name with
  | .exact => true
  | _ => false
def isPart (name : Str) (s : OptionSpec) : Bool :=
  match s.longMatch name with
  | .part => true
  | _ => false

theorem longMatchGo_eq (name : Str) (specs acc : List OptionSpec) :
    longMatchGo name specs acc =
      match specs.find? (isExact name) with
      | some s => .ok s
      | none => match acc ++ specs.filter (isPart name) with
        | [s] => .ok s
        | l => .error l := by
  induction specs generalizing acc with
  | nil => simp [longMatchGo]; cases acc with
    | nil => rfl
    | cons a t => cases t <;> rfl
  | cons s rest ih =>
    cases hm : s.longMatch name with
    | no =>
      have h1 : isExact name s = false := by simp [isExact, hm]
      have h2 : isPart name s = false := by simp [isPart, hm]
      simp only [longMatchGo, hm, List.find?_cons, List.filter_cons, h1, h2]; exact ih acc
    | part =>
      have h1 : isExact name s = false := by simp [isExact, hm]
      have h2 : isPart name s = true := by simp [isPart, hm]
      simp only [longMatchGo, hm, List.find?_cons, List.filter_cons, h1, h2, if_true]; rw [ih]; simp
    | exact =>
      have h1 : isExact name s = true := by simp [isExact, hm]
      simp only [longMatchGo, hm, List.find?_cons, h1]

theorem longMatch_exact_iff (name : Str) (s : OptionSpec) :
    s.longMatch name = .exact ↔ s.long = some name := by
  unfold OptionSpec.longMatch
  cases hl : s.long with
  | none => simp
  | some l =>
    simp only []
    by_cases hp : name.isPrefixOf l = true
    · simp only [hp, if_true]
      by_cases hlen : (l.length == name.length) = true
      · simp only [hlen, if_true]
        have : name = l := (List.isPrefixOf_iff_prefix.mp hp).eq_of_length (by simpa using (beq_iff_eq.mp hlen).symm)
        simp [this]
      · simp only [hlen]
        have : l ≠ name := fun h => hlen (by simp [h])
        simp [this]
    · simp only [hp]
      have : l ≠ name := fun h => hp (by simp [h])
      simp [this]

theorem isExact_eq (name : Str) (s : OptionSpec) : isExact name s = (s.long == some name) := by
  have := longMatch_exact_iff name s
  unfold isExact
  cases hm : s.longMatch name with
  | exact => simp [this.mp hm]
  | no =>
    have : s.long ≠ some name := fun h => by rw [this.mpr h] at hm; cases hm
    simp [this]
  | part =>
    have : s.long ≠ some name := fun h => by rw [this.mpr h] at hm; cases hm
    simp [this]

theorem isPart_eq (name : Str) (s : OptionSpec) (h : isExact name s = false) :
    isPart name s = Spec.abbreviates name s := by
  unfold isExact at h
  unfold isPart Spec.abbreviates
  unfold OptionSpec.longMatch at *
  cases hl : s.long with
  | none => simp
  | some l =>
    simp only [hl] at h ⊢
    by_cases hp : name.isPrefixOf l = true
    · simp only [hp, if_true] at h ⊢
      by_cases hlen : (l.length == name.length) = true
      · simp [hlen] at h
      · simp [hlen]
    · simp [hp]

theorem longMatch_eq_candidates' (specs : List OptionSpec) (name : Str) :
    longMatch specs name =
      match Spec.candidates specs name with
      | [s] => .ok s
      | ss => .error ss := by
  unfold longMatch Spec.candidates
  rw [longMatchGo_eq]
  have hfind : specs.find? (isExact name) = specs.find? (fun s => s.long == some name) := by
    congr 1; funext s; exact isExact_eq name s
  rw [← hfind]
  cases hf : specs.find? (isExact name) with
  | some s => rfl
  | none =>
    have : specs.filter (isPart name) = specs.filter (Spec.abbreviates name) := by
      apply List.filter_congr
      intro s hs
      exact isPart_eq name s (by simpa using List.find?_eq_none.mp hf s hs)
    simp only [List.nil_append, this]
/-! ### prefixes of options, candidates -/

theorem shortLoop_noarg_took (specs mode next) (pre : Str) (i : Nat) (os : List Occurrence) (took : Bool)
    (hpre : ∀ c ∈ pre, NoArg specs c) (h : shortLoop specs mode next i pre = .ok (os, took)) : took = false := by
  induction pre generalizing i os took with
  | nil => simp [shortLoop] at h; exact h.2
  | cons c pre ih =>
    simp only [shortLoop] at h
    cases hf : findShort specs c with
    | none => simp [hf] at h
    | some s =>
      have hs := hpre c (by simp) s hf
      simp only [hf, hs] at h
      split at h
      · simp at h
      · cases hr : shortLoop specs mode next (i + c.utf8Size) pre with
        | error e => simp [hr, consOcc] at h
        | ok p =>
          obtain ⟨os', t'⟩ := p
          have := ih _ _ _ (fun d hd => hpre d (by simp [hd])) hr
          simp [hr, consOcc] at h
          exact h.2 ▸ this

theorem error_after_options (specs mode) (pre : List Str) (os : List Occurrence) (a : Str) (r : List Str)
    (e : ParseError) (hpre : optLoop specs mode pre = .ok (os, []))
    (hs : step specs mode a r.head? = .fail e) :
    parseArguments specs mode (pre ++ a :: r) = .error e := by
  unfold parseArguments
  rw [optLoop_append_aux specs mode pre.length pre (a :: r) os (Nat.le_refl _) hpre, optLoop_cons, hs]
  rfl

theorem candidates_mem (specs : List OptionSpec) (p : Str) (s : OptionSpec)
    (hu : Spec.candidates specs p = [s]) : s ∈ specs ∧ Spec.abbreviates p s = true := by
  unfold Spec.candidates at hu
  cases hf : specs.find? (fun s => s.long == some p) with
  | some s' =>
    simp [hf] at hu; subst hu
    have h1 := List.mem_of_find?_eq_some hf
    have h2 := List.find?_some hf
    refine ⟨h1, ?_⟩
    simp at h2
    simp [Spec.abbreviates, h2]
  | none =>
    simp [hf] at hu
    have : s ∈ specs.filter (Spec.abbreviates p) := by simp [hu]
    simpa using this

theorem candidates_full (specs : List OptionSpec) (p l : Str) (s : OptionSpec)
    (hu : Spec.candidates specs p = [s]) (hl : s.long = some l) : Spec.candidates specs l = [s] := by
  obtain ⟨hmem, hab⟩ := candidates_mem specs p s hu
  have hpl : p.isPrefixOf l = true := by simpa [Spec.abbreviates, hl] using hab
  unfold Spec.candidates
  cases hf : specs.find? (fun s => s.long == some l) with
  | none =>
    have := List.find?_eq_none.mp hf s hmem
    simp [hl] at this
  | some s' =>
    have h1 := List.mem_of_find?_eq_some hf
    have h2 := List.find?_some hf
    simp at h2
    simp only
    unfold Spec.candidates at hu
    cases hfp : specs.find? (fun s => s.long == some p) with
    | some s'' =>
      simp [hfp] at hu; subst hu
      have h3 := List.find?_some hfp
      simp at h3
      have : l = p := by rw [hl] at h3; exact Option.some.inj h3
      subst this
      rw [hf] at hfp
      exact congrArg (fun x => [x]) (Option.some.inj hfp)
    | none =>
      simp [hfp] at hu
      have : s' ∈ specs.filter (Spec.abbreviates p) := by
        simp [h1, Spec.abbreviates, h2, hpl]
      rw [hu] at this
      simp at this
      simp [this]

theorem longMatch_of_candidates {specs : List OptionSpec} {p : Str} {s : OptionSpec}
    (h : Spec.candidates specs p = [s]) : longMatch specs p = .ok s := by
  rw [longMatch_eq_candidates', h]

theorem dh_single (n : Str) : startsWithSingleHyphen ('-' :: '-' :: n) = false := by
  simp [startsWithSingleHyphen]

theorem dh_double (n t : Str) (hn : n ++ t ≠ []) : startsWithDoubleHyphen ('-' :: '-' :: (n ++ t)) = true := by
  cases h : n ++ t with
  | nil => exact absurd h hn
  | cons c n' => rfl

/-- what `parseLong` does once the name is resolved (`t` = empty, or `=` and the attached argument) -/
def longResult (mode : Mode) (m : Except (List OptionSpec) OptionSpec) (t : Str) (nx : Option Str) :
    Except ParseError (Occurrence × Bool) :=
  match m with
  | .error ms => .error (if ms.isEmpty then .unknownLong else .ambiguousLong ms)
  | .ok spec =>
    if !(mode.longOptionNames && (mode.extensionOptions || !spec.extension)) then
      .error (.nonPortableLong spec)
    else if !spec.takesArg then
      (if t.isEmpty then .ok (⟨spec, .long, none⟩, false) else .error (.unexpectedArgument spec))
    else if t.isEmpty then
      match nx with
      | none => .error (.missingArgument spec)
      | some a => .ok (⟨spec, .long, some a⟩, true)
    else .ok (⟨spec, .long, some (t.drop 1)⟩, false)

/-- how `parseLong` sees `--<n><t>` where `n` has no `=` and `t` is empty or starts with `=` -/
theorem parseLong_split (specs mode) (n t : Str) (nx : Option Str) (hn : '=' ∉ n)
    (ht : t = [] ∨ t.head? = some '=') :
    parseLong specs mode ('-' :: '-' :: (n ++ t)) nx = longResult mode (longMatch specs n) t nx := by
  obtain ⟨h1, h2⟩ := takeWhile_notEq_append n t hn ht
  simp only [parseLong, List.drop_succ_cons, List.drop_zero, h1, h2, longResult]
  rfl

theorem step_longform (specs mode) (n t : Str) (nx : Option Str) (hne : n ++ t ≠ []) (hn : '=' ∉ n)
    (ht : t = [] ∨ t.head? = some '=') :
    step specs mode ('-' :: '-' :: (n ++ t)) nx = Step.ofLong (longResult mode (longMatch specs n) t nx) := by
  rw [step_long _ _ _ _ (dh_single _) (dh_double n t hne), parseLong_split specs mode n t nx hn ht]

theorem ofLong_ne_stop (x) : Step.ofLong x ≠ .stop := by
  cases x with
  | error e => simp [Step.ofLong]
  | ok p => cases p; simp [Step.ofLong]

theorem optLoop_congr_step (specs mode) (f1 f2 : Str) (r : List Str)
    (h : step specs mode f1 r.head? = step specs mode f2 r.head?)
    (hns : step specs mode f2 r.head? ≠ .stop) :
    optLoop specs mode (f1 :: r) = optLoop specs mode (f2 :: r) := by
  rw [optLoop_cons, optLoop_cons, h]
  cases hs : step specs mode f2 r.head? with
  | stop => exact absurd hs hns
  | fail e => rfl
  | opts os took => rfl

theorem head_append (g : Str) (c : Char) (cs : Str) (h : ∃ c0 cs', g ++ [c] = c0 :: cs' ∧ c0 ≠ '-') :
    ∃ c0 cs'', g ++ c :: cs = c0 :: cs'' ∧ c0 ≠ '-' := by
  obtain ⟨c0, cs', h1, h2⟩ := h
  refine ⟨c0, cs' ++ cs, ?_, h2⟩
  have : g ++ c :: cs = (g ++ [c]) ++ cs := by simp
  rw [this, h1]; rfl

theorem single_of_head (x : Str) (h : ∃ c0 cs', x = c0 :: cs' ∧ c0 ≠ '-') :
    startsWithSingleHyphen ('-' :: x) = true := by
  obtain ⟨c0, cs', rfl, h2⟩ := h
  simp [startsWithSingleHyphen, h2]

/-- a failing cluster makes the whole parse fail with that error -/
theorem cluster_error (specs mode) (pre : List Str) (os : List Occurrence) (x : Str) (r : List Str)
    (e : ParseError) (hpre : optLoop specs mode pre = .ok (os, []))
    (hh : ∃ c0 cs', x = c0 :: cs' ∧ c0 ≠ '-')
    (he : shortLoop specs mode r.head? 1 x = .error e) :
    parseArguments specs mode (pre ++ ('-' :: x) :: r) = .error e := by
  apply error_after_options specs mode pre os _ r e hpre
  rw [step_short _ _ _ _ (single_of_head x hh)]
  simp only [List.drop_succ_cons, List.drop_zero, he, Step.ofShort]

/-- a failing long option makes the whole parse fail with that error -/
theorem long_error (specs mode) (pre : List Str) (os : List Occurrence) (n t : Str) (r : List Str)
    (e : ParseError) (hpre : optLoop specs mode pre = .ok (os, []))
    (hne : n ++ t ≠ []) (hn : '=' ∉ n) (ht : t = [] ∨ t.head? = some '=')
    (he : longResult mode (longMatch specs n) t r.head? = .error e) :
    parseArguments specs mode (pre ++ ('-' :: '-' :: (n ++ t)) :: r) = .error e := by
  apply error_after_options specs mode pre os _ r e hpre
  rw [step_longform specs mode n t _ hne hn ht, he]; rfl

theorem optLoop_append (specs mode) (pre ys : List Str) (os : List Occurrence)
    (hpre : optLoop specs mode pre = .ok (os, [])) :
    optLoop specs mode (pre ++ ys) = prepend os (optLoop specs mode ys) :=
  optLoop_append_aux specs mode pre.length pre ys os (Nat.le_refl _) hpre

end YashModel.Args
