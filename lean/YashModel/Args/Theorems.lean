/-
  C20 — property theorems (and non-vacuity examples) ONLY.  Helper lemmas: `Lemmas.lean`.

  Property text: "Every built-in parses its arguments according to the POSIX utility syntax
  guidelines plus the documented extensions: for any argument vector, grouped short options mean
  the same as separate ones, an option-argument attached to its option or given as the next
  argument is the same, `--` ends option parsing, and a long option may be abbreviated to any
  unambiguous prefix and take its argument after `=` or as the next argument.  Equivalent spellings
  of an invocation have identical output, exit status and effect on the shell, while malformed ones
  (unknown or ambiguous option, missing option-argument) are rejected with a diagnostic, a non-zero
  status and no effect."

  All statements are about `parseArguments` (= `parse_arguments` of yash-builtin/src/common/syntax.rs),
  for every option-spec table, every mode (unless a mode condition is spelled out) and every
  argument vector.  `.view` forgets the `OptionSpelling` (the only thing in which two spellings of
  the same invocation are allowed to differ).  Notation: `'-' :: cs` is the argument `-cs`,
  `'-' :: '-' :: n` is `--n`.  The predicates of the statements (`OptionsOnly`, `IsOperand`, `Denotes`,
  `LongAllowed`, `NoArg`, `IsFlag`) are defined at the top of `Lemmas.lean`.  Side conditions are the ones the code forces; each is justified by a
  counter-example in the comment of the theorem.
-/
import YashModel.Args.Lemmas
import YashModel.Args.Refine
import YashModel.Args.CanonLemmas
import YashModel.Args.ErrorLemmas
import YashModel.Generated.ArgSpecs
namespace YashModel.Args

/-! ## grouping -/

/-- ★ A cluster `-<pre><cs>` means the same as `-<pre> -<cs>`, when the options of `pre` take no
    argument.  Forced side conditions: `cs` must not start with `-` (`-a-` is the unknown option `-`,
    while `-a --` ends the options), `pre` must not start with `-` (`--…` is a long option or the
    separator); an option of `pre` that takes an argument swallows the rest of the cluster
    (that is `attached_eq_next`). Unknown or non-portable characters fail identically in both spellings. -/
theorem group_eq_separate_general (specs : List OptionSpec) (mode : Mode) (pre cs : Str) (r : List Str)
    (hpre : ∀ c ∈ pre, NoArg specs c) (hp : ∃ p0 pre', pre = p0 :: pre' ∧ p0 ≠ '-')
    (hc : ∃ c0 cs', cs = c0 :: cs' ∧ c0 ≠ '-') :
    (parseArguments specs mode (('-' :: (pre ++ cs)) :: r)).view =
      (parseArguments specs mode (('-' :: pre) :: ('-' :: cs) :: r)).view := by
  obtain ⟨p0, pre', rfl, hp0⟩ := hp
  obtain ⟨c0, cs', rfl, hc0⟩ := hc
  unfold parseArguments
  rw [view_finish, view_finish]
  congr 1
  have h1 : startsWithSingleHyphen ('-' :: (p0 :: pre' ++ c0 :: cs')) = true := by
    simp [startsWithSingleHyphen, hp0]
  have h2 : startsWithSingleHyphen ('-' :: p0 :: pre') = true := by simp [startsWithSingleHyphen, hp0]
  have h3 : startsWithSingleHyphen ('-' :: c0 :: cs') = true := by simp [startsWithSingleHyphen, hc0]
  rw [optLoop_short_view _ _ _ _ h1, optLoop_short_view _ _ _ _ h2]
  simp only [List.drop_succ_cons, List.drop_zero, List.head?_cons]
  rw [shortLoop_append_noarg specs mode r.head? (some ('-' :: c0 :: cs')) (p0 :: pre') (c0 :: cs') 1 1 hpre]
  cases hx : shortLoop specs mode (some ('-' :: c0 :: cs')) 1 (p0 :: pre') with
  | error e => rfl
  | ok p =>
    obtain ⟨os, took⟩ := p
    have ht := shortLoop_noarg_took _ _ _ _ _ _ _ hpre hx
    subst ht
    simp only [viewS, bindV, Bool.false_eq_true, if_false]
    rw [optLoop_short_view _ _ _ _ h3]
    simp only [List.drop_succ_cons, List.drop_zero]
    cases hy : shortLoop specs mode r.head? 1 (c0 :: cs') with
    | error e => rfl
    | ok q =>
      obtain ⟨os', t⟩ := q
      simp [viewS, appV, bindV]

/-- ★ `group_eq_separate` in the form of DESIGN.md: `-a<cs>` ≡ `-a -<cs>` for an option `a` without argument. -/
theorem group_eq_separate (specs : List OptionSpec) (mode : Mode) (a : Char) (s : OptionSpec) (cs : Str)
    (r : List Str) (hf : findShort specs a = some s) (ha : s.takesArg = false) (hd : a ≠ '-')
    (hc : ∃ c0 cs', cs = c0 :: cs' ∧ c0 ≠ '-') :
    (parseArguments specs mode (('-' :: a :: cs) :: r)).view =
      (parseArguments specs mode (['-', a] :: ('-' :: cs) :: r)).view := by
  have := group_eq_separate_general specs mode [a] cs r
    (by intro c hcm; simp at hcm; subst hcm; intro s' hs'; rw [hf] at hs'; cases hs'; exact ha)
    ⟨a, [], rfl, hd⟩ hc
  simpa using this

/-! ## option-arguments: attached or next -/

/-- ★ `-<pre>o<x>` ≡ `-<pre>o <x>` for an option `o` that takes an argument, after any cluster `pre` of
    options without argument.  Forced side conditions: `x ≠ ""` (`-o` alone takes the *next*
    argument), the cluster does not start with `-`, and the mode accepts attached arguments (under
    the `portable` option the attached form is rejected: `portable_rejects_attached`). -/
theorem attached_eq_next_general (specs : List OptionSpec) (mode : Mode) (pre x : Str) (o : Char)
    (s : OptionSpec) (r : List Str)
    (hpre : ∀ c ∈ pre, NoArg specs c) (hf : findShort specs o = some s) (ha : s.takesArg = true)
    (hx : x ≠ []) (hm : mode.optionArgumentsInSameField = true)
    (hh : ∃ c0 cs', pre ++ [o] = c0 :: cs' ∧ c0 ≠ '-') :
    (parseArguments specs mode (('-' :: (pre ++ o :: x)) :: r)).view =
      (parseArguments specs mode (('-' :: (pre ++ [o])) :: x :: r)).view := by
  obtain ⟨c0, cs', hcs, hc0⟩ := hh
  unfold parseArguments
  rw [view_finish, view_finish]
  congr 1
  have hsplit : pre ++ o :: x = c0 :: (cs' ++ x) := by
    have : pre ++ o :: x = (pre ++ [o]) ++ x := by simp
    rw [this, hcs]; rfl
  have h1 : startsWithSingleHyphen ('-' :: (pre ++ o :: x)) = true := by
    rw [hsplit]; simp [startsWithSingleHyphen, hc0]
  have h2 : startsWithSingleHyphen ('-' :: (pre ++ [o])) = true := by
    rw [hcs]; simp [startsWithSingleHyphen, hc0]
  rw [optLoop_short_view _ _ _ _ h1, optLoop_short_view _ _ _ _ h2]
  simp only [List.drop_succ_cons, List.drop_zero, List.head?_cons]
  exact shortLoop_attached specs mode r.head? pre x o s r 1 hpre hf ha hx hm

/-- ★ `attached_eq_next` in the form of DESIGN.md: `-o<x>` ≡ `-o <x>`. -/
theorem attached_eq_next (specs : List OptionSpec) (mode : Mode) (o : Char) (s : OptionSpec) (x : Str)
    (r : List Str) (hf : findShort specs o = some s) (ha : s.takesArg = true) (hx : x ≠ [])
    (hd : o ≠ '-') (hm : mode.optionArgumentsInSameField = true) :
    (parseArguments specs mode (('-' :: o :: x) :: r)).view =
      (parseArguments specs mode (['-', o] :: x :: r)).view := by
  have := attached_eq_next_general specs mode [] x o s r (by simp) hf ha hx hm ⟨o, [], rfl, hd⟩
  simpa using this

/-! ## end of options -/

/-- ★ After a prefix that consists of options only, `--` ends option parsing: everything behind it,
    whatever it looks like, is an operand, and the separator itself is not.  (The hypothesis is
    forced: after `-o` with a pending argument, `--` *is* that argument.) -/
theorem dashdash_ends (specs : List OptionSpec) (mode : Mode) (pre : List Str) (os : List Occurrence)
    (xs : List Str) (hpre : OptionsOnly specs mode pre os) :
    parseArguments specs mode (pre ++ dashdash :: xs) = .ok (os, xs) := by
  unfold parseArguments
  rw [optLoop_append specs mode pre _ os hpre, optLoop_cons,
    step_stop _ _ _ _ (by decide) (by decide)]
  simp [prepend, finish, skipSeparator]

/-- ★ The first operand ends option parsing (guideline 9; no options after operands): it and everything
    behind it are the operands. -/
theorem first_operand_ends (specs : List OptionSpec) (mode : Mode) (pre : List Str) (os : List Occurrence)
    (x : Str) (xs : List Str) (hpre : OptionsOnly specs mode pre os) (hx : IsOperand x) :
    parseArguments specs mode (pre ++ x :: xs) = .ok (os, x :: xs) := by
  have h1 : startsWithSingleHyphen x = false := by
    rcases hx with hx | rfl
    · match x, hx with
      | [], _ => rfl
      | c :: rest, hx =>
        have : c ≠ '-' := fun h => hx (by simp [h])
        match c, rest, this with
        | c, [], _ => simp [startsWithSingleHyphen]
        | c, d :: _, hc => unfold startsWithSingleHyphen; split <;> simp_all
    · rfl
  have h2 : startsWithDoubleHyphen x = false := by
    rcases hx with hx | rfl
    · match x, hx with
      | [], _ => rfl
      | c :: rest, hx =>
        have : c ≠ '-' := fun h => hx (by simp [h])
        unfold startsWithDoubleHyphen; split <;> simp_all
    · rfl
  have h3 : x ≠ dashdash := by
    rcases hx with hx | rfl
    · intro h; subst h; exact hx rfl
    · decide
  unfold parseArguments
  rw [optLoop_append specs mode pre _ os hpre, optLoop_cons, step_stop _ _ _ _ h1 h2]
  simp [prepend, finish, skipSeparator, h3]

/-! ## long options -/

/-- ☆ The code's `long_match` computes the declarative resolution: the exactly named option if there
    is one (first in the table), otherwise the options whose name `name` abbreviates — one of them
    is the match, none or several are an error carrying them. -/
theorem longMatch_resolves (specs : List OptionSpec) (name : Str) :
    longMatch specs name =
      match Spec.candidates specs name with
      | [s] => .ok s
      | ss => .error ss :=
  longMatch_eq_candidates' specs name

/-- ★ A long option may be abbreviated to any prefix `p` that denotes it unambiguously: `--p` (and
    `--p=x`) is the same as `--l` (`--l=x`) with the full name `l`.  Forced side conditions: `p ≠ ""`
    (`--` is the separator), `l` contains no `=` (the name of `--l` ends at the first `=`; the
    documentation of `OptionSpec::long` excludes such names), `t` is empty or `=…`. -/
theorem long_prefix (specs : List OptionSpec) (mode : Mode) (p l t : Str) (s : OptionSpec) (r : List Str)
    (hu : Denotes specs p s) (hl : s.long = some l) (hp : p ≠ []) (heq : '=' ∉ l)
    (ht : t = [] ∨ t.head? = some '=') :
    parseArguments specs mode (('-' :: '-' :: (p ++ t)) :: r) =
      parseArguments specs mode (('-' :: '-' :: (l ++ t)) :: r) := by
  have hfull : Denotes specs l s := candidates_full specs p l s hu hl
  have hpl : p.isPrefixOf l = true := by
    simpa [Spec.abbreviates, hl] using (candidates_mem specs p s hu).2
  have hpre := List.isPrefixOf_iff_prefix.mp hpl
  have hpeq : '=' ∉ p := fun h => heq (hpre.subset h)
  have hlne : l ≠ [] := by
    intro h; subst h
    exact hp (List.prefix_nil.mp hpre)
  unfold parseArguments
  congr 1
  apply optLoop_congr_step
  · rw [step_longform specs mode p t _ (by simp [hp]) hpeq ht, step_longform specs mode l t _ (by simp [hlne]) heq ht,
      longMatch_of_candidates hu, longMatch_of_candidates hfull]
  · rw [step_longform specs mode l t _ (by simp [hlne]) heq ht]; exact ofLong_ne_stop _

/-- ★ `--l=x` ≡ `--l x` whenever the name `l` (full or abbreviated) can only denote an option that
    takes an argument.  Forced side conditions: `l ≠ ""`, no `=` in `l`.  (If `l` is unknown or
    ambiguous both spellings fail identically; if it denotes an option without argument, `--l=x`
    is rejected — `malformed_unexpected_argument` — while `--l x` has the operand `x`.) -/
theorem long_eq_arg (specs : List OptionSpec) (mode : Mode) (l x : Str) (r : List Str)
    (hl : l ≠ []) (heq : '=' ∉ l) (ha : ∀ s, Denotes specs l s → s.takesArg = true) :
    parseArguments specs mode (('-' :: '-' :: (l ++ '=' :: x)) :: r) =
      parseArguments specs mode (('-' :: '-' :: l) :: x :: r) := by
  unfold parseArguments
  congr 1
  have e2 : ('-' :: '-' :: l) = '-' :: '-' :: (l ++ []) := by simp
  rw [optLoop_cons, optLoop_cons, e2, step_longform specs mode l ('=' :: x) _ (by simp) heq (Or.inr rfl),
    step_longform specs mode l [] _ (by simp [hl]) heq (Or.inl rfl)]
  cases hm : longMatch specs l with
  | error ms => rfl
  | ok s =>
    have hs : s.takesArg = true := by
      apply ha
      have := longMatch_resolves specs l
      rw [hm] at this
      unfold Denotes
      generalize Spec.candidates specs l = cs at this
      match cs, this with
      | [s'], h => simp at h; rw [h]
      | [], h => simp at h
      | _ :: _ :: _, h => simp at h
    simp only [longResult, hs, List.head?_cons]
    by_cases hmode : (!(mode.longOptionNames && (mode.extensionOptions || !s.extension))) = true
    · simp [hmode, Step.ofLong]
    · simp [hmode, Step.ofLong]

/-! ## malformed invocations are rejected

  The result is an `error`: no option and no operand is delivered — not even those of the valid
  prefix `pre` — so the built-in has nothing to act on (`no effect`).  Every statement holds at any
  position: after an arbitrary options-only prefix `pre`, and (for short options) inside a cluster
  behind any accepted flags `g`. -/

/-- ★ unknown short option -/
theorem malformed_unknown_short (specs : List OptionSpec) (mode : Mode) (pre : List Str)
    (os : List Occurrence) (g cs : Str) (c : Char) (r : List Str)
    (hpre : OptionsOnly specs mode pre os) (hg : ∀ d ∈ g, IsFlag specs mode d)
    (hc : findShort specs c = none) (hh : ∃ c0 cs', g ++ [c] = c0 :: cs' ∧ c0 ≠ '-') :
    parseArguments specs mode (pre ++ ('-' :: (g ++ c :: cs)) :: r) = .error (.unknownShort c) := by
  apply cluster_error specs mode pre os _ r _ hpre (head_append g c cs hh)
  apply shortLoop_flags_error _ _ _ _ _ _ _ hg
  intro i; simp [shortLoop, hc]

/-- ★ unknown long option: no option is named `n` and `n` abbreviates none -/
theorem malformed_unknown_long (specs : List OptionSpec) (mode : Mode) (pre : List Str)
    (os : List Occurrence) (n t : Str) (r : List Str)
    (hpre : OptionsOnly specs mode pre os) (hc : Spec.candidates specs n = [])
    (hne : n ++ t ≠ []) (hn : '=' ∉ n) (ht : t = [] ∨ t.head? = some '=') :
    parseArguments specs mode (pre ++ ('-' :: '-' :: (n ++ t)) :: r) = .error .unknownLong := by
  apply long_error specs mode pre os n t r _ hpre hne hn ht
  rw [longMatch_resolves, hc]; rfl

/-- ★ ambiguous long option: `n` is no option's name and abbreviates two or more (`ss`, in table order) -/
theorem malformed_ambiguous_long (specs : List OptionSpec) (mode : Mode) (pre : List Str)
    (os : List Occurrence) (n t : Str) (r : List Str) (ss : List OptionSpec)
    (hpre : OptionsOnly specs mode pre os) (hc : Spec.candidates specs n = ss) (h2 : 2 ≤ ss.length)
    (hne : n ++ t ≠ []) (hn : '=' ∉ n) (ht : t = [] ∨ t.head? = some '=') :
    parseArguments specs mode (pre ++ ('-' :: '-' :: (n ++ t)) :: r) = .error (.ambiguousLong ss) := by
  apply long_error specs mode pre os n t r _ hpre hne hn ht
  rw [longMatch_resolves, hc]
  match ss, h2 with
  | a :: b :: rest, _ => rfl

/-- ★ missing option-argument, short option: the option that takes an argument is the last character of
    the last command-line argument -/
theorem malformed_missing_argument_short (specs : List OptionSpec) (mode : Mode) (pre : List Str)
    (os : List Occurrence) (g : Str) (o : Char) (s : OptionSpec)
    (hpre : OptionsOnly specs mode pre os) (hg : ∀ d ∈ g, IsFlag specs mode d)
    (hf : findShort specs o = some s) (ha : s.takesArg = true)
    (he : s.extension = true → mode.extensionOptions = true)
    (hh : ∃ c0 cs', g ++ [o] = c0 :: cs' ∧ c0 ≠ '-') :
    parseArguments specs mode (pre ++ [('-' :: (g ++ [o]))]) = .error (.missingArgument s) := by
  apply cluster_error specs mode pre os _ [] _ hpre hh
  apply shortLoop_flags_error _ _ _ _ _ _ _ hg
  intro i
  have : (s.extension && !mode.extensionOptions) = false := by
    cases hx : s.extension <;> simp_all
  simp [shortLoop, hf, ha, this]

/-- ★ missing option-argument, long option (no `=`, nothing follows) -/
theorem malformed_missing_argument_long (specs : List OptionSpec) (mode : Mode) (pre : List Str)
    (os : List Occurrence) (n : Str) (s : OptionSpec)
    (hpre : OptionsOnly specs mode pre os) (hd : Denotes specs n s) (ha : s.takesArg = true)
    (hm : LongAllowed mode s) (hne : n ≠ []) (hn : '=' ∉ n) :
    parseArguments specs mode (pre ++ [('-' :: '-' :: n)]) = .error (.missingArgument s) := by
  have := long_error specs mode pre os n [] [] (.missingArgument s) hpre (by simp [hne]) hn (Or.inl rfl)
    (by rw [longMatch_of_candidates hd]; simp [longResult, longAllowed_bool hm, ha])
  simpa using this

/-- ★ unexpected `=arg` on a long option that takes no argument -/
theorem malformed_unexpected_argument (specs : List OptionSpec) (mode : Mode) (pre : List Str)
    (os : List Occurrence) (n x : Str) (s : OptionSpec) (r : List Str)
    (hpre : OptionsOnly specs mode pre os) (hd : Denotes specs n s) (ha : s.takesArg = false)
    (hm : LongAllowed mode s) (hn : '=' ∉ n) :
    parseArguments specs mode (pre ++ ('-' :: '-' :: (n ++ '=' :: x)) :: r) = .error (.unexpectedArgument s) := by
  apply long_error specs mode pre os n ('=' :: x) r _ hpre (by simp) hn (Or.inr rfl)
  rw [longMatch_of_candidates hd]; simp [longResult, longAllowed_bool hm, ha]

/-! ## what the `portable` option rejects (by design, not a violation)

  `Mode::with_env` gives `Mode.portable` (all three extensions off) when the shell option `portable`
  is on.  The statements are for any mode with the respective extension off. -/

/-- ★ every long option (full, abbreviated, with or without `=arg`) is rejected when long names are off,
    and so is a long option marked as an extension when extension options are off -/
theorem portable_rejects_long (specs : List OptionSpec) (mode : Mode) (pre : List Str)
    (os : List Occurrence) (n t : Str) (s : OptionSpec) (r : List Str)
    (hpre : OptionsOnly specs mode pre os) (hd : Denotes specs n s) (hm : ¬ LongAllowed mode s)
    (hne : n ++ t ≠ []) (hn : '=' ∉ n) (ht : t = [] ∨ t.head? = some '=') :
    parseArguments specs mode (pre ++ ('-' :: '-' :: (n ++ t)) :: r) = .error (.nonPortableLong s) := by
  apply long_error specs mode pre os n t r _ hpre hne hn ht
  rw [longMatch_of_candidates hd]; simp [longResult, not_longAllowed_bool hm]

/-- ★ an option-argument attached to its short option is rejected when that extension is off -/
theorem portable_rejects_attached (specs : List OptionSpec) (mode : Mode) (pre : List Str)
    (os : List Occurrence) (g x : Str) (o : Char) (s : OptionSpec) (r : List Str)
    (hpre : OptionsOnly specs mode pre os) (hg : ∀ d ∈ g, IsFlag specs mode d)
    (hf : findShort specs o = some s) (ha : s.takesArg = true)
    (he : s.extension = true → mode.extensionOptions = true) (hx : x ≠ [])
    (hm : mode.optionArgumentsInSameField = false)
    (hh : ∃ c0 cs', g ++ [o] = c0 :: cs' ∧ c0 ≠ '-') :
    parseArguments specs mode (pre ++ ('-' :: (g ++ o :: x)) :: r) = .error (.unseparatedArgument s) := by
  apply cluster_error specs mode pre os _ r _ hpre (head_append g o x hh)
  apply shortLoop_flags_error _ _ _ _ _ _ _ hg
  intro i
  have : (s.extension && !mode.extensionOptions) = false := by
    cases hx : s.extension <;> simp_all
  cases x with
  | nil => exact absurd rfl hx
  | cons x0 xs => simp [shortLoop, hf, ha, this, hm]

/-- ★ a short option marked as an extension is rejected when extension options are off -/
theorem portable_rejects_extension (specs : List OptionSpec) (mode : Mode) (pre : List Str)
    (os : List Occurrence) (g cs : Str) (c : Char) (s : OptionSpec) (r : List Str)
    (hpre : OptionsOnly specs mode pre os) (hg : ∀ d ∈ g, IsFlag specs mode d)
    (hf : findShort specs c = some s) (hx : s.extension = true) (hm : mode.extensionOptions = false)
    (hh : ∃ c0 cs', g ++ [c] = c0 :: cs' ∧ c0 ≠ '-') :
    parseArguments specs mode (pre ++ ('-' :: (g ++ c :: cs)) :: r) = .error (.nonPortableShort c s) := by
  apply cluster_error specs mode pre os _ r _ hpre (head_append g c cs hh)
  apply shortLoop_flags_error _ _ _ _ _ _ _ hg
  intro i; simp [shortLoop, hf, hx, hm]

/-! ## refinement: the Impl model is the reference parser, modulo spelling

  One theorem from which the laws follow as corollaries proved on the (much simpler) Spec side.  It also
  backs the driver's per-case comparison `view (model) = Spec.parse` (spec column of the correspondence
  run) by a proof for all inputs. -/

/-- ☆ For every option table, every mode and every argument vector, the transcription of
    `parse_arguments` delivers — modulo `OptionSpelling` — exactly what the reference parser of
    `Spec.lean` delivers: the same options with the same arguments in the same order and the same
    operands, or the same error (class, option character and named specs). -/
theorem parse_refines_spec (specs : List OptionSpec) (mode : Mode) (args : List Str) :
    (parseArguments specs mode args).view = Spec.parse specs mode args :=
  parseArguments_view_eq_spec specs mode args

/-- the hypothesis of the direct theorems (`OptionsOnly`, on the Impl loop) gives the Spec-side one -/
theorem optionsOnly_transfers (specs : List OptionSpec) (mode : Mode) (pre : List Str) (os : List Occurrence)
    (h : OptionsOnly specs mode pre os) : SpecOptionsOnly specs mode pre (os.map Occurrence.view) :=
  specOptionsOnly_of_impl specs mode pre os h

/-- ☆ `dashdash_ends` again, as a corollary of the refinement and the Spec-side law `spec_dashdash_ends`.
    `SpecOptionsOnly pre vs`: the reference parser treats `pre` as nothing but the options `vs`, whatever follows. -/
theorem dashdash_ends_via_spec (specs : List OptionSpec) (mode : Mode) (pre : List Str) (vs : List VOpt)
    (xs : List Str) (h : SpecOptionsOnly specs mode pre vs) :
    (parseArguments specs mode (pre ++ dashdash :: xs)).view = .ok (vs, xs) := by
  rw [parse_refines_spec]; exact spec_dashdash_ends specs mode pre vs xs h

/-- ☆ `first_operand_ends` again, via the Spec -/
theorem first_operand_ends_via_spec (specs : List OptionSpec) (mode : Mode) (pre : List Str) (vs : List VOpt)
    (x : Str) (xs : List Str) (h : SpecOptionsOnly specs mode pre vs) (hx : IsOperand x) :
    (parseArguments specs mode (pre ++ x :: xs)).view = .ok (vs, x :: xs) := by
  rw [parse_refines_spec]; exact spec_first_operand_ends specs mode pre vs x xs h hx

/-- ☆ `group_eq_separate` again, via the Spec (`spec_group_eq_separate`) -/
theorem group_eq_separate_via_spec (specs : List OptionSpec) (mode : Mode) (a : Char) (s : OptionSpec)
    (cs : Str) (r : List Str) (hf : findShort specs a = some s) (ha : s.takesArg = false) (hd : a ≠ '-')
    (hc : ∃ c0 cs', cs = c0 :: cs' ∧ c0 ≠ '-') :
    (parseArguments specs mode (('-' :: a :: cs) :: r)).view =
      (parseArguments specs mode (['-', a] :: ('-' :: cs) :: r)).view := by
  rw [parse_refines_spec, parse_refines_spec]; exact spec_group_eq_separate specs mode a s cs r hf ha hd hc

/-- ☆ `long_eq_arg` again (modulo spelling), via the Spec (`spec_long_eq_arg`) -/
theorem long_eq_arg_via_spec (specs : List OptionSpec) (mode : Mode) (l x : Str) (r : List Str)
    (hl : l ≠ []) (heq : '=' ∉ l) (ha : ∀ s, Denotes specs l s → s.takesArg = true) :
    (parseArguments specs mode (('-' :: '-' :: (l ++ '=' :: x)) :: r)).view =
      (parseArguments specs mode (('-' :: '-' :: l) :: x :: r)).view := by
  rw [parse_refines_spec, parse_refines_spec]; exact spec_long_eq_arg specs mode l x r hl heq ha

/-! ## equivalent spellings: one invariance theorem

  `Spec.canon` (Canon.lean) rewrites a vector into its canonical spelling: clusters split into single
  letters, attached option-arguments (`-oX`, `--name=X`) moved to the next argument, abbreviated long
  names written in full.  Two vectors are *equivalent spellings* when they have the same canonical
  spelling. -/

/-- ★ For every option table, every argument vector and every mode that accepts attached
    option-arguments (under `portable` they are rejected: `portable_rejects_attached`): the canonical
    spelling parses like the vector itself — same options with the same arguments in the same order
    and the same operands, or the same error. -/
theorem canonical_spelling_same_parse (specs : List OptionSpec) (mode : Mode)
    (hm : mode.optionArgumentsInSameField = true) (args : List Str) :
    (parseArguments specs mode (Spec.canon specs args)).view = (parseArguments specs mode args).view := by
  rw [parse_refines_spec, parse_refines_spec]
  exact run_canon specs mode hm args.length args (Nat.le_refl _)

/-- ★ Equivalent spellings of an invocation parse alike.  (Grouped / separate letters, attached / separate
    option-arguments, abbreviated / full long names, `=arg` / next argument, and any mixture of them
    anywhere in the vector: all are instances, see the examples.) -/
theorem equivalent_spellings_same_parse (specs : List OptionSpec) (mode : Mode)
    (hm : mode.optionArgumentsInSameField = true) (a b : List Str) (h : Spec.canon specs a = Spec.canon specs b) :
    (parseArguments specs mode a).view = (parseArguments specs mode b).view := by
  rw [← canonical_spelling_same_parse specs mode hm a, ← canonical_spelling_same_parse specs mode hm b, h]

/-- ★ `Spec.canon` really produces the canonical spelling: if the vector is accepted (and the table
    respects the documented naming rules: no short name `-`, long names non-empty and without `=`),
    every option of the canonical spelling is written `-c` or `--fullname`, each followed by its
    argument as an argument of its own, up to `--` / the first operand. -/
theorem canon_is_canonical (specs : List OptionSpec) (mode : Mode) (hw : WellNamed specs) (args : List Str) (r)
    (h : (parseArguments specs mode args).view = .ok r) :
    Spec.isCanonical specs false (Spec.canon specs args) = true := by
  rw [parse_refines_spec] at h
  exact canon_isCanonical specs mode hw args.length args r (Nat.le_refl _) h

/-- ★ On canonical vectors `parse_arguments` is the ten-line reader `Spec.readCanon` (one token at a time:
    `-c`, `--fullname`, its argument if it takes one, `--`, operands). -/
theorem canonical_vectors_read_simply (specs : List OptionSpec) (mode : Mode) (v : List Str)
    (h : Spec.isCanonical specs false v = true) :
    (parseArguments specs mode v).view = Spec.readCanon specs mode v := by
  rw [parse_refines_spec]
  exact run_eq_readCanon specs mode v.length v (Nat.le_refl _) h

/-- ★ End to end: what `parse_arguments` delivers for an accepted vector is what the simple reader
    reads off its canonical spelling ("separate everything first, then read options until `--` or
    the first operand"). -/
theorem parse_is_read_of_canonical (specs : List OptionSpec) (mode : Mode)
    (hm : mode.optionArgumentsInSameField = true) (hw : WellNamed specs) (args : List Str) (r)
    (h : (parseArguments specs mode args).view = .ok r) :
    Spec.readCanon specs mode (Spec.canon specs args) = .ok r := by
  rw [← canonical_vectors_read_simply specs mode _ (canon_is_canonical specs mode hw args r h),
    canonical_spelling_same_parse specs mode hm, h]

/-! ## malformed invocations: one theorem over all error classes -/

/-- ★ `parse_arguments` fails with `e` **if and only if** the vector splits into a prefix that consists of
    accepted options only, one argument in option position whose defect is `e`, and a rest that is never
    looked at.  The defect (`tokenDefect`) is what the reference parser finds wrong with that one
    argument: an unknown letter in a cluster, a letter / name switched off by the mode, an attached
    argument while that is switched off, an unknown or ambiguous long name, `=arg` on an option
    without argument, or an option that needs an argument at the very end of the vector.
    "If": every malformed vector is rejected, with nothing delivered (not even the options of the valid
    prefix).  "Only if": nothing else is ever rejected — every other vector is accepted. -/
theorem malformed_iff (specs : List OptionSpec) (mode : Mode) (args : List Str) (e : ParseError) :
    parseArguments specs mode args = .error e ↔
      ∃ pre a r os, args = pre ++ a :: r ∧ OptionsOnly specs mode pre os ∧
        tokenDefect specs mode a r.head? = some e := by
  constructor
  · intro h
    have : optLoop specs mode args = .error e := by
      unfold parseArguments at h
      cases hl : optLoop specs mode args with
      | error e' => rw [hl] at h; simp [finish] at h; rw [h]
      | ok q => rw [hl] at h; cases q; simp [finish] at h
    exact optLoop_error_localised specs mode args.length args e (Nat.le_refl _) this
  · rintro ⟨pre, a, r, os, rfl, hpre, hdef⟩
    exact error_after_options specs mode pre os a r e hpre ((step_fail_iff specs mode a r.head? e).mpr hdef)

/-- ★ a vector is accepted exactly when no argument in option position has a defect -/
theorem accepted_iff_no_defect (specs : List OptionSpec) (mode : Mode) (args : List Str) :
    (∃ r, parseArguments specs mode args = .ok r) ↔
      ¬ ∃ pre a r os e, args = pre ++ a :: r ∧ OptionsOnly specs mode pre os ∧
        tokenDefect specs mode a r.head? = some e := by
  constructor
  · rintro ⟨r, hr⟩ ⟨pre, a, r', os, e, h1, h2, h3⟩
    have := (malformed_iff specs mode args e).mpr ⟨pre, a, r', os, h1, h2, h3⟩
    rw [hr] at this; cases this
  · intro h
    cases hp : parseArguments specs mode args with
    | ok r => exact ⟨r, rfl⟩
    | error e =>
      obtain ⟨pre, a, r, os, h1, h2, h3⟩ := (malformed_iff specs mode args e).mp hp
      exact absurd ⟨pre, a, r, os, e, h1, h2, h3⟩ h

/-! ## the option tables of the real built-ins (generated from yash-builtin on every run) -/

/-- ☆ No generated table has two options with the same short name or the same long name, and every
    name is well formed (not `-`, not empty, no `=`). -/
theorem tables_no_duplicate_names :
    (Generated.ArgSpecs.all.all fun t => tableOk t.2) = true := by decide

/-- ☆ In every generated table each option is found by its own short name and denoted by its own
    full long name (so `long_prefix` and `long_eq_arg` apply to every long option of every built-in). -/
theorem tables_names_reach_their_option :
    (Generated.ArgSpecs.all.all fun t => tableReachable t.2) = true := by decide

/-- ☆ Static audit: `OptionOccurrence::spelling` is the only way a built-in could tell two spellings of
    one invocation apart.  Outside common/syntax.rs (and tests) it is read by `ulimit` only, which —
    solely while the `portable` option is on — rejects grouped option letters, as POSIX exempts
    `ulimit` from Utility Syntax Guideline 5.  A new reader breaks this theorem. -/
theorem spelling_readers_audited : Generated.ArgSpecs.spellingReaders = ["ulimit/syntax.rs"] := rfl

/-! ## non-vacuity: a concrete table and concrete vectors meeting the hypotheses -/

/-- `-a`, `-b` (flags), `-o`/`--output` (takes an argument), `--long`, `--lot` (flags),
    `-x`/`--extra` (extension flag) -/
def exT : List OptionSpec := [
  { short := some 'a' }, { short := some 'b' },
  { short := some 'o', long := some ['o','u','t','p','u','t'], takesArg := true },
  { long := some ['l','o','n','g'] }, { long := some ['l','o','t'] },
  { short := some 'x', long := some ['e','x','t','r','a'], extension := true }]

def exO : OptionSpec := { short := some 'o', long := some ['o','u','t','p','u','t'], takesArg := true }
def exX : OptionSpec := { short := some 'x', long := some ['e','x','t','r','a'], extension := true }
def exM := Mode.withExtensions

/-- `-ab X` ≡ `-a -b X` -/
example : (parseArguments exT exM [['-','a','b'], ['X']]).view =
    (parseArguments exT exM [['-','a'], ['-','b'], ['X']]).view :=
  group_eq_separate exT exM 'a' { short := some 'a' } ['b'] [['X']] (by decide) rfl (by decide) ⟨'b', [], rfl, by decide⟩
example : (parseArguments exT exM [['-','a','b'], ['X']]).view =
    .ok ([({ short := some 'a' }, none), ({ short := some 'b' }, none)], [['X']]) := rfl
/-- the side condition of `group_eq_separate` is forced: `-a-` is an error, `-a --` is not -/
example : parseArguments exT exM [['-','a','-']] = .error (.unknownShort '-') := rfl
example : (parseArguments exT exM [['-','a'], ['-','-']]).view = .ok ([({ short := some 'a' }, none)], []) := rfl

private theorem ex_noarg_ab : ∀ c ∈ ['a', 'b'], NoArg exT c := by
  intro c hc s hs
  simp at hc
  rcases hc with rfl | rfl
  · have : findShort exT 'a' = some { short := some 'a' } := by decide
    rw [this] at hs; cases hs; rfl
  · have : findShort exT 'b' = some { short := some 'b' } := by decide
    rw [this] at hs; cases hs; rfl

/-- `-abab` ≡ `-ab -ab` -/
example : (parseArguments exT exM [['-','a','b','a','b']]).view =
    (parseArguments exT exM [['-','a','b'], ['-','a','b']]).view :=
  group_eq_separate_general exT exM ['a','b'] ['a','b'] [] ex_noarg_ab ⟨'a', ['b'], rfl, by decide⟩
    ⟨'a', ['b'], rfl, by decide⟩

/-- `-oX Y` ≡ `-o X Y`, `-aboX` ≡ `-abo X` -/
example : (parseArguments exT exM [['-','o','X'], ['Y']]).view =
    (parseArguments exT exM [['-','o'], ['X'], ['Y']]).view :=
  attached_eq_next exT exM 'o' exO ['X'] [['Y']] (by decide) rfl (by decide) (by decide) rfl
example : (parseArguments exT exM [['-','a','b','o','X']]).view =
    (parseArguments exT exM [['-','a','b','o'], ['X']]).view :=
  attached_eq_next_general exT exM ['a','b'] ['X'] 'o' exO [] ex_noarg_ab (by decide) rfl (by decide) rfl
    ⟨'a', ['b','o'], rfl, by decide⟩
example : (parseArguments exT exM [['-','a','b','o','X']]).view =
    .ok ([({ short := some 'a' }, none), ({ short := some 'b' }, none), (exO, some ['X'])], []) := rfl
/-- an option-argument may look like anything, also like the separator -/
example : (parseArguments exT exM [['-','o'], ['-','-'], ['-','a']]).view =
    .ok ([(exO, some ['-','-']), ({ short := some 'a' }, none)], []) := rfl

/-- `-a -o X -- -b --long` : everything after `--` is an operand -/
example : OptionsOnly exT exM [['-','a'], ['-','o'], ['X']]
    [⟨{ short := some 'a' }, .short 1, none⟩, ⟨exO, .short 1, some ['X']⟩] := rfl
example : parseArguments exT exM ([['-','a'], ['-','o'], ['X']] ++ dashdash :: [['-','b'], ['-','-','l','o','n','g']]) =
    .ok ([⟨{ short := some 'a' }, .short 1, none⟩, ⟨exO, .short 1, some ['X']⟩], [['-','b'], ['-','-','l','o','n','g']]) :=
  dashdash_ends exT exM _ _ _ rfl
/-- `-a X -b` : `-b` is an operand; `-` alone is an operand -/
example : parseArguments exT exM ([['-','a']] ++ ['X'] :: [['-','b']]) =
    .ok ([⟨{ short := some 'a' }, .short 1, none⟩], [['X'], ['-','b']]) :=
  first_operand_ends exT exM _ _ _ _ rfl (Or.inl (by decide))
example : parseArguments exT exM ([['-','a']] ++ ['-'] :: [['-','b']]) =
    .ok ([⟨{ short := some 'a' }, .short 1, none⟩], [['-'], ['-','b']]) :=
  first_operand_ends exT exM _ _ _ _ rfl (Or.inr rfl)

/-- `--ou=X` ≡ `--output=X`; `--o` denotes `--output`; `--lo` is ambiguous; `--lon` denotes `--long` -/
example : Denotes exT ['o','u'] exO := by decide
example : Denotes exT ['l','o','n'] { long := some ['l','o','n','g'] } := by decide
example : parseArguments exT exM [['-','-','o','u','=','X'], ['Y']] =
    parseArguments exT exM [['-','-','o','u','t','p','u','t','=','X'], ['Y']] :=
  long_prefix exT exM ['o','u'] ['o','u','t','p','u','t'] ['=','X'] exO [['Y']] (by decide) rfl (by decide)
    (by decide) (Or.inr rfl)
example : longMatch exT ['l','o'] = .error [{ long := some ['l','o','n','g'] }, { long := some ['l','o','t'] }] := rfl
/-- `--ou=X` ≡ `--ou X` -/
example : parseArguments exT exM [['-','-','o','u','=','X'], ['Y']] =
    parseArguments exT exM [['-','-','o','u'], ['X'], ['Y']] :=
  long_eq_arg exT exM ['o','u'] ['X'] [['Y']] (by decide) (by decide)
    (by intro s h; have h' : Denotes exT ['o','u'] exO := by decide
        unfold Denotes at h h'; rw [h'] at h; cases h; rfl)
example : (parseArguments exT exM [['-','-','o','u','=','X'], ['Y']]).view = .ok ([(exO, some ['X'])], [['Y']]) := rfl

/-- malformed: `-a -bZ`, `--nope`, `--lo`, `-a -bo`, `--output`, `--long=1` -/
private theorem ex_flag_b : ∀ d ∈ ['b'], IsFlag exT exM d := by
  intro d hd; simp at hd; subst hd
  exact ⟨{ short := some 'b' }, by decide, rfl, by decide⟩
example : parseArguments exT exM ([['-','a']] ++ ['-','b','Z','a'] :: [['X']]) = .error (.unknownShort 'Z') :=
  malformed_unknown_short exT exM _ _ ['b'] ['a'] 'Z' _ (show OptionsOnly exT exM [['-','a']] _ from rfl) ex_flag_b
    (by decide) ⟨'b', ['Z'], rfl, by decide⟩
example : parseArguments exT exM ([['-','a']] ++ ['-','-','n','o','p','e'] :: [['X']]) = .error .unknownLong :=
  malformed_unknown_long exT exM _ _ ['n','o','p','e'] [] _ (show OptionsOnly exT exM [['-','a']] _ from rfl)
    (by decide) (by decide) (by decide) (Or.inl rfl)
example : parseArguments exT exM ([['-','a']] ++ ['-','-','l','o'] :: [['X']]) =
    .error (.ambiguousLong [{ long := some ['l','o','n','g'] }, { long := some ['l','o','t'] }]) :=
  malformed_ambiguous_long exT exM _ _ ['l','o'] [] _ _ (show OptionsOnly exT exM [['-','a']] _ from rfl)
    (by decide) (by decide) (by decide) (by decide) (Or.inl rfl)
example : parseArguments exT exM ([['-','a']] ++ [['-','b','o']]) = .error (.missingArgument exO) :=
  malformed_missing_argument_short exT exM _ _ ['b'] 'o' exO (show OptionsOnly exT exM [['-','a']] _ from rfl)
    ex_flag_b (by decide) rfl (by decide) ⟨'b', ['o'], rfl, by decide⟩
example : parseArguments exT exM ([['-','a']] ++ [['-','-','o','u','t']]) = .error (.missingArgument exO) :=
  malformed_missing_argument_long exT exM _ _ ['o','u','t'] exO (show OptionsOnly exT exM [['-','a']] _ from rfl)
    (by decide) rfl ⟨rfl, by decide⟩ (by decide) (by decide)
example : parseArguments exT exM ([['-','a']] ++ ['-','-','l','o','n','g','=','1'] :: []) =
    .error (.unexpectedArgument { long := some ['l','o','n','g'] }) :=
  malformed_unexpected_argument exT exM _ _ ['l','o','n','g'] ['1'] _ [] (show OptionsOnly exT exM [['-','a']] _ from rfl)
    (by decide) rfl ⟨rfl, by decide⟩ (by decide)

/-- under the `portable` option: `--long`, `-oX`, `-x` are rejected (and `-o X`, `-ab` still accepted) -/
example : parseArguments exT Mode.portable ([['-','a']] ++ ['-','-','l','o','n','g'] :: []) =
    .error (.nonPortableLong { long := some ['l','o','n','g'] }) :=
  portable_rejects_long exT Mode.portable _ _ ['l','o','n','g'] [] _ [] (show OptionsOnly exT Mode.portable [['-','a']] _ from rfl)
    (by decide) (by intro h; exact absurd h.1 (by decide)) (by decide) (by decide) (Or.inl rfl)
example : parseArguments exT Mode.portable ([['-','a']] ++ ['-','o','X'] :: []) = .error (.unseparatedArgument exO) :=
  portable_rejects_attached exT Mode.portable _ _ [] ['X'] 'o' exO [] (show OptionsOnly exT Mode.portable [['-','a']] _ from rfl)
    (by simp) (by decide) rfl (by decide) (by decide) rfl ⟨'o', [], rfl, by decide⟩
example : parseArguments exT Mode.portable ([['-','a']] ++ ['-','x'] :: []) = .error (.nonPortableShort 'x' exX) :=
  portable_rejects_extension exT Mode.portable _ _ [] [] 'x' exX [] (show OptionsOnly exT Mode.portable [['-','a']] _ from rfl)
    (by simp) (by decide) rfl rfl ⟨'x', [], rfl, by decide⟩
example : (parseArguments exT Mode.portable [['-','a','b'], ['-','o'], ['X'], ['Y']]).view =
    .ok ([({ short := some 'a' }, none), ({ short := some 'b' }, none), (exO, some ['X'])], [['Y']]) := rfl

/-- refinement on a concrete vector, and the Spec-side hypothesis met by `-a -o X` -/
example : Spec.parse exT exM [['-','a','b','o','X'], ['-','-','o','u','=','Y'], ['-','-'], ['-','a']] =
    .ok ([({ short := some 'a' }, none), ({ short := some 'b' }, none), (exO, some ['X']), (exO, some ['Y'])],
      [['-','a']]) := rfl
example : SpecOptionsOnly exT exM [['-','a'], ['-','o'], ['X']] [({ short := some 'a' }, none), (exO, some ['X'])] :=
  optionsOnly_transfers exT exM _ [⟨{ short := some 'a' }, .short 1, none⟩, ⟨exO, .short 1, some ['X']⟩] rfl
example : (parseArguments exT exM ([['-','a'], ['-','o'], ['X']] ++ dashdash :: [['-','b']])).view =
    .ok ([({ short := some 'a' }, none), (exO, some ['X'])], [['-','b']]) :=
  dashdash_ends_via_spec exT exM _ _ _
    (optionsOnly_transfers exT exM _ [⟨{ short := some 'a' }, .short 1, none⟩, ⟨exO, .short 1, some ['X']⟩] rfl)
example : (parseArguments exT exM ([['-','a']] ++ ['X'] :: [['-','b']])).view =
    .ok ([({ short := some 'a' }, none)], [['X'], ['-','b']]) :=
  first_operand_ends_via_spec exT exM _ _ _ _
    (optionsOnly_transfers exT exM _ [⟨{ short := some 'a' }, .short 1, none⟩] rfl) (Or.inl (by decide))
example : (parseArguments exT exM [['-','a','b'], ['X']]).view =
    (parseArguments exT exM [['-','a'], ['-','b'], ['X']]).view :=
  group_eq_separate_via_spec exT exM 'a' { short := some 'a' } ['b'] [['X']] (by decide) rfl (by decide)
    ⟨'b', [], rfl, by decide⟩
example : (parseArguments exT exM [['-','-','o','u','=','X'], ['Y']]).view =
    (parseArguments exT exM [['-','-','o','u'], ['X'], ['Y']]).view :=
  long_eq_arg_via_spec exT exM ['o','u'] ['X'] [['Y']] (by decide) (by decide)
    (by intro s h; have h' : Denotes exT ['o','u'] exO := by decide
        unfold Denotes at h h'; rw [h'] at h; cases h; rfl)

/-- equivalent spellings, anywhere in the vector: `-abo X --lon --ou=Y -- -a` ≡ `-a -b -oX --long --output Y -- -a` -/
example : Spec.canon exT [['-','a','b','o'], ['X'], ['-','-','l','o','n'], ['-','-','o','u','=','Y'], ['-','-'], ['-','a']] =
    [['-','a'], ['-','b'], ['-','o'], ['X'], ['-','-','l','o','n','g'], ['-','-','o','u','t','p','u','t'], ['Y'], ['-','-'], ['-','a']] := by
  decide
example : (parseArguments exT exM [['-','a','b','o'], ['X'], ['-','-','l','o','n'], ['-','-','o','u','=','Y'], ['-','-'], ['-','a']]).view =
    (parseArguments exT exM [['-','a'], ['-','b'], ['-','o','X'], ['-','-','l','o','n','g'], ['-','-','o','u','t','p','u','t'], ['Y'], ['-','-'], ['-','a']]).view :=
  equivalent_spellings_same_parse exT exM rfl _ _ (by decide)
/-- an abbreviation with an attached argument (`--lo=X` where `lo` abbreviates the only `lo…` option) -/
def exT2 : List OptionSpec := [{ short := some 'l', long := some ['l','o','n','g'], takesArg := true }, { short := some 'a' }]
example : Spec.canon exT2 [['-','-','l','o','=','X'], ['Y']] = [['-','-','l','o','n','g'], ['X'], ['Y']] := by decide
example : (parseArguments exT2 exM [['-','-','l','o','=','X'], ['Y']]).view =
    (parseArguments exT2 exM [['-','-','l','o','n','g'], ['X'], ['Y']]).view :=
  equivalent_spellings_same_parse exT2 exM rfl _ _ (by decide)
example : (parseArguments exT2 exM [['-','-','l','o','=','X'], ['Y']]).view =
    .ok ([({ short := some 'l', long := some ['l','o','n','g'], takesArg := true }, some ['X'])], [['Y']]) := rfl
/-- malformed tokens are left alone; a letter is not split from a following `-` -/
example : Spec.canon exT [['-','a','Z','b']] = [['-','a'], ['-','Z','b']] := by decide
example : Spec.canon exT [['-','a','-','b']] = [['-','a','-','b']] := by decide
example : Spec.canon exT [['-','-','l','o']] = [['-','-','l','o']] := by decide
/-- the naming rules hold for the example table; the canonical spelling is canonical and read by the simple reader -/
theorem exT_wellNamed : WellNamed exT := by
  intro s hs
  simp [exT] at hs
  rcases hs with rfl | rfl | rfl | rfl | rfl | rfl <;> refine ⟨by decide, ?_⟩ <;> intro l hl <;> cases hl <;> decide
example : Spec.isCanonical exT false (Spec.canon exT [['-','a','b','o','X'], ['-','-','l','o','n'], ['Y']]) = true := by decide
example : Spec.readCanon exT exM (Spec.canon exT [['-','a','b','o','X'], ['-','-','l','o','n'], ['Y']]) =
    .ok ([({ short := some 'a' }, none), ({ short := some 'b' }, none), (exO, some ['X']), ({ long := some ['l','o','n','g'] }, none)], [['Y']]) :=
  parse_is_read_of_canonical exT exM rfl exT_wellNamed _ _ rfl

/-- defects of single arguments, and a rejected vector located by `malformed_iff` -/
example : tokenDefect exT exM ['-','a','Z','b'] none = some (.unknownShort 'Z') := by rfl
example : tokenDefect exT exM ['-','-','l','o'] none =
    some (.ambiguousLong [{ long := some ['l','o','n','g'] }, { long := some ['l','o','t'] }]) := by rfl
example : tokenDefect exT exM ['-','a','o'] none = some (.missingArgument exO) := by rfl
example : tokenDefect exT exM ['-','a','o'] (some ['X']) = none := by rfl
example : tokenDefect exT Mode.portable ['-','o','X'] none = some (.unseparatedArgument exO) := by rfl
example : parseArguments exT exM ([['-','a'], ['-','o'], ['X']] ++ ['-','b','Z'] :: [['-','a']]) = .error (.unknownShort 'Z') :=
  (malformed_iff exT exM _ _).mpr ⟨[['-','a'], ['-','o'], ['X']], ['-','b','Z'], [['-','a']], _, rfl, rfl, by rfl⟩

end YashModel.Args
