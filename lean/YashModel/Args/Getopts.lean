/-
  C20, getopts leg — Impl model of the `getopts` built-in's own option walker
  (`yash-builtin/src/getopts/model.rs`: `OptionSpec::judge`, `next`; `getopts/report.rs`:
  `Result::report`; `getopts.rs`: `indexes_from_optind` / `indexes_to_optind`), the loop a script
  runs around it (`while getopts spec v args…`), and the Spec ("split every group into separate
  arguments first, then walk").

  Import-free and executable.  Strings are lists of characters (`nth(char_index-1)` counts
  characters, so no byte offsets are involved).  `$OPTIND` is the pair `(arg_index, char_index)`
  (`indexes_to_optind` prints `a` when `char_index = 1`, else `a:c`; the driver prints it that way).
-/
namespace YashModel.Args.Getopts

abbrev Str := List Char

/-- `OptionType` -/
inductive OptType where
  | noArgument | takesArgument | unknown
  deriving DecidableEq, Repr

/-- the `iter.find(|&c| c == option)` / `iter.next() == Some(':')` part of `OptionSpec::judge` -/
def judgeGo (option : Char) : Str → OptType
  | [] => .unknown
  | c :: rest =>
    if c = option then
      (match rest with
       | ':' :: _ => .takesArgument
       | _ => .noArgument)
    else judgeGo option rest

/-- `OptionSpec::judge` -/
def judge (spec : Str) (option : Char) : OptType :=
  if option = ':' then .unknown else judgeGo option spec

/-- `model::Error` -/
inductive GErr where
  | unknownOption | missingArgument
  deriving DecidableEq, Repr

/-- `OptionOccurrence` -/
structure Occ where
  option : Char
  argument : Option Str
  error : Option GErr
  deriving DecidableEq, Repr

/-- `model::Result` -/
structure NextResult where
  occ : Option Occ
  nextArg : Nat
  nextChar : Nat
  deriving DecidableEq, Repr

/-- `Result::non_option` -/
def nonOption (argIndex : Nat) : NextResult := ⟨none, argIndex, 1⟩

/-- the tail of `next` once the option character, the rest of its argument and the following
    arguments are known -/
def classify (spec : Str) (argIndex charIndex : Nat) (option : Char) (remainder : Str)
    (following : List Str) : NextResult :=
  -- `arg_index_incr(chars)`: 0 if another character follows in the same argument, else 1
  let incr := if remainder.isEmpty then 1 else 0
  let mk (argument : Option Str) (incr : Nat) (error : Option GErr) : NextResult :=
    ⟨some ⟨option, argument, error⟩, argIndex + incr, if incr = 0 then charIndex + 1 else 1⟩
  match judge spec option with
  | .unknown => mk none incr (some .unknownOption)
  | .noArgument => mk none incr none
  | .takesArgument =>
    if !remainder.isEmpty then mk (some remainder) 1 none
    else match following with
      | a :: _ => mk (some a) 2 none
      | [] => mk none 1 (some .missingArgument)

/-- `model::next` (`arg_index`, `char_index` are `NonZeroUsize`: 1-based) -/
def next (args : List Str) (spec : Str) (argIndex charIndex : Nat) : NextResult :=
  match args.drop (argIndex - 1) with
  | [] => nonOption argIndex
  | arg :: following =>
    match arg with
    | '-' :: chars =>
      if chars = ['-'] then nonOption (argIndex + 1)
      else
        match chars.drop (charIndex - 1) with
        | [] => nonOption argIndex
        | option :: remainder => classify spec argIndex charIndex option remainder following
    | _ => nonOption argIndex

/-- what one call of the built-in leaves behind: the value of the option variable, `$OPTARG`
    (`none` = unset), `$OPTIND` as (arg, char), whether a diagnostic went to stderr -/
structure Ev where
  var : Char
  optarg : Option Str
  optind : Nat × Nat
  diag : Bool
  deriving DecidableEq, Repr

/-- `Result::report` for a result with an option (`colon` = the spec starts with `:`) -/
def reportOcc (colon : Bool) (o : Occ) (optind : Nat × Nat) : Ev :=
  match o.error with
  | none => ⟨o.option, o.argument, optind, false⟩
  | some .unknownOption => if colon then ⟨'?', some [o.option], optind, false⟩ else ⟨'?', none, optind, true⟩
  | some .missingArgument => if colon then ⟨':', some [o.option], optind, false⟩ else ⟨'?', none, optind, true⟩

def isColon (spec : Str) : Bool := spec.head? == some ':'

/-- The script's loop `while getopts spec v args…; do …; done`, `$OPTIND` carried from call to call:
    the events of the calls that returned 0, and the `$OPTIND` (argument index) left by the call
    that returned non-zero (`none` if the fuel ran out first). -/
def walk (spec : Str) (args : List Str) : Nat → Nat → Nat → List Ev × Option Nat
  | 0, _, _ => ([], none)
  | fuel + 1, ai, ci =>
    let r := next args spec ai ci
    match r.occ with
    | none => ([], some r.nextArg)
    | some o =>
      let (evs, fin) := walk spec args fuel r.nextArg r.nextChar
      (reportOcc (isColon spec) o (r.nextArg, r.nextChar) :: evs, fin)

/-- enough calls for any vector: one per character plus one per argument plus one -/
def fuelFor (args : List Str) : Nat := (args.map (·.length + 1)).sum + 1

/-- all calls from `OPTIND=1` -/
def walkAll (spec : Str) (args : List Str) : List Ev × Option Nat := walk spec args (fuelFor args) 1 1

/-- Property-level observation of a whole run: per successful call the option variable, `$OPTARG`
    and whether a diagnostic was printed; then the operands `shift $((OPTIND-1))` leaves.
    (`$OPTIND` itself necessarily differs between two spellings.) -/
abbrev Obs := List (Char × Option Str × Bool) × Option (List Str)

def obsOf (args : List Str) (r : List Ev × Option Nat) : Obs :=
  (r.1.map fun e => (e.var, e.optarg, e.diag), r.2.map fun i => args.drop (i - 1))

/-! ## Spec: split every group into separate arguments first, then walk -/

/-- the letters of one group as separate arguments; `true` = the last letter takes an argument that
    was not attached, i.e. the next command-line argument belongs to it -/
def splitGroup (spec : Str) : Str → List Str × Bool
  | [] => ([], false)
  | c :: rest =>
    match judge spec c with
    | .takesArgument => if rest.isEmpty then ([['-', c]], true) else ([['-', c], rest], false)
    | _ => let (l, p) := splitGroup spec rest; (['-', c] :: l, p)

/-- The fully separated spelling of a vector: every group `-xyz` in option position becomes
    `-x -y -z`, an attached option-argument becomes the next argument; option-arguments, `--`, the
    first operand and everything behind them are kept.  A group containing the letter `-` is kept
    whole: a lone `-` letter cannot be written as an argument of its own (`--` is the separator). -/
def separate (spec : Str) : List Str → List Str
  | [] => []
  | a :: rest =>
    match a with
    | '-' :: c :: cs =>
      if (c :: cs) = ['-'] then a :: rest
      else
        let (parts, pending) := if (c :: cs).contains '-' then ([a], (splitGroup spec (c :: cs)).2) else splitGroup spec (c :: cs)
        if pending then
          match rest with
          | [] => parts
          | x :: rest' => parts ++ x :: separate spec rest'
        else parts ++ separate spec rest
    | _ => a :: rest

/-- the Spec's prediction for a vector: walk its fully separated spelling -/
def specObs (spec : Str) (args : List Str) : Obs :=
  obsOf (separate spec args) (walkAll spec (separate spec args))

end YashModel.Args.Getopts
