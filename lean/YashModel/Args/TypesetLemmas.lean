/-
  C20 — lemmas about the model of typeset/syntax.rs (Typeset.lean) and its Spec (TypesetSpec.lean).
  The property theorems are in TypesetTheorems.lean.
-/
import YashModel.Args.TypesetSpec
import YashModel.Args.Bespoke
namespace YashModel.Args.Typeset

theorem shortSign_eq_bespoke (a : Str) : shortSign a = Bespoke.shortSign a := by
  match a with
  | [] => simp [shortSign, Bespoke.shortSign]
  | [c] =>
    by_cases h1 : c = '-' <;> by_cases h2 : c = '+' <;> simp_all [shortSign, Bespoke.shortSign]
  | c0 :: c1 :: cs =>
    by_cases h1 : c0 = '-'
    · subst h1
      by_cases h3 : c1 = '-' <;> simp_all [shortSign, Bespoke.shortSign]
    · by_cases h2 : c0 = '+'
      · subst h2
        by_cases h3 : c1 = '+' <;> simp_all [shortSign, Bespoke.shortSign]
      · simp_all [shortSign, Bespoke.shortSign]

/-- what `parse` does with the first argument, by its shape -/
theorem shortSign_of_shape (a : Str) :
    shortSign a = (match shape a with | .group negate _ => some negate | _ => none) := by
  match a with
  | [] => simp [shortSign, shape]
  | [c] =>
    by_cases h1 : c = '-' <;> by_cases h2 : c = '+' <;> simp_all [shortSign, shape]
  | c0 :: c1 :: cs =>
    by_cases h1 : c0 = '-'
    · subst h1
      by_cases h3 : c1 = '-'
      · subst h3; by_cases h4 : cs = [] <;> simp_all [shortSign, shape]
      · simp_all [shortSign, shape]
    · by_cases h2 : c0 = '+'
      · subst h2
        by_cases h3 : c1 = '+' <;> simp_all [shortSign, shape]
      · simp_all [shortSign, shape]

theorem shape_group_drop {a : Str} {negate : Bool} {letters : Str} (h : shape a = .group negate letters) :
    a.drop 1 = letters ∧ a = signChar negate :: letters := by
  match a with
  | [] => simp [shape] at h
  | [c] => simp [shape] at h
  | c0 :: c1 :: cs =>
    simp only [shape] at h
    split at h
    · split at h
      · split at h <;> simp at h
      · simp at h; obtain ⟨h1, h2⟩ := h; subst h1; simp_all [signChar]
    · split at h
      · split at h
        · simp at h
        · simp at h; obtain ⟨h1, h2⟩ := h; subst h1; simp_all [signChar]
      · simp at h

theorem longPrefix_of_shape (a : Str) (hsep : a ≠ dashdash) :
    longPrefix a = (match shape a with | .long negate name => some (name, negate) | _ => none) := by
  match a with
  | [] => simp [longPrefix, shape]
  | [c] => simp [longPrefix, shape]
  | c0 :: c1 :: cs =>
    by_cases h1 : c0 = '-'
    · subst h1
      by_cases h3 : c1 = '-'
      · subst h3
        by_cases h4 : cs = []
        · subst h4; simp [dashdash] at hsep
        · simp_all [longPrefix, shape]
      · simp [shape, h3]
        unfold longPrefix
        split <;> simp_all
    · by_cases h2 : c0 = '+'
      · subst h2
        by_cases h3 : c1 = '+'
        · subst h3; simp [longPrefix, shape]
        · simp [shape, h3]
          unfold longPrefix
          split <;> simp_all
      · simp [shape, h1, h2]
        unfold longPrefix
        split <;> simp_all

theorem shape_separator_iff (a : Str) : shape a = .separator ↔ a = dashdash := by
  match a with
  | [] => simp [shape, dashdash]
  | [c] => simp [shape, dashdash]
  | c0 :: c1 :: cs =>
    simp only [shape, dashdash]
    constructor
    · intro h
      split at h
      · split at h
        · split at h <;> simp_all
        · simp at h
      · split at h
        · split at h <;> simp at h
        · simp at h
    · intro h
      simp at h
      obtain ⟨h1, h2, h3⟩ := h
      subst h1; subst h2; subst h3; simp

theorem prepend_nil (r : Except PErr (List Occ × List Str)) : prepend [] r = r := by
  cases r with
  | error e => rfl
  | ok p => obtain ⟨a, b⟩ := p; simp [prepend]

theorem prepend_append (os os' : List Occ) (r : Except PErr (List Occ × List Str)) :
    prepend (os ++ os') r = prepend os (prepend os' r) := by
  cases r with
  | error e => rfl
  | ok p => obtain ⟨a, b⟩ := p; simp [prepend]

/-- the first argument of the loop, by its shape -/
theorem parseLoop_cons (specs : List TSpec) (ln : Bool) (a : Str) (rest : List Str) :
    parseLoop specs ln (a :: rest) =
      match shape a with
      | .separator => .ok ([], rest)
      | .operand => .ok ([], a :: rest)
      | .group negate letters =>
        (match shortLoop specs negate letters with
         | .error e => .error e
         | .ok os => prepend os (parseLoop specs ln rest))
      | .long negate name =>
        (match longResolve (longCandidates specs name) negate ln with
         | .error e => .error e
         | .ok o => prepend [o] (parseLoop specs ln rest)) := by
  by_cases hsep : a = dashdash
  · subst hsep
    simp [parseLoop, shape, dashdash]
  · have hns : shape a ≠ .separator := fun h => hsep ((shape_separator_iff a).1 h)
    rw [parseLoop, if_neg hsep, shortSign_of_shape]
    cases hs : shape a with
    | separator => exact absurd hs hns
    | operand =>
      have := longPrefix_of_shape a hsep
      simp [hs] at this
      simp [tryParseLong, this]
    | group negate letters =>
      have := (shape_group_drop hs).1
      simp only [this]
      rfl
    | long negate name =>
      have := longPrefix_of_shape a hsep
      simp [hs] at this
      simp [tryParseLong, this]
      cases longResolve (longCandidates specs name) negate ln <;> simp

theorem shortLoop_append (specs : List TSpec) (negate : Bool) (l1 l2 : Str) :
    shortLoop specs negate (l1 ++ l2) =
      match shortLoop specs negate l1 with
      | .error e => .error e
      | .ok os => (match shortLoop specs negate l2 with
        | .error e => .error e
        | .ok os' => .ok (os ++ os')) := by
  induction l1 with
  | nil => simp [shortLoop]; cases shortLoop specs negate l2 <;> simp
  | cons c cs ih =>
    simp only [List.cons_append, shortLoop]
    cases hf : findShort specs c with
    | none => simp
    | some s =>
      simp only []
      by_cases hc : negate = true ∧ s.attr = none
      · simp [hc]
      · simp only [hc, if_false, ih]
        cases shortLoop specs negate cs with
        | error e => simp
        | ok os =>
          simp only []
          cases shortLoop specs negate l2 <;> simp

/-- a group all of whose letters are faultless is read letter by letter -/
theorem shortLoop_all_ok (specs : List TSpec) (negate : Bool) (letters : Str)
    (h : letters.all (letterOk specs negate) = true) :
    shortLoop specs negate letters = .ok (letters.map (letterOcc specs negate)) := by
  induction letters with
  | nil => simp [shortLoop]
  | cons c cs ih =>
    simp only [List.all_cons, Bool.and_eq_true] at h
    obtain ⟨hc, hcs⟩ := h
    simp only [shortLoop, ih hcs, List.map_cons]
    unfold letterOk at hc
    cases hf : findShort specs c with
    | none => simp [hf] at hc
    | some s =>
      simp [hf] at hc
      have : ¬ (negate = true ∧ s.attr = none) := by
        intro ⟨h1, h2⟩; simp [h1, h2] at hc
      simp [this, letterOcc, hf]

/-- the first defective letter decides -/
theorem shortLoop_defect (specs : List TSpec) (negate : Bool) (letters : Str) :
    shortLoop specs negate letters =
      match letters.findSome? (letterDefect specs negate) with
      | some e => .error e
      | none => .ok (letters.map (letterOcc specs negate)) := by
  induction letters with
  | nil => simp [shortLoop]
  | cons c cs ih =>
    simp only [shortLoop, List.findSome?_cons, letterDefect]
    cases hf : findShort specs c with
    | none => simp
    | some s =>
      by_cases hc : negate = true ∧ s.attr = none
      · simp [hc]
      · have : (negate && s.attr.isNone) = false := by
          cases negate <;> cases hs : s.attr <;> simp_all
        simp only [hc, if_false, this, ih]
        cases cs.findSome? (letterDefect specs negate) <;> simp [letterOcc, hf]

theorem letterOk_iff_no_defect (specs : List TSpec) (negate : Bool) (c : Char) :
    letterOk specs negate c = true ↔ letterDefect specs negate c = none := by
  unfold letterOk letterDefect
  cases hf : findShort specs c with
  | none => simp
  | some s => cases negate <;> cases hs : s.attr <;> simp [hs]

theorem all_ok_iff_no_defect (specs : List TSpec) (negate : Bool) (letters : Str) :
    letters.all (letterOk specs negate) = true ↔ letters.findSome? (letterDefect specs negate) = none := by
  induction letters with
  | nil => simp
  | cons c cs ih =>
    rw [List.all_cons, Bool.and_eq_true, List.findSome?_cons, ih, letterOk_iff_no_defect]
    cases letterDefect specs negate c <;> simp

/-- a long option: the defect, or the single option it denotes -/
theorem longResolve_defect (specs : List TSpec) (ln negate : Bool) (name : Str) :
    longResolve (longCandidates specs name) negate ln =
      match longDefect specs ln negate name with
      | some e => .error e
      | none => .ok { spec := ((longCandidates specs name).head?).getD { short := '?', long := [], attr := none }, state := !negate } := by
  unfold longResolve longDefect
  cases hc : longCandidates specs name with
  | nil => simp
  | cons s more =>
    cases more with
    | cons s2 m => simp
    | nil =>
      simp
      cases negate <;> cases hs : s.attr <;> cases ln <;> simp

theorem denotes_some_iff (specs : List TSpec) (negate : Bool) (name : Str) (s : TSpec) :
    denotes specs negate name = some s ↔
      longCandidates specs name = [s] ∧ ¬ (negate = true ∧ s.attr = none) := by
  unfold denotes
  cases hc : longCandidates specs name with
  | nil => simp
  | cons s' more =>
    cases more with
    | cons s2 m => simp
    | nil =>
      cases negate <;> cases hs : s'.attr <;> simp [hs] <;> (try (intro h; subst h; simp [hs]))

theorem longResolve_denotes {specs : List TSpec} {negate : Bool} {name : Str} {s : TSpec}
    (h : denotes specs negate name = some s) :
    longResolve (longCandidates specs name) negate true = .ok { spec := s, state := !negate } := by
  obtain ⟨h1, h2⟩ := (denotes_some_iff _ _ _ _).1 h
  simp [longResolve, h1, h2]


/-- one faultless option argument in front -/
theorem parseLoop_optionArg {specs : List TSpec} {ln : Bool} {a : Str} {os : List Occ}
    (h : optionArg specs ln a = some os) (rest : List Str) :
    parseLoop specs ln (a :: rest) = prepend os (parseLoop specs ln rest) := by
  rw [parseLoop_cons]
  unfold optionArg at h
  cases hs : shape a with
  | separator => simp [hs] at h
  | operand => simp [hs] at h
  | group negate letters =>
    simp only [hs] at h
    split at h
    · rename_i hall
      simp at h; subst h
      simp only [shortLoop_all_ok specs negate letters hall]
    · simp at h
  | long negate name =>
    simp only [hs] at h
    cases ln with
    | false => simp at h
    | true =>
      simp at h
      obtain ⟨s, hd, hos⟩ := h
      subst hos
      simp only [longResolve_denotes hd]

/-- ★ behind a prefix of faultless options the loop continues with the rest -/
theorem parseLoop_after_options {specs : List TSpec} {ln : Bool} {pre : List Str} {os : List Occ}
    (h : optionsOnly specs ln pre = some os) (ys : List Str) :
    parseLoop specs ln (pre ++ ys) = prepend os (parseLoop specs ln ys) := by
  induction pre generalizing os with
  | nil => simp [optionsOnly] at h; subst h; simp [prepend_nil]
  | cons a rest ih =>
    simp only [optionsOnly] at h
    cases h1 : optionArg specs ln a with
    | none => simp [h1] at h
    | some o1 =>
      cases h2 : optionsOnly specs ln rest with
      | none => simp [h1, h2] at h
      | some o2 =>
        simp [h1, h2] at h; subst h
        rw [List.cons_append, parseLoop_optionArg h1, ih h2, prepend_append]

theorem parseLoop_error_prefix {specs : List TSpec} {ln : Bool} {pre : List Str} {os : List Occ}
    (h : optionsOnly specs ln pre = some os) {ys : List Str} {e : PErr}
    (he : parseLoop specs ln ys = .error e) : parseLoop specs ln (pre ++ ys) = .error e := by
  rw [parseLoop_after_options h, he]; rfl

/-- an argument with a defect in front -/
theorem parseLoop_defect {specs : List TSpec} {ln : Bool} {a : Str} {e : PErr}
    (h : argDefect specs ln a = some e) (rest : List Str) :
    parseLoop specs ln (a :: rest) = .error e := by
  rw [parseLoop_cons]
  unfold argDefect at h
  cases hs : shape a with
  | separator => simp [hs] at h
  | operand => simp [hs] at h
  | group negate letters =>
    simp only [hs] at h
    simp only [shortLoop_defect, h]
  | long negate name =>
    simp only [hs] at h
    simp only [longResolve_defect, h]

/-- no defect: the argument is a faultless option, the separator or an operand -/
theorem optionArg_of_no_defect {specs : List TSpec} {ln : Bool} {a : Str}
    (h : argDefect specs ln a = none) :
    (∃ os, optionArg specs ln a = some os) ∨ shape a = .separator ∨ shape a = .operand := by
  unfold argDefect at h
  unfold optionArg
  cases hs : shape a with
  | separator => simp
  | operand => simp
  | group negate letters =>
    simp only [hs] at h
    left
    simp [(all_ok_iff_no_defect specs negate letters).2 h]
  | long negate name =>
    simp only [hs] at h
    left
    unfold longDefect at h
    unfold denotes
    cases hc : longCandidates specs name with
    | nil => simp [hc] at h
    | cons s more =>
      cases more with
      | cons s2 m => simp [hc] at h
      | nil =>
        simp [hc] at h
        cases ln with
        | false => cases negate <;> cases hs' : s.attr <;> simp_all
        | true => cases negate <;> cases hs' : s.attr <;> simp_all

theorem optionArg_no_defect {specs : List TSpec} {ln : Bool} {a : Str} {os : List Occ}
    (h : optionArg specs ln a = some os) : argDefect specs ln a = none := by
  unfold optionArg at h
  unfold argDefect
  cases hs : shape a with
  | separator => simp
  | operand => simp
  | group negate letters =>
    simp only [hs] at h
    split at h
    · rename_i hall; exact (all_ok_iff_no_defect specs negate letters).1 hall
    · simp at h
  | long negate name =>
    simp only [hs] at h
    cases ln with
    | false => simp at h
    | true =>
      simp at h
      obtain ⟨s, hd, _⟩ := h
      obtain ⟨h1, h2⟩ := (denotes_some_iff _ _ _ _).1 hd
      simp only [longDefect, h1]
      cases negate <;> cases hs' : s.attr <;> simp_all

/-- ★ every vector splits into faultless options, then: nothing, the separator, an operand, or a defective argument -/
theorem parseLoop_cases (specs : List TSpec) (ln : Bool) (args : List Str) :
    (∃ os, optionsOnly specs ln args = some os ∧ parseLoop specs ln args = .ok (os, [])) ∨
    (∃ pre os x post, args = pre ++ x :: post ∧ optionsOnly specs ln pre = some os ∧
        ((shape x = .separator ∧ parseLoop specs ln args = .ok (os, post)) ∨
         (shape x = .operand ∧ parseLoop specs ln args = .ok (os, x :: post)) ∨
         (∃ e, argDefect specs ln x = some e ∧ parseLoop specs ln args = .error e))) := by
  induction args with
  | nil => left; exact ⟨[], rfl, rfl⟩
  | cons a rest ih =>
    cases hd : argDefect specs ln a with
    | some e =>
      right
      exact ⟨[], [], a, rest, rfl, rfl, Or.inr (Or.inr ⟨e, hd, parseLoop_defect hd rest⟩)⟩
    | none =>
      rcases optionArg_of_no_defect hd with ⟨o1, h1⟩ | hsep | hop
      · rcases ih with ⟨os, h2, h3⟩ | ⟨pre, os, x, post, hargs, hpre, hx⟩
        · left
          refine ⟨o1 ++ os, by simp [optionsOnly, h1, h2], ?_⟩
          rw [parseLoop_optionArg h1, h3]; simp [prepend]
        · right
          refine ⟨a :: pre, o1 ++ os, x, post, by simp [hargs], by simp [optionsOnly, h1, hpre], ?_⟩
          rcases hx with ⟨hs, hp⟩ | ⟨hs, hp⟩ | ⟨e, hs, hp⟩
          · left; refine ⟨hs, ?_⟩; rw [parseLoop_optionArg h1, hp]; simp [prepend]
          · right; left; refine ⟨hs, ?_⟩; rw [parseLoop_optionArg h1, hp]; simp [prepend]
          · right; right; refine ⟨e, hs, ?_⟩; rw [parseLoop_optionArg h1, hp]; rfl
      · right
        refine ⟨[], [], a, rest, rfl, rfl, Or.inl ⟨hsep, ?_⟩⟩
        rw [parseLoop_cons, hsep]
      · right
        refine ⟨[], [], a, rest, rfl, rfl, Or.inr (Or.inl ⟨hop, ?_⟩)⟩
        rw [parseLoop_cons, hop]


/-- the single-letter arguments one faultless option argument is rewritten to -/
def singlesOf (specs : List TSpec) (a : Str) : List Str :=
  match shape a with
  | .group negate letters => letters.map (fun c => [signChar negate, c])
  | .long negate name =>
    (match denotes specs negate name with
     | some s => [[signChar negate, s.short]]
     | none => [a])
  | _ => [a]

theorem canon_cons (specs : List TSpec) (ln : Bool) (a : Str) (rest : List Str) :
    canon specs ln (a :: rest) =
      if (optionArg specs ln a).isSome then singlesOf specs a ++ canon specs ln rest else a :: rest := by
  cases hs : shape a with
  | separator => simp [canon, optionArg, hs]
  | operand => simp [canon, optionArg, hs]
  | group negate letters =>
    by_cases hall : letters.all (letterOk specs negate) = true <;> simp [canon, optionArg, singlesOf, hs, hall]
  | long negate name =>
    cases ln with
    | false => simp [canon, optionArg, hs]
    | true => cases hd : denotes specs negate name <;> simp [canon, optionArg, singlesOf, hs, hd]

theorem findShort_some {specs : List TSpec} {c : Char} {s : TSpec} (h : findShort specs c = some s) :
    s ∈ specs ∧ s.short = c := by
  unfold findShort at h
  have h1 := List.mem_of_find?_eq_some h
  have h2 := List.find?_some h
  simp at h2
  exact ⟨h1, h2⟩

theorem single_shape {negate : Bool} {c : Char} (hc : c ≠ signChar negate) :
    shape [signChar negate, c] = .group negate [c] := by
  cases negate <;> simp_all [shape, signChar]

theorem single_optionArg {specs : List TSpec} (wf : WellFormed specs) (ln : Bool) {negate : Bool} {c : Char}
    (h : letterOk specs negate c = true) :
    optionArg specs ln [signChar negate, c] = some [letterOcc specs negate c] ∧ isSingle [signChar negate, c] = true := by
  have hc : c ≠ '-' ∧ c ≠ '+' := by
    unfold letterOk at h
    cases hf : findShort specs c with
    | none => simp [hf] at h
    | some s =>
      obtain ⟨hm, hsc⟩ := findShort_some hf
      have := wf s hm
      rw [hsc] at this
      exact ⟨this.1, this.2.1⟩
  have hne : c ≠ signChar negate := by cases negate <;> simp [signChar, hc.1, hc.2]
  constructor
  · simp [optionArg, single_shape hne, h]
  · cases negate <;> simp_all [isSingle, signChar]

theorem singles_spec {specs : List TSpec} (wf : WellFormed specs) {ln : Bool} {a : Str} {os : List Occ}
    (h : optionArg specs ln a = some os) :
    optionsOnly specs ln (singlesOf specs a) = some os ∧ ∀ x ∈ singlesOf specs a, isSingle x = true := by
  unfold optionArg at h
  unfold singlesOf
  cases hs : shape a with
  | separator => simp [hs] at h
  | operand => simp [hs] at h
  | group negate letters =>
    simp only [hs] at h
    split at h
    · rename_i hall
      simp at h; subst h
      clear hs
      induction letters with
      | nil => simp [optionsOnly]
      | cons c cs ih =>
        simp only [List.all_cons, Bool.and_eq_true] at hall
        obtain ⟨h1, h2⟩ := single_optionArg wf ln hall.1
        obtain ⟨i1, i2⟩ := ih hall.2
        constructor
        · simp only [List.map_cons, optionsOnly, h1, i1]; simp
        · intro x hx
          simp only [List.map_cons, List.mem_cons] at hx
          rcases hx with hx | hx
          · subst hx; exact h2
          · exact i2 x hx
    · simp at h
  | long negate name =>
    simp only [hs] at h
    cases ln with
    | false => simp at h
    | true =>
      simp at h
      obtain ⟨s, hd, hos⟩ := h
      subst hos
      simp only [hd]
      obtain ⟨hc, hn⟩ := (denotes_some_iff _ _ _ _).1 hd
      have hm : s ∈ specs := by
        have : s ∈ longCandidates specs name := by rw [hc]; simp
        unfold longCandidates at this
        exact (List.mem_filter.1 this).1
      have hw := wf s hm
      have hok : letterOk specs negate s.short = true := by
        unfold letterOk
        rw [hw.2.2]
        cases negate <;> cases hs' : s.attr <;> simp_all
      obtain ⟨h1, h2⟩ := single_optionArg wf true hok
      have hocc : letterOcc specs negate s.short = { spec := s, state := !negate } := by
        simp [letterOcc, hw.2.2]
      constructor
      · simp [optionsOnly, h1, hocc]
      · intro x hx; simp at hx; subst hx; exact h2

/-- ★ the canonical spelling parses alike -/
theorem parseLoop_canon {specs : List TSpec} (wf : WellFormed specs) (ln : Bool) (args : List Str) :
    parseLoop specs ln (canon specs ln args) = parseLoop specs ln args := by
  induction args with
  | nil => simp [canon]
  | cons a rest ih =>
    rw [canon_cons]
    cases ho : optionArg specs ln a with
    | none => simp
    | some os =>
      simp only [Option.isSome_some, if_true]
      rw [parseLoop_after_options (singles_spec wf ho).1, ih, parseLoop_optionArg ho]

theorem isSingle_shape {a : Str} (h : isSingle a = true) : shape a ≠ .operand ∧ a ≠ dashdash ∧ shape a ≠ .separator := by
  match a with
  | [] => simp [isSingle] at h
  | [c] => simp [isSingle] at h
  | c0 :: c1 :: c2 :: cs => simp [isSingle] at h
  | [sg, c] =>
    simp [isSingle] at h
    obtain ⟨h1, h2⟩ := h
    rcases h1 with h1 | h1 <;> subst h1 <;> simp [shape, dashdash, h2]

theorem isCanonical_singles (l : List Str) (hl : ∀ x ∈ l, isSingle x = true) (v : List Str) :
    isCanonical (l ++ v) = isCanonical v := by
  induction l with
  | nil => rfl
  | cons x xs ih =>
    have hx := hl x (by simp)
    simp only [List.cons_append, isCanonical, hx, if_true]
    exact ih (fun y hy => hl y (by simp [hy]))

theorem prepend_ok {os : List Occ} {r : Except PErr (List Occ × List Str)} {q : List Occ × List Str}
    (h : prepend os r = .ok q) : ∃ q', r = .ok q' := by
  cases r with
  | error e => simp [prepend] at h
  | ok q' => exact ⟨q', rfl⟩

/-- an accepted vector has a canonical canonical spelling -/
theorem canon_canonical {specs : List TSpec} (wf : WellFormed specs) (ln : Bool) (args : List Str)
    {r : List Occ × List Str} (h : parseLoop specs ln args = .ok r) :
    isCanonical (canon specs ln args) = true := by
  induction args generalizing r with
  | nil => simp [canon, isCanonical]
  | cons a rest ih =>
    rw [canon_cons]
    cases ho : optionArg specs ln a with
    | some os =>
      simp only [Option.isSome_some, if_true]
      rw [isCanonical_singles _ (singles_spec wf ho).2]
      rw [parseLoop_optionArg ho] at h
      obtain ⟨q', hq⟩ := prepend_ok h
      exact ih hq
    | none =>
      simp only [Option.isSome_none]
      cases hd : argDefect specs ln a with
      | some e => rw [parseLoop_defect hd] at h; simp at h
      | none =>
        rcases optionArg_of_no_defect hd with ⟨o1, h1⟩ | hsep | hop
        · rw [ho] at h1; simp at h1
        · have : a = dashdash := (shape_separator_iff a).1 hsep
          subst this
          simp [isCanonical, isSingle, dashdash]
        · have hns : isSingle a = false := by
            cases hsg : isSingle a with
            | false => rfl
            | true => exact absurd hop (isSingle_shape hsg).1
          simp [isCanonical, hns, hop]

/-- ★ on a canonical vector the code's parser is the simple reader -/
theorem read_eq_parseLoop (specs : List TSpec) (ln : Bool) (v : List Str) (h : isCanonical v = true) :
    read specs v = parseLoop specs ln v := by
  induction v with
  | nil => simp [read, parseLoop]
  | cons a rest ih =>
    simp only [isCanonical] at h
    by_cases hsg : isSingle a = true
    · simp only [hsg, if_true] at h
      match a, hsg with
      | [sg, c], hsg =>
        simp [isSingle] at hsg
        obtain ⟨h1, h2⟩ := hsg
        have hne : [sg, c] ≠ ['-', '-'] := by
          intro heq; simp at heq; rcases h1 with h1 | h1 <;> simp_all
        have hshape : shape [sg, c] = .group (sg = '+') [c] := by
          rcases h1 with h1 | h1 <;> subst h1 <;> simp [shape, h2]
        rw [parseLoop_cons, hshape]
        simp only [read, hne, if_false, h1, h2, ne_eq, not_false_eq_true, and_self, if_true, shortLoop]
        cases hf : findShort specs c with
        | none => simp
        | some s =>
          simp only []
          by_cases hc : sg = '+' ∧ s.attr = none
          · simp [hc]
          · have hc' : ¬ (decide (sg = '+') = true ∧ s.attr = none) := by simpa using hc
            simp only [hc, hc', if_false, ih h]
    · have hsg' : isSingle a = false := by simpa using hsg
      simp only [hsg', Bool.false_eq_true, if_false, Bool.or_eq_true, decide_eq_true_eq] at h
      by_cases hdd : a = ['-', '-']
      · subst hdd
        simp [read, parseLoop, dashdash]
      · have hop : shape a = .operand := by
          rcases h with h | h
          · exact absurd h hdd
          · exact h
        rw [parseLoop_cons, hop]
        unfold read
        simp only [hdd, if_false]
        split
        · rename_i sg c
          have : ¬ ((sg = '-' ∨ sg = '+') ∧ c ≠ sg) := by
            intro hcond
            simp [isSingle] at hsg'
            rcases hcond.1 with h1 | h1 <;> simp_all
          simp [this]
        · rfl


theorem filter_refine {α : Type} (q r : α → Bool) (l : List α) (s : α) (hq : l.filter q = [s])
    (hrq : ∀ t, r t = true → q t = true) (hs : r s = true) : l.filter r = [s] := by
  induction l with
  | nil => simp at hq
  | cons a l ih =>
    cases hqa : q a with
    | true =>
      simp only [List.filter_cons, hqa, if_true, List.cons.injEq] at hq
      obtain ⟨rfl, hnil⟩ := hq
      have : l.filter r = [] := by
        rw [List.filter_eq_nil_iff] at hnil ⊢
        intro t ht hrt
        exact hnil t ht (hrq t hrt)
      simp [List.filter_cons, hs, this]
    | false =>
      have hra : r a = false := by
        cases hr : r a with
        | false => rfl
        | true => rw [hrq a hr] at hqa; cases hqa
      simp only [List.filter_cons, hqa, hra] at hq ⊢
      exact ih hq

theorem shortLoop_specs_mem (specs : List TSpec) (negate : Bool) : ∀ (cs : Str) (os : List Occ),
    shortLoop specs negate cs = .ok os → ∀ o ∈ os, o.spec ∈ specs ∧ o.state = !negate := by
  intro cs
  induction cs with
  | nil => intro os h; simp [shortLoop] at h; subst h; simp
  | cons c cs ih =>
    intro os h
    rw [shortLoop] at h
    cases hf : findShort specs c with
    | none => simp [hf] at h
    | some s =>
      simp only [hf] at h
      split at h
      · simp at h
      · cases hr : shortLoop specs negate cs with
        | error e => simp [hr] at h
        | ok os' =>
          simp [hr] at h; subst h
          intro o ho
          simp at ho
          rcases ho with rfl | ho
          · exact ⟨(findShort_some hf).1, rfl⟩
          · exact ih os' hr o ho

end YashModel.Args.Typeset
