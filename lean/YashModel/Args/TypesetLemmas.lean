/-
  C20 — lemmas about the model of typeset/syntax.rs (Typeset.lean) and its Spec (TypesetSpec.lean).
  The property theorems are in TypesetTheorems.lean.
-/
import YashModel.Args.TypesetSpec
import YashModel.Args.Bespoke
namespace YashModel.Args.Typeset

theorem shortSign_eq_bespoke (a : Str) : shortSign a = Bespoke.shortSign a := by
  match a with
  | [] => simp [shortSign, Bespoke.shortSign]
  | [c] =>
    by_cases h1 : c = '-' <;> by_cases h2 : c = '+' <;> simp_all [shortSign, Bespoke.shortSign]
  | c0 :: c1 :: cs =>
    by_cases h1 : c0 = '-'
    · subst h1
      by_cases h3 : c1 = '-' <;> simp_all [shortSign, Bespoke.shortSign]
    · by_cases h2 : c0 = '+'
      · subst h2
        by_cases h3 : c1 = '+' <;> simp_all [shortSign, Bespoke.shortSign]
      · simp_all [shortSign, Bespoke.shortSign]

/-- what `parse` does with the first argument, by its shape -/
theorem shortSign_of_shape (a : Str) :
    shortSign a = (match shape a with | .group negate _ => some negate | _ => none) := by
  match a with
  | [] => simp [shortSign, shape]
  | [c] =>
    by_cases h1 : c = '-' <;> by_cases h2 : c = '+' <;> simp_all [shortSign, shape]
  | c0 :: c1 :: cs =>
    by_cases h1 : c0 = '-'
    · subst h1
      by_cases h3 : c1 = '-'
      · subst h3; by_cases h4 : cs = [] <;> simp_all [shortSign, shape]
      · simp_all [shortSign, shape]
    · by_cases h2 : c0 = '+'
      · subst h2
        by_cases h3 : c1 = '+' <;> simp_all [shortSign, shape]
      · simp_all [shortSign, shape]

theorem shape_group_drop {a : Str} {negate : Bool} {letters : Str} (h : shape a = .group negate letters) :
    a.drop 1 = letters ∧ a = signChar negate :: letters := by
  match a with
  | [] => simp [shape] at h
  | [c] => simp [shape] at h
  | c0 :: c1 :: cs =>
    simp only [shape] at h
    split at h
    · split at h
      · split at h <;> simp at h
      · simp at h; obtain ⟨h1, h2⟩ := h; subst h1; simp_all [signChar]
    · split at h
      · split at h
        · simp at h
        · simp at h; obtain ⟨h1, h2⟩ := h; subst h1; simp_all [signChar]
      · simp at h

theorem longPrefix_of_shape (a : Str) (hsep : a ≠ dashdash) :
    longPrefix a = (match shape a with | .long negate name => some (name, negate) | _ => none) := by
  match a with
  | [] => simp [longPrefix, shape]
  | [c] => simp [longPrefix, shape]
  | c0 :: c1 :: cs =>
    by_cases h1 : c0 = '-'
    · subst h1
      by_cases h3 : c1 = '-'
      · subst h3
        by_cases h4 : cs = []
        · subst h4; simp [dashdash] at hsep
        · simp_all [longPrefix, shape]
      · simp [shape, h3]
        unfold longPrefix
        split <;> simp_all
    · by_cases h2 : c0 = '+'
      · subst h2
        by_cases h3 : c1 = '+'
        · subst h3; simp [longPrefix, shape]
        · simp [shape, h3]
          unfold longPrefix
          split <;> simp_all
      · simp [shape, h1, h2]
        unfold longPrefix
        split <;> simp_all

theorem shape_separator_iff (a : Str) : shape a = .separator ↔ a = dashdash := by
  match a with
  | [] => simp [shape, dashdash]
  | [c] => simp [shape, dashdash]
  | c0 :: c1 :: cs =>
    simp only [shape, dashdash]
    constructor
    · intro h
      split at h
      · split at h
        · split at h <;> simp_all
        · simp at h
      · split at h
        · split at h <;> simp at h
        · simp at h
    · intro h
      simp at h
      obtain ⟨h1, h2, h3⟩ := h
      subst h1; subst h2; subst h3; simp

theorem prepend_nil (r : Except PErr (List Occ × List Str)) : prepend [] r = r := by
  cases r with
  | error e => rfl
  | ok p => obtain ⟨a, b⟩ := p; simp [prepend]

theorem prepend_append (os os' : List Occ) (r : Except PErr (List Occ × List Str)) :
    prepend (os ++ os') r = prepend os (prepend os' r) := by
  cases r with
  | error e => rfl
  | ok p => obtain ⟨a, b⟩ := p; simp [prepend]

/-- the first argument of the loop, by its shape -/
theorem parseLoop_cons (specs : List TSpec) (ln : Bool) (a : Str) (rest : List Str) :
    parseLoop specs ln (a :: rest) =
      match shape a with
      | .separator => .ok ([], rest)
      | .operand => .ok ([], a :: rest)
      | .group negate letters =>
        (match shortLoop specs negate letters with
         | .error e => .error e
         | .ok os => prepend os (parseLoop specs ln rest))
      | .long negate name =>
        (match longResolve (longCandidates specs name) negate ln with
         | .error e => .error e
         | .ok o => prepend [o] (parseLoop specs ln rest)) := by
  by_cases hsep : a = dashdash
  · subst hsep
    simp [parseLoop, shape, dashdash]
  · have hns : shape a ≠ .separator := fun h => hsep ((shape_separator_iff a).1 h)
    rw [parseLoop, if_neg hsep, shortSign_of_shape]
    cases hs : shape a with
    | separator => exact absurd hs hns
    | operand =>
      have := longPrefix_of_shape a hsep
      simp [hs] at this
      simp [tryParseLong, this]
    | group negate letters =>
      have := (shape_group_drop hs).1
      simp only [this]
      rfl
    | long negate name =>
      have := longPrefix_of_shape a hsep
      simp [hs] at this
      simp [tryParseLong, this]
      cases longResolve (longCandidates specs name) negate ln <;> simp

theorem shortLoop_append (specs : List TSpec) (negate : Bool) (l1 l2 : Str) :
    shortLoop specs negate (l1 ++ l2) =
      match shortLoop specs negate l1 with
      | .error e => .error e
      | .ok os => (match shortLoop specs negate l2 with
        | .error e => .error e
        | .ok os' => .ok (os ++ os')) := by
  induction l1 with
  | nil => simp [shortLoop]; cases shortLoop specs negate l2 <;> simp
  | cons c cs ih =>
    simp only [List.cons_append, shortLoop]
    cases hf : findShort specs c with
    | none => simp
    | some s =>
      simp only []
      by_cases hc : negate = true ∧ s.attr = none
      · simp [hc]
      · simp only [hc, if_false, ih]
        cases shortLoop specs negate cs with
        | error e => simp
        | ok os =>
          simp only []
          cases shortLoop specs negate l2 <;> simp

/-- a group all of whose letters are faultless is read letter by letter -/
theorem shortLoop_all_ok (specs : List TSpec) (negate : Bool) (letters : Str)
    (h : letters.all (letterOk specs negate) = true) :
    shortLoop specs negate letters = .ok (letters.map (letterOcc specs negate)) := by
  induction letters with
  | nil => simp [shortLoop]
  | cons c cs ih =>
    simp only [List.all_cons, Bool.and_eq_true] at h
    obtain ⟨hc, hcs⟩ := h
    simp only [shortLoop, ih hcs, List.map_cons]
    unfold letterOk at hc
    cases hf : findShort specs c with
    | none => simp [hf] at hc
    | some s =>
      simp [hf] at hc
      have : ¬ (negate = true ∧ s.attr = none) := by
        intro ⟨h1, h2⟩; simp [h1, h2] at hc
      simp [this, letterOcc, hf]

/-- the first defective letter decides -/
theorem shortLoop_defect (specs : List TSpec) (negate : Bool) (letters : Str) :
    shortLoop specs negate letters =
      match letters.findSome? (letterDefect specs negate) with
      | some e => .error e
      | none => .ok (letters.map (letterOcc specs negate)) := by
  induction letters with
  | nil => simp [shortLoop]
  | cons c cs ih =>
    simp only [shortLoop, List.findSome?_cons, letterDefect]
    cases hf : findShort specs c with
    | none => simp
    | some s =>
      by_cases hc : negate = true ∧ s.attr = none
      · simp [hc]
      · have : (negate && s.attr.isNone) = false := by
          cases negate <;> cases hs : s.attr <;> simp_all
        simp only [hc, if_false, this, ih]
        cases cs.findSome? (letterDefect specs negate) <;> simp [letterOcc, hf]

theorem letterOk_iff_no_defect (specs : List TSpec) (negate : Bool) (c : Char) :
    letterOk specs negate c = true ↔ letterDefect specs negate c = none := by
  unfold letterOk letterDefect
  cases hf : findShort specs c with
  | none => simp
  | some s => cases negate <;> cases hs : s.attr <;> simp [hs]

theorem all_ok_iff_no_defect (specs : List TSpec) (negate : Bool) (letters : Str) :
    letters.all (letterOk specs negate) = true ↔ letters.findSome? (letterDefect specs negate) = none := by
  induction letters with
  | nil => simp
  | cons c cs ih =>
    rw [List.all_cons, Bool.and_eq_true, List.findSome?_cons, ih, letterOk_iff_no_defect]
    cases letterDefect specs negate c <;> simp

/-- a long option: the defect, or the single option it denotes -/
theorem longResolve_defect (specs : List TSpec) (ln negate : Bool) (name : Str) :
    longResolve (longCandidates specs name) negate ln =
      match longDefect specs ln negate name with
      | some e => .error e
      | none => .ok { spec := ((longCandidates specs name).head?).getD { short := '?', long := [], attr := none }, state := !negate } := by
  unfold longResolve longDefect
  cases hc : longCandidates specs name with
  | nil => simp
  | cons s more =>
    cases more with
    | cons s2 m => simp
    | nil =>
      simp
      cases negate <;> cases hs : s.attr <;> cases ln <;> simp

theorem denotes_some_iff (specs : List TSpec) (negate : Bool) (name : Str) (s : TSpec) :
    denotes specs negate name = some s ↔
      longCandidates specs name = [s] ∧ ¬ (negate = true ∧ s.attr = none) := by
  unfold denotes
  cases hc : longCandidates specs name with
  | nil => simp
  | cons s' more =>
    cases more with
    | cons s2 m => simp
    | nil =>
      cases negate <;> cases hs : s'.attr <;> simp [hs] <;> (try (intro h; subst h; simp [hs]))

theorem longResolve_denotes {specs : List TSpec} {negate : Bool} {name : Str} {s : TSpec}
    (h : denotes specs negate name = some s) :
    longResolve (longCandidates specs name) negate true = .ok { spec := s, state := !negate } := by
  obtain ⟨h1, h2⟩ := (denotes_some_iff _ _ _ _).1 h
  simp [longResolve, h1, h2]


/-- one faultless option argument in front -/
theorem parseLoop_optionArg {specs : List TSpec} {ln : Bool} {a : Str} {os : List Occ}
    (h : optionArg specs ln a = some os) (rest : List Str) :
    parseLoop specs ln (a :: rest) = prepend os (parseLoop specs ln rest) := by
  rw [parseLoop_cons]
  unfold optionArg at h
  cases hs : shape a with
  | separator => simp [hs] at h
  | operand => simp [hs] at h
  | group negate letters =>
    simp only [hs] at h
    split at h
    · rename_i hall
      simp at h; subst h
      simp only [shortLoop_all_ok specs negate letters hall]
    · simp at h
  | long negate name =>
    simp only [hs] at h
    cases ln with
    | false => simp at h
    | true =>
      simp at h
      obtain ⟨s, hd, hos⟩ := h
      subst hos
      simp only [longResolve_denotes hd]

/-- ★ behind a prefix of faultless options the loop continues with the rest -/
theorem parseLoop_after_options {specs : List TSpec} {ln : Bool} {pre : List Str} {os : List Occ}
    (h : optionsOnly specs ln pre = some os) (ys : List Str) :
    parseLoop specs ln (pre ++ ys) = prepend os (parseLoop specs ln ys) := by
  induction pre generalizing os with
  | nil => simp [optionsOnly] at h; subst h; simp [prepend_nil]
  | cons a rest ih =>
    simp only [optionsOnly] at h
    cases h1 : optionArg specs ln a with
    | none => simp [h1] at h
    | some o1 =>
      cases h2 : optionsOnly specs ln rest with
      | none => simp [h1, h2] at h
      | some o2 =>
        simp [h1, h2] at h; subst h
        rw [List.cons_append, parseLoop_optionArg h1, ih h2, prepend_append]

theorem parseLoop_error_prefix {specs : List TSpec} {ln : Bool} {pre : List Str} {os : List Occ}
    (h : optionsOnly specs ln pre = some os) {ys : List Str} {e : PErr}
    (he : parseLoop specs ln ys = .error e) : parseLoop specs ln (pre ++ ys) = .error e := by
  rw [parseLoop_after_options h, he]; rfl

/-- an argument with a defect in front -/
theorem parseLoop_defect {specs : List TSpec} {ln : Bool} {a : Str} {e : PErr}
    (h : argDefect specs ln a = some e) (rest : List Str) :
    parseLoop specs ln (a :: rest) = .error e := by
  rw [parseLoop_cons]
  unfold argDefect at h
  cases hs : shape a with
  | separator => simp [hs] at h
  | operand => simp [hs] at h
  | group negate letters =>
    simp only [hs] at h
    simp only [shortLoop_defect, h]
  | long negate name =>
    simp only [hs] at h
    simp only [longResolve_defect, h]

/-- no defect: the argument is a faultless option, the separator or an operand -/
theorem optionArg_of_no_defect {specs : List TSpec} {ln : Bool} {a : Str}
    (h : argDefect specs ln a = none) :
    (∃ os, optionArg specs ln a = some os) ∨ shape a = .separator ∨ shape a = .operand := by
  unfold argDefect at h
  unfold optionArg
  cases hs : shape a with
  | separator => simp
  | operand => simp
  | group negate letters =>
    simp only [hs] at h
    left
    simp [(all_ok_iff_no_defect specs negate letters).2 h]
  | long negate name =>
    simp only [hs] at h
    left
    unfold longDefect at h
    unfold denotes
    cases hc : longCandidates specs name with
    | nil => simp [hc] at h
    | cons s more =>
      cases more with
      | cons s2 m => simp [hc] at h
      | nil =>
        simp [hc] at h
        cases ln with
        | false => cases negate <;> cases hs' : s.attr <;> simp_all
        | true => cases negate <;> cases hs' : s.attr <;> simp_all

theorem optionArg_no_defect {specs : List TSpec} {ln : Bool} {a : Str} {os : List Occ}
    (h : optionArg specs ln a = some os) : argDefect specs ln a = none := by
  unfold optionArg at h
  unfold argDefect
  cases hs : shape a with
  | separator => simp
  | operand => simp
  | group negate letters =>
    simp only [hs] at h
    split at h
    · rename_i hall; exact (all_ok_iff_no_defect specs negate letters).1 hall
    · simp at h
  | long negate name =>
    simp only [hs] at h
    cases ln with
    | false => simp at h
    | true =>
      simp at h
      obtain ⟨s, hd, _⟩ := h
      obtain ⟨h1, h2⟩ := (denotes_some_iff _ _ _ _).1 hd
      simp only [longDefect, h1]
      cases negate <;> cases hs' : s.attr <;> simp_all

/-- ★ every vector splits into faultless options, then: nothing, the separator, an operand, or a defective argument -/
theorem parseLoop_cases (specs : List TSpec) (ln : Bool) (args : List Str) :
    (∃ os, optionsOnly specs ln args = some os ∧ parseLoop specs ln args = .ok (os, [])) ∨
    (∃ pre os x post, args = pre ++ x :: post ∧ optionsOnly specs ln pre = some os ∧
        ((shape x = .separator ∧ parseLoop specs ln args = .ok (os, post)) ∨
         (shape x = .operand ∧ parseLoop specs ln args = .ok (os, x :: post)) ∨
         (∃ e, argDefect specs ln x = some e ∧ parseLoop specs ln args = .error e))) := by
  induction args with
  | nil => left; exact ⟨[], rfl, rfl⟩
  | cons a rest ih =>
    cases hd : argDefect specs ln a with
    | some e =>
      right
      exact ⟨[], [], a, rest, rfl, rfl, Or.inr (Or.inr ⟨e, hd, parseLoop_defect hd rest⟩)⟩
    | none =>
      rcases optionArg_of_no_defect hd with ⟨o1, h1⟩ | hsep | hop
      · rcases ih with ⟨os, h2, h3⟩ | ⟨pre, os, x, post, hargs, hpre, hx⟩
        · left
          refine ⟨o1 ++ os, by simp [optionsOnly, h1, h2], ?_⟩
          rw [parseLoop_optionArg h1, h3]; simp [prepend]
        · right
          refine ⟨a :: pre, o1 ++ os, x, post, by simp [hargs], by simp [optionsOnly, h1, hpre], ?_⟩
          rcases hx with ⟨hs, hp⟩ | ⟨hs, hp⟩ | ⟨e, hs, hp⟩
          · left; refine ⟨hs, ?_⟩; rw [parseLoop_optionArg h1, hp]; simp [prepend]
          · right; left; refine ⟨hs, ?_⟩; rw [parseLoop_optionArg h1, hp]; simp [prepend]
          · right; right; refine ⟨e, hs, ?_⟩; rw [parseLoop_optionArg h1, hp]; rfl
      · right
        refine ⟨[], [], a, rest, rfl, rfl, Or.inl ⟨hsep, ?_⟩⟩
        rw [parseLoop_cons, hsep]
      · right
        refine ⟨[], [], a, rest, rfl, rfl, Or.inr (Or.inl ⟨hop, ?_⟩)⟩
        rw [parseLoop_cons, hop]


end YashModel.Args.Typeset
