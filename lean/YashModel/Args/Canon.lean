/-
  C20 — the canonical spelling of an argument vector for `parse_arguments` (common/syntax.rs), a Spec
  function: every cluster of short options split into single letters, every attached option-argument
  (`-oX`, `--name=X`) moved to the next argument, every abbreviated long name written in full.  Tokens
  that cannot be resolved (unknown letter, unknown / ambiguous name, `=arg` on a flag) are left as they
  are — they make the whole vector malformed either way — and a letter is not split from a following
  letter `-` (a lone `-` letter cannot be an argument of its own: `--` is the separator).  Everything from
  `--` or the first operand on is left untouched.
  `Theorems.lean`: the canonical spelling parses like the original (`canonical_spelling_same_parse`),
  two vectors with the same canonical spelling parse alike (`equivalent_spellings_same_parse`), and
  the canonical spelling of a well-formed vector is canonical (`canon_is_canonical`): only `-c`,
  `--fullname`, option-arguments, then `--`/operands, which a ten-line reader (`readCanon`) can parse.
-/
import YashModel.Args.Spec
namespace YashModel.Args.Spec
open YashModel.Args

inductive ArgKind where
  /-- `--`, `-`, the empty string, anything not starting with `-`: option parsing stops here -/
  | stop
  /-- `--body`, body non-empty -/
  | long (body : Str)
  /-- `-cs`, cs non-empty and not starting with `-` -/
  | cluster (cs : Str)
  deriving DecidableEq, Repr

def argKind (a : Str) : ArgKind :=
  match a with
  | '-' :: c :: cs => if c = '-' then (if cs.isEmpty then .stop else .long cs) else .cluster (c :: cs)
  | _ => .stop

def shortTok (c : Char) : Str := ['-', c]
def longTok (l : Str) : Str := '-' :: '-' :: l

/-- does the cluster end with an option whose argument is the next command-line argument? -/
def pendingOf (specs : List OptionSpec) : Str → Bool
  | [] => false
  | c :: cs =>
    match specs.find? (fun s => s.short == some c) with
    | none => false
    | some s => if s.takesArg then cs.isEmpty else pendingOf specs cs

/-- the letters of a cluster, one argument each.  An unknown letter keeps the rest of the cluster (the
    vector is malformed either way); a letter followed by the letter `-` is not split off either
    (`-a-b` cannot be written `-a --b`). -/
def canonCluster (specs : List OptionSpec) : Str → List Str
  | [] => []
  | c :: cs =>
    match specs.find? (fun s => s.short == some c) with
    | none => ['-' :: c :: cs]
    | some s =>
      if s.takesArg then (if cs.isEmpty then [shortTok c] else [shortTok c, cs])
      else if cs.head? = some '-' then ['-' :: c :: cs]
      else shortTok c :: canonCluster specs cs

/-- a long option: the full name, the attached argument moved out -/
def canonLong (specs : List OptionSpec) (body : Str) : List Str × Bool :=
  let name := body.takeWhile (· ≠ '=')
  let hasEq := body.contains '='
  let arg := (body.dropWhile (· ≠ '=')).drop 1
  match candidates specs name with
  | [s] =>
    (match s.long with
     | some l =>
       if l.isEmpty || l.contains '=' then ([longTok body], s.takesArg && !hasEq)
       else if s.takesArg then (if hasEq then ([longTok l, arg], false) else ([longTok l], true))
       else (if hasEq then ([longTok body], false) else ([longTok l], false))
     | none => ([longTok body], false))
  | _ => ([longTok body], false)

def canonParts (specs : List OptionSpec) (a : Str) : ArgKind → List Str × Bool
  | .stop => ([a], false)
  | .long body => canonLong specs body
  | .cluster cs => (canonCluster specs cs, pendingOf specs cs)

/-- the canonical spelling -/
def canon (specs : List OptionSpec) : List Str → List Str
  | [] => []
  | a :: rest =>
    if argKind a = .stop then a :: rest
    else if (canonParts specs a (argKind a)).2 then
      match rest with
      | [] => (canonParts specs a (argKind a)).1
      | x :: rest' => (canonParts specs a (argKind a)).1 ++ x :: canon specs rest'
    else (canonParts specs a (argKind a)).1 ++ canon specs rest

/-- a token of a canonical vector -/
inductive Tok where
  /-- `--`, `-`, an operand: option parsing stops -/
  | stop
  /-- `-c` (`isLong = false`) or `--fullname` (`isLong = true`) naming the option `s` -/
  | opt (s : OptionSpec) (isLong : Bool) (c : Char)
  /-- anything else that starts with `-` -/
  | bad (e : ParseError)
  deriving Repr

def tokOf (specs : List OptionSpec) (a : Str) : Tok :=
  match argKind a with
  | .stop => .stop
  | .long body =>
    if body.contains '=' then .bad .unknownLong
    else match specs.find? (fun s => s.long == some body) with
      | some s => .opt s true '-'
      | none => .bad .unknownLong
  | .cluster cs =>
    match cs with
    | [c] =>
      (match specs.find? (fun s => s.short == some c) with
       | some s => .opt s false c
       | none => .bad (.unknownShort c))
    | _ => .bad .unknownLong

/-- is the option switched off by the mode? -/
def blocked (mode : Mode) (s : OptionSpec) (isLong : Bool) : Bool :=
  (isLong && !mode.longOptionNames) || (s.extension && !mode.extensionOptions)

def blockedError (s : OptionSpec) (isLong : Bool) (c : Char) : ParseError :=
  if isLong then .nonPortableLong s else .nonPortableShort c s

/-- A reader for canonical vectors only: `-c`, `--fullname`, each followed by its argument if it takes
    one; `--`; operands. -/
def readCanon (specs : List OptionSpec) (mode : Mode) : List Str → View
  | [] => .ok ([], [])
  | a :: rest =>
    match tokOf specs a with
    | .stop => if a = ['-', '-'] then .ok ([], rest) else .ok ([], a :: rest)
    | .bad e => .error e
    | .opt s isLong c =>
      if blocked mode s isLong then .error (blockedError s isLong c)
      else if s.takesArg then
        match rest with
        | [] => .error (.missingArgument s)
        | x :: rest' => cons [(s, some x)] (readCanon specs mode rest')
      else cons [(s, none)] (readCanon specs mode rest)

/-- is the vector in canonical spelling? (`pending` = the previous option still needs its argument) -/
def isCanonical (specs : List OptionSpec) : Bool → List Str → Bool
  | _, [] => true
  | true, _ :: rest => isCanonical specs false rest
  | false, a :: rest =>
    match tokOf specs a with
    | .stop => true
    | .bad _ => false
    | .opt s _ _ => isCanonical specs s.takesArg rest

end YashModel.Args.Spec
