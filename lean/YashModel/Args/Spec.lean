/-
  Spec for C20: a reference parser for the POSIX Utility Syntax Guidelines (XBD 12.2, guidelines
  3-10) plus the documented extensions (long options, abbreviation, `=`), written the simplest way:
  one argument at a time with a "pending option-argument" state, and declarative long-name
  resolution (the exactly named option if there is one, otherwise the set of options the name
  abbreviates).  It knows nothing of spellings, indices, peeking or accumulators.
  Import-free (apart from the model's data types) and executable.
-/
import YashModel.Args.Model
namespace YashModel.Args.Spec
open YashModel.Args

/-- does `name` abbreviate (or equal) the long name of `s`? -/
def abbreviates (name : Str) (s : OptionSpec) : Bool :=
  match s.long with
  | some l => name.isPrefixOf l
  | none => false

/-- the options a long name can denote -/
def candidates (specs : List OptionSpec) (name : Str) : List OptionSpec :=
  match specs.find? (fun s => s.long == some name) with
  | some s => [s]
  | none => specs.filter (abbreviates name)

abbrev Opt := OptionSpec × Option Str

/-- options of one `-xyz` cluster; `some s` = the cluster ended with `s`, whose argument is the next
    command-line argument -/
def cluster (specs : List OptionSpec) (mode : Mode) : Str → Except ParseError (List Opt × Option OptionSpec)
  | [] => .ok ([], none)
  | c :: cs =>
    match specs.find? (fun s => s.short == some c) with
    | none => .error (.unknownShort c)
    | some s =>
      if s.extension ∧ ¬ mode.extensionOptions then .error (.nonPortableShort c s)
      else if s.takesArg then
        (if cs = [] then .ok ([], some s)
         else if mode.optionArgumentsInSameField then .ok ([(s, some cs)], none)
         else .error (.unseparatedArgument s))
      else match cluster specs mode cs with
        | .ok (os, p) => .ok ((s, none) :: os, p)
        | .error e => .error e

/-- what a resolved long option `s` yields (`hasEq`: an `=arg` was attached) -/
def longOne (mode : Mode) (s : OptionSpec) (hasEq : Bool) (arg : Str) : Except ParseError (List Opt × Option OptionSpec) :=
  if ¬ mode.longOptionNames ∨ (s.extension ∧ ¬ mode.extensionOptions) then .error (.nonPortableLong s)
  else match s.takesArg, hasEq with
    | false, false => .ok ([(s, none)], none)
    | false, true => .error (.unexpectedArgument s)
    | true, false => .ok ([], some s)
    | true, true => .ok ([(s, some arg)], none)

/-- one `--name` / `--name=arg` argument (`body` = text after `--`) -/
def longOpt (specs : List OptionSpec) (mode : Mode) (body : Str) : Except ParseError (List Opt × Option OptionSpec) :=
  let name := body.takeWhile (· ≠ '=')
  let hasEq := body.contains '='
  let arg := (body.dropWhile (· ≠ '=')).drop 1
  match candidates specs name with
  | [] => .error .unknownLong
  | [s] => longOne mode s hasEq arg
  | ss => .error (.ambiguousLong ss)

def cons (os : List Opt) : View → View
  | .ok (os', ops) => .ok (os ++ os', ops)
  | .error e => .error e

/-- the reference parser: `pending` = an option waiting for its argument -/
def run (specs : List OptionSpec) (mode : Mode) : Option OptionSpec → List Str → View
  | some s, [] => .error (.missingArgument s)
  | some s, a :: rest => cons [(s, some a)] (run specs mode none rest)
  | none, [] => .ok ([], [])
  | none, a :: rest =>
    match a with
    | ['-', '-'] => .ok ([], rest)                       -- guideline 10
    | '-' :: '-' :: body =>
      (match longOpt specs mode body with
       | .ok (os, p) => cons os (run specs mode p rest)
       | .error e => .error e)
    | ['-'] => .ok ([], a :: rest)                       -- a lone `-` is an operand
    | '-' :: cs =>
      (match cluster specs mode cs with
       | .ok (os, p) => cons os (run specs mode p rest)
       | .error e => .error e)
    | _ => .ok ([], a :: rest)                           -- guideline 9: first operand ends the options

def parse (specs : List OptionSpec) (mode : Mode) (args : List Str) : View :=
  run specs mode none args

end YashModel.Args.Spec
