/-
  C20 — the separated spelling of a `set` vector WITHOUT the side condition "`portable` is never named": the Spec
  function `separateM` follows the `portable` state the way set/syntax.rs does (an argument `-o portable` /
  `--portable` turns it on for the arguments behind it) and rewrites each argument as far as the state it is read in
  allows.  Lemmas; the theorems are in SeparateModeTheorems.lean.
-/
import YashModel.Args.BespokeLemmas
namespace YashModel.Args.Bespoke


/-- `splitCluster` in a given `portable` state: while it is on (`full = false`) an attached name stays attached
    (`-eoNAME` → `-e -oNAME`: writing it `-o NAME` would turn a rejected argument into an accepted one) -/
def splitClusterM (full : Bool) (sign : Char) : Str → List Str × Bool
  | [] => ([], false)
  | c :: rest =>
    if c = 'o' then
      (if rest.isEmpty then ([[sign, 'o']], true)
       else if full then ([[sign, 'o'], rest], false) else ([sign :: 'o' :: rest], false))
    else
      let (l, p) := splitClusterM full sign rest
      ([sign, c] :: l, p)

/-- the `portable` state after an argument, as the code computes it -/
def stateAfterShort (nm : Names) (negate : Bool) (next : Option Str) (p : Bool) (cs : Str) : Bool :=
  match setShortLoop nm negate next p cs with
  | .ok (_, _, p') => p'
  | .error _ => p

def stateAfterName (nm : Names) (negate : Bool) (name : Str) : Bool :=
  match nm.parseLong name with
  | .ok opt st => if opt = portableOpt then (if negate then !st else st) else false
  | _ => false

/-- The separated spelling of a `set` vector, following the `portable` state the way the code does: while it is
    off, everything is rewritten (`separateSO true`); from the argument that turns it on, only groups are split
    into letters — attached names and long options stay as they are (they are rejected there by design). -/
def separateM (nm : Names) : Bool → List Str → List Str
  | _, [] => []
  | p, a :: rest =>
    match shortSign a with
    | some negate =>
      let cs := a.drop 1
      let (parts, pending) :=
        if cs.contains (signChar negate) then ([a], (splitClusterM (!p) (signChar negate) cs).2)
        else splitClusterM (!p) (signChar negate) cs
      let p' := stateAfterShort nm negate rest.head? p cs
      if pending then
        match rest with
        | [] => parts
        | x :: rest' => parts ++ x :: separateM nm p' rest'
      else parts ++ separateM nm p' rest
    | none =>
      if p then a :: rest
      else
        match longForm a with
        | some (negate, name) => [signChar negate, 'o'] :: name :: separateM nm (stateAfterName nm negate name) rest
        | none => a :: rest

theorem splitClusterM_cons (full : Bool) (sign c : Char) (rest : Str) :
    splitClusterM full sign (c :: rest) =
      if c = 'o' then
        (if rest.isEmpty then ([[sign, 'o']], true)
         else if full then ([[sign, 'o'], rest], false) else ([sign :: 'o' :: rest], false))
      else ([sign, c] :: (splitClusterM full sign rest).1, (splitClusterM full sign rest).2) := by
  rw [splitClusterM]

theorem splitClusterM_pending (full : Bool) (sign : Char) (cs : Str) :
    (splitClusterM full sign cs).2 = (splitCluster sign cs).2 := by
  induction cs with
  | nil => rfl
  | cons c rest ih =>
    rw [splitClusterM_cons, splitCluster_cons]
    by_cases ho : c = 'o'
    · simp only [ho, if_true]
      cases rest with
      | nil => rfl
      | cons r rs => cases full <;> rfl
    · simp only [ho, if_false, ih]

/-- the loop on the arguments written for one cluster, in any `portable` state -/
theorem setLoop_partsM (nm : Names) (neg : Bool) (p : Bool) : ∀ (cs : Str) (tail : List Str), signChar neg ∉ cs →
    setLoop nm p ((splitClusterM (!p) (signChar neg) cs).1 ++ tail) =
      contS nm (setShortLoop nm neg tail.head? p cs) tail := by
  intro cs
  induction cs with
  | nil => intro tail _; simp [splitClusterM, setShortLoop, contS]
  | cons c rest ih =>
    intro tail hd
    have hc : c ≠ signChar neg := fun h => hd (by simp [h])
    have hrest : signChar neg ∉ rest := fun h => hd (by simp [h])
    rw [splitClusterM_cons]
    by_cases ho : c = 'o'
    · subst ho
      simp only [if_true]
      cases rest with
      | nil =>
        simp only [List.isEmpty_nil, if_true, List.singleton_append]
        rw [setLoop_short nm p _ tail neg (shortSign_single neg 'o' [] hc)]
        rfl
      | cons r0 rest' =>
        cases p with
        | false =>
          simp only [List.isEmpty_cons, Bool.false_eq_true, if_false, Bool.not_false, if_true, List.cons_append, List.nil_append]
          rw [setLoop_short nm false _ _ neg (shortSign_single neg 'o' [] hc)]
          simp only [List.drop_succ_cons, List.drop_zero, List.head?_cons]
          rw [setShortLoop_cons, setShortLoop_cons]
          simp only [if_true]
          exact oArm_attached_eq_next nm neg (r0 :: rest') tail.head? (by simp) tail
        | true =>
          simp only [List.isEmpty_cons, Bool.false_eq_true, if_false, Bool.not_true, List.singleton_append]
          rw [setLoop_short nm true _ tail neg (shortSign_single neg 'o' (r0 :: rest') hc)]
          rfl
    · simp only [ho, if_false, List.cons_append]
      rw [setLoop_short nm p _ _ neg (shortSign_single neg c [] hc)]
      simp only [List.drop_succ_cons, List.drop_zero]
      rw [setShortLoop_cons, setShortLoop_cons]
      simp only [ho, if_false]
      rw [contS_thenCons, contS_thenCons]
      cases setLetter nm neg p c with
      | error e => rfl
      | ok o =>
        simp only [setShortLoop, contS, Bool.false_eq_true, if_false, prependO_nil]
        rw [ih tail hrest]
        rfl

/-- `-o NAME` / `--NAME` while `portable` is off: the option, then the loop in the state the name leaves -/
def longContM (nm : Names) (neg : Bool) (name : Str) (k : Bool → Looped SetErr) : Looped SetErr :=
  match nm.parseLong name with
  | .ok opt st => if !(nm.infoOf opt).modifiable then .error .unmodifiableLong
                  else prependO [(opt, if neg then !st else st)] (k (stateAfterName nm neg name))
  | .noSuch => .error .unknownLong
  | .ambiguous => .error .ambiguousLong

theorem setLoop_o_nextM (nm : Names) (neg : Bool) (name : Str) (tl : List Str) :
    setLoop nm false ([signChar neg, 'o'] :: name :: tl) = longContM nm neg name (fun p' => setLoop nm p' tl) := by
  rw [setLoop_short nm false _ _ neg (shortSign_single neg 'o' [] (signChar_ne_o neg))]
  simp only [List.drop_succ_cons, List.drop_zero, List.head?_cons]
  rw [setShortLoop_cons]
  simp only [if_true, oArm, longContM, stateAfterName, List.isEmpty_nil, Bool.not_true, Bool.false_eq_true, if_false, Bool.false_and]
  cases hl : nm.parseLong name with
  | noSuch => rfl
  | ambiguous => rfl
  | ok opt st =>
    simp only [Bool.true_and]
    split
    · rfl
    · simp [contS]

theorem setLoop_longM (nm : Names) (neg : Bool) (name : Str) (tl : List Str)
    (hn : neg = false → name ≠ []) :
    setLoop nm false ((signChar neg :: signChar neg :: name) :: tl) = longContM nm neg name (fun p' => setLoop nm p' tl) := by
  rw [setLoop_cons]
  have hs : shortSign (signChar neg :: signChar neg :: name) = none := by cases neg <;> simp [signChar, shortSign]
  have hl : setLong nm false (signChar neg :: signChar neg :: name) =
      some (match nm.parseLong name with
        | .ok opt st =>
          if !(nm.infoOf opt).modifiable then .error .unmodifiableLong
          else .ok ((opt, if neg then !st else st), if opt = portableOpt then (if neg then !st else st) else false)
        | .noSuch => .error .unknownLong
        | .ambiguous => .error .ambiguousLong) := by
    cases neg with
    | false =>
      have := hn rfl
      cases name with
      | nil => exact absurd rfl this
      | cons n0 name' =>
        simp only [signChar, setLong, Bool.false_eq_true, if_false, List.isEmpty_cons]
        cases nm.parseLong (n0 :: name') <;> rfl
    | true =>
      simp only [signChar, setLong, if_true]
      cases nm.parseLong name <;> rfl
  simp only [setStep, hs, hl, longContM, stateAfterName]
  cases hp : nm.parseLong name with
  | noSuch => rfl
  | ambiguous => rfl
  | ok opt st =>
    simp only []
    by_cases hmod : (!(nm.infoOf opt).modifiable) = true
    · simp [hmod, Step.ofLong]
    · simp [hmod, Step.ofLong]

theorem setLoop_separateM (nm : Names) : ∀ (n : Nat) (args : List Str) (p : Bool), args.length ≤ n →
    setLoop nm p (separateM nm p args) = setLoop nm p args := by
  intro n
  induction n with
  | zero =>
    intro args p hl
    have : args = [] := List.eq_nil_of_length_eq_zero (Nat.le_zero.mp hl)
    subst this; rfl
  | succ n ih =>
    intro args p hl
    cases args with
    | nil => rfl
    | cons a rest =>
      have ihr : ∀ (l : List Str) (q : Bool), l.length ≤ rest.length → setLoop nm q (separateM nm q l) = setLoop nm q l :=
        fun l q hl' => ih l q (by simp at hl; omega)
      unfold separateM
      cases hs : shortSign a with
      | some neg =>
        simp only []
        obtain ⟨c, cs, rfl, hc⟩ := shortSign_cases a neg hs
        simp only [List.drop_succ_cons, List.drop_zero]
        have key : ∀ tail : List Str,
            setLoop nm p ((if (c :: cs).contains (signChar neg) then
                ([signChar neg :: c :: cs], (splitClusterM (!p) (signChar neg) (c :: cs)).2)
              else splitClusterM (!p) (signChar neg) (c :: cs)).1 ++ tail) =
              contS nm (setShortLoop nm neg tail.head? p (c :: cs)) tail := by
          intro tail
          by_cases hk : (c :: cs).contains (signChar neg) = true
          · simp only [hk, if_true, List.singleton_append]
            rw [setLoop_short nm p _ tail neg hs]; rfl
          · simp only [hk]
            exact setLoop_partsM nm neg p (c :: cs) tail (by simpa using hk)
        have hpend : (if (c :: cs).contains (signChar neg) then
                ([signChar neg :: c :: cs], (splitClusterM (!p) (signChar neg) (c :: cs)).2)
              else splitClusterM (!p) (signChar neg) (c :: cs)).2 = (splitCluster (signChar neg) (c :: cs)).2 := by
          split <;> simp [splitClusterM_pending]
        rw [setLoop_short nm p _ rest neg hs]
        simp only [List.drop_succ_cons, List.drop_zero]
        generalize hX : (if (c :: cs).contains (signChar neg) then
                ([signChar neg :: c :: cs], (splitClusterM (!p) (signChar neg) (c :: cs)).2)
              else splitClusterM (!p) (signChar neg) (c :: cs)) = X at key hpend
        obtain ⟨parts, pending⟩ := X
        simp only at key hpend
        subst hpend
        cases hp : (splitCluster (signChar neg) (c :: cs)).2 with
        | true =>
          simp only [if_true]
          cases rest with
          | nil =>
            have := key []
            simp only [List.append_nil] at this
            rw [this]
          | cons x rest' =>
            simp only []
            rw [key (x :: separateM nm _ rest')]
            simp only [List.head?_cons, stateAfterShort]
            cases hx : setShortLoop nm neg (some x) p (c :: cs) with
            | error e => rfl
            | ok q =>
              obtain ⟨os, took, p'⟩ := q
              have ht := setShort_pending nm neg (signChar neg) x p (c :: cs) hp os took p' hx
              subst ht
              simp only [contS, if_true, List.tail_cons]
              rw [ihr rest' p' (by simp)]
        | false =>
          simp only [Bool.false_eq_true, if_false]
          rw [key (separateM nm _ rest)]
          obtain ⟨he, ht⟩ := setShort_not_pending nm neg (signChar neg) (separateM nm (stateAfterShort nm neg rest.head? p (c :: cs)) rest).head? rest.head? p (c :: cs) hp
          rw [he]
          simp only [stateAfterShort]
          cases hx : setShortLoop nm neg rest.head? p (c :: cs) with
          | error e => rfl
          | ok q =>
            obtain ⟨os, took, p'⟩ := q
            have ht' := (setShort_not_pending nm neg (signChar neg) rest.head? rest.head? p (c :: cs) hp).2 os took p' hx
            subst ht'
            simp only [contS, Bool.false_eq_true, if_false]
            rw [ihr rest p' (Nat.le_refl _)]
      | none =>
        simp only []
        cases p with
        | true => rfl
        | false =>
          simp only [Bool.false_eq_true, if_false]
          cases hlf : longForm a with
          | none => rfl
          | some q =>
            obtain ⟨neg, name⟩ := q
            obtain ⟨rfl, hne⟩ := longForm_some a neg name hlf
            simp only []
            rw [setLoop_o_nextM nm neg name, setLoop_longM nm neg name rest hne]
            simp only [longContM]
            rw [ihr rest _ (Nat.le_refl _)]

/-! ## the shell's command line -/
def stateAfterShortSh (nm : Names) (negate : Bool) (next : Option Str) (p : Bool) (cs : Str) : Bool :=
  match shShortLoop nm negate next p cs with
  | .ok ((_, _, p'), _) => p'
  | .error _ => p

/-- the separated spelling of the shell's command line, following the `portable` state as the code does (long options
    are never rewritten there: `separateSO false`) -/
def separateMsh (nm : Names) : Bool → List Str → List Str
  | _, [] => []
  | p, a :: rest =>
    match shortSign a with
    | some negate =>
      let cs := a.drop 1
      let (parts, pending) :=
        if cs.contains (signChar negate) then ([a], (splitClusterM (!p) (signChar negate) cs).2)
        else splitClusterM (!p) (signChar negate) cs
      let p' := stateAfterShortSh nm negate rest.head? p cs
      if pending then
        match rest with
        | [] => parts
        | x :: rest' => parts ++ x :: separateMsh nm p' rest'
      else parts ++ separateMsh nm p' rest
    | none => a :: rest

theorem shLoop_partsM (nm : Names) (neg : Bool) (p : Bool) : ∀ (cs : Str) (r : Run) (tail : List Str), signChar neg ∉ cs →
    shLoop nm p r ((splitClusterM (!p) (signChar neg) cs).1 ++ tail) =
      contH nm (shShortLoop nm neg tail.head? p cs) r tail := by
  intro cs
  induction cs with
  | nil => intro r tail _; simp [splitClusterM, shShortLoop, contH, pushOptions_nil]
  | cons c rest ih =>
    intro r tail hd
    have hc : c ≠ signChar neg := fun h => hd (by simp [h])
    have hrest : signChar neg ∉ rest := fun h => hd (by simp [h])
    rw [splitClusterM_cons]
    by_cases ho : c = 'o'
    · subst ho
      simp only [if_true]
      cases rest with
      | nil =>
        simp only [List.isEmpty_nil, if_true, List.singleton_append]
        rw [shLoop_short nm p r _ tail neg (shortSign_single neg 'o' [] hc)]
        rfl
      | cons r0 rest' =>
        cases p with
        | false =>
          simp only [List.isEmpty_cons, Bool.false_eq_true, if_false, Bool.not_false, if_true, List.cons_append, List.nil_append]
          rw [shLoop_short nm false r _ _ neg (shortSign_single neg 'o' [] hc)]
          simp only [List.drop_succ_cons, List.drop_zero, List.head?_cons]
          rw [shShortLoop_cons, shShortLoop_cons]
          have hv : ('o' : Char) ≠ 'V' := by decide
          simp only [hv, if_false, if_true]
          exact shOArm_attached_eq_next nm neg (r0 :: rest') tail.head? (by simp) r tail
        | true =>
          simp only [List.isEmpty_cons, Bool.false_eq_true, if_false, Bool.not_true, List.singleton_append]
          rw [shLoop_short nm true r _ tail neg (shortSign_single neg 'o' (r0 :: rest') hc)]
          rfl
    · simp only [ho, if_false, List.cons_append]
      rw [shLoop_short nm p r _ _ neg (shortSign_single neg c [] hc)]
      simp only [List.drop_succ_cons, List.drop_zero]
      rw [shShortLoop_cons, shShortLoop_cons]
      by_cases hv : c = 'V'
      · subst hv
        simp only [if_true]
        cases neg <;> cases p <;> simp [contH]
      · simp only [hv, ho, if_false]
        rw [contH_thenConsV, contH_thenConsV]
        cases shLetter nm neg p c with
        | error e => rfl
        | ok o =>
          simp only [shShortLoop, contH, Bool.false_eq_true, if_false, pushOptions_nil]
          rw [ih (pushOptions [o] r) tail hrest]
          rfl

theorem shLoop_separateM (nm : Names) : ∀ (n : Nat) (args : List Str) (p : Bool) (r : Run), args.length ≤ n →
    shLoop nm p r (separateMsh nm p args) = shLoop nm p r args := by
  intro n
  induction n with
  | zero =>
    intro args p r hl
    have : args = [] := List.eq_nil_of_length_eq_zero (Nat.le_zero.mp hl)
    subst this; rfl
  | succ n ih =>
    intro args p r hl
    cases args with
    | nil => rfl
    | cons a rest =>
      have ihr : ∀ (l : List Str) (q : Bool) (r : Run), l.length ≤ rest.length →
          shLoop nm q r (separateMsh nm q l) = shLoop nm q r l :=
        fun l q r hl' => ih l q r (by simp at hl; omega)
      unfold separateMsh
      cases hs : shortSign a with
      | none => simp
      | some neg =>
        simp only []
        obtain ⟨c, cs, rfl, hc⟩ := shortSign_cases a neg hs
        simp only [List.drop_succ_cons, List.drop_zero]
        have key : ∀ (r : Run) (tail : List Str),
            shLoop nm p r ((if (c :: cs).contains (signChar neg) then
                ([signChar neg :: c :: cs], (splitClusterM (!p) (signChar neg) (c :: cs)).2)
              else splitClusterM (!p) (signChar neg) (c :: cs)).1 ++ tail) =
              contH nm (shShortLoop nm neg tail.head? p (c :: cs)) r tail := by
          intro r tail
          by_cases hk : (c :: cs).contains (signChar neg) = true
          · simp only [hk, if_true, List.singleton_append]
            rw [shLoop_short nm p r _ tail neg hs]; rfl
          · simp only [hk]
            exact shLoop_partsM nm neg p (c :: cs) r tail (by simpa using hk)
        have hpend : (if (c :: cs).contains (signChar neg) then
                ([signChar neg :: c :: cs], (splitClusterM (!p) (signChar neg) (c :: cs)).2)
              else splitClusterM (!p) (signChar neg) (c :: cs)).2 = (splitCluster (signChar neg) (c :: cs)).2 := by
          split <;> simp [splitClusterM_pending]
        rw [shLoop_short nm p r _ rest neg hs]
        simp only [List.drop_succ_cons, List.drop_zero]
        generalize hX : (if (c :: cs).contains (signChar neg) then
                ([signChar neg :: c :: cs], (splitClusterM (!p) (signChar neg) (c :: cs)).2)
              else splitClusterM (!p) (signChar neg) (c :: cs)) = X at key hpend
        obtain ⟨parts, pending⟩ := X
        simp only at key hpend
        subst hpend
        cases hp : (splitCluster (signChar neg) (c :: cs)).2 with
        | true =>
          simp only [if_true]
          cases rest with
          | nil =>
            have := key r []
            simp only [List.append_nil] at this
            rw [this]
          | cons x rest' =>
            simp only []
            rw [key r (x :: separateMsh nm _ rest')]
            simp only [List.head?_cons, stateAfterShortSh]
            cases hx : shShortLoop nm neg (some x) p (c :: cs) with
            | error e => rfl
            | ok q =>
              obtain ⟨⟨os, took, p'⟩, v⟩ := q
              rcases shShort_pending nm neg (signChar neg) x p (c :: cs) hp os took p' v hx with hv | ht
              · subst hv; simp [contH]
              · subst ht
                cases v with
                | true => simp [contH]
                | false =>
                  simp only [contH, Bool.false_eq_true, if_false, if_true, List.tail_cons]
                  rw [ihr rest' _ _ (by simp)]
        | false =>
          simp only [Bool.false_eq_true, if_false]
          rw [key r (separateMsh nm _ rest)]
          obtain ⟨he, ht⟩ := shShort_not_pending nm neg (signChar neg) (separateMsh nm (stateAfterShortSh nm neg rest.head? p (c :: cs)) rest).head? rest.head? p (c :: cs) hp
          rw [he]
          simp only [stateAfterShortSh]
          cases hx : shShortLoop nm neg rest.head? p (c :: cs) with
          | error e => rfl
          | ok q =>
            obtain ⟨⟨os, took, p'⟩, v⟩ := q
            have ht' := (shShort_not_pending nm neg (signChar neg) rest.head? rest.head? p (c :: cs) hp).2 os took p' v hx
            subst ht'
            cases v with
            | true => simp [contH]
            | false =>
              simp only [contH, Bool.false_eq_true, if_false]
              rw [ihr rest _ _ (Nat.le_refl _)]

end YashModel.Args.Bespoke
